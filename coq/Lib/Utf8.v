(* Lib/Utf8.v -- UTF-8 validity (RFC 3629, what core::str::from_utf8 accepts) and Rust's str::trim
   (Unicode White_Space) at byte level.  Definitions only; used by the decoder models. *)
From Coq Require Import List NArith Bool.
From Coq.Strings Require Import Byte.
From EZK Require Import Lib.Bytes.
Import ListNotations.
Open Scope N_scope.

Definition in_range (lo hi : N) (b : byte) : bool := (lo <=? b2n b) && (b2n b <=? hi).
Definition is_cont (b : byte) : bool := in_range 128 191 b.

(* one well-formed sequence at the head of [s]: Some rest, or None *)
Definition utf8_step (s : bytes) : option bytes :=
  match s with
  | [] => None
  | a :: r =>
    let n := b2n a in
    if n <=? 127 then Some r
    else if in_range 194 223 a then
      match r with b :: r' => if is_cont b then Some r' else None | _ => None end
    else if n =? 224 then
      match r with b :: c :: r' => if in_range 160 191 b && is_cont c then Some r' else None | _ => None end
    else if in_range 225 236 a || in_range 238 239 a then
      match r with b :: c :: r' => if is_cont b && is_cont c then Some r' else None | _ => None end
    else if n =? 237 then
      match r with b :: c :: r' => if in_range 128 159 b && is_cont c then Some r' else None | _ => None end
    else if n =? 240 then
      match r with b :: c :: d :: r' => if in_range 144 191 b && is_cont c && is_cont d then Some r' else None | _ => None end
    else if in_range 241 243 a then
      match r with b :: c :: d :: r' => if is_cont b && is_cont c && is_cont d then Some r' else None | _ => None end
    else if n =? 244 then
      match r with b :: c :: d :: r' => if in_range 128 143 b && is_cont c && is_cont d then Some r' else None | _ => None end
    else None
  end.

Fixpoint utf8_valid_fuel (fuel : nat) (s : bytes) : bool :=
  match s with
  | [] => true
  | _ =>
    match fuel with
    | O => false
    | S f => match utf8_step s with Some r => utf8_valid_fuel f r | None => false end
    end
  end.

Definition utf8_valid (s : bytes) : bool := utf8_valid_fuel (length s) s.

(* ---------- str::trim ---------- *)
(* the UTF-8 encodings of the White_Space code points *)
Definition ws_seqs : list bytes :=
  Eval vm_compute in
  map (map n2b)
    [[9]; [10]; [11]; [12]; [13]; [32]; [194; 133]; [194; 160]; [225; 154; 128];
     [226; 128; 128]; [226; 128; 129]; [226; 128; 130]; [226; 128; 131]; [226; 128; 132]; [226; 128; 133];
     [226; 128; 134]; [226; 128; 135]; [226; 128; 136]; [226; 128; 137]; [226; 128; 138];
     [226; 128; 168]; [226; 128; 169]; [226; 128; 175]; [226; 129; 159]; [227; 128; 128]].

Fixpoint strip_any (seqs : list bytes) (s : bytes) : option bytes :=
  match seqs with
  | [] => None
  | q :: r => match strip_prefix q s with Some rest => Some rest | None => strip_any r s end
  end.

Fixpoint trim_start_fuel (fuel : nat) (s : bytes) : bytes :=
  match fuel with
  | O => s
  | S f => match strip_any ws_seqs s with Some rest => trim_start_fuel f rest | None => s end
  end.

Definition trim_start (s : bytes) : bytes := trim_start_fuel (length s) s.

(* trimming the end = trimming the start of the reversed string with reversed sequences *)
Definition ws_seqs_rev : list bytes := Eval vm_compute in map (@rev byte) ws_seqs.

Fixpoint trim_start_rev_fuel (fuel : nat) (s : bytes) : bytes :=
  match fuel with
  | O => s
  | S f => match strip_any ws_seqs_rev s with Some rest => trim_start_rev_fuel f rest | None => s end
  end.

Definition trim_end (s : bytes) : bytes := rev (trim_start_rev_fuel (length s) (rev s)).

Definition trim (s : bytes) : bytes := trim_end (trim_start s).
