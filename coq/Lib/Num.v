(* Lib/Num.v -- decimal printing / parsing of N with Rust `from_str` semantics, and their round trip. *)
From Coq Require Import List Arith NArith Lia Bool.
From Coq.Strings Require Import Byte.
From EZK Require Import Lib.Bytes.
Import ListNotations.
Open Scope N_scope.
Arguments N.add : simpl never.
Arguments N.mul : simpl never.
Arguments N.div : simpl never.
Arguments N.modulo : simpl never.
Arguments N.ltb : simpl never.
Arguments N.leb : simpl never.

Definition digit_byte (d : N) : byte := n2b (48 + d).
Definition digit_val (b : byte) : option N :=
  let n := b2n b in if (48 <=? n) && (n <=? 57) then Some (n - 48) else None.

Lemma digit_val_byte d : d < 10 -> digit_val (digit_byte d) = Some d.
Proof.
  intros H. unfold digit_val, digit_byte. rewrite b2n_n2b by lia.
  destruct (N.leb_spec 48 (48 + d)); [|lia]. destruct (N.leb_spec (48 + d) 57); [|lia].
  simpl. f_equal. lia.
Qed.

(* ---------- printing: most significant digit first, no leading zeros, "0" for zero ---------- *)
Fixpoint print_dec_fuel (fuel : nat) (n : N) (acc : bytes) : bytes :=
  match fuel with
  | O => acc
  | S f => if n <? 10 then digit_byte n :: acc
           else print_dec_fuel f (n / 10) (digit_byte (n mod 10) :: acc)
  end.

Definition print_dec (n : N) : bytes := print_dec_fuel (S (N.to_nat (N.log2 n))) n [].

(* ---------- parsing ---------- *)
(* value of a digit string read left to right on top of an accumulator; None on a non-digit *)
Fixpoint digits_value (acc : N) (s : bytes) : option N :=
  match s with
  | [] => Some acc
  | c :: r => match digit_val c with
              | Some d => digits_value (acc * 10 + d) r
              | None => None
              end
  end.

(* <uN as FromStr>::from_str: optional '+', at least one digit, only digits, value <= bound *)
Definition parse_uint (bound : N) (s : bytes) : option N :=
  let s' := match s with
            | c :: r => if Byte.eqb c "+"%byte then r else s
            | [] => s
            end in
  match s' with
  | [] => None
  | _ => match digits_value 0 s' with
         | Some v => if v <=? bound then Some v else None
         | None => None
         end
  end.

(* ---------- round trip ---------- *)
Lemma digits_value_app acc s t :
  digits_value acc (s ++ t) = match digits_value acc s with Some v => digits_value v t | None => None end.
Proof.
  revert acc; induction s as [|c r IH]; intros acc; simpl; [reflexivity|].
  destruct (digit_val c); [apply IH|reflexivity].
Qed.

Lemma print_dec_fuel_spec fuel : forall n acc,
  n < 2 ^ N.of_nat fuel -> (0 < fuel)%nat ->
  exists ds, print_dec_fuel fuel n acc = ds ++ acc /\ ds <> [] /\
             forall a0, digits_value a0 ds = Some (a0 * 10 ^ N.of_nat (length ds) + n).
Proof.
  induction fuel as [|fuel IH]; intros n acc Hn Hf; [lia|].
  cbn [print_dec_fuel]. destruct (N.ltb_spec n 10) as [Hlt|Hge].
  - exists [digit_byte n]. repeat split; [discriminate|].
    intros a0. cbn [digits_value]. rewrite digit_val_byte by assumption. cbn [length].
    change (N.of_nat 1) with 1. rewrite N.pow_1_r. reflexivity.
  - assert (Hq : n / 10 < 2 ^ N.of_nat fuel).
    { rewrite Nat2N.inj_succ, N.pow_succ_r' in Hn. apply N.div_lt_upper_bound; lia. }
    assert (Hfuel : (0 < fuel)%nat).
    { destruct fuel; [|lia]. simpl in Hn. lia. }
    destruct (IH (n / 10) (digit_byte (n mod 10) :: acc) Hq Hfuel) as (ds & Hp & Hne & Hv).
    exists (ds ++ [digit_byte (n mod 10)]). rewrite Hp, <- app_assoc. repeat split.
    + destruct ds; discriminate.
    + intros a0. rewrite digits_value_app, Hv. cbn [digits_value].
      rewrite digit_val_byte by (apply N.mod_lt; lia). f_equal.
      rewrite app_length. cbn [length]. rewrite Nat.add_1_r, Nat2N.inj_succ, N.pow_succ_r'.
      pose proof (N.div_mod n 10). lia.
Qed.

Lemma log2_bound n : n < 2 ^ N.of_nat (S (N.to_nat (N.log2 n))).
Proof.
  rewrite Nat2N.inj_succ, N2Nat.id. destruct n as [|p]; [simpl; lia|].
  apply N.log2_spec. lia.
Qed.

Lemma print_dec_value n : digits_value 0 (print_dec n) = Some n /\ print_dec n <> [].
Proof.
  unfold print_dec.
  destruct (print_dec_fuel_spec (S (N.to_nat (N.log2 n))) n [] (log2_bound n)) as (ds & Hp & Hne & Hv); [lia|].
  rewrite Hp, app_nil_r. split; [|exact Hne]. rewrite Hv. reflexivity.
Qed.

Lemma print_dec_digits n : forallb is_digit (print_dec n) = true.
Proof.
  unfold print_dec. generalize (S (N.to_nat (N.log2 n))) as fuel.
  assert (Hd : forall d, d < 10 -> is_digit (digit_byte d) = true).
  { intros d Hd. unfold is_digit, digit_byte. rewrite b2n_n2b by lia.
    destruct (N.leb_spec 48 (48 + d)); [|lia]. destruct (N.leb_spec (48 + d) 57); [reflexivity|lia]. }
  assert (G : forall fuel n acc, forallb is_digit acc = true -> forallb is_digit (print_dec_fuel fuel n acc) = true).
  { induction fuel as [|f IH]; intros m acc Ha; cbn [print_dec_fuel]; [exact Ha|].
    destruct (N.ltb_spec m 10).
    - cbn [forallb]. rewrite Hd by assumption. exact Ha.
    - apply IH. cbn [forallb]. rewrite Hd by (apply N.mod_lt; lia). exact Ha. }
  intros fuel. now apply G.
Qed.

Lemma print_dec_no_plus n : match print_dec n with c :: _ => Byte.eqb c "+"%byte = false | [] => True end.
Proof.
  pose proof (print_dec_digits n) as H. destruct (print_dec n) as [|c r]; [exact I|].
  cbn [forallb] in H. apply andb_prop in H as [H _].
  destruct (Byte.eqb c "+"%byte) eqn:E; [|reflexivity]. apply byte_eqb_eq in E. subst. discriminate.
Qed.

Theorem parse_print_dec bound n : n <= bound -> parse_uint bound (print_dec n) = Some n.
Proof.
  intros Hb. unfold parse_uint. pose proof (print_dec_no_plus n) as Hp.
  destruct (print_dec_value n) as [Hv Hne].
  destruct (print_dec n) as [|c r] eqn:E; [congruence|]. rewrite Hp, Hv.
  destruct (N.leb_spec n bound); [reflexivity|lia].
Qed.
