(* Lib/ListX.v -- list lemmas missing from the 8.16 standard library *)
From Coq Require Import List Lia Permutation.
Import ListNotations.

Lemma NoDup_app_remove_l {A} (l l' : list A) : NoDup (l ++ l') -> NoDup l'.
Proof. induction l as [|a l IH]; simpl; intros H; [exact H|]. inversion H; auto. Qed.

Lemma NoDup_app_remove_r {A} (l l' : list A) : NoDup (l ++ l') -> NoDup l.
Proof.
  induction l as [|a l IH]; simpl; intros H; [constructor|].
  inversion H; subst. constructor; [|auto]. intros Hin. apply H2. apply in_or_app. now left.
Qed.

Lemma NoDup_app_disjoint {A} (l l' : list A) x : NoDup (l ++ l') -> In x l -> ~ In x l'.
Proof.
  induction l as [|a l IH]; simpl; intros H Hin; [tauto|].
  inversion H; subst. destruct Hin as [->|Hin]; [|auto].
  intros Hx. apply H2. apply in_or_app. now right.
Qed.
