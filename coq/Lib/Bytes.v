(* Lib/Bytes.v -- bytes, finite-domain lifting over [byte], basic scanners.
   Stdlib only.  Definitions and their characterising lemmas (shared library). *)
From Coq Require Import List Arith NArith Lia Bool.
From Coq.Strings Require Import Byte.
Import ListNotations.
Open Scope N_scope.

Definition bytes := list byte.

(* ---------- finite-domain lifting ---------- *)
Definition all_bytes : list byte :=
  flat_map (fun n => match Byte.of_N (N.of_nat n) with Some b => [b] | None => [] end) (seq 0 256).

Definition all_bytes_c : list byte := Eval vm_compute in all_bytes.

Lemma all_bytes_nth b : nth (Byte.to_nat b) all_bytes_c x00 = b.
Proof. destruct b; reflexivity. Qed.

Lemma all_bytes_complete b : In b all_bytes.
Proof.
  change all_bytes with all_bytes_c. rewrite <- (all_bytes_nth b). apply nth_In.
  pose proof (Byte.to_nat_bounded b). change (length all_bytes_c) with 256%nat. lia.
Qed.

Lemma byte_forallb (P : byte -> bool) : forallb P all_bytes = true -> forall b, P b = true.
Proof. intros H b. rewrite forallb_forall in H. apply H, all_bytes_complete. Qed.

Lemma byte_eqb_eq a b : Byte.eqb a b = true <-> a = b.
Proof. split; [apply Byte.byte_dec_bl | apply Byte.byte_dec_lb]. Qed.

Lemma byte_eqb_refl a : Byte.eqb a a = true.
Proof. now apply byte_eqb_eq. Qed.

Lemma byte_eqb_neq a b : Byte.eqb a b = false <-> a <> b.
Proof.
  split.
  - intros H E. subst. rewrite byte_eqb_refl in H. discriminate.
  - intros H. destruct (Byte.eqb a b) eqn:E; [|reflexivity]. apply byte_eqb_eq in E. contradiction.
Qed.

Definition b2n (b : byte) : N := Byte.to_N b.
Definition n2b (n : N) : byte := match Byte.of_N n with Some b => b | None => x00 end.

Lemma n2b_b2n b : n2b (b2n b) = b.
Proof. unfold n2b, b2n. now rewrite Byte.of_to_N. Qed.

Lemma b2n_bound b : b2n b < 256.
Proof. pose proof (Byte.to_N_bounded b). unfold b2n. lia. Qed.

Lemma b2n_n2b n : n < 256 -> b2n (n2b n) = n.
Proof.
  intros H. unfold n2b, b2n.
  destruct (Byte.of_N n) eqn:E.
  - now apply Byte.to_of_N in E.
  - apply Byte.of_N_None_iff in E. lia.
Qed.

Fixpoint bytes_eqb (a b : bytes) : bool :=
  match a, b with
  | [], [] => true
  | x :: a', y :: b' => Byte.eqb x y && bytes_eqb a' b'
  | _, _ => false
  end.

Lemma bytes_eqb_eq a : forall b, bytes_eqb a b = true <-> a = b.
Proof.
  induction a as [|x a IH]; intros [|y b]; simpl; try (split; [discriminate|discriminate]); try tauto.
  rewrite andb_true_iff, byte_eqb_eq, IH. split; [intros [-> ->]; reflexivity | intros H; now inversion H].
Qed.

Lemma bytes_eqb_refl a : bytes_eqb a a = true.
Proof. now apply bytes_eqb_eq. Qed.

(* ---------- ASCII helpers ---------- *)
Definition is_upper (b : byte) : bool := let n := b2n b in (65 <=? n) && (n <=? 90).
Definition is_lower (b : byte) : bool := let n := b2n b in (97 <=? n) && (n <=? 122).
Definition is_digit (b : byte) : bool := let n := b2n b in (48 <=? n) && (n <=? 57).
Definition is_alpha (b : byte) : bool := is_upper b || is_lower b.
Definition is_alnum (b : byte) : bool := is_alpha b || is_digit b.
Definition to_lower (b : byte) : byte := if is_upper b then n2b (b2n b + 32) else b.
Definition to_upper (b : byte) : byte := if is_lower b then n2b (b2n b - 32) else b.
Definition eqb_nocase (a b : byte) : bool := Byte.eqb (to_lower a) (to_lower b).

Fixpoint bytes_eqb_nocase (a b : bytes) : bool :=
  match a, b with
  | [], [] => true
  | x :: a', y :: b' => eqb_nocase x y && bytes_eqb_nocase a' b'
  | _, _ => false
  end.

(* ---------- scanners ---------- *)
Fixpoint take_while (p : byte -> bool) (s : bytes) : bytes * bytes :=
  match s with
  | [] => ([], [])
  | c :: r => if p c then let '(a, b) := take_while p r in (c :: a, b) else ([], s)
  end.

Definition stops (p : byte -> bool) (r : bytes) : Prop :=
  match r with [] => True | c :: _ => p c = false end.

Lemma take_while_app p s r :
  forallb p s = true -> stops p r -> take_while p (s ++ r) = (s, r).
Proof.
  induction s as [|c s IH]; simpl; intros Hs Hr.
  - destruct r as [|d r]; simpl in *; [reflexivity| now rewrite Hr].
  - apply andb_prop in Hs as [Hc Hs]. rewrite Hc, IH; auto.
Qed.

Lemma take_while_spec p s a b :
  take_while p s = (a, b) -> s = a ++ b /\ forallb p a = true /\ stops p b.
Proof.
  revert a b; induction s as [|c s IH]; simpl; intros a b H.
  - inversion H; subst. simpl. auto.
  - destruct (p c) eqn:Hc.
    + destruct (take_while p s) as [a' b'] eqn:E. inversion H; subst.
      destruct (IH a' b eq_refl) as (-> & Ha & Hb). simpl. rewrite Hc, Ha. auto.
    + inversion H; subst. simpl. auto.
Qed.

(* strip a literal prefix *)
Fixpoint strip_prefix (pre s : bytes) : option bytes :=
  match pre, s with
  | [], _ => Some s
  | p :: pre', c :: s' => if Byte.eqb p c then strip_prefix pre' s' else None
  | _ :: _, [] => None
  end.

Lemma strip_prefix_app pre r : strip_prefix pre (pre ++ r) = Some r.
Proof. induction pre as [|p pre IH]; simpl; [reflexivity|]. now rewrite byte_eqb_refl. Qed.

Lemma strip_prefix_spec pre s r : strip_prefix pre s = Some r -> s = pre ++ r.
Proof.
  revert s; induction pre as [|p pre IH]; intros s H; simpl in *.
  - now inversion H.
  - destruct s as [|c s]; [discriminate|]. destruct (Byte.eqb p c) eqn:E; [|discriminate].
    apply byte_eqb_eq in E. subst. f_equal. now apply IH.
Qed.

Fixpoint strip_prefix_nocase (pre s : bytes) : option bytes :=
  match pre, s with
  | [], _ => Some s
  | p :: pre', c :: s' => if eqb_nocase p c then strip_prefix_nocase pre' s' else None
  | _ :: _, [] => None
  end.

(* first index of a byte satisfying p *)
Fixpoint find_idx (p : byte -> bool) (s : bytes) : option nat :=
  match s with
  | [] => None
  | c :: r => if p c then Some 0%nat else option_map S (find_idx p r)
  end.

Lemma find_idx_bound p s i : find_idx p s = Some i -> (i < length s)%nat.
Proof.
  revert i; induction s as [|c r IH]; simpl; intros i H; [discriminate|].
  destruct (p c); [injection H as <-; lia|].
  destruct (find_idx p r) eqn:E; simpl in H; [|discriminate]. injection H as <-.
  specialize (IH _ eq_refl). lia.
Qed.

(* ASCII text literal helper: bytes of a Coq string *)
From Coq Require Import Ascii.
From Coq Require String.
Export String.StringSyntax.
Import String.
Fixpoint bytes_of_string (s : string) : bytes :=
  match s with
  | EmptyString => []
  | String a r => byte_of_ascii a :: bytes_of_string r
  end.
Notation "'B' s" := (bytes_of_string s%string) (at level 0, s at level 0, only parsing).
Delimit Scope string_scope with string.
