From Coq Require Import ExtrOcamlBasic.
From Coq Require Import NArith List.
From EZK Require Import Lib.Bytes Model.C18.
Extraction "../ocaml/gen/c18.ml" n2b b2n N.of_nat N.to_nat respond handle_authenticate authorize add_for_realm set_default.
