From Coq Require Import ExtrOcamlBasic.
From Coq Require Import NArith List.
From Coq.Strings Require Import Byte.
From EZK Require Import Lib.Bytes Model.C10.
Extraction "../ocaml/gen/c10.ml" n2b b2n N.of_nat N.to_nat run entry_new layer_run mkreq dkey_eqb.
