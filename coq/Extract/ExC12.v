From Coq Require Import ExtrOcamlBasic.
From Coq Require Import NArith List.
From EZK Require Import Lib.Bytes Model.Tsx Model.C12.
Extraction "../ocaml/gen/c12.ml" n2b b2n N.of_nat N.to_nat urun retransmit_2xx retransmit_reliable_1xx prack_run.
