From Coq Require Import ExtrOcamlBasic.
From Coq Require Import NArith List.
From EZK Require Import Lib.Bytes Model.C17.
Extraction "../ocaml/gen/c17.ml" n2b b2n N.of_nat N.to_nat uas_timer uac_timer session_run we_refresh reg_interval create_registers reg_run reg_start.
