From Coq Require Import ExtrOcamlBasic.
From Coq Require Import NArith List.
From EZK Require Import Lib.Bytes Model.C20.
Extraction "../ocaml/gen/c20.ml" n2b b2n N.of_nat N.to_nat build rfc_encode parse find_attr verify_integrity verify_fingerprint
  enc_addr dec_addr is_stun client_run slice be of_be crc32.
