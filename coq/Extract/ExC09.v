From Coq Require Import ExtrOcamlBasic.
From Coq Require Import NArith List.
From EZK Require Import Lib.Bytes Lib.Num Model.C09.
Extraction "../ocaml/gen/c09.ml" n2b b2n N.of_nat N.to_nat create_response finalize_headers print_dec parse_ipv4.
