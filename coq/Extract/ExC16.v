From Coq Require Import ExtrOcamlBasic.
From Coq Require Import NArith List.
From EZK Require Import Lib.Bytes Model.C16.
Extraction "../ocaml/gen/c16.ml" n2b b2n N.of_nat N.to_nat step size run.
