From Coq Require Import ExtrOcamlBasic.
From Coq Require Import NArith List.
From EZK Require Import Lib.Bytes Lib.Num Model.C01 Model.C01m Model.C01n Model.C01h.
Extraction "../ocaml/gen/c01.ml" n2b b2n N.of_nat N.to_nat print_uri parse_uri method_of method_name method_parse project print_dec hname_of hname_print h_insert h_iter encode_message parse_message print_display parse_display parse_host4.
