From Coq Require Import ExtrOcamlBasic.
From Coq Require Import NArith List.
From EZK Require Import Lib.Bytes Model.Tsx.
Extraction "../ocaml/gen/tsx.ml" n2b b2n N.of_nat N.to_nat client_noninvite client_invite server_noninvite server_invite_failure.
