From Coq Require Import ExtrOcamlBasic.
From Coq Require Import NArith List.
From EZK Require Import Lib.Bytes Lib.Num Model.C19 Model.C19c.
Extraction "../ocaml/gen/c19.ml" n2b b2n N.of_nat N.to_nat parse_text print_text dir_name mtype_name proto_name print_dec parse_lifetime print_lifetime suite_of parse_cand print_cand.
