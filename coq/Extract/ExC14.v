From Coq Require Import ExtrOcamlBasic.
From Coq Require Import NArith List.
From EZK Require Import Lib.Bytes Model.C14.
Extraction "../ocaml/gen/c14.ml" n2b b2n N.of_nat N.to_nat select resolve_port asked.
