From Coq Require Import ExtrOcamlBasic.
From Coq Require Import NArith List.
From EZK Require Import Gen.Tables Lib.Bytes Model.C03 Model.C02.
Extraction "../ocaml/gen/c02.ml" n2b b2n N.of_nat N.to_nat run_framed datagram_parse datagram_code handle_packet
  udp_loop top_via dg_body_end_checked base_requires_via pull_next second_pass stream_body_len_saved.
