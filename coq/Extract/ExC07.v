From Coq Require Import ExtrOcamlBasic.
From Coq Require Import NArith List.
From EZK Require Import Lib.Bytes Model.Tsx Model.C07.
Extraction "../ocaml/gen/c07.ml" n2b b2n N.of_nat N.to_nat client_invite create_ack values.
