From Coq Require Import ExtrOcamlBasic.
From Coq Require Import NArith List.
From EZK Require Import Lib.Bytes Model.C04.
Extraction "../ocaml/gen/c04.ml" n2b b2n N.of_nat N.to_nat step key_of.
