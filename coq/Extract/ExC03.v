From Coq Require Import ExtrOcamlBasic.
From Coq Require Import NArith List.
From EZK Require Import Lib.Bytes Model.C03.
Extraction "../ocaml/gen/c03.ml" n2b b2n N.of_nat N.to_nat run_framed datagram_parse pull_next.
