From Coq Require Import ExtrOcamlBasic.
From Coq Require Import NArith List.
From EZK Require Import Lib.Bytes Model.C10 Model.C08.
Extraction "../ocaml/gen/c08.ml" n2b b2n N.of_nat N.to_nat run walk C10.entry_new.
