From Coq Require Import ExtrOcamlBasic.
From Coq Require Import NArith List.
From EZK Require Import Lib.Bytes Model.C13 Model.C13q.
Extraction "../ocaml/gen/c13.ml" n2b b2n N.of_nat N.to_nat run early_chan.
