From Coq Require Import ExtrOcamlBasic.
From Coq Require Import NArith List.
From EZK Require Import Lib.Bytes Model.C15.
Extraction "../ocaml/gen/c15.ml" n2b b2n N.of_nat N.to_nat run_group init_outgoing init_incoming present.
