From Coq Require Import ExtrOcamlBasic.
From Coq Require Import NArith List.
From EZK Require Import Lib.Bytes Model.C11.
Extraction "../ocaml/gen/c11.ml" n2b b2n N.of_nat N.to_nat new_server from_response create_request create_ack create_response.
