(* Props/C11.v -- property C11: requests built inside a dialog follow RFC 3261 sec. 12.2.1.1 *)
From Coq Require Import List NArith.
From EZK Require Import Model.Forms10 Proofs.Forms10 Model.Forms9 Proofs.Forms9 Gen.Tables Lib.Bytes Model.C11 Proofs.C11.
Import ListNotations.
Open Scope N_scope.

(* UAS: Call-ID; From = the INVITE's To + local tag; To = the INVITE's From (uri and tag);
   Request-URI = the peer's Contact; Route = Record-Route in received order; Max-Forwards *)
Theorem C11_uas_identifiers : forall rq tag c0 lc d m q d',
  new_server rq tag c0 lc = Some d -> create_request d m = (q, d') ->
  o_call_id q = q_call_id rq /\
  o_from_uri q = q_to_uri rq /\ o_from_tag q = tag /\
  o_to_uri q = q_from_uri rq /\ o_to_tag q = q_from_tag rq /\
  Some (o_uri q) = q_contact rq /\
  o_route q = q_record_route rq /\ o_max_forwards q = 70 /\ o_cseq q = c0.
Proof. exact uas_identifiers. Qed.

(* UAC: From = local URI + tag; To = the response's To; Request-URI = the response's Contact;
   Route = Record-Route reversed; the first CSeq is the INVITE's + 1 *)
Theorem C11_uac_identifiers : forall b rp d m q d',
  from_response b rp = Some d -> create_request d m = (q, d') ->
  o_call_id q = b_call_id b /\
  o_from_uri q = b_local_uri b /\ o_from_tag q = b_local_tag b /\
  o_to_uri q = p_to_uri rp /\ o_to_tag q = p_to_tag rp /\
  Some (o_uri q) = p_contact rp /\
  o_route q = rev (p_record_route rp) /\ o_max_forwards q = 70 /\
  o_cseq q = u32_wrap (b_cseq b + 1).
Proof. exact uac_identifiers. Qed.

Theorem C11_uac_first_cseq : forall b rp d m q d',
  b_cseq b < 4294967295 ->
  from_response b rp = Some d -> create_request d m = (q, d') -> b_cseq b < o_cseq q.
Proof. exact uac_first_cseq_greater. Qed.

(* strictly increasing CSeq over any sequence of creations (the only shared step is one atomic
   increment, so any interleaving of concurrent creators is such a sequence) *)
Theorem C11_cseq_monotone : forall ms d qs d',
  d_cseq d + N.of_nat (length ms) <= 4294967296 ->
  create_requests d ms = (qs, d') ->
  consecutive_from (d_cseq d) qs /\ length qs = length ms /\
  (d_cseq d + N.of_nat (length ms) < 4294967296 -> d_cseq d' = d_cseq d + N.of_nat (length ms)).
Proof. exact create_requests_consecutive. Qed.

Theorem C11_identifiers_stable : forall ms d qs d',
  create_requests d ms = (qs, d') ->
  Forall (fun q => o_call_id q = d_call_id d /\ o_from_uri q = d_local_uri d /\ o_from_tag q = d_local_tag d /\
                   o_to_uri q = d_peer_uri d /\ o_to_tag q = d_peer_tag d /\ o_uri q = d_target d /\
                   o_route q = d_route d /\ o_max_forwards q = 70) qs.
Proof. exact create_requests_identifiers. Qed.

Theorem C11_ack_reuses_invite_cseq : forall d n q d', create_ack d n = (q, d') ->
  o_cseq q = n /\ o_method q = ack_method /\ o_call_id q = d_call_id d /\ o_uri q = d_target d /\
  o_route q = d_route d /\ o_from_tag q = d_local_tag d /\ o_to_tag q = d_peer_tag d.
Proof. exact ack_reuses_cseq. Qed.

(* responses above 100 carry the local tag; 101-299 also Contact; Record-Route is copied *)
Theorem C11_response_tags : forall d rq code,
  creates_dialog (q_method rq) = true -> q_to_tag rq = None ->
  (100 < code -> r_to_tag (create_response d rq code) = Some (d_local_tag d)) /\
  (code <= 100 -> r_to_tag (create_response d rq code) = None) /\
  (101 <= code <= 299 -> r_contact (create_response d rq code) = Some (d_local_contact d)) /\
  r_record_route (create_response d rq code) = q_record_route rq.
Proof. exact response_tags. Qed.

(* forks: one builder answers every dialog-creating response of its INVITE; each dialog carries the To-tag of its own response,
   so two forks never share the (Call-ID, peer tag, local tag) identity the dialog layer keys on *)
Theorem C11_fork_own_peer_tag : forall b rp d, from_response b rp = Some d ->
  d_peer_tag d = p_to_tag rp /\ d_call_id d = b_call_id b /\ d_local_tag d = b_local_tag b.
Proof. exact fork_own_tag. Qed.

Theorem C11_forks_distinct : forall b rp1 rp2 d1 d2,
  from_response b rp1 = Some d1 -> from_response b rp2 = Some d2 -> p_to_tag rp1 <> p_to_tag rp2 ->
  (d_call_id d1, d_peer_tag d1, d_local_tag d1) <> (d_call_id d2, d_peer_tag d2, d_local_tag d2).
Proof. exact forks_distinct. Qed.

(* "the ACK for a 2xx reuses that INVITE's number" in every refresh round: the ACK kept for retransmitted 2xx belongs to one call of the
   refresh; kept in the session it would acknowledge the second round with the first round's number *)
Theorem C11_refresh_ack_guard : Tables.refresh_ack_per_round = true.
Proof. reflexivity. Qed.

Theorem C11_refresh_ack_numbers : Tables.refresh_ack_per_round = true -> forall rounds, refresh_acks rounds = rounds.
Proof. exact refresh_acks_here. Qed.

Theorem C11_refresh_ack_cached_refuted : forall a b r, a <> b -> nth 1 (refresh_acks_form false (a :: b :: r)) 0%N <> b.
Proof. exact refresh_ack_cached. Qed.

(* "the remote target (peer Contact) as Request-URI": on the callee side it is the Contact of the INVITE; a Contact in the ACK does not move it *)
Theorem C11_callee_target_guard : Tables.callee_target_from_invite = true.
Proof. reflexivity. Qed.

Theorem C11_callee_target_is_invites_contact : Tables.callee_target_from_invite = true ->
  forall (A : Type) (invite_contact : A) ack_contact, callee_target invite_contact ack_contact = invite_contact.
Proof. exact callee_target_here. Qed.

Theorem C11_ack_contact_refuted : forall (A : Type) (invite_contact c : A), invite_contact <> c -> callee_target_form false invite_contact (Some c) <> invite_contact.
Proof. exact callee_target_moved. Qed.
