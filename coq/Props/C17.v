(* Props/C17.v -- property C17: refresh happens before expiry: session timers and registrations *)
From Coq Require Import List NArith Bool.
From EZK Require Import Model.Forms10 Proofs.Forms10 Gen.Tables Model.C17 Proofs.C17.
Import ListNotations.
Open Scope N_scope.

(* regenerated constants: 10 s margin, default interval 1800 s, registration min 20 s / margin 10 s *)
Theorem C17_constants : se_margin_s = 10 /\ se_default_interval_s = 1800 /\ reg_min_s = 20 /\ reg_margin_s = 10.
Proof. repeat split; reflexivity. Qed.

(* callee side: the refresher is told strictly before the announced interval ends *)
Theorem C17_uas_refresher_before_expiry : forall interval min_se f delta real,
  uas_timer interval RUas min_se = (f, delta, real) -> 0 < delta -> f = RUas /\ real < delta.
Proof. exact uas_refresher_before. Qed.

(* callee side, peer refreshes: BYE only after the full interval; no u32 value overflows *)
Theorem C17_uas_nonrefresher_after_expiry : forall interval cfg min_se f delta real,
  cfg <> RUas -> uas_timer interval cfg min_se = (f, delta, real) -> delta <= u32max ->
  f = RUac /\ delta <= real /\ real <= u32max.
Proof. exact uas_nonrefresher_after. Qed.

Theorem C17_uas_interval : forall interval cfg min_se f delta real,
  uas_timer interval cfg min_se = (f, delta, real) ->
  delta = match min_se with Some m => N.max m interval | None => interval end.
Proof. exact uas_delta. Qed.

(* caller side *)
Theorem C17_uac_refresher_before_expiry : forall d f' f real,
  f' <> RUas -> uac_timer (Some (d, f')) = Some (f, real) -> 0 < d ->
  f = RUac /\ we_refresh Uac f = true /\ real < d.
Proof. exact uac_refresher_before. Qed.

Theorem C17_uac_nonrefresher_after_expiry : forall d f real,
  uac_timer (Some (d, RUas)) = Some (f, real) -> d <= u32max ->
  f = RUas /\ we_refresh Uac f = false /\ d <= real /\ real <= u32max.
Proof. exact uac_nonrefresher_after. Qed.

(* no Session-Expires value silently disables the timer *)
Theorem C17_never_disabled : forall d f, uac_timer (Some (d, f)) <> None.
Proof. exact uac_never_disabled. Qed.

(* the running timer: fires exactly at the deadline; a refresh received before it restarts the full interval *)
Theorem C17_timer_fires_at_deadline : forall fuel mine real deadline horizon,
  deadline <= horizon ->
  session_run (S fuel) mine real deadline [] horizon =
  if mine then RefreshNeeded deadline :: session_run fuel mine real (deadline + real) [] horizon
  else [ByeSent deadline].
Proof. exact session_first_fire. Qed.

Theorem C17_restart : forall fuel mine real deadline e rest horizon,
  e < deadline ->
  session_run (S fuel) mine real deadline (e :: rest) horizon = session_run fuel mine real (e + real) rest horizon.
Proof. exact session_restart. Qed.

(* registration: refreshed strictly before the granted lifetime whenever it exceeds the margin;
   the period is never zero; CSeq increases by one with the Call-ID unchanged *)
Theorem C17_register_before_expiry : forall lifetime,
  reg_margin_s < lifetime -> reg_interval lifetime < lifetime /\ 0 < reg_interval lifetime.
Proof. exact reg_before_expiry. Qed.

Theorem C17_register_period_positive : forall lifetime, 0 < reg_interval lifetime.
Proof. exact reg_interval_never_zero. Qed.

Theorem C17_register_cseq_callid : forall n r,
  create_registers n r = map (fun i => (r_cseq r + 1 + N.of_nat i, r_call_id r)) (seq 0 n).
Proof. exact registers_consecutive. Qed.

Example C17_example :
  session_run 10 true 50000 50000 [30000; 60000] 200000 =
  [RefreshNeeded 110000; RefreshNeeded 160000].
Proof. vm_compute. reflexivity. Qed.

(* "refreshed strictly before the binding lifetime granted by the registrar runs out": whatever the sequence of granted lifetimes, the
   refresh interval in force is the one built for the lifetime granted LAST; when the granted value is not stored, a raise followed by
   a grant of the requested value leaves the interval of the raise running *)
Theorem C17_granted_stored_guard : Tables.granted_lifetime_stored = true.
Proof. reflexivity. Qed.

Theorem C17_interval_follows_last_grant : Tables.granted_lifetime_stored = true ->
  forall requested grants, snd (Forms10.reg_run requested grants) = last grants requested.
Proof. exact reg_run_here. Qed.

Theorem C17_granted_not_stored_refuted : forall r g, r <> g -> snd (Forms10.reg_run_form false r [g; r]) = g.
Proof. exact reg_not_stored_refuted. Qed.
