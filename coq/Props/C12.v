(* Props/C12.v -- property C12: UAS INVITE: one final response under any CANCEL/BYE/accept race; 2xx until ACK *)
From Coq Require Import List NArith Bool.
From EZK Require Import Model.Forms9 Proofs.Forms9 Model.Forms8 Proofs.Forms8 Gen.Tables Model.C04 Proofs.C04 Model.C12o Proofs.C12o Model.Tsx Model.C12 Proofs.C12.
Import ListNotations.
Open Scope N_scope.

(* however CANCEL, BYE, accept, reject, provisional responses and drops interleave: at most one final
   response to the INVITE, and exactly one as soon as the pending transaction has been taken *)
Theorem C12_one_final : forall evs,
  finals (snd (urun evs)) = (match state (fst (urun evs)) with Prov => 0 | _ => 1 end)%nat.
Proof. exact one_final. Qed.

Theorem C12_at_most_one_final : forall evs, (finals (snd (urun evs)) <= 1)%nat.
Proof. exact at_most_one_final. Qed.

(* a matching CANCEL / a BYE on the pending INVITE: answered 200 on its own transaction, INVITE gets 487 *)
Theorem C12_cancel_answered : forall s, state s = Prov -> cancellable s = true ->
  snd (ustep s (EvCancel true)) = [InviteFinal 487; CancelAnswer 200] /\ state (fst (ustep s (EvCancel true))) = Cancelled.
Proof. exact cancel_pending. Qed.

Theorem C12_bye_answered : forall s, state s = Prov ->
  snd (ustep s EvBye) = [InviteFinal 487; ByeAnswer 200] /\ state (fst (ustep s EvBye)) = Terminated.
Proof. exact bye_pending. Qed.

(* after which accept and reject report termination and put nothing on the wire *)
Theorem C12_accept_reports_termination : forall s, state s <> Prov -> acceptor_alive s = true ->
  snd (ustep s EvAccept) = [AcceptResult false] /\ state (fst (ustep s EvAccept)) = state s.
Proof. exact accept_after_take. Qed.

Theorem C12_reject_reports_termination : forall s code, state s <> Prov -> acceptor_alive s = true ->
  snd (ustep s (EvReject code)) = [RejectResult false] /\ state (fst (ustep s (EvReject code))) = state s.
Proof. exact reject_after_take. Qed.

(* a CANCEL that no longer matches a pending INVITE gets 200 or 481 and changes nothing *)
Theorem C12_stale_cancel : forall s m, state s <> Prov \/ m = false \/ cancellable s = false ->
  state (fst (ustep s (EvCancel m))) = state s /\
  (snd (ustep s (EvCancel m)) = [CancelAnswer 200] \/ snd (ustep s (EvCancel m)) = [CancelAnswer 481]).
Proof. exact stale_cancel. Qed.

(* the 2xx: T1 doubling up to T2 until the ACK, abandoned after 64*T1 *)
Theorem C12_2xx_schedule : forall tie,
  retransmit_2xx tie 0 None =
  [Send 0; Send 500; Send 1500; Send 3500; Send 7500; Send 11500; Send 15500; Send 19500; Send 23500; Send 27500;
   Send 31500; TimedOut 32000].
Proof. exact schedule_2xx. Qed.

(* a reliable provisional response: doubling from T1 (RFC 3262), given up after 64*T1 *)
Theorem C12_reliable_1xx_schedule : forall tie,
  retransmit_reliable_1xx tie 0 None =
  [Send 0; Send 500; Send 1500; Send 3500; Send 7500; Send 15500; Send 31500; TimedOut 32000].
Proof. exact schedule_reliable_1xx. Qed.

(* nothing is re-sent after the ACK / PRACK *)
Theorem C12_retransmission_stops : forall fuel cap tie abandon next delta a,
  Forall (fun o => is_send o = true -> time_of o <= a) (retrans fuel cap tie abandon next delta (Some a)).
Proof. exact retrans_stops. Qed.

(* only the PRACK whose RAck matches completes the rendezvous; any other, incl. a malformed one, leaves it intact *)
Theorem C12_prack_others_leave_rendezvous : forall rs cs ps,
  Forall (fun p => prack_matches rs cs p = false) ps ->
  prack_run (Some (rs, cs)) ps = (Some (rs, cs), map (fun _ => false) ps).
Proof. exact prack_only_matching. Qed.

Theorem C12_prack_match : forall rs cs pre p post,
  Forall (fun p => prack_matches rs cs p = false) pre -> prack_matches rs cs p = true ->
  exists l, prack_run (Some (rs, cs)) (pre ++ p :: post) = (None, map (fun _ => false) pre ++ true :: l) /\
            Forall (fun b => b = false) l.
Proof. exact prack_first_matching. Qed.

(* "a CANCEL that matches the pending INVITE": the pending-cancel table is keyed by (CSeq number, TsxKey::branch()) on both sides,
   so the CANCEL of a caller finds its INVITE whether the Via branch carries the magic cookie, is an RFC 2543 style branch or is
   missing; keyed by the raw Via branch on the lookup side only, a legacy caller's CANCEL would miss *)
Theorem C12_cancel_lookup_guard : cancel_lookup_by_tsx_branch = true.
Proof. reflexivity. Qed.

Theorem C12_matching_cancel_finds_invite : forall inv c,
  cancel_lookup_by_tsx_branch = true -> m_is_request inv = true -> m_is_request c = true ->
  m_branch c = m_branch inv -> m_cseq c = m_cseq inv -> m_from_tag c = m_from_tag inv ->
  cancellable_reg inv <> None -> cancellable_lookup c = cancellable_reg inv.
Proof. exact cancel_finds_invite. Qed.

Theorem C12_raw_branch_lookup_refuted : forall inv,
  has_cookie (m_branch inv) = false -> m_branch inv <> [] -> m_from_tag inv <> None ->
  cancellable_reg inv <> Some (m_cseq inv, m_branch inv).
Proof. exact raw_branch_lookup_misses. Qed.

(* "retransmitted ... until an ACK with the INVITE's CSeq arrives": the rendezvous for that ACK is registered before the 2xx is handed
   to the transport, so an ACK that the endpoint processes while the send has not returned yet is the awaited one; registered
   afterwards, it would be dropped and the 2xx sent again *)
Theorem C12_ack_rendezvous_guard : ack_rendezvous_before_send = true.
Proof. reflexivity. Qed.

Theorem C12_ack_during_send_matched : ack_rendezvous_before_send = true -> ack_matched false accept_steps = true.
Proof. exact ack_during_send_matched. Qed.

Theorem C12_late_rendezvous_refuted : ack_matched false [AckArrives; SendReturns; RegisterRendezvous] = false.
Proof. exact ack_late_registration_dropped. Qed.

(* "until an ACK with the INVITE's CSeq arrives": an ACK with another number leaves the rendezvous in place, so after any number of
   stray ACKs the right one is still matched; an arm that takes the entry and does not put it back loses it at the first stray ACK *)
Theorem C12_ack_put_back_guard : ack_mismatch_puts_back = true.
Proof. reflexivity. Qed.

Theorem C12_stray_acks_keep_rendezvous : ack_mismatch_puts_back = true ->
  forall a strays, Forall (fun c => c <> a) strays ->
  acks (Some a) (strays ++ [a]) = (None, map (fun _ => false) strays ++ [true]).
Proof. exact acks_here. Qed.

Theorem C12_stray_ack_takes_refuted : forall a c, c <> a -> acks_form false (Some a) [c; a] = (None, [false; false]).
Proof. exact stray_ack_loses_slot. Qed.

(* the 2xx is the application's to retransmit on EVERY transport (RFC 3261 13.3.1.4): each firing of the retransmission timer puts a copy
   on the wire also over TCP / TLS; skipped there, a lost first copy (or a lost ACK) ends the call at 64*T1 *)
Theorem C12_retransmit_guard : accepted_retransmit_any_transport = true.
Proof. reflexivity. Qed.

Theorem C12_2xx_retransmitted_on_every_transport : accepted_retransmit_any_transport = true -> forall reliable, retransmit_sends reliable = true.
Proof. exact retransmit_here. Qed.

Theorem C12_2xx_copies : forall reliable fired, copies_2xx_form true reliable fired = (1 + fired)%nat.
Proof. exact copies_any_transport. Qed.

Theorem C12_retransmit_skipped_on_reliable_refuted : forall fired, copies_2xx_form false true fired = 1%nat.
Proof. exact copies_reliable_skipped. Qed.
