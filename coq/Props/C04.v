(* Props/C04.v -- property C04: messages reach exactly the transaction RFC 3261 sec. 17 matching prescribes *)
From Coq Require Import List NArith Bool.
From EZK Require Import Model.Forms8 Proofs.Forms8 Lib.Bytes Gen.Tables Model.C04 Proofs.C04.
Import ListNotations.
Open Scope N_scope.

(* complete routing rule: an entry with exactly the message's key decides; nothing else does *)
Theorem C04_routing : forall t fresh m k,
  key_of m = Some k ->
  match lookup k t with
  | Some e =>
    if e_ack_filter e && m_is_request m && meth_eqb (m_line_method m) ACK
    then receive t fresh m = (t, SurfacedNoReg)
    else exists v, receive t fresh m = (t, ToTsx (e_id e) v)
  | None =>
    if m_is_request m then receive t fresh m = (mke fresh k HeldRequest false :: t, NewRequest fresh)
    else receive t fresh m = (t, Orphan)
  end.
Proof. exact receive_spec. Qed.

Theorem C04_lookup_exact : forall k t e, lookup k t = Some e -> In e t /\ e_key e = k.
Proof. exact lookup_some. Qed.

Theorem C04_key_eq_decides : forall a b, key_eqb a b = true <-> a = b.
Proof. exact key_eqb_eq. Qed.

(* never a transaction of the opposite role *)
Theorem C04_role_disjoint : forall q r kq kr,
  m_is_request q = true -> m_is_request r = false -> key_of q = Some kq -> key_of r = Some kr -> kq <> kr.
Proof. exact role_disjoint. Qed.

(* RFC 3261 branch style: same role, same branch, same CSeq method up to INVITE/ACK folding *)
Theorem C04_rfc3261_key : forall a b,
  has_cookie (m_branch a) = true -> has_cookie (m_branch b) = true ->
  (key_of a = key_of b <->
   m_is_request a = m_is_request b /\ m_branch a = m_branch b /\
   fold_method (m_cseq_method a) = fold_method (m_cseq_method b)).
Proof. exact rfc3261_keys. Qed.

(* RFC 2543 fallback *)
Theorem C04_rfc2543_fallback : forall a b ta tb,
  has_cookie (m_branch a) = false -> has_cookie (m_branch b) = false ->
  m_from_tag a = Some ta -> m_from_tag b = Some tb ->
  (key_of a = key_of b <->
   m_is_request a = m_is_request b /\ fold_method (m_cseq_method a) = fold_method (m_cseq_method b) /\
   m_cseq a = m_cseq b /\ ta = tb /\ m_call_id a = m_call_id b /\ m_sent_by a = m_sent_by b).
Proof. exact rfc2543_keys. Qed.

Theorem C04_retransmission_absorbed : forall t fresh m k e,
  key_of m = Some k -> lookup k t = Some e -> e_ack_filter e = false ->
  exists v, receive t fresh m = (t, ToTsx (e_id e) v).
Proof. exact retransmission_absorbed. Qed.

Theorem C04_ack_non2xx_same_key : forall inv ack,
  has_cookie (m_branch inv) = true -> m_branch ack = m_branch inv ->
  m_is_request inv = true -> m_is_request ack = true ->
  m_cseq_method inv = INVITE -> m_cseq_method ack = ACK ->
  key_of ack = key_of inv.
Proof. exact ack_same_key. Qed.

Theorem C04_ack_2xx_surfaces : forall t fresh m k e,
  key_of m = Some k -> lookup k t = Some e -> e_ack_filter e = true ->
  m_is_request m = true -> m_line_method m = ACK ->
  receive t fresh m = (t, SurfacedNoReg).
Proof. exact ack_2xx_surfaces. Qed.

Theorem C04_cancel_surfaces : forall inv c ki kc,
  m_cseq_method inv = INVITE -> m_cseq_method c = CANCEL ->
  key_of inv = Some ki -> key_of c = Some kc -> ki <> kc.
Proof. exact cancel_other_key. Qed.

Theorem C04_reuse_after_end : forall t fresh m k id,
  key_of m = Some k -> m_is_request m = true ->
  (forall e, In e t -> e_key e = k -> e_id e = id) ->
  receive (remove_id id t) fresh m = (mke fresh k HeldRequest false :: remove_id id t, NewRequest fresh).
Proof. exact reuse_after_end. Qed.

(* the magic cookie is the RFC 3261 one *)
(* "at any time relative to the life of the transaction": the client transaction is in the table before its request is handed to the
   transport, so an answer that comes back while the caller is still inside send is handed to it; registered afterwards, the same
   answer would be dropped as an orphan *)
Theorem C04_registers_before_send_guard : tsx_client_registers_before_send = true.
Proof. reflexivity. Qed.

Theorem C04_response_during_send_delivered : forall k id r,
  tsx_client_registers_before_send = true -> key_of r = Some k -> m_is_request r = false ->
  snd (run (client_send_events k id [r] [])) = [(None, 1); (Some (ToTsx id true), 1)].
Proof. exact early_response_delivered. Qed.

Theorem C04_late_registration_refuted : forall (k : key) r,
  key_of r = Some k -> m_is_request r = false ->
  fst (step ([], 1000) (Recv r)) = ([], 1001) /\ snd (step ([], 1000) (Recv r)) = Some Orphan.
Proof. exact late_registration_drops. Qed.

Theorem C04_cookie : branch_cookie = B"z9hG4bK".
Proof. reflexivity. Qed.

(* "the same top-Via branch": the key is made from the first Via value whatever stands below it; made from the last one, two requests a
   proxy forked to us (different top branch, same bottom Via) would be one transaction *)
Theorem C04_key_top_via_guard : key_from_top_via = true.
Proof. reflexivity. Qed.

Theorem C04_lower_vias_play_no_part : key_from_top_via = true ->
  forall v rest rest', pick_via (v :: rest) = pick_via (v :: rest') /\ pick_via (v :: rest) = Some v.
Proof. exact pick_via_here. Qed.

Theorem C04_bottom_via_refuted : forall a b c : Forms8.via, pick_via_form false [a; c] = pick_via_form false [b; c].
Proof. exact pick_bottom_merges. Qed.
