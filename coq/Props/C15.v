(* Props/C15.v -- property C15: connections live while referenced, expire 32 s after last use, never reused dead *)
From Coq Require Import List Arith NArith Bool.
From EZK Require Import Model.Forms9 Proofs.Forms9 Gen.Tables Model.C15 Proofs.C15.
Import ListNotations.
Open Scope N_scope.

(* for every history of event groups (any interleaving of clone/drop/select/frame/close/garbage/time,
   with any events falling between two polls of the receive task), from an outgoing or an accepted
   connection: the set_used panic is never reached and the bookkeeping invariant holds *)
Theorem C15_no_panic : forall gs s, Inv s -> panicked (run_groups s gs) = false.
Proof. intros gs s. apply no_panic. Qed.

Theorem C15_invariant : forall gs s, Inv s -> Inv (run_groups s gs).
Proof. exact groups_inv. Qed.

Theorem C15_initial_states : Inv init_outgoing /\ Inv init_incoming.
Proof. split; [exact inv_init_out|exact inv_init_in]. Qed.

(* while a handle exists (and the peer has neither closed nor garbled the stream) no amount of time
   removes the connection: it stays registered and Used *)
Theorem C15_alive_while_referenced : forall s dt, Inv s -> referenced s ->
  let s' := fst (run_group s [Advance dt]) in
  referenced s' /\ ent s' = EUsed /\ present s' = true.
Proof. exact alive_while_referenced. Qed.

(* the idle period starts when the last handle is released (fresh 32 s), and an idle, silent
   connection is closed and unregistered exactly when that deadline is reached, not before *)
Theorem C15_idle_timer_starts_at_last_drop : forall s, Inv s -> tsk s = TInUse -> (refs s + transient s = 0)%nat ->
  exists s', task_step s = Some s' /\ tsk s' = TUnused (now s + idle_ms) false /\ ent s' = EUnused /\
             inbox s' = inbox s /\ delivered s' = delivered s.
Proof. exact last_drop_starts_timer. Qed.

Theorem C15_expiry : forall s d, Inv s -> tsk s = TUnused d false -> item_ready s = false -> transient s = 0%nat ->
  d <= now s -> exists s', task_step s = Some s' /\ tsk s' = TExited /\ ent s' = EAbsent.
Proof. exact unused_expires. Qed.

Theorem C15_not_before_expiry : forall s d, Inv s -> tsk s = TUnused d false -> item_ready s = false ->
  transient s = 0%nat -> now s < d -> task_step s = None.
Proof. exact unused_waits. Qed.

Theorem C15_idle_is_32s : idle_ms = 32000.
Proof. reflexivity. Qed.

(* peer close / framing error: removed at once *)
Theorem C15_close_removes : forall s, Inv s -> tsk s <> TExited -> (forall d, tsk s <> TUnused d true) ->
  (tsk s = TInUse -> (0 < refs s + transient s)%nat) ->
  ((inbox s = [] /\ eof s = true) \/ exists r, inbox s = false :: r) ->
  exists s', task_step s = Some s' /\ tsk s' = TExited /\ ent s' = EAbsent.
Proof. exact close_removes. Qed.

(* never selected once gone; selecting an idle one makes it referenced again *)
Theorem C15_never_selected_dead : forall s, ent s = EAbsent -> snd (ext_step s Select) = Some false.
Proof. exact select_absent. Qed.

Theorem C15_idle_is_reused : forall s, Inv s -> ent s = EUnused ->
  snd (ext_step s Select) = Some true /\ refs (fst (ext_step s Select)) = 1%nat /\ ent (fst (ext_step s Select)) = EUsed.
Proof. exact select_reuses. Qed.

(* a message on an unreferenced connection revives it and is delivered exactly once, also when the
   last handle is dropped in the very same instant *)
Theorem C15_revive_delivers : forall s d r, Inv s -> tsk s = TUnused d false -> inbox s = true :: r ->
  exists s', task_step s = Some s' /\ delivered s' = S (delivered s) /\ inbox s' = r /\
             ent s' = EUsed /\ tsk s' = TUnused d true.
Proof. exact revive_delivers. Qed.

Theorem C15_drop_and_frame_same_instant : forall s r, Inv s -> tsk s = TInUse ->
  (refs s + transient s = 0)%nat -> inbox s = true :: r ->
  exists s1 s2, task_step s = Some s1 /\ task_step s1 = Some s2 /\
    delivered s2 = S (delivered s) /\ ent s2 = EUsed /\ panicked s2 = false.
Proof. exact drop_and_frame_same_instant. Qed.

Example C15_example :
  let s := fst (run_group init_outgoing [DropH; Frame]) in
  (delivered s, present s, panicked s, tsk s) = (1%nat, true, false, TUnused 32000 false).
Proof. vm_compute. reflexivity. Qed.

(* "closed after 32 s without traffic": a message that is readable when the receive task of an unreferenced connection is polled is
   delivered and revives the connection even if the idle timer has fired in the same tick (the frame is polled first) *)
Theorem C15_frame_before_timer_guard : stream_frame_before_idle_timer = true.
Proof. reflexivity. Qed.

Theorem C15_message_beats_idle_timer : forall s d r,
  stream_frame_before_idle_timer = true -> panicked s = false -> tsk s = TUnused d false -> ent s = EUnused -> inbox s = true :: r ->
  exists s', task_step s = Some s' /\ delivered s' = S (delivered s) /\ ent s' = EUsed /\ inbox s' = r.
Proof. exact frame_beats_idle_timer. Qed.

(* "an accepted connection that stays silent for 32 s is closed" - counted from the accept: the timer is created when accept() has
   returned; created before accept() is awaited, the 32 s would run from the moment the listener started waiting *)
Theorem C15_idle_timer_guard : idle_timer_armed_at_accept = true.
Proof. reflexivity. Qed.

Theorem C15_accepted_connection_gets_32s : idle_timer_armed_at_accept = true ->
  forall listening_since accepted_at, idle_deadline listening_since accepted_at = (accepted_at + 32000)%N.
Proof. exact idle_deadline_here. Qed.

Theorem C15_timer_before_accept_refuted : forall listening_since accepted_at, (listening_since < accepted_at)%N ->
  (idle_deadline_form false listening_since accepted_at < accepted_at + 32000)%N.
Proof. exact idle_deadline_early. Qed.
