(* Props/C09.v -- property C09: responses mirror the request and are routed per RFC 3261 18.2.2 / RFC 3581 *)
From Coq Require Import List NArith Bool.
From EZK Require Import Model.Forms8 Proofs.Forms8 Lib.Bytes Lib.Num Gen.Tables Model.C09 Proofs.C09.
Import ListNotations.
Open Scope N_scope.

(* Via values in order (any number n >= 1; the top one stamped), From, To, Call-ID, CSeq copied,
   Timestamp only for 100, no Content-Length yet, default reason phrase unless supplied *)
Theorem C09_mirror : forall rq src conn code reason v0 vs rs,
  rq_vias rq = v0 :: vs -> create_response rq src conn code reason = Some rs ->
  values (rs_headers rs) HVia = print_via (add_received_rport v0 src) :: map print_via vs /\
  values (rs_headers rs) HFrom = [rq_from rq] /\ values (rs_headers rs) HTo = [rq_to rq] /\
  values (rs_headers rs) HCallId = [rq_call_id rq] /\ values (rs_headers rs) HCSeq = [rq_cseq rq] /\
  values (rs_headers rs) HTimestamp = (if code =? 100 then rq_timestamp rq else []) /\
  values (rs_headers rs) HContentLength = [] /\
  rs_code rs = code /\
  rs_reason rs = (match reason with Some r => Some r | None => assoc_code code code_reasons end) /\
  rs_dest rs = destination (add_received_rport v0 src) src conn.
Proof. exact mirror. Qed.

Theorem C09_response_exists : forall rq src conn code reason,
  rq_vias rq <> [] -> exists rs, create_response rq src conn code reason = Some rs.
Proof. exact response_exists. Qed.

(* received= iff the sent-by host differs from the packet source; rport filled with the source port;
   sent-by and every other parameter untouched *)
Theorem C09_received_added : forall v src, host_eqb (src_host src) (v_host v) = false ->
  param_val s_received (v_params (add_received_rport v src)) = Some (a_text src).
Proof. exact received_added. Qed.

Theorem C09_received_not_added : forall v src, host_eqb (src_host src) (v_host v) = true ->
  param_get s_received (v_params (add_received_rport v src)) = param_get s_received (v_params v).
Proof. exact received_untouched. Qed.

Theorem C09_rport_filled : forall v src, param_get s_rport (v_params v) <> None ->
  param_val s_rport (v_params (add_received_rport v src)) = Some (print_dec (a_port src)).
Proof. exact rport_filled. Qed.

Theorem C09_rport_not_invented : forall v src,
  param_get s_rport (v_params (add_received_rport v src)) = None <-> param_get s_rport (v_params v) = None.
Proof. exact rport_presence. Qed.

Theorem C09_other_params_kept : forall v src name,
  bytes_eqb name s_received = false -> bytes_eqb name s_rport = false ->
  param_get name (v_params (add_received_rport v src)) = param_get name (v_params v).
Proof. exact stamping_keeps_others. Qed.

(* destination: complete case analysis *)
Theorem C09_dest_connection : forall v0 src remote, destination v0 src (Some remote) = remote.
Proof. exact dest_connection. Qed.

Theorem C09_dest_maddr : forall v src ip, maddr_ip v = Some ip ->
  destination (add_received_rport v src) src None =
  mkaddr false ip (print_ipv4 ip) (match v_port v with Some p => p | None => 5060 end).
Proof. exact dest_maddr. Qed.

Theorem C09_dest_rport : forall v src, maddr_ip v = None -> param_get s_rport (v_params v) <> None ->
  a_port src <= 65535 -> destination (add_received_rport v src) src None = src.
Proof. exact dest_rport. Qed.

Theorem C09_dest_source : forall v src, maddr_ip v = None -> param_get s_rport (v_params v) = None ->
  destination (add_received_rport v src) src None = src.
Proof. exact dest_source. Qed.

(* every outgoing message: exactly one Content-Length, equal to the body size; nothing else changes *)
Theorem C09_content_length : forall hs len,
  values (finalize_headers hs len) HContentLength = [print_dec len] /\
  forall n, hname_eqb n HContentLength = false -> values (finalize_headers hs len) n = values hs n.
Proof. exact content_length_once. Qed.

(* decimal text of a number parses back (ports, lengths) *)
Theorem C09_decimal_roundtrip : forall bound n, n <= bound -> parse_uint bound (print_dec n) = Some n.
Proof. exact parse_print_dec. Qed.

(* the copy of a response that answers a retransmitted request goes where the first one went (maddr, rport, source - whatever
   decided), not to wherever the retransmission came from *)
Theorem C09_resend_guard : resend_keeps_destination = true.
Proof. reflexivity. Qed.

Theorem C09_resend_same_destination : resend_keeps_destination = true ->
  forall (A : Type) (stored retx_source : A), resend_dest stored retx_source = stored.
Proof. exact resend_here. Qed.

Theorem C09_resend_to_source_refuted : forall (A : Type) (stored retx_source : A),
  stored <> retx_source -> resend_dest_form false stored retx_source <> stored.
Proof. exact resend_to_source. Qed.
