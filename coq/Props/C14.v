(* Props/C14.v -- property C14: a sips: target is never sent in clear; target and transport selection are sound *)
From Coq Require Import List NArith Bool.
From EZK Require Import Model.Forms10 Proofs.Forms10 Gen.Tables Model.Forms8 Proofs.Forms8 Model.C14 Proofs.C14.
Import ListNotations.
Open Scope N_scope.

Theorem C14_sips_secure : forall cfg u c,
  u_secure u = true -> In c (select cfg u) -> c = Fail \/ choice_secure cfg c = true.
Proof. exact sips_secure. Qed.

Theorem C14_fails_if_none : forall cfg u,
  forallb (fun d => negb (dg_matches u d)) (unmanaged cfg) = true ->
  forallb (fun c => negb (conn_matches u c)) (conns cfg) = true ->
  forallb (fun f => negb (fac_ok u f)) (factories cfg) = true ->
  select cfg u = [Fail].
Proof. exact fails_if_none. Qed.

Theorem C14_total : forall cfg u, select cfg u <> [].
Proof. exact never_empty. Qed.

Theorem C14_port : forall u,
  resolve_port u = match u_port u with Some p => p | None => if u_secure u then 5061 else 5060 end.
Proof. exact port_rule. Qed.

Theorem C14_family : forall cfg u i, In (UseDatagram i) (select cfg u) ->
  exists d, nth_error (unmanaged cfg) i = Some d /\ dg_v6 d = u_v6 u /\ allows u (dg_secure d) = true.
Proof. exact datagram_family. Qed.

Theorem C14_existing_outgoing_preferred : forall cfg u,
  forallb (fun d => negb (dg_matches u d)) (unmanaged cfg) = true ->
  existsb (conn_matches u) (conns cfg) = true ->
  forall c, In c (select cfg u) ->
    exists i x, c = UseConn i /\ nth_error (conns cfg) i = Some x /\ conn_matches u x = true.
Proof. exact existing_outgoing_preferred. Qed.

Theorem C14_reused_connection_is_right : forall u x, conn_matches u x = true ->
  c_outgoing x = true /\ c_v6 x = u_v6 u /\ c_ip x = u_ip u /\ c_port x = resolve_port u /\
  allows u (c_secure x) = true /\ c_usable x = true.
Proof. exact conn_match_meaning. Qed.

Theorem C14_new_connection_first_allowed_factory : forall cfg u i, In (NewConn i) (select cfg u) ->
  exists f, nth_error (factories cfg) i = Some f /\ fac_ok u f = true /\
  (forall k g, (k < i)%nat -> nth_error (factories cfg) k = Some g -> fac_ok u g = false).
Proof. exact new_conn_first_ok. Qed.

Theorem C14_pinned_reused : forall (T : Type) (t s : T), create_outgoing (Some t) s = t.
Proof. exact @pinned_reused. Qed.

(* "IP-literal hosts are used": the destination is the literal as written - family and number; canonicalising it would turn an
   IPv4-mapped IPv6 literal into an IPv4 destination (and select transports of the other family) *)
Theorem C14_literal_guard : Tables.ip_literal_verbatim = true.
Proof. reflexivity. Qed.

Theorem C14_literal_verbatim : Tables.ip_literal_verbatim = true -> forall a, literal_dest a = a.
Proof. exact literal_here. Qed.

Theorem C14_canonical_literal_refuted : literal_dest_form false (true, mapped_base + 3221225985) = (false, 3221225985).
Proof. exact mapped_literal_changes_family. Qed.

(* "reused in preference to opening a new one": a factory is asked to connect only when no existing transport qualified *)
Theorem C14_connect_guard : Tables.connect_only_when_none_found = true.
Proof. reflexivity. Qed.

Theorem C14_no_connect_when_found : Tables.connect_only_when_none_found = true -> connects true = false /\ connects false = true.
Proof. exact connects_here. Qed.

Theorem C14_eager_connect_refuted : connects_form false true = true.
Proof. exact connects_eagerly. Qed.
