(* Props/C10.v -- property C10: in-dialog requests reach their dialog once each, in CSeq order.
   Only statements: each theorem is closed by [exact lemma], pinned by [Check], followed by
   [Print Assumptions]. *)
From Coq Require Import List NArith Permutation.
From EZK Require Import Model.Forms10 Proofs.Forms10 Model.Forms8 Proofs.Forms8 Gen.Tables Lib.Bytes Model.C10 Proofs.C10.
Import ListNotations.
Open Scope N_scope.

(* UAS-created dialog whose INVITE had CSeq n: for every k and every arrival order of the requests
   numbered n+1 .. n+k (all below the u32 limit), the requests handed to the usages are exactly
   those requests, each once, in increasing CSeq order, and nothing stays parked. *)
Theorem C10_in_order_once : forall (n : N) (k : nat) (rs : list req),
  n + N.of_nat k <= u32max ->
  Permutation (map r_cseq rs) (Nseq (n + 1) k) ->
  exists d,
    run (entry_new (Some n)) rs = (mkd (Some (sat_succ (n + N.of_nat k))) [], d) /\
    map fst d = Nseq (n + 1) k /\
    Permutation d (map pair_of rs).
Proof. exact in_order_once. Qed.

(* UAC-created dialog: the first request defines the base, the rest as above *)
Theorem C10_uac_first_defines_base : forall (b : N) (k : nat) (r : req) (rs : list req),
  r_cseq r = b ->
  b + N.of_nat k <= u32max ->
  Permutation (map r_cseq rs) (Nseq (b + 1) k) ->
  exists d,
    run (entry_new None) (r :: rs) = (mkd (Some (sat_succ (b + N.of_nat k))) [], pair_of r :: d) /\
    map fst d = Nseq (b + 1) k /\
    Permutation d (map pair_of rs).
Proof. exact uac_first_defines_base. Qed.

(* a request ahead of a missing lower CSeq is held (nothing delivered) and parked under its number *)
Theorem C10_gap_held : forall m bl r, m < r_cseq r ->
  snd (step (mkd (Some m) bl) r) = [] /\
  bl_lookup (r_cseq r) (backlog (fst (step (mkd (Some m) bl) r))) = Some (r_id r).
Proof. exact gap_held. Qed.

(* up to the integer limit: no step makes the expected number or a parked key exceed u32::MAX
   (no overflow panic in debug builds, no wrap in release builds) *)
Theorem C10_limit : forall st r, st_ok st -> r_cseq r <= u32max -> st_ok (fst (step st r)).
Proof. exact step_limit. Qed.

(* the drain loop stops on a missing key or at the limit, never by running out of fuel *)
Theorem C10_drain_terminates : forall fuel last bl,
  NoDup (keys bl) -> (length bl < fuel)%nat ->
  exists r d bl',
    drain fuel last bl = (d, last + N.of_nat r, bl') /\
    map fst d = Nseq (last + 1) r /\
    Permutation bl (d ++ bl') /\
    last + N.of_nat r <= N.max last u32max /\
    (last + N.of_nat r < u32max -> ~ In (last + N.of_nat r + 1) (keys bl')).
Proof. exact drain_spec. Qed.

(* dialog matching: Call-ID, From-tag = peer tag, To-tag = local tag; no To-tag, no match *)
Theorem C10_key : forall cid ft totag k,
  key_of_request cid ft totag = Some k <-> (exists t, totag = Some t /\ k = mkkey cid ft t).
Proof. exact key_match. Qed.

Theorem C10_no_totag_not_intercepted : forall es cid ft r,
  layer_step es (Recv cid ft None r) = (es, NotIntercepted).
Proof. exact not_intercepted_no_totag. Qed.

Theorem C10_unknown_dialog_not_intercepted : forall es cid ft t r,
  entries_find (mkkey cid ft t) es = None ->
  layer_step es (Recv cid ft (Some t) r) = (es, NotIntercepted).
Proof. exact not_intercepted_unknown. Qed.

Theorem C10_other_dialogs_untouched : forall es cid ft totag r k',
  key_of_request cid ft totag <> Some k' ->
  entries_find k' (fst (layer_step es (Recv cid ft totag r))) = entries_find k' es.
Proof. exact other_dialogs_untouched. Qed.

(* usage guard: once dropped the usage is no longer in the dialog's list, deliveries go exactly to
   the usages registered at that moment, and receiving never changes the list *)
Theorem C10_guard_drop : forall es k u e,
  entries_find k es = Some e ->
  exists e', entries_find k (fst (layer_step es (DropUsage k u))) = Some e' /\ ~ In u (e_usages e').
Proof. exact drop_removes_usage. Qed.

Theorem C10_delivery_to_current_usages : forall es cid ft totag r k us d,
  snd (layer_step es (Recv cid ft totag r)) = Delivered k us d ->
  exists e, entries_find k es = Some e /\ us = e_usages e /\ key_of_request cid ft totag = Some k.
Proof. exact recv_uses_current_usages. Qed.

Theorem C10_recv_keeps_usages : forall es cid ft totag r k e,
  entries_find k es = Some e ->
  exists e', entries_find k (fst (layer_step es (Recv cid ft totag r))) = Some e' /\ e_usages e' = e_usages e.
Proof. exact recv_keeps_usages. Qed.

(* non-vacuity: a concrete arrival order meets the hypotheses and is reordered *)
Example C10_example :
  run (entry_new (Some 7)) [mkreq 10 100 false; mkreq 9 101 false; mkreq 12 102 false; mkreq 8 103 false; mkreq 11 104 false]
  = (mkd (Some 13) [], [(8, 103); (9, 101); (10, 100); (11, 104); (12, 102)]).
Proof. vm_compute. reflexivity. Qed.

Example C10_example_limit :
  run (entry_new (Some 4294967293)) [mkreq 4294967295 1 false; mkreq 4294967294 2 false]
  = (mkd (Some 4294967295) [], [(4294967294, 2); (4294967295, 1)]).
Proof. vm_compute. reflexivity. Qed.

(* the backlog is not a place where requests get lost: while the gap is open, a second request carrying a number that
   is already parked is not intercepted by the dialog layer at all - the table stays as it is, the parked request keeps
   its place, the newcomer goes on to the following layers and the endpoint's default answer *)
(* a usage registered later joins the ones that are there: none of them is replaced, the dialog's CSeq state is untouched *)
Theorem C10_register_appends_usage : forall es k u e,
  entries_find k es = Some e ->
  exists e', entries_find k (fst (layer_step es (AddUsage k u))) = Some e' /\ e_usages e' = e_usages e ++ [u] /\ e_st e' = e_st e.
Proof. exact add_appends_usage. Qed.

(* a usage offered for a dialog that does not exist (any more) creates nothing *)
Theorem C10_register_for_missing_dialog_noop : forall es k u, entries_find k es = None -> fst (layer_step es (AddUsage k u)) = es.
Proof. exact add_usage_missing. Qed.

Theorem C10_backlog_guard : dlg_backlog_no_overwrite = true.
Proof. reflexivity. Qed.

Theorem C10_parked_not_displaced : forall es cid ft t r k e n x,
  key_of_request cid ft (Some t) = Some k -> entries_find k es = Some e ->
  next (e_st e) = Some n -> n < r_cseq r -> bl_lookup (r_cseq r) (backlog (e_st e)) = Some x ->
  layer_step es (Recv cid ft (Some t) r) = (es, NotIntercepted).
Proof. intros. eapply parked_not_displaced; eauto. Qed.

(* sequencing does not depend on who is registered: a request with the expected number advances the expected number also in a window
   in which the dialog has no usage; and after a release the expected number is the one after the LAST released request *)
Theorem C10_sequencing_guards : sequenced_without_usages = true /\ next_cseq_from_last_released = true.
Proof. split; reflexivity. Qed.

Theorem C10_sequenced_without_usages : sequenced_without_usages = true -> forall nus, sequences nus = true.
Proof. exact sequences_here. Qed.

Theorem C10_unsequenced_window_refuted : sequences_form false 0 = false.
Proof. exact not_sequenced_when_empty. Qed.

Theorem C10_next_after_release : next_cseq_from_last_released = true ->
  forall arriving k, next_after_release arriving k = arriving + N.of_nat k + 1.
Proof. exact next_here. Qed.

(* "requests for other dialogs are not intercepted": the parts of a dialog key are compared byte for byte; folded to one case, two
   different tags would name one dialog *)
Theorem C10_key_bytewise_guard : dialog_key_bytewise = true.
Proof. reflexivity. Qed.

Theorem C10_key_parts_equal_iff_identical : dialog_key_bytewise = true -> forall a b, key_part_eq a b = true <-> a = b.
Proof. exact key_part_here. Qed.

Theorem C10_case_folded_key_refuted : key_part_eq_form false [Byte.x41; Byte.x62] [Byte.x61; Byte.x42] = true.
Proof. exact key_part_folded_merges. Qed.

(* "a usage stops receiving once its guard is dropped" - under every schedule: the drop waits for the dialog layer's lock; with try_lock a
   guard dropped while another thread is inside the layer would leave its usage registered *)
Theorem C10_guard_drop_guard : usage_guard_drop_waits = true.
Proof. reflexivity. Qed.

Theorem C10_guard_drop_removes_under_contention : usage_guard_drop_waits = true -> forall lock_held_elsewhere, guard_drop_removes lock_held_elsewhere = true.
Proof. exact guard_drop_here. Qed.

Theorem C10_guard_drop_try_lock_refuted : guard_drop_removes_form false true = false.
Proof. exact guard_drop_try_lock_refuted. Qed.
