(* Props/C08.v -- property C08: every request is answered exactly once; ACKs and responses never are.
   Statements are per dispatch of one incoming request that starts a new server transaction, for EVERY
   layer stack, dialog table (with any backlog) and usage list, and - C08_history_* - for whole histories of
   requests dispatched one after the other.  A taking layer / usage is assumed to
   answer once through the transaction it creates (what the harness layers do; the invite usage's own
   answers are C12's subject).  Requests parked in a dialog backlog behind a CSeq gap are answered when
   released; a gap that is never filled leaves them unanswered (known finding F16a, reported by the
   check for the histories that exhibit it). *)
From Coq Require Import List Arith NArith Bool Sorted.
From EZK Require Import Model.Forms9 Proofs.Forms9 Gen.Tables Lib.Bytes Model.C10 Model.C08 Proofs.C08 Proofs.C08b.
Import ListNotations.
Close Scope N_scope.
Open Scope nat_scope.

(* exactly one final response carrying the request's identity, or the request is parked and has none yet *)
Theorem C08_exactly_one : forall ls i ds env r,
  is_ack r = false -> ~ In (q_id r) (backlog_ids ds) ->
  let evs := snd (walk ls i ds env r) in
  (parked ls ds env r = false /\ finals (q_id r) evs = 1) \/ (parked ls ds env r = true /\ finals (q_id r) evs = 0).
Proof. exact dispatch_exactly_one. Qed.

(* in general: the finals produced for an identity = the non-ACK requests with that identity that reach
   an answerer in this dispatch (the request itself and the parked requests it releases) *)
Theorem C08_finals_count : forall x ls i ds env r,
  finals x (snd (walk ls i ds env r)) = length (filter (answered_as x) (handled ls ds env r)).
Proof. exact finals_walk. Qed.

Theorem C08_handled : forall ls ds env r,
  (parked ls ds env r = true /\ handled ls ds env r = []) \/
  (parked ls ds env r = false /\ exists rel, handled ls ds env r = r :: rel /\
                                             forall r', In r' rel -> In (q_id r') (backlog_ids ds)).
Proof. exact handled_shape. Qed.

(* ACK requests are never answered *)
Theorem C08_ack_silent : forall ls i ds env r x,
  (forall r', In r' (handled ls ds env r) -> q_id r' = x -> is_ack r' = true) ->
  finals x (snd (walk ls i ds env r)) = 0.
Proof. exact ack_silent. Qed.

(* nobody wants it and no dialog matches: the endpoint answers 481 (nothing for ACK) *)
Theorem C08_default_481 : forall ls i ds env r,
  (forall m, In (LRec m) ls -> takes m (q_meth r) = false) -> q_dlg r = None ->
  exists offers, snd (walk ls i ds env r) = offers ++ answer r 481%N /\ forall e, In e offers -> exists j, e = Offer j (q_id r).
Proof. exact nobody_takes. Qed.

(* inside a dialog: the first usage that wants it answers, else 404; INVITE answers go through an
   INVITE server transaction *)
Theorem C08_dialog_answers : forall d us i r id code inv,
  In (Final id code inv) (offer_usages d us i r) ->
  id = q_id r /\ inv = is_invite r /\ is_ack r = false /\
  ((code = taker_code r /\ exists u, In u us /\ takes u (q_meth r) = true) \/
   (code = 404%N /\ forall u, In u us -> takes u (q_meth r) = false)).
Proof. exact offer_usages_final. Qed.

(* a layer that inspects without taking does not hide the request from later layers; a taker ends the
   loop; layers are consulted in registration order *)
Theorem C08_inspect_passes_on : forall mask rest i ds env r,
  takes mask (q_meth r) = false ->
  snd (walk (LRec mask :: rest) i ds env r) = Offer i (q_id r) :: snd (walk rest (S i) ds env r).
Proof. exact inspect_passes_on. Qed.

Theorem C08_taker_ends_loop : forall mask rest i ds env r,
  takes mask (q_meth r) = true ->
  walk (LRec mask :: rest) i ds env r = (ds, Offer i (q_id r) :: answer r (taker_code r)).
Proof. exact taker_ends_loop. Qed.

Theorem C08_registration_order : forall ls i ds env r,
  StronglySorted lt (offer_indices (snd (walk ls i ds env r))).
Proof. exact offers_increasing. Qed.

(* whole histories: start from dialogs with empty backlogs and dispatch any list of requests with pairwise distinct
   identities (and, inside one dialog, pairwise distinct CSeq numbers), in any order, through any layer stack.
   Then over the WHOLE run every non-ACK request has received exactly one final response - or it still sits in the
   backlog of its dialog and has received none -, no ACK has been answered, and no response carries an identity
   that was never received.  (Invariant: an identity is in at most one backlog, only identities of received
   requests are, and being parked and having been answered exclude each other.) *)
Theorem C08_no_overwrite_guard : dlg_backlog_no_overwrite = true.
Proof. reflexivity. Qed.

Theorem C08_history_exactly_once : forall ls ds0 rs,
  (forall d e, nth_error ds0 d = Some e -> backlog (d_st e) = []) ->
  NoDup (ids rs) ->
  let ds' := fst (run ls ds0 [] rs) in
  let evs := snd (run ls ds0 [] rs) in
  (forall r, In r rs -> is_ack r = false ->
     (parked_in ds' (q_id r) /\ finals (q_id r) evs = 0) \/ (~ parked_in ds' (q_id r) /\ finals (q_id r) evs = 1)) /\
  (forall r, In r rs -> is_ack r = true -> finals (q_id r) evs = 0) /\
  (forall x, ~ In x (ids rs) -> finals x evs = 0).
Proof. intros ls ds0 rs. apply history_exactly_once. reflexivity. Qed.

(* never twice *)
Theorem C08_history_at_most_once : forall ls ds0 rs x,
  (forall d e, nth_error ds0 d = Some e -> backlog (d_st e) = []) -> NoDup (ids rs) ->
  finals x (snd (run ls ds0 [] rs)) <= 1.
Proof.
  intros ls ds0 rs x H0 Hnd. destruct (history_exactly_once ls ds0 rs eq_refl H0 Hnd) as (H1 & H2 & H3).
  destruct (in_dec N.eq_dec x (ids rs)) as [Hin|Hn]; [|rewrite (H3 x Hn); auto].
  apply in_map_iff in Hin as (r & <- & Hr). destruct (is_ack r) eqn:Ha; [rewrite (H2 r Hr Ha); auto|].
  destruct (H1 r Hr Ha) as [[_ ->]|[_ ->]]; auto.
Qed.

(* non-vacuity: BYE in a dialog whose usages do not want it -> 404; out of dialog OPTIONS nobody takes -> 481;
   a request ahead of a gap is parked and released, answered once, by the request that fills the gap *)
Example C08_example :
  let ls := [LRec [Info]; LDialog; LRec [Invite]] in
  let ds := [mkde (C10.entry_new (Some 10%N)) [[Invite]; [Info]]] in
  snd (run ls ds [] [mkq 1 Bye (Some 0) 11; mkq 2 Options None 1; mkq 3 Bye (Some 0) 13; mkq 4 Bye (Some 0) 12; mkq 5 Ack (Some 0) 14])
  = [Offer 0 1%N; UOffer 0 0 1%N; UOffer 0 1 1%N; Final 1%N 404%N false;
     Offer 0 2%N; Offer 2 2%N; Final 2%N 481%N false;
     Offer 0 3%N; Parked 3%N;
     Offer 0 4%N; UOffer 0 0 4%N; UOffer 0 1 4%N; Final 4%N 404%N false; UOffer 0 0 3%N; UOffer 0 1 3%N; Final 3%N 404%N false;
     Offer 0 5%N; UOffer 0 0 5%N; UOffer 0 1 5%N].
Proof. vm_compute. reflexivity. Qed.

Example C08_example_history :
  let ls := [LRec [Info]; LDialog; LRec [Invite]] in
  let ds := [mkde (C10.entry_new (Some 10%N)) [[Invite]; [Info]]] in
  let rs := [mkq 1 Bye (Some 0) 11; mkq 2 Options None 1; mkq 3 Bye (Some 0) 13; mkq 7 Message (Some 0) 13; mkq 6 Update (Some 0) 16; mkq 4 Bye (Some 0) 12; mkq 5 Ack (Some 0) 14] in
  NoDup (ids rs) /\
  map (fun x => finals x (snd (run ls ds [] rs))) [1; 2; 3; 4; 5; 6; 7; 8]%N = [1; 1; 1; 1; 0; 0; 1; 0] /\
  parked_in (fst (run ls ds [] rs)) 6%N.
Proof.
  split; [|split].
  - vm_compute. repeat constructor; cbn; intuition discriminate.
  - vm_compute. reflexivity.
  - exists 0, (mkde (mkd (Some 15%N) [(16%N, 6%N)]) [[Invite]; [Info]]), 16%N. split; vm_compute; auto.
Qed.

(* a PRACK the invite usage has taken (its server transaction exists) gets its one final response whether or not the acceptor still waits *)
Theorem C08_prack_guard : prack_answered_unconditionally = true.
Proof. reflexivity. Qed.

Theorem C08_taken_prack_answered_once : prack_answered_unconditionally = true -> forall acceptor_waiting, prack_finals acceptor_waiting = 1%nat.
Proof. exact prack_here. Qed.

Theorem C08_late_prack_unanswered_refuted : prack_finals_form false false = 0%nat.
Proof. exact prack_unanswered_otherwise. Qed.
