(* Props/C05.v -- property C05: client transactions retransmit and time out on the RFC 3261 schedule.
   Statements only. [tie] = how an exact coincidence of an arrival and a timer is resolved; every
   theorem holds for both resolutions. *)
From Coq Require Import List NArith.
From EZK Require Import Model.Forms10 Proofs.Forms10 Gen.Tables Model.Tsx Proofs.C05.
Import ListNotations.
Open Scope N_scope.

(* the regenerated constants are the RFC 3261 defaults *)
Theorem C05_constants :
  T1_ms = 500 /\ T2_ms = 4000 /\ T4_ms = 5000 /\ tsx_timeout_factor = 64 /\ inv_completed_ms = 32000.
Proof. repeat split; reflexivity. Qed.

(* no response, unreliable transport: INVITE is re-sent at T1 doubling without cap, timeout at 64*T1 *)
Theorem C05_invite_schedule : forall tie,
  client_invite tie false [] =
  [Send 0; Send 500; Send 1500; Send 3500; Send 7500; Send 15500; Send 31500; TimedOut 32000].
Proof. intros []; vm_compute; reflexivity. Qed.

(* non-INVITE: T1 doubling capped at T2 *)
Theorem C05_noninvite_schedule : forall tie,
  client_noninvite tie false [] =
  [Send 0; Send 500; Send 1500; Send 3500; Send 7500; Send 11500; Send 15500; Send 19500;
   Send 23500; Send 27500; Send 31500; TimedOut 32000].
Proof. intros []; vm_compute; reflexivity. Qed.

(* responses that arrive after the 64*T1 deadline do not change either run *)
Theorem C05_late_arrivals_ignored : forall tie rel arrs, all_after timeout_ms arrs ->
  client_noninvite tie rel arrs = client_noninvite tie rel [] /\
  client_invite tie rel arrs = client_invite tie rel [].
Proof. exact late_arrivals_ignored. Qed.

(* reliable transport: exactly one transmission, whatever arrives *)
Theorem C05_reliable_once : forall tie arrs,
  count_sends (client_noninvite tie true arrs) = 1%nat /\ count_sends (client_invite tie true arrs) = 1%nat.
Proof. intros. split; [apply reliable_once_noninvite|apply reliable_once_invite]. Qed.

(* any response stops retransmission: no transmission is later than the first response *)
Theorem C05_response_stops : forall tie rel a c rest,
  sends_upto a (client_noninvite tie rel ((a, c) :: rest)) /\
  sends_upto a (client_invite tie rel ((a, c) :: rest)).
Proof. intros. split; [apply response_stops_noninvite|apply response_stops_invite]. Qed.

(* INVITE: a timeout is only ever reported when nothing at all was received before it, and it ends
   the run; in particular after a provisional response no timeout is produced *)
Theorem C05_invite_no_timeout_after_response : forall tie rel arrs,
  quiet_until_timeout (client_invite tie rel arrs).
Proof. exact invite_no_timeout_after_response. Qed.

Theorem C05_invite_proceeding_no_timeout : forall tie rel t rest,
  Forall not_timedout (inv_msg tie rel t Prov rest).
Proof. exact invite_proceeding_never_times_out. Qed.

(* non-INVITE: a final response ends the run: exactly one is surfaced, late duplicates never are *)
Theorem C05_one_final : forall tie rel arrs, final_is_last (client_noninvite tie rel arrs).
Proof. exact noninvite_one_final. Qed.

(* the retransmission loop terminates by its deadline, not by the model's fuel *)
Theorem C05_terminates : forall tie rel arrs, Forall not_fuel (client_noninvite tie rel arrs).
Proof. exact noninvite_never_out_of_fuel. Qed.

(* non-vacuity / illustration *)
Example C05_example :
  client_noninvite true false [(700, Prov); (900, Succ); (950, Succ)] =
  [Send 0; Send 500; Got 700 Prov; Got 900 Succ].
Proof. vm_compute. reflexivity. Qed.

Example C05_example_invite :
  client_invite true false [(700, Prov); (40000, Fail); (40100, Fail); (80000, Fail)] =
  [Send 0; Send 500; Got 700 Prov; AckSent 40000; Got 40000 Fail; Done 40000; AckSent 40100].
Proof. vm_compute. reflexivity. Qed.

(* "a non-INVITE transaction yields exactly one final response": receive_final discards every provisional response, however many come *)
Theorem C05_receive_final_guard : receive_final_loops = true.
Proof. reflexivity. Qed.

Theorem C05_receive_final_yields_the_final : receive_final_loops = true -> forall provisionals, receive_final provisionals = true.
Proof. exact receive_final_here. Qed.

Theorem C05_receive_final_once_refuted : forall provisionals, (2 <= provisionals)%nat -> receive_final_form false provisionals = false.
Proof. exact receive_final_once_refuted. Qed.
