(* Props/C13.v -- property C13: UAC INVITE: responses map deterministically to early dialogs, sessions, failure *)
From Coq Require Import List NArith Bool.
From EZK Require Import Model.Forms10 Proofs.Forms10 Model.Forms9 Proofs.Forms9 Model.Forms8 Proofs.Forms8 Gen.Tables Lib.Bytes Model.C13 Proofs.C13 Model.C13q Proofs.C13q.
Import ListNotations.
Open Scope N_scope.

(* the case table *)
Theorem C13_100_is_provisional : forall s r, rs_code r <= 100 -> step s r = (s, ToCallerProvisional).
Proof. exact classify_100. Qed.

Theorem C13_1xx_new_tag_creates_early : forall s c t,
  101 <= c <= 199 -> find_early t (earlies s) = None -> mem t (sessions s) = false ->
  step s (mkresp c (Some t)) = (mkist (earlies s ++ [(t, true)]) (sessions s), ToCallerEarly t).
Proof. exact classify_new_early. Qed.

Theorem C13_1xx_known_tag_forwarded : forall s c t,
  101 <= c <= 199 -> find_early t (earlies s) = Some true ->
  step s (mkresp c (Some t)) = (s, ForwardToEarly t false).
Proof. exact classify_known_early. Qed.

Theorem C13_2xx_new_tag_creates_session : forall s c t,
  200 <= c <= 299 -> find_early t (earlies s) = None -> mem t (sessions s) = false ->
  step s (mkresp c (Some t)) = (mkist (earlies s) (sessions s ++ [t]), ToCallerSession t).
Proof. exact classify_new_session. Qed.

Theorem C13_2xx_known_tag_establishes_early : forall s c t,
  200 <= c <= 299 -> find_early t (earlies s) = Some true ->
  step s (mkresp c (Some t)) = (mkist (set_early t false (earlies s)) (sessions s), ForwardToEarly t true).
Proof. exact classify_early_becomes_session. Qed.

Theorem C13_failure_terminates_all : forall s c tg, 300 <= c ->
  earlies (fst (step s (mkresp c tg))) = [] /\
  snd (step s (mkresp c tg)) = ToCallerFailure (map fst (filter snd (earlies s))).
Proof. exact failure_terminates_all. Qed.

(* no response can make the initiator panic *)
Theorem C13_no_panic : forall s r, snd (step s r) <> Panic.
Proof. exact never_panics. Qed.

(* exactly one recipient per response, and never two dialogs (early or established) for one To-tag *)
Theorem C13_one_recipient : forall rs, length (snd (run rs)) = length rs.
Proof. exact run_one_action_each. Qed.

Theorem C13_one_dialog_per_tag : forall rs, NoDup (dialog_tags (fst (run rs))).
Proof. exact run_one_dialog_per_tag. Qed.

(* arrival order does not matter for which To-tags end up owning a dialog *)
Theorem C13_order_independent : forall rs1 rs2,
  Forall tagged_1xx_2xx rs1 -> (forall r, In r rs1 <-> In r rs2) ->
  forall t, In t (dialog_tags (fst (run rs1))) <-> In t (dialog_tags (fst (run rs2))).
Proof. exact order_independent. Qed.

(* no response is lost on its way to an early dialog: the initiator hands it over with send().await, so under every
   interleaving of arrivals and of the application's reads (an application that reads late included) what was read, what
   is buffered and what still waits are - in this order - exactly what arrived; a reader that keeps reading gets all *)
Theorem C13_forward_blocks_guard : early_forward_blocks = true.
Proof. reflexivity. Qed.

Theorem C13_channel_no_loss : forall evs, early_forward_blocks = true ->
  let c := early_chan evs in (got c ++ queue c ++ waiting c = arrivals evs /\ lost c = [])%list.
Proof. exact early_no_loss. Qed.

Theorem C13_channel_in_order : forall evs, early_forward_blocks = true ->
  exists rest, (arrivals evs = got (early_chan evs) ++ rest)%list.
Proof. exact early_prefix. Qed.

Theorem C13_channel_all_read : forall evs, early_forward_blocks = true ->
  got (early_chan (evs ++ repeat Read (length (arrivals evs)))) = arrivals evs.
Proof. exact early_all_read. Qed.

(* the form that gives up on a full buffer does lose: five responses behind a late reader, four slots *)
Theorem C13_channel_try_send_refuted : lost (crun false 4 (map Arrive [1; 2; 3; 4; 5])) = [5].
Proof. exact try_send_loses. Qed.

Example C13_channel_example :
  let c := early_chan [Arrive 1; Arrive 2; Arrive 3; Arrive 4; Arrive 5; Arrive 6; Read; Read; Arrive 7] in
  (got c, queue c, waiting c, lost c) = ([1; 2], [3; 4; 5; 6], [7], []).
Proof. vm_compute. reflexivity. Qed.

Example C13_example :
  snd (run [mkresp 100 None; mkresp 180 (Some (B"a")); mkresp 183 (Some (B"b")); mkresp 180 (Some (B"a"));
            mkresp 200 (Some (B"b")); mkresp 200 (Some (B"c")); mkresp 200 (Some (B"b")); mkresp 180 (Some (B"c"))]) =
  [ToCallerProvisional; ToCallerEarly (B"a"); ToCallerEarly (B"b"); ForwardToEarly (B"a") false;
   ForwardToEarly (B"b") true; ToCallerSession (B"c"); Ignored; Ignored].
Proof. vm_compute. reflexivity. Qed.

(* "each forked To-tag getting its own session ... completion 64*T1 after the first 2xx": the Accepted state lasts 64*T1 on every
   transport, so a 2xx of another fork inside that window is handed over over TCP as over UDP; with a zero timer on reliable
   transports it would be dropped *)
Theorem C13_timer_m_guard : timer_m_any_transport = true.
Proof. reflexivity. Qed.

Theorem C13_timer_m_every_transport : timer_m_any_transport = true -> forall reliable, timer_m reliable = tsx_timeout_factor * T1_ms.
Proof. exact timer_m_here. Qed.

Theorem C13_fork_inside_window_delivered : forall reliable d, d < tsx_timeout_factor * T1_ms -> fork_2xx_delivered_form true reliable d = true.
Proof. exact fork_inside_window. Qed.

Theorem C13_timer_m_zero_refuted : forall d, fork_2xx_delivered_form false true d = false.
Proof. exact fork_lost_on_reliable. Qed.

(* "a 3xx-6xx ... terminates every early dialog": the list is drained, every entry is told; removing entry idx and then advancing idx
   tells every other one only - the second early dialog is never told *)
Theorem C13_early_drained_guard : early_dialogs_drained = true.
Proof. reflexivity. Qed.

Theorem C13_failure_terminates_every_early : early_dialogs_drained = true -> forall (A : Type) (l : list A), terminated l = l.
Proof. exact terminated_here. Qed.

Theorem C13_every_other_refuted : forall (A : Type) (a b : A) (r : list A), ~ In b (a :: r) -> ~ In b (terminated_form false (a :: b :: r)).
Proof. exact every_other_skips_second. Qed.

Theorem C13_every_other_fewer : forall (A : Type) (l : list A), (2 <= length l)%nat -> (length (terminated_form false l) < length l)%nat.
Proof. exact every_other_length. Qed.

(* "a 2xx yields an established session" - the same one on either path: whether it gets a session timer depends on its Session-Expires
   header alone, not on `Supported: timer` (which a peer sending `Require: timer` need not repeat) *)
Theorem C13_session_timer_guard : session_timer_from_header = true.
Proof. reflexivity. Qed.

Theorem C13_session_timer_from_header : session_timer_from_header = true -> forall has_se lists_supported, session_has_timer has_se lists_supported = has_se.
Proof. exact session_timer_here. Qed.

Theorem C13_timer_needs_supported_refuted : session_has_timer_form false true false = false.
Proof. exact session_timer_needs_supported. Qed.
