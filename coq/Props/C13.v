(* Props/C13.v -- property C13: UAC INVITE: responses map deterministically to early dialogs, sessions, failure *)
From Coq Require Import List NArith Bool.
From EZK Require Import Lib.Bytes Model.C13 Proofs.C13.
Import ListNotations.
Open Scope N_scope.

(* the case table *)
Theorem C13_100_is_provisional : forall s r, rs_code r <= 100 -> step s r = (s, ToCallerProvisional).
Proof. exact classify_100. Qed.

Theorem C13_1xx_new_tag_creates_early : forall s c t,
  101 <= c <= 199 -> find_early t (earlies s) = None -> mem t (sessions s) = false ->
  step s (mkresp c (Some t)) = (mkist (earlies s ++ [(t, true)]) (sessions s), ToCallerEarly t).
Proof. exact classify_new_early. Qed.

Theorem C13_1xx_known_tag_forwarded : forall s c t,
  101 <= c <= 199 -> find_early t (earlies s) = Some true ->
  step s (mkresp c (Some t)) = (s, ForwardToEarly t false).
Proof. exact classify_known_early. Qed.

Theorem C13_2xx_new_tag_creates_session : forall s c t,
  200 <= c <= 299 -> find_early t (earlies s) = None -> mem t (sessions s) = false ->
  step s (mkresp c (Some t)) = (mkist (earlies s) (sessions s ++ [t]), ToCallerSession t).
Proof. exact classify_new_session. Qed.

Theorem C13_2xx_known_tag_establishes_early : forall s c t,
  200 <= c <= 299 -> find_early t (earlies s) = Some true ->
  step s (mkresp c (Some t)) = (mkist (set_early t false (earlies s)) (sessions s), ForwardToEarly t true).
Proof. exact classify_early_becomes_session. Qed.

Theorem C13_failure_terminates_all : forall s c tg, 300 <= c ->
  earlies (fst (step s (mkresp c tg))) = [] /\
  snd (step s (mkresp c tg)) = ToCallerFailure (map fst (filter snd (earlies s))).
Proof. exact failure_terminates_all. Qed.

(* no response can make the initiator panic *)
Theorem C13_no_panic : forall s r, snd (step s r) <> Panic.
Proof. exact never_panics. Qed.

(* exactly one recipient per response, and never two dialogs (early or established) for one To-tag *)
Theorem C13_one_recipient : forall rs, length (snd (run rs)) = length rs.
Proof. exact run_one_action_each. Qed.

Theorem C13_one_dialog_per_tag : forall rs, NoDup (dialog_tags (fst (run rs))).
Proof. exact run_one_dialog_per_tag. Qed.

(* arrival order does not matter for which To-tags end up owning a dialog *)
Theorem C13_order_independent : forall rs1 rs2,
  Forall tagged_1xx_2xx rs1 -> (forall r, In r rs1 <-> In r rs2) ->
  forall t, In t (dialog_tags (fst (run rs1))) <-> In t (dialog_tags (fst (run rs2))).
Proof. exact order_independent. Qed.

Example C13_example :
  snd (run [mkresp 100 None; mkresp 180 (Some (B"a")); mkresp 183 (Some (B"b")); mkresp 180 (Some (B"a"));
            mkresp 200 (Some (B"b")); mkresp 200 (Some (B"c")); mkresp 200 (Some (B"b")); mkresp 180 (Some (B"c"))]) =
  [ToCallerProvisional; ToCallerEarly (B"a"); ToCallerEarly (B"b"); ForwardToEarly (B"a") false;
   ForwardToEarly (B"b") true; ToCallerSession (B"c"); Ignored; Ignored].
Proof. vm_compute. reflexivity. Qed.
