(* Props/C19.v -- property C19: SDP parses without panicking and round-trips every description.
   The model covers the line splitter, the dispatcher with its attachment rule, both printers, the media
   line, directions, flags, unknown attributes, the token tables and the keying-material lifetime.  The
   payloads of the fields that have their own nom parser in the code (origin, time, connection, bandwidth,
   rtcp, rtpmap, fmtp, candidate, the remainder of a crypto line) are byte strings accepted by a validity
   predicate [valid] -- a parameter of the statements; their own print/parse round trips are decided by the
   differential runs (field-wise comparison in the harness), which is why C19 is claimed as partial. *)
From Coq Require Import List Arith NArith Bool.
From Coq.Strings Require Import Byte.
From EZK Require Import Model.Forms10 Proofs.Forms10 Model.Forms9 Proofs.Forms9 Gen.Tables Lib.Bytes Lib.Num Lib.Utf8 Model.C19 Proofs.C19 Model.C19c Proofs.C19c.
Import ListNotations.
Close Scope N_scope.
Open Scope nat_scope.

(* the token tables and matcher forms the translator reads from the source on every run *)
Theorem C19_tables :
  sdp_media_types = map mtype_name [Audio; Video; Text; App] /\
  sdp_protocols = map proto_name [PUdp; PAvp; PSavp; PSavpf] /\
  sdp_suites = suites /\
  sdp_directions = map dir_name [SendRecv; RecvOnly; SendOnly; Inactive] /\
  sdp_tokens_matched_whole = true /\ sdp_lifetime_checked_pow = true /\
  sdp_prints_candidates = true /\ sdp_prints_session_direction = true /\ sdp_ice_lite_flag = true.
Proof. repeat split; reflexivity. Qed.

(* tokens are matched whole, never by prefix: a token is recognised as a direction / media type only when it
   equals the name, and protocol and suite tokens print back verbatim whatever they are *)
Theorem C19_direction_whole : forall s d, dir_of s = Some d -> s = dir_name d.
Proof. exact dir_of_whole. Qed.

Theorem C19_media_type_whole : forall s m, mtype_of s = Some m -> s = mtype_name m.
Proof. exact mtype_of_whole. Qed.

Theorem C19_protocol_verbatim : forall s, proto_name (proto_of s) = s.
Proof. exact proto_name_of. Qed.

Theorem C19_suite_verbatim : forall s, suite_name (suite_of s) = s.
Proof. exact suite_name_of. Qed.

Example C19_example_tokens :
  proto_of (B"RTP/SAVPF") = PSavpf /\ proto_of (B"RTP/SAVPFX") = POther (B"RTP/SAVPFX") /\
  mtype_of (B"audiox") = None /\ suite_of (B"AEAD_AES_128_GCM_8") = SExt (B"AEAD_AES_128_GCM_8") /\
  suite_of (B"AEAD_AES_128_GCM") = SKnown 7.
Proof. repeat split; vm_compute; reflexivity. Qed.

(* keying-material lifetime: every u32 prints and parses back (powers of two as 2^n); an exponent of 32 or
   more is refused instead of overflowing; whatever parses fits u32 *)
Theorem C19_lifetime_roundtrip : forall n rest,
  (n <= u32max)%N -> stops is_digit rest -> parse_lifetime (print_lifetime n ++ rest) = Some (n, rest).
Proof. exact parse_print_lifetime. Qed.

Theorem C19_lifetime_no_overflow : forall e rest,
  (32 <= e)%N -> (e <= u32max)%N -> stops is_digit rest -> parse_lifetime (t_pow ++ print_dec e ++ rest) = None.
Proof. exact lifetime_exponent_refused. Qed.

Theorem C19_lifetime_in_range : forall s v r, parse_lifetime s = Some (v, r) -> (v <= u32max)%N.
Proof. exact parse_lifetime_bound. Qed.

(* the media line: every representable m= line (port <= 65535, counts and formats <= 2^32-1, any protocol
   token that does not begin with '/') parses back to itself *)
Theorem C19_media_roundtrip : forall m, media_wf m -> parse_media (print_media m) = Some m.
Proof. exact parse_print_media. Qed.

(* attachment: the dispatcher applied to the lines the printers emit gives back the description -- every
   field, every list in order, every media section with exactly its own lines, for any number of sections *)
Theorem C19_attach : forall s, parse_lines (print_sd s) = Some s.
Proof. exact parse_print_lines. Qed.

(* the text round trip: SessionDescription::parse(to_string(d)) = d whenever the lines d prints are well
   formed (valid field payloads without line breaks, representable media lines, attribute names that do
   not collide with the known ones) *)
Theorem C19_roundtrip : forall valid s,
  Forall (wf_line valid) (print_sd s) -> parse_text valid (print_text s) = Some s.
Proof. exact parse_print_text. Qed.

(* the candidate attribute, one of the field payloads the text theorem takes as a validity predicate: IceCandidate's Display
   followed by IceCandidate::parse (the nom grammar, white space skipped in front of every element, extension pairs classified
   into raddr / rport / unknown) gives back every candidate the API can hold and the line can carry - foundation of 1..32
   ice-chars, numbers in their ranges, non-empty tokens without white space, a related address and a related port independently
   present or absent, any number of further key/value pairs *)
Theorem C19_candidate_roundtrip : forall c, wf_cand c = true -> parse_cand (print_cand c) = Some c.
Proof. exact cand_roundtrip. Qed.

Example C19_candidate_example :
  let c := mkcand (B"5") 1%N (B"UDP") 1694498815%N (B"203.0.113.7") 40000%N (B"srflx") None (Some 50000%N) [(B"generation", B"0")] in
  wf_cand c = true /\ print_cand c = B"candidate:5 1 UDP 1694498815 203.0.113.7 40000 typ srflx rport 50000 generation 0".
Proof. vm_compute. split; reflexivity. Qed.

(* non-vacuity: a session with two media sections, ICE and unknown attributes *)
Example C19_example_roundtrip :
  let m1 := mkmd (mkmedia Audio 49170%N None PSavpf [0; 96]%N) SendOnly (Some (B"IN IP4 192.0.2.1")) [B"AS:64"] None
                 [B"96 opus/48000/2"] [B"96 useinbandfec=1"] (Some (B"abcd")) None [B"1 1 UDP 1 192.0.2.1 9 typ host"] true
                 [B"1 AEAD_AES_128_GCM_8 inline:abcd|2^20"] [mkattr (B"ptime") (Some (B"20")); mkattr (B"rtcp-mux") None] in
  let m2 := mkmd (mkmedia Video 0%N (Some 2%N) (POther (B"RTP/SAVPFX")) []) Inactive None [] None [] [] None None [] false [] [] in
  let s := mksd (B"call") (B"- 1 1 IN IP4 192.0.2.1") (B"0 0") RecvOnly None [] (Some (B"trickle ice2")) true None None
                [mkattr (B"tool") (Some (B"x:y"))] [m1; m2] in
  parse_text (fun _ _ => true) (print_text s) = Some s.
Proof. vm_compute. reflexivity. Qed.

(* what ends a token is ASCII white space: every byte of a non-ASCII character (>= 0x80) is a token byte, so a user name or protocol
   token containing U+00A0 or U+3000 stays one token *)
Theorem C19_ws_guard : sdp_ws_is_ascii = true.
Proof. reflexivity. Qed.

Theorem C19_non_ascii_bytes_are_token_bytes : forall b : byte, (128 <= Byte.to_nat b)%nat -> not_ws b = true.
Proof. exact not_ws_high_byte. Qed.

Theorem C19_non_ascii_bytes_are_not_ascii_space : forall b : byte, (128 <= Byte.to_nat b)%nat -> ascii_ws b = false.
Proof. exact high_bytes_are_token_bytes. Qed.

(* every line reaches the field parsers as it is: a value that ends in a blank keeps it *)
Theorem C19_lines_verbatim_guard : sdp_lines_verbatim = true.
Proof. reflexivity. Qed.

Theorem C19_line_text_unchanged : sdp_lines_verbatim = true -> forall s, line_text s = s.
Proof. exact line_text_here. Qed.

Theorem C19_trimmed_lines_refuted : line_text_form false [x20] = [] /\ line_text_form false ["a"%byte; x20] = ["a"%byte].
Proof. exact trimmed_blank_name. Qed.
