(* Props/C16.v -- property C16: no state is left behind once activity stops; tables are bounded by live objects.
   The statements are about the ownership model shared by the five tables (transactions, dialogs, pending
   cancels, STUN transactions, connections): an entry is inserted only for a new key together with the
   object that owns it, and leaves with that object -- at once when the application drops it, or when the
   background task that took it over reaches its deadline (T4 / 32 s / 64*T1; the deadlines are validated
   against the real tables by the differential runs). *)
From Coq Require Import List Arith NArith Bool.
From EZK Require Import Model.Forms10 Proofs.Forms10 Model.Forms8 Proofs.Forms8 Gen.Tables Model.C16 Proofs.C16.
Import ListNotations.
Open Scope N_scope.

(* the longest time an entry can outlive its object: 64*T1 *)
Theorem C16_longest_timer : tsx_timeout_factor * T1_ms = 32000.
Proof. reflexivity. Qed.

(* every reachable state: one entry per key, one per live object, no task entry past its deadline *)
Theorem C16_accounting : forall ops, inv (run ops).
Proof. exact run_inv. Qed.

(* at any time the table holds exactly its live objects plus the tasks still inside their timers *)
Theorem C16_bounded : forall ops,
  let w := run ops in
  length (tbl w) = (length (handles (tbl w)) + timed_count (tbl w))%nat /\
  (forall e u, In e (tbl w) -> e_owner e = Timed u -> now w < u).
Proof. exact size_bound. Qed.

(* floods: orphan responses, unmatched CANCEL lookups and retransmissions never insert; only a request with
   a new key does, and each operation adds at most one entry *)
Theorem C16_noise_no_growth : forall w k, step w (Noise k) = w.
Proof. exact noise_no_growth. Qed.

Theorem C16_retransmission_no_growth : forall w k h, has_key k (tbl w) = true -> step w (Create k h) = w.
Proof. exact create_existing_no_growth. Qed.

Theorem C16_only_new_requests_grow : forall w o,
  (length (tbl w) < length (tbl (step w o)))%nat -> exists k h, o = Create k h /\ has_key k (tbl w) = false.
Proof. exact only_create_grows. Qed.

(* dropping an object removes its entry at once *)
Theorem C16_drop_removes : forall w h, ~ In h (handles (tbl (step w (Drop h)))).
Proof. exact drop_removes. Qed.

(* quiescence: every object dropped and the clock past every deadline => the table is empty *)
Theorem C16_quiescent_empty : forall w t,
  handles (tbl w) = [] -> (forall e u, In e (tbl w) -> e_owner e = Timed u -> u <= t) ->
  tbl (step w (Advance t)) = [].
Proof. exact quiescent_empty. Qed.

(* non-vacuity: two requests answered by the stack, one held and dropped, a flood in between *)
Example C16_example :
  map (fun ops => size (run ops))
    [ [Create 1 1; Detach 1 32000; Create 2 2; Noise 9; Create 1 7; Noise 1];
      [Create 1 1; Detach 1 32000; Create 2 2; Advance 31999];
      [Create 1 1; Detach 1 32000; Create 2 2; Advance 32000];
      [Create 1 1; Detach 1 32000; Create 2 2; Advance 32000; Drop 2] ] = [2; 2; 1; 0].
Proof. vm_compute. reflexivity. Qed.

(* "requests nobody answers cannot grow state": after a gap is filled the dialog expects the number after the last released request, so a
   peer that goes on in order is never parked; computed from the arriving request instead, every later request would be ahead of the
   expected number and stay in the backlog, with its transaction entry, for as long as the dialog lives *)
Theorem C16_next_cseq_guard : next_cseq_from_last_released = true.
Proof. reflexivity. Qed.

Theorem C16_in_order_peer_never_parked : next_cseq_from_last_released = true ->
  forall arriving k, next_after_release arriving k = (arriving + N.of_nat k + 1)%N.
Proof. exact next_here. Qed.

Theorem C16_next_from_arriving_refuted : forall arriving (k : nat), (0 < k)%nat ->
  (next_after_release_form false arriving k < arriving + N.of_nat k + 1)%N.
Proof. exact next_from_arriving_parks. Qed.

(* the pending-cancel entry of an Acceptor goes with the Acceptor - also after respond_failure, which leaves the state at Cancelled *)
Theorem C16_acceptor_drop_guard : acceptor_drop_always_removes = true.
Proof. reflexivity. Qed.

Theorem C16_acceptor_drop_removes_entry : acceptor_drop_always_removes = true -> forall state_is_cancelled, Forms10.drop_removes state_is_cancelled = true.
Proof. exact Forms10.drop_removes_here. Qed.

Theorem C16_drop_skips_cancelled_refuted : drop_removes_form false true = false.
Proof. exact drop_skips_cancelled. Qed.
