(* Props/C02.v -- property C02: no network input can panic or hang the receive path.
   The theorems cover the index / integer / loop logic of the receive path for EVERY byte string and
   every segmentation; the nom parsers of the typed headers, BytesStr::from_parse containment and the
   tokio runtime are outside the model (C02 is claimed as partial for that residue, which only the
   differential runs exercise). *)
From Coq Require Import List Arith NArith Bool.
From Coq.Strings Require Import Byte.
From EZK Require Import Model.Forms10 Proofs.Forms10 Model.Forms8 Proofs.Forms8 Gen.Tables Lib.Bytes Lib.Num Lib.Utf8 Model.C03 Proofs.C03 Proofs.C03b Model.C02 Proofs.C02 Proofs.C02b Proofs.C02c.
From EZK Require Model.C10 Proofs.C10 Model.C17 Proofs.C17.
Import ListNotations.
Close Scope N_scope.
Open Scope nat_scope.

(* the guards the translator found in the source: the announced body end is computed with
   checked_add, and a message without a usable Via is rejected before via[0] *)
Theorem C02_guards_present : dg_body_end_checked = true /\ base_requires_via = true.
Proof. split; reflexivity. Qed.

(* the line splitter never indexes out of bounds and its loop terminates, at any offset inside any buffer *)
Theorem C02_pull_total : forall input p, p <= length input -> pull_next input p <> PPanic.
Proof. exact pull_next_no_panic. Qed.

(* one datagram, any bytes, debug or release arithmetic: parse_complete_sip returns a message or an
   error -- in particular for every Content-Length up to usize::MAX *)
Theorem C02_datagram_total : forall debug src, datagram_code dg_body_end_checked debug src <> DgPanic.
Proof. exact datagram_code_checked_no_panic. Qed.

(* ... and it frames the datagram exactly as the reference does (head end, body = announced length,
   or the rest of the datagram without a valid Content-Length, error when the body is short) *)
Theorem C02_datagram_framing : forall debug src, (N.of_nat (length src) <= usize_max)%N ->
  datagram_code dg_body_end_checked debug src = datagram_parse src.
Proof. exact datagram_code_checked_eq. Qed.

(* the form without the check panics for a 20-digit Content-Length in both profiles: the guard is
   what the theorem above rests on *)
Theorem C02_unchecked_refuted : forall debug, exists src, datagram_code false debug src = DgPanic.
Proof.
  intros debug.
  exists (B"X" ++ [CR; LF] ++ B"l:18446744073709551615" ++ [CR; LF; CR; LF] ++ B"b").
  destruct debug; vm_compute; reflexivity.
Qed.

(* do_receive never indexes an empty Via list *)
Theorem C02_top_via : forall (V : Type) (vias : list V), top_via base_requires_via vias <> BPanic.
Proof. intros V [|v t]; discriminate. Qed.

(* the socket's receive task survives every sequence of datagrams, and each datagram is handled as
   if it had arrived alone: a bad packet cannot stop the delivery of the traffic that follows it *)
Theorem C02_listener_survives : forall debug packets,
  udp_loop dg_body_end_checked debug packets = (map (handle_packet dg_body_end_checked debug) packets, true).
Proof. exact udp_loop_checked. Qed.

Theorem C02_valid_after_hostile : forall debug hostile valid he body,
  handle_packet dg_body_end_checked debug valid = Delivered he body ->
  exists outs, fst (udp_loop dg_body_end_checked debug (hostile ++ [valid])) = outs ++ [Delivered he body] /\
               ~ In TaskPanic outs.
Proof.
  unfold dg_body_end_checked. intros debug hostile valid he body Hv. rewrite udp_loop_checked. cbn [fst]. rewrite map_app. cbn [map].
  rewrite Hv. eexists; split; [reflexivity|]. rewrite in_map_iff. intros (p & Hp & _).
  revert Hp. apply handle_packet_checked_no_panic.
Qed.

(* the stream path: for every byte stream in every segmentation, with any start-line parser, the
   decoder behind the FramedRead loop never panics and never runs out of fuel (each decode call
   either stops or consumes at least one byte) *)
Theorem C02_stream_total : forall start_ok chunks, ~ In IPanic (run_framed start_ok chunks).
Proof. exact run_framed_no_panic. Qed.

Theorem C02_scan_total : forall fuel src p cl,
  p <= length src -> length src - p < fuel -> scan_lines fuel src p cl <> SPanic.
Proof. exact scan_lines_no_panic. Qed.

(* the second pass of the stream decoder (PullParser again from offset 0 over the split-off frame, then
   Bytes::slice(head_end .. head_end + content_len)): the source slices with the length its first pass saved ... *)
Theorem C02_stream_body_len_saved : stream_body_len_saved = true.
Proof. reflexivity. Qed.

(* ... and then, for every well-formed message (the frames of C03_main), the second pass stops at the same head
   end as the first and the slice is in bounds: it is the message's body *)
Theorem C02_second_pass_in_bounds : forall start_ok m he cl,
  wfm start_ok m he cl -> second_pass stream_body_len_saved m cl = SpOk he (skipn he m).
Proof. exact second_pass_wf. Qed.

(* ... and for EVERY byte stream in every segmentation - hostile ones included - no frame the decoder emits makes the
   second pass slice outside it: along any run the saved (offset, Content-Length) stays a sound summary of the buffer,
   so the second pass finds the head end the frame was cut with, or rejects the frame *)
Theorem C02_stream_second_pass_total : forall start_ok chunks f h c,
  In (IFrame f h c) (run_framed start_ok chunks) -> second_pass stream_body_len_saved f c <> SpPanic.
Proof. intros start_ok chunks f h c Hin. exact (run_framed_second_pass start_ok chunks f h c Hin). Qed.

(* the form that decodes the length again from the parsed headers (first Content-Length) while the frame was
   cut with the sniffed one (last Content-Length) panics: the saved length is what the theorem above rests on *)
Theorem C02_second_pass_unsaved_refuted : exists frame cl,
  scan_lines (S (length frame)) frame 0 0 = SComplete 59 cl /\ head_end frame 59 + N.to_nat cl = length frame /\
  second_pass false frame cl = SpPanic.
Proof.
  exists sp_witness, 0%N. destruct sp_witness_is_a_frame as [H1 H2]. split; [exact H1|]. split; [|exact second_pass_unsaved_panics].
  rewrite H2. vm_compute. reflexivity.
Qed.

(* counters fed by the peer: a CSeq of 2^32-1 keeps the dialog state inside u32 (C10), and no
   Session-Expires value disables or underflows the session timer (C17) *)
Theorem C02_cseq_limit : forall st r, C10.st_ok st -> (C10.r_cseq r <= C10.u32max)%N -> C10.st_ok (fst (C10.step st r)).
Proof. exact Proofs.C10.step_limit. Qed.

Theorem C02_session_timer_defined : forall d f, C17.uac_timer (Some (d, f)) <> None.
Proof. exact Proofs.C17.uac_never_disabled. Qed.

(* non-vacuity: a hostile datagram is an error, a valid one after it is delivered *)
Example C02_example :
  let bad := B"X" ++ [CR; LF] ++ B"l:18446744073709551615" ++ [CR; LF; CR; LF] ++ B"b" in
  let good := B"OPTIONS sip:a SIP/2.0" ++ [CR; LF] ++ B"l: 2" ++ [CR; LF; CR; LF] ++ B"ok" in
  fst (udp_loop true true [bad; ka_req; good]) = [Dropped; KeepAlive; Delivered 31 (B"ok")].
Proof. vm_compute. reflexivity. Qed.

(* transaction dispatch for a request nobody takes: the kind of server transaction for the 481 follows the request line - the method the
   constructors assert on - so no pair (request-line method, CSeq method) makes the receive path panic; chosen by the transaction key
   (CSeq method) a request whose two methods disagree would run into the constructor's assertion *)
Theorem C02_unwanted_kind_guard : unwanted_kind_from_line = true.
Proof. reflexivity. Qed.

Theorem C02_unwanted_dispatch_total : unwanted_kind_from_line = true -> forall line_m cseq_m, unwanted_ok line_m cseq_m = true.
Proof. exact unwanted_ok_here. Qed.

Theorem C02_unwanted_by_key_refuted :
  unwanted_ok_form false ROther RInvite = false /\ unwanted_ok_form false ROther RAck = false /\ unwanted_ok_form false RInvite ROther = false.
Proof. exact unwanted_from_key_panics. Qed.

Example C02_unwanted_wellformed_agree : forall m b, unwanted_ok_form b m m = true.
Proof. exact unwanted_forms_agree_on_wellformed. Qed.

(* the character-class predicates index a fixed table: with the guard "strictly below the table's length" no character - in particular not
   the first one behind the table (U+0080 for the 128-entry tables) - indexes out of bounds; with "<=" exactly that character panics *)
Theorem C02_lookup_guard : lookup_index_guarded = true.
Proof. reflexivity. Qed.

Theorem C02_lookup_total : lookup_index_guarded = true -> forall table c, lookup table c <> None.
Proof. exact lookup_here. Qed.

Theorem C02_lookup_unguarded_refuted : forall table, lookup_form false table (length table) = None.
Proof. exact lookup_unguarded_panics. Qed.
