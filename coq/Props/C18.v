(* Props/C18.v -- property C18: digest credentials verify under RFC 7616 on first use and every reuse *)
From Coq Require Import List NArith Bool.
From EZK Require Import Gen.Tables Lib.Bytes Model.C18 Proofs.C18.
Import ListNotations.
Open Scope N_scope.

(* for every interpretation of the hash functions (the terms are equal symbolically), every algorithm,
   -sess variant, qop, userhash flag, every realm / nonce / user / password / method / URI / body and
   every use n >= 1: the header's response and username equal the RFC 7616 sec. 3.4 formulas with nc = n *)
Theorem C18_response_correct : forall enforce ch c r cnonce n d a q,
  1 <= n -> c_alg ch = Some a -> choose_qop (enforce || c_sess ch) (c_qops ch) = Some q ->
  respond enforce ch c r cnonce n = Some d ->
  d_response d = rfc_response a (c_sess ch) q (cr_user c) (c_realm ch) (cr_pass c) (c_nonce ch)
                              (rq_method r) (rq_uri r) (rq_body r) cnonce n /\
  d_username d = rfc_username a (c_userhash ch) (cr_user c) (c_realm ch) /\
  d_nc d = (match q with QNone => 0 | _ => n end) /\
  d_realm d = c_realm ch /\ d_nonce d = c_nonce ch /\ d_uri d = rq_uri r /\ d_opaque d = c_opaque ch /\
  d_alg d = a /\ d_sess d = c_sess ch /\ d_qop d = q /\ d_userhash d = c_userhash ch.
Proof. exact response_is_rfc. Qed.

Theorem C18_response_defined : forall enforce ch c r cnonce n a q,
  c_alg ch = Some a -> choose_qop (enforce || c_sess ch) (c_qops ch) = Some q ->
  exists d, respond enforce ch c r cnonce n = Some d.
Proof. exact respond_defined. Qed.

Theorem C18_nc_increments : forall enforce ch c r cnonce n d1 d2 q,
  1 <= n -> choose_qop (enforce || c_sess ch) (c_qops ch) = Some q -> q <> QNone ->
  respond enforce ch c r cnonce n = Some d1 -> respond enforce ch c r cnonce (n + 1) = Some d2 ->
  d_nc d2 = d_nc d1 + 1.
Proof. exact nc_increments. Qed.

(* credentials are chosen by realm, the default only when the realm has no entry *)
Theorem C18_credentials_by_realm : forall st realm c,
  store_get realm (fst st) = Some c -> creds_for st realm = Some c.
Proof. exact creds_by_realm. Qed.

Theorem C18_credentials_default : forall st realm,
  store_get realm (fst st) = None -> creds_for st realm = snd st.
Proof. exact creds_default. Qed.

(* the credentials stored for a realm are the ones given last (add_for_realm replaces); other realms and the default are untouched *)
Theorem C18_store_guard : auth_store_add_replaces = true.
Proof. reflexivity. Qed.

Theorem C18_stored_last_wins : forall realm c st,
  auth_store_add_replaces = true -> creds_for (add_for_realm realm c st) realm = Some c.
Proof. exact add_for_realm_chosen. Qed.

Theorem C18_store_other_realms_kept : forall realm realm' c st,
  realm' <> realm -> creds_for (add_for_realm realm c st) realm' = creds_for st realm'.
Proof. exact add_for_realm_others. Qed.

Theorem C18_default_only_without_entry : forall c st realm,
  creds_for (set_default c st) realm = match store_get realm (fst st) with Some x => Some x | None => Some c end.
Proof. exact set_default_spec. Qed.

(* only the first supported challenge of a realm is answered *)
Theorem C18_first_supported_only : forall enforce rej es l p ch,
  first_answerable enforce rej es l = Some (p, ch) ->
  exists pre post, l = pre ++ (p, ch) :: post /\ answerable enforce rej es ch = true /\
                   Forall (fun pc => answerable enforce rej es (snd pc) = false) pre.
Proof. exact first_answerable_spec. Qed.

(* a repeated challenge with an unchanged nonce is reported as failed, the stored answer is kept *)
Theorem C18_repeated_nonce_fails : forall enforce rej st es p ch e c,
  find_entry (c_realm ch) es = Some e -> e_nonce e = c_nonce ch -> creds_for st (c_realm ch) = Some c ->
  handle_authenticate enforce rej st es [(p, ch)] = (es, [c_realm ch]).
Proof. exact repeated_challenge_fails. Qed.

(* header kind and use counting *)
Theorem C18_header_kind : forall es,
  map (fun x => fst (fst x)) (snd (authorize es)) = map e_proxy es /\
  map (fun x => snd x) (snd (authorize es)) = map (fun e => e_uses e + 1) es /\
  map e_uses (fst (authorize es)) = map (fun e => e_uses e + 1) es.
Proof. exact authorize_kinds. Qed.

Theorem C18_answer_records_kind : forall enforce rej st es realm l p ch c t,
  creds_for st realm = Some c -> first_answerable enforce rej es l = Some (p, ch) ->
  handle_groups enforce rej st es ((realm, l) :: t) =
  handle_groups enforce rej st (remove_entry realm es ++ [mke realm (c_nonce ch) p ch c 0]) t.
Proof. exact answered_entry. Qed.

Theorem C18_no_credentials_fails : forall enforce rej st es realm l t,
  creds_for st realm = None ->
  handle_groups enforce rej st es ((realm, l) :: t) =
  (fst (handle_groups enforce rej st es t), realm :: snd (handle_groups enforce rej st es t)).
Proof. exact no_credentials_fails. Qed.
