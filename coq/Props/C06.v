(* Props/C06.v -- property C06: server transactions deliver the final response reliably. Statements only. *)
From Coq Require Import List NArith.
From EZK Require Import Model.Forms10 Proofs.Forms10 Model.Forms8 Proofs.Forms8 Gen.Tables Model.Tsx Proofs.C05 Proofs.C06 Model.C12o Proofs.C12o.
Import ListNotations.
Open Scope N_scope.

(* non-INVITE: the call puts the response on the wire at the call instant, exactly once, and returns;
   reliable: nothing else ever; unreliable: the window is 64*T1 *)
Theorem C06_noninvite_shape : forall tie rel t0 evs,
  server_noninvite tie rel t0 evs =
  Send t0 :: Done t0 :: (if rel then [] else srv_absorb tie (t0 + timeout_ms) evs).
Proof. reflexivity. Qed.

(* one re-send per request retransmission received inside the window, at the instant it arrives *)
Theorem C06_resend_per_retransmission : forall tie until evs,
  Forall (fun p => sbefore tie (fst p) until = true) evs ->
  srv_absorb tie until evs = map (fun p => Send (fst p)) (filter (fun p => is_req (snd p)) evs).
Proof. exact absorb_resends. Qed.

(* after 64*T1 the transaction is gone: nothing is sent for what arrives later *)
Theorem C06_nothing_after_window : forall tie until evs,
  match evs with [] => True | (a, _) :: _ => until < a end -> srv_absorb tie until evs = [].
Proof. exact absorb_after_window. Qed.

(* INVITE 3xx-6xx: first transmission at the call instant *)
Theorem C06_invite_first_send_now : forall tie rel t0 evs,
  exists rest, server_invite_failure tie rel t0 evs = Send t0 :: rest /\ ends_once (t0 + timeout_ms) rest.
Proof. exact server_invite_failure_ends. Qed.

(* timer G / timer H with a silent peer on an unreliable transport: T1 doubling capped at T2,
   TimedOut at 64*T1 *)
Theorem C06_timer_g_schedule : forall tie,
  server_invite_failure tie false 0 [] =
  [Send 0; Send 500; Send 1500; Send 3500; Send 7500; Send 11500; Send 15500; Send 19500;
   Send 23500; Send 27500; Send 31500; TimedOut 32000].
Proof. intros []; vm_compute; reflexivity. Qed.

(* reliable: sent once, never retransmitted; timeout at 64*T1 without ACK *)
Theorem C06_reliable_silent : forall tie, server_invite_failure tie true 0 [] = [Send 0; TimedOut 32000].
Proof. intros []; vm_compute; reflexivity. Qed.

Theorem C06_reliable_never_retransmits : forall tie fuel abandon now g d evs,
  Forall (fun p => snd p <> ReqRetrans) evs ->
  Forall (fun o => is_send o = false) (srv_inv_fail tie fuel true abandon now g d evs).
Proof. exact srv_inv_fail_reliable_no_send. Qed.

(* the ACK is consumed by the transaction and ends the run: nothing is sent afterwards *)
Theorem C06_ack_stops : forall tie fuel (rel : bool) abandon now g d a rest,
  sbefore tie a (if rel then abandon else N.min g abandon) = true ->
  srv_inv_fail tie (S fuel) rel abandon now g d ((a, AckIn) :: rest) = [Done (N.max a now)].
Proof. exact srv_inv_fail_ack_stops. Qed.

(* the loop is bounded by its deadline, not by the model's fuel *)
Theorem C06_terminates : forall tie rel t0 evs, ~ In OutOfFuel (server_invite_failure tie rel t0 evs).
Proof. exact server_invite_failure_no_fuel. Qed.

Example C06_example :
  server_invite_failure true false 100 [(700, ReqRetrans); (9000, AckIn); (9500, ReqRetrans)] =
  [Send 100; Send 600; Send 700; Send 1600; Send 3600; Send 7600; Done 9000].
Proof. vm_compute. reflexivity. Qed.

(* "for all numbers ... of request retransmissions": the queue in front of a transaction is unbounded, so however many
   retransmissions arrive before the application answers, none is refused (a refused one would be shown to the layers as a new
   request); a bounded queue refuses as soon as more arrive than it holds *)
Theorem C06_queue_guard : tsx_queue_unbounded = true.
Proof. reflexivity. Qed.

Theorem C06_no_retransmission_refused : forall n, tsx_queue_unbounded = true -> refused_of tsx_queue_capacity n = 0%nat.
Proof. exact unbounded_refuses_nothing. Qed.

Theorem C06_bounded_queue_refuted : forall c n, (c < n)%nat -> (0 < refused_of (Some c) n)%nat.
Proof. exact bounded_refuses. Qed.

(* "every provisional response is sent once per call": respond_provisional is one transmission and leaves the copies of the INVITE that
   wait in the queue where they are, so the final response still answers each of them; a form that answers the waiting copies with the
   1xx sends it 1 + waiting times and leaves nothing for the final *)
Theorem C06_provisional_guard : provisional_ignores_queue = true.
Proof. reflexivity. Qed.

Theorem C06_provisional_once_per_call : provisional_ignores_queue = true ->
  forall waiting, fst (provisional waiting) = 1%nat /\ final_at_call (snd (provisional waiting)) = (1 + waiting)%nat.
Proof. exact provisional_here. Qed.

Theorem C06_provisional_draining_refuted : forall waiting, (0 < waiting)%nat ->
  fst (provisional_form false waiting) <> 1%nat /\ final_at_call (snd (provisional_form false waiting)) <> (1 + waiting)%nat.
Proof. exact provisional_draining. Qed.

(* "over a reliable transport the response is sent once and never retransmitted" - also when copies of the request are waiting *)
Theorem C06_reliable_guard : nonink_reliable_returns_at_once = true.
Proof. reflexivity. Qed.

Theorem C06_reliable_sent_once : nonink_reliable_returns_at_once = true -> forall waiting, reliable_extra_sends waiting = 0%nat.
Proof. exact reliable_once_here. Qed.

Theorem C06_reliable_absorbing_refuted : forall waiting, reliable_extra_sends_form false waiting = waiting.
Proof. exact reliable_answers_waiting. Qed.
