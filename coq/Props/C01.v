(* Props/C01.v -- property C01: SIP values survive print -> parse unchanged.
   Proved here: the escaping core for ALL byte strings (user names, parameter and header names and values),
   whole-token method classification, the parameter lists and the SIP URI printer/parser in the default
   context; the Table 1 contexts are the same printer applied to the projection.  Hosts are accepted by a
   predicate (Host::parse is not modelled); name-addr and the typed headers are decided by the differential
   runs (C01 is claimed as partial for them).  Whole messages (Model/C01m.v): what Endpoint::send_outgoing_*
   writes for ANY start line, header multimap and body parses back, through the PullParser / Line::parse /
   Content-Length model of C03, to the same start line, the same Headers value and the same body. *)
From Coq Require Import List Arith NArith Bool.
From Coq.Strings Require Import Byte.
From EZK Require Import Gen.Tables Lib.Bytes Lib.Num Lib.Utf8 Model.C01 Proofs.C01 Model.C03 Model.C01m Proofs.C01m Model.C01n Proofs.C01n Model.C01h Proofs.C01h.
Import ListNotations.
Close Scope N_scope.
Open Scope nat_scope.

(* what the translator reads from the source on every run *)
Theorem C01_source_forms :
  sip_encode_set_has_percent = true /\ sip_method_exact = true /\ sip_tag_escaped = true /\ sip_display_quoted_escaped = true /\
  NoDup sip_method_names /\ length sip_method_names = 14.
Proof.
  repeat split; try reflexivity.
  repeat (constructor; [cbn [In]; intuition discriminate|]). constructor.
Qed.

(* escaping: decode (encode s) = s for every byte string -- a literal percent sign, at sign, semicolon, question mark, double quote, blanks and every
   non-ASCII byte included -- for the three (class, set) pairs the source derives *)
Theorem C01_escape_user : forall s, pct_decode (pct_encode user_keep s) = s.
Proof. intros s. apply decode_encode. apply keep_of_pct. reflexivity. Qed.

Theorem C01_escape_param : forall s, pct_decode (pct_encode param_keep s) = s.
Proof. intros s. apply decode_encode. apply keep_of_pct. reflexivity. Qed.

Theorem C01_escape_header : forall s, pct_decode (pct_encode header_keep s) = s.
Proof. intros s. apply decode_encode. apply keep_of_pct. reflexivity. Qed.

(* ... and what the encoder writes is accepted, to the last byte, by the parser's character class *)
Theorem C01_escape_accepted :
  (forall s, forallb (cls sip_user_class) (pct_encode user_keep s) = true) /\
  (forall s, forallb (cls sip_param_class) (pct_encode param_keep s) = true) /\
  (forall s, forallb (cls sip_header_class) (pct_encode header_keep s) = true).
Proof.
  split; [apply user_keep_facts|]. split; [apply (ok_enc _ _ _ _ param_class_ok)|apply (ok_enc _ _ _ _ header_class_ok)].
Qed.

(* the guard is necessary: a set that keeps '%' raw breaks the round trip on a%41b *)
Theorem C01_percent_needed : forall keep,
  keep pct = true -> keep "a"%byte = true -> keep "4"%byte = true -> keep "1"%byte = true -> keep "b"%byte = true ->
  pct_decode (pct_encode keep a_pct_41_b) <> a_pct_41_b.
Proof. exact decode_encode_refuted. Qed.

(* methods: a token is one of the well-known methods only when it equals the name; every token prints back *)
Theorem C01_method_exact : forall tok i, method_of tok = MKnown i -> tok = nth i sip_method_names [].
Proof. exact method_known_exact. Qed.

Theorem C01_method_roundtrip : forall tok, method_name (method_of tok) = tok.
Proof. exact method_name_of. Qed.

Theorem C01_method_parse_print : forall tok rest,
  tok <> [] -> forallb is_token_char tok = true -> stops is_token_char rest ->
  method_parse (method_name (method_of tok) ++ rest) = Some (method_of tok, rest).
Proof. exact method_parse_print. Qed.

Theorem C01_method_parse_whole_token : forall s m rest,
  method_parse s = Some (m, rest) ->
  exists tok, s = tok ++ rest /\ tok <> [] /\ forallb is_token_char tok = true /\ stops is_token_char rest /\ m = method_of tok.
Proof. exact method_parse_whole. Qed.

Example C01_example_method_parse :
  method_parse (B"INVITE.v2 sip:bob@example.org SIP/2.0") = Some (MOther (B"INVITE.v2"), B" sip:bob@example.org SIP/2.0") /\
  method_parse (B"X-PING") = Some (MOther (B"X-PING"), []) /\ method_parse (B"BYE\r") = Some (MKnown 3, B"\r") /\ method_parse (B" BYE") = None.
Proof. vm_compute. repeat split. Qed.

Example C01_example_methods :
  method_of (B"INVITE") = MKnown 0 /\ method_of (B"INVITEX") = MOther (B"INVITEX") /\ method_of (B"invite") = MOther (B"invite") /\
  method_of (B"BYE") = MKnown 3 /\ method_of (B"BYEBYE") = MOther (B"BYEBYE").
Proof. repeat split; vm_compute; reflexivity. Qed.

(* parameter lists: every list of (name, optional value) over all byte strings prints and parses back *)
Theorem C01_uri_params_roundtrip : forall ps rest,
  rest_ok sip_param_class semi rest -> match rest with c :: _ => c <> semi | [] => True end ->
  parse_params sip_param_class semi semi (print_params param_keep semi semi ps ++ rest) = (ps, rest).
Proof. intros. now apply (parse_print_params sip_param_class param_keep semi semi ps rest param_class_ok). Qed.

Theorem C01_header_params_roundtrip : forall ps rest,
  rest_ok sip_header_class amp rest -> match rest with c :: _ => c <> qmark | [] => True end ->
  parse_params sip_header_class qmark amp (print_params header_keep qmark amp ps ++ rest) = (ps, rest).
Proof. intros. now apply (parse_print_params sip_header_class header_keep qmark amp ps rest header_class_ok). Qed.

(* the SIP URI: scheme, user (any bytes), password (password class), host, port, parameters, headers *)
Theorem C01_uri_roundtrip : forall host_len u,
  uri_wf u -> host_ok host_len u -> parse_uri host_len (print_uri_all u) = Some (u, []).
Proof. exact parse_print_uri. Qed.

(* print contexts: printing in a context is printing the Table 1 projection, which is idempotent *)
Theorem C01_context_projection : forall host_len c u,
  uri_wf (project c u) -> host_ok host_len (project c u) ->
  parse_uri host_len (print_uri c u) = Some (project c u, []).
Proof. intros. unfold print_uri. now apply parse_print_uri. Qed.

(* non-vacuity: the probe of the design phase *)
Example C01_example_uri :
  let u := mkuri true (Some a_pct_41_b) None (B"example.org") (Some 5060%N)
                 [mkparam (B"a;b") (Some (B"x=y?")); mkparam (B"lr") None] [mkparam (B"subject") (Some (B"a b&c%"))] in
  print_uri_all u = B"sips:a%2541b@example.org:5060;a%3Bb=x%3Dy%3F;lr?subject=a%20b%26c%25" /\
  parse_uri (fun s => Some 11) (print_uri_all u) = Some (u, []).
Proof. split; vm_compute; reflexivity. Qed.

(* display names of From / To / Contact / Route values: every byte string put between quotes by the printer is read
   back unchanged by parse_quoted_string, whatever follows the closing quote; without the escaping a name that
   contains a quote is not *)
Theorem C01_display_name_roundtrip : forall name rest, parse_display (print_display name ++ rest) = Some (name, rest).
Proof. intros. apply display_roundtrip. reflexivity. Qed.

Theorem C01_display_unescaped_refuted : exists name, unquote (name ++ [dq]) <> Some (name, []).
Proof. exact display_unescaped_refuted. Qed.

Example C01_example_display :
  print_display (B"a" ++ [dq] ++ B"b" ++ [bs]) = [dq] ++ B"a" ++ [bs; dq] ++ B"b" ++ [bs; bs] ++ [dq] /\
  parse_display (print_display (B"a" ++ [dq] ++ B"b" ++ [bs]) ++ B" <sip:x>") = Some (B"a" ++ [dq] ++ B"b" ++ [bs], B" <sip:x>").
Proof. split; vm_compute; reflexivity. Qed.

(* ---------- whole messages ---------- *)
(* header names: Name == Name is equality of a canonical key (table row, or the lower-cased spelling of an
   unknown name); every table row is what Name::from_bytes makes of its own print string *)
Theorem C01_header_name_equality : forall a b, name_wf a -> name_wf b -> (hname_eqb a b = true <-> key a = key b).
Proof. exact eqb_key. Qed.

Theorem C01_header_name_roundtrip : forall i, i < n_names -> hname_of (hname_print (HKnown i)) = HKnown i.
Proof. exact known_name_wf. Qed.

Theorem C01_send_replaces_content_length : sip_send_replaces_content_length = true.
Proof. reflexivity. Qed.

(* the message: for every start line without CR/LF (UTF-8, not empty), every Headers value whose names are
   tokens and whose values contain no CR/LF, do not begin with white space and are UTF-8, and every body that
   fits a usize, the bytes put on the wire parse back to the same start line, the Headers value that was sent
   (the application's Content-Length replaced by the body size) and the same body *)
Theorem C01_message_roundtrip : forall line es body,
  line_ok line -> headers_ok es -> (N.of_nat (length body) <= usize_max)%N ->
  parse_message (encode_message line es body) = Some (line, sent_headers es body, body).
Proof. intros. now apply message_roundtrip. Qed.

(* per header name the ordered list of values is the one the application stored; Content-Length is the body size *)
Theorem C01_message_values : forall es body n,
  headers_ok es -> name_wf n -> key n <> key cl_name -> h_values n (sent_headers es body) = h_values n es.
Proof. intros. now apply sent_values. Qed.

Theorem C01_message_values_stored : forall n vs es,
  headers_ok es -> In (n, vs) es -> h_values n es = vs.
Proof.
  intros n vs es (Hok & Hnd) Hin. apply values_in; auto using entry_ok_wf.
  rewrite Forall_forall in Hok. exact (proj1 (Hok _ Hin)).
Qed.

Theorem C01_message_content_length : forall es body,
  headers_ok es -> h_values cl_name (sent_headers es body) = [print_dec (N.of_nat (length body))].
Proof. intros. now apply sent_content_length. Qed.

(* non-vacuity: two Via values, a compact spelling folded into its name, an unknown name, an application
   Content-Length that is replaced, a body with CRLFCRLF and header-like text *)
Definition ex_headers : list entry :=
  [(hname_of (B"v"), [B"SIP/2.0/UDP a.example.org;branch=z9hG4bK1"; B"SIP/2.0/UDP b.example.org"]);
   (hname_of (B"From"), [B"<sip:a@example.org>;tag=1"]);
   (hname_of (B"X-Custom"), [B"x y"; B""]);
   (hname_of (B"l"), [B"999"])].
Definition ex_body : bytes := B"v=0" ++ [CR; LF; CR; LF] ++ B"Content-Length: 7".

Example C01_example_message :
  line_ok (B"OPTIONS sip:b@example.org SIP/2.0") /\ headers_ok ex_headers /\
  h_values (hname_of (B"VIA")) (sent_headers ex_headers ex_body) = [B"SIP/2.0/UDP a.example.org;branch=z9hG4bK1"; B"SIP/2.0/UDP b.example.org"] /\
  h_values (hname_of (B"content-length")) (sent_headers ex_headers ex_body) = [B"24"] /\
  parse_message (encode_message (B"OPTIONS sip:b@example.org SIP/2.0") ex_headers ex_body)
  = Some (B"OPTIONS sip:b@example.org SIP/2.0", sent_headers ex_headers ex_body, ex_body).
Proof.
  split; [repeat split; try (vm_compute; reflexivity); discriminate|].
  split; [|repeat split; vm_compute; reflexivity].
  split.
  - repeat constructor; try (vm_compute; reflexivity); try discriminate.
  - vm_compute. repeat constructor; cbn; intuition discriminate.
Qed.

(* IPv4 literals: every address a.b.c.d (all 2^32 of them), printed the way Ipv4Addr prints it and followed by anything that is not
   a digit (a port, a parameter, the end), is taken by the IPv4 alternative of Host::parse with exactly these four octets - never
   left to the host name rule *)
Theorem C01_ip4_literal_roundtrip : forall a b c d rest,
  (a <= 255)%N -> (b <= 255)%N -> (c <= 255)%N -> (d <= 255)%N -> stops is_digit rest ->
  parse_host4 (print_ip4 a b c d ++ rest) = IsIP4 a b c d rest.
Proof. exact ip4_literal_roundtrip. Qed.
