(* Props/C07.v -- property C07: INVITE client: non-2xx finals are ACKed by the transaction, 2xx left to the user *)
From Coq Require Import List NArith.
From EZK Require Import Model.Forms10 Proofs.Forms10 Model.Forms9 Proofs.Forms9 Model.C12o Proofs.C12o Lib.Bytes Gen.Tables Model.Tsx Model.C07 Proofs.C05 Proofs.C07.
Import ListNotations.
Open Scope N_scope.

(* the ACK: method ACK, the INVITE's Request-URI, Via (all of them: the client's own single Via,
   hence its branch), From, Call-ID, CSeq number and Route values; the response's To (incl. tag);
   and no other header *)
Theorem C07_ack_fields : forall inv resp ack,
  create_ack inv resp = Some ack ->
  rq_method ack = ack_method /\
  rq_uri ack = rq_uri inv /\
  rq_cseq ack = rq_cseq inv /\
  values (rq_headers ack) HVia = values (rq_headers inv) HVia /\
  values (rq_headers ack) HFrom = values (rq_headers inv) HFrom /\
  values (rq_headers ack) HTo = values resp HTo /\
  values (rq_headers ack) HCallId = values (rq_headers inv) HCallId /\
  values (rq_headers ack) HRoute = values (rq_headers inv) HRoute /\
  (forall k, values (rq_headers ack) (HOther k) = []).
Proof. exact ack_fields. Qed.

Theorem C07_ack_exists : forall inv resp,
  values (rq_headers inv) HVia <> [] -> values (rq_headers inv) HFrom <> [] ->
  values resp HTo <> [] -> values (rq_headers inv) HCallId <> [] -> rq_cseq inv <> None ->
  exists ack, create_ack inv resp = Some ack.
Proof. exact ack_exists. Qed.

(* a non-2xx final: ACK, the failure reported once, then completion (None) *)
Theorem C07_failure_acked_and_reported_once : forall tie rel t rest,
  inv_final tie rel t Fail rest =
  AckSent t :: Got t Fail :: Done t :: inv_completed tie rel (t + inv_completed_ms) rest.
Proof. exact final_failure_shape. Qed.

(* unreliable: every retransmission of the final received within the 32 s window is ACKed exactly once *)
Theorem C07_ack_per_retransmission : forall tie until arrs,
  Forall (fun p => before tie (fst p) until = true) arrs ->
  inv_completed tie false until arrs = map (fun p => AckSent (fst p)) arrs.
Proof. exact completed_one_ack_each. Qed.

Theorem C07_reliable_no_reack : forall tie until arrs, inv_completed tie true until arrs = [].
Proof. exact completed_reliable_no_ack. Qed.

(* 2xx: no ACK from the transaction; every response up to first-2xx + 64*T1 handed over; then None *)
Theorem C07_2xx_shape : forall tie rel t rest,
  inv_final tie rel t Succ rest = Got t Succ :: inv_accepted tie (t + timeout_ms) t rest.
Proof. exact final_success_shape. Qed.

Theorem C07_2xx_no_ack : forall tie d arrs now,
  Forall (fun o => is_ack o = false) (inv_accepted tie d now arrs).
Proof. exact accepted_no_ack. Qed.

Theorem C07_2xx_all_forwarded : forall tie d arrs now,
  sorted_from now arrs ->
  Forall (fun p => before tie (fst p) d = true) arrs ->
  inv_accepted tie d now arrs = map (fun p => Got (fst p) (snd p)) arrs ++ [Done d].
Proof. exact accepted_hands_over_all. Qed.

Example C07_example :
  let inv := mkrq (B"INVITE") (B"sip:b@h") [(HVia, B"v1"); (HFrom, B"f"); (HTo, B"t"); (HCallId, B"c"); (HRoute, B"r1"); (HRoute, B"r2"); (HOther 1, B"x")] (Some 7) in
  option_map rq_headers (create_ack inv [(HTo, B"t;tag=z"); (HVia, B"v1")]) =
  Some [(HVia, B"v1"); (HFrom, B"f"); (HTo, B"t;tag=z"); (HCallId, B"c"); (HRoute, B"r1"); (HRoute, B"r2")].
Proof. vm_compute. reflexivity. Qed.

(* "hands every 2xx (forks and retransmissions) to the caller ... each retransmission received ... sends one ACK" - any number of them:
   the queue in front of the transaction is unbounded, so a burst of answers that is in before the caller looks again loses nothing; a
   bounded queue filled with try_send drops what exceeds it (as orphaned responses) *)
Theorem C07_queue_guard : tsx_queue_unbounded = true.
Proof. reflexivity. Qed.

Theorem C07_no_answer_of_a_burst_refused : forall n, tsx_queue_unbounded = true -> refused_of tsx_queue_capacity n = 0%nat.
Proof. exact unbounded_refuses_nothing. Qed.

Theorem C07_bounded_inbox_refuted : forall c n, (c < n)%nat -> (0 < refused_of (Some c) n)%nat.
Proof. exact bounded_refuses. Qed.

(* "top Via ... equal the INVITE's": the ACK's Via is a copy of the INVITE's - also when the INVITE went out with a rewritten sent-by *)
Theorem C07_ack_via_guard : ack_via_cloned = true.
Proof. reflexivity. Qed.

Theorem C07_ack_via_is_the_invites : ack_via_cloned = true -> forall (A : Type) (invite_via from_transport : A), ack_via invite_via from_transport = invite_via.
Proof. exact ack_via_here. Qed.

Theorem C07_ack_via_rebuilt_refuted : forall (A : Type) (invite_via from_transport : A), invite_via <> from_transport -> ack_via_form false invite_via from_transport <> invite_via.
Proof. exact ack_via_rebuilt. Qed.

(* "for every 3xx-6xx final response": every final that is not a 2xx - 6xx and codes beyond 699 included - takes the ACK arm *)
Theorem C07_non2xx_arm_guard : non2xx_arm_catches_all = true.
Proof. reflexivity. Qed.

Theorem C07_every_non2xx_final_acked : non2xx_arm_catches_all = true -> forall c, c <> F2 -> acked c = true.
Proof. exact acked_here. Qed.

Theorem C07_listed_classes_refuted : acked_form false F6 = false /\ acked_form false FExt = false.
Proof. exact acked_listed_misses_6xx. Qed.
