(* Props/C20.v -- property C20: the STUN codec agrees with RFC 8489; demultiplexing and client retries are sound.
   HMAC is a parameter of the statements (any function whose output has the digest length); CRC-32 is the
   model's own bitwise computation.  The RFC encoder [rfc_encode] is the specification: header, then each
   attribute as type / length / value / zero padding to four bytes, a computed attribute covering the
   header (length field pointing to the end of that attribute) and everything before it. *)
From Coq Require Import List Arith NArith Bool.
From Coq.Strings Require Import Byte.
From EZK Require Import Model.Forms10 Proofs.Forms10 Model.Forms9 Proofs.Forms9 Model.Forms8 Proofs.Forms8 Gen.Tables Lib.Bytes Model.C20 Proofs.C20 Model.C20p.
Import ListNotations.
Close Scope N_scope.
Open Scope nat_scope.

(* constants and forms the translator reads from the source on every run *)
Theorem C20_constants :
  stun_cookie = cookie /\ stun_addr4_len = 8%N /\ stun_addr6_len = 20%N /\ stun_addr_network_order = true /\
  stun_crc_poly = crc_poly /\ stun_fp_xor = fp_xor /\ stun_fp_excludes_own_header = true /\
  stun_attempts = 7%N /\ stun_initial_ms = 500%N /\ stun_trim_only_variable = true.
Proof. repeat split; reflexivity. Qed.

(* address attributes: decode (encode a) = a for every address, port and transaction id, plain and XORed *)
Theorem C20_addr_roundtrip : forall (xor : bool) (tsx : N) (v4 : bool) (ip port : N),
  (port < 65536)%N -> (tsx < 2 ^ 96)%N -> (ip < (if v4 then 2 ^ 32 else 2 ^ 128))%N ->
  dec_addr xor tsx (enc_addr xor tsx v4 ip port) = Some (v4, ip, port).
Proof. exact addr_roundtrip. Qed.

Section WithHmac.
  Variable hmac : N -> bytes -> bytes -> bytes.
  Hypothesis hmac_length : forall alg key m, length (hmac alg key m) = hmac_len alg.

  (* the builder in RFC length mode, which patches the header length before every attribute, produces
     exactly the one-pass RFC encoding -- for every class, transaction id and attribute list that fits *)
  Theorem C20_builder_is_rfc : forall c tsx attrs,
    length (rfc_body hmac (msg_type c) tsx [] attrs) <= 65535 ->
    build hmac false c tsx attrs = Some (rfc_encode hmac c tsx attrs).
  Proof. exact (build_is_rfc hmac hmac_length). Qed.

  (* every RFC-encoded message parses back to its class, transaction id and attribute sequence ... *)
  Theorem C20_parse_encode : forall c tsx attrs,
    (tsx < 2 ^ 96)%N ->
    (forall a, In a attrs -> (attr_typ a < 65536)%N /\ (N.of_nat (attr_len a) < 65536)%N) ->
    parse (rfc_encode hmac c tsx attrs) =
    Some (mkparsed c tsx (positions 20 (rfc_vals hmac (msg_type c) tsx [] attrs))).
  Proof. exact (parse_rfc_encode hmac hmac_length). Qed.

  (* ... and the positions delimit exactly the values that were written *)
  Theorem C20_positions_values : forall vals pre post,
    map (fun p => (p_typ p, slice (pre ++ encode_vals vals ++ post) (p_begin p) (p_end p))) (positions (length pre) vals) = vals.
  Proof. exact positions_values. Qed.

  (* the attribute walk never leaves the buffer: get_value / get_trimmed_value cannot slice out of range *)
  Theorem C20_parse_total : forall fuel buf pos attrs a,
    parse_attrs fuel buf pos = Some attrs -> In a attrs ->
    p_begin a <= p_trim a /\ p_trim a <= p_end a /\ p_end a <= p_padend a /\ p_padend a <= length buf.
  Proof. exact parse_attrs_bounds. Qed.

  (* integrity: what the encoder writes verifies under the same key, wherever the attribute stands;
     verification is equality with the HMAC of the prefix with the patched length *)
  Theorem C20_integrity_verifies : forall c tsx before alg key after,
    let typ := msg_type c in
    let done := rfc_body hmac typ tsx [] before in
    let buf := rfc_encode hmac c tsx (before ++ BInteg alg key :: after) in
    let vb := 20 + length done + 4 in
    (N.of_nat (length done + 4 + hmac_len alg + pad4 (hmac_len alg)) < 65536)%N ->
    verify_integrity hmac alg key buf
      (mkpa (integ_type alg) vb (vb + hmac_len alg) (vb + hmac_len alg) (vb + hmac_len alg + pad4 (hmac_len alg))) = true.
  Proof. exact (integrity_verifies hmac hmac_length). Qed.

  Theorem C20_integrity_functional : forall alg key buf a,
    verify_integrity hmac alg key buf a = true <->
    hmac alg key (firstn (p_begin a - 4) (be 2 (of_be (slice buf 0 2)) ++ be 2 (N.of_nat (p_padend a - 20)) ++ skipn 4 buf))
    = slice buf (p_begin a) (p_end a).
  Proof. exact (integrity_functional hmac). Qed.

  (* fingerprint: what the encoder writes last verifies *)
  Theorem C20_fingerprint_verifies : forall c tsx before,
    let typ := msg_type c in
    let done := rfc_body hmac typ tsx [] before in
    let buf := rfc_encode hmac c tsx (before ++ [BFinger]) in
    let vb := 20 + length done + 4 in
    verify_fingerprint buf (mkpa finger_type vb (vb + 4) (vb + 4) (vb + 4)) = true.
  Proof. exact (fingerprint_verifies hmac). Qed.
End WithHmac.

(* demultiplexing: what is_stun_message accepts starts with two zero bits and carries the magic cookie in
   bytes 4..7 -- 0x12 0xA4 there is not valid UTF-8 inside a SIP start line (the differential runs feed the SIP
   corpus and STUN samples through both classifiers) *)
Theorem C20_is_stun_shape : forall b r, is_stun b = YesStun r ->
  20 <= length b /\ (of_be (firstn 1 b) < 64)%N /\ of_be (firstn 4 (skipn 4 b)) = cookie /\
  length b = N.to_nat (of_be (firstn 2 (skipn 2 b))) + 20 + r.
Proof. exact is_stun_yes_cookie. Qed.

(* the client: at most 7 transmissions at 0, .5, 1.5, 3.5, 7.5, 15.5, 31.5 s, giving up at 63.5 s; a
   response ends the loop at once *)
Theorem C20_client_schedule : client_run None = ([0; 500; 1500; 3500; 7500; 15500; 31500]%N, false, 63500%N).
Proof. exact client_no_response. Qed.

Theorem C20_client_response : forall r, (r < 63500)%N ->
  client_run (Some r) = (filter (fun t => (t <=? r)%N) [0; 500; 1500; 3500; 7500; 15500; 31500]%N, true, r).
Proof. exact client_response. Qed.

(* non-vacuity: RFC 5769-style sample -- XOR-MAPPED-ADDRESS 192.0.2.66:32853 is e112a600 / a147 on the wire *)
Example C20_example_xor_mapped :
  enc_addr true 0 true 3221226050 32853 = [x00; x01; xa1; x47; xe1; x12; xa6; x00] /\
  dec_addr true 0 [x00; x01; xa1; x47; xe1; x12; xa6; x00] = Some (true, 3221226050%N, 32853%N).
Proof. split; vm_compute; reflexivity. Qed.

(* "no transaction entry outlives the call": the entry is removed by a scope guard, so it is gone however the call ends - answered,
   timed out, refused by the transport, or dropped by the caller *)
Theorem C20_cleanup_guard : stun_cleanup_by_guard = true.
Proof. reflexivity. Qed.

Theorem C20_no_entry_outlives_the_call : stun_cleanup_by_guard = true -> forall e, pending_after e = 0%nat.
Proof. intros G e. unfold pending_after. rewrite G. now destruct e. Qed.

(* demultiplexing: a datagram that is exactly the 20-byte header is long enough to be looked at (a Binding request or indication
   without attributes is a complete message); demanding more than the header would send it to the SIP parser *)
Theorem C20_header_len_guard : stun_header_len = 20%N /\ stun_header_len_suffices = true.
Proof. split; reflexivity. Qed.

Theorem C20_header_only_long_enough : stun_header_len_suffices = true -> forall n, long_enough n = true <-> (stun_header_len <= n)%N.
Proof. exact long_enough_iff. Qed.

Theorem C20_header_only_too_short_refuted : long_enough_form false stun_header_len = false.
Proof. exact header_too_short_otherwise. Qed.

(* "integrity ... checks accept exactly the untampered messages": the attribute value must BE the digest - same length, same bytes; a
   comparison that zips the two accepts the empty value and every prefix of the digest *)
Theorem C20_integrity_compare_guard : integrity_compares_whole_value = true.
Proof. reflexivity. Qed.

Theorem C20_integrity_value_is_the_digest : integrity_compares_whole_value = true -> forall digest value, digest_matches digest value = true <-> digest = value.
Proof. exact digest_here. Qed.

Theorem C20_zip_compare_refuted : forall digest k, digest_matches_form false digest (firstn k digest) = true.
Proof. exact zip_accepts_prefix. Qed.

(* behind an integrity attribute MESSAGE-INTEGRITY-SHA256 and FINGERPRINT stay visible (RFC 8489 order MI, MI-SHA256, FP), nothing else *)
Theorem C20_after_integrity_guard : sha256_visible_after_integrity = true.
Proof. reflexivity. Qed.

Theorem C20_sha256_and_fingerprint_visible : sha256_visible_after_integrity = true ->
  visible_after_integrity TIntegritySha256 = true /\ visible_after_integrity TFingerprint = true /\ visible_after_integrity TOtherAttr = false.
Proof. exact visible_here. Qed.

Theorem C20_sha256_hidden_refuted : visible_after_integrity_form false TIntegritySha256 = false.
Proof. exact sha256_hidden_otherwise. Qed.

(* "its response is matched by transaction id": the id is in the table before the first transmission is handed to the transport, so a
   response that arrives while that send is still in progress (a transport whose send future yields) finds the request *)
Theorem C20_registered_before_send_guard : stun_tsx_registered_before_send = true.
Proof. reflexivity. Qed.

Theorem C20_response_matched_from_the_start : stun_tsx_registered_before_send = true ->
  forall first_send_done resp_at, response_matched first_send_done resp_at = true.
Proof. exact response_matched_here. Qed.

Theorem C20_registered_after_send_refuted : forall first_send_done resp_at, (resp_at < first_send_done)%N ->
  response_matched_form false first_send_done resp_at = false.
Proof. exact response_during_send_unmatched. Qed.
