(* Props/C03.v -- property C03: stream framing is independent of how TCP/TLS segments the bytes.
   C03_main (at the end): a stream made of well-formed messages and CR/LF keep-alives is framed into exactly
   those messages, in order, for EVERY segmentation.  The ingredients: the line splitter and the decoder's
   head scan are total, decide on inspected bytes only, and the state saved at an incomplete head -- line
   offset AND the Content-Length seen so far -- is a sound summary of the scanned prefix on every
   extension of the buffer. *)
From Coq Require Import List Arith NArith Bool Lia.
From EZK Require Import Model.Forms9 Proofs.Forms9 Gen.Tables Lib.Bytes Lib.Num Lib.Utf8 Model.C03 Proofs.C03 Proofs.C03b.
Import ListNotations.
Close Scope N_scope.
Open Scope nat_scope.

(* the splitter never indexes out of bounds and its loop terminates (also C02) *)
Theorem C03_pull_total : forall input p, p <= length input -> pull_next input p <> PPanic.
Proof. exact pull_next_no_panic. Qed.

(* a line / end of head found in a buffer is found identically in every extension: decisions depend
   on inspected bytes only, so a proper prefix can never yield a different line structure *)
Theorem C03_pull_extension : forall input p e r,
  pull_next input p = r -> r <> Incomplete -> r <> PPanic -> pull_next (input ++ e) p = r.
Proof. exact pull_next_ext. Qed.

Theorem C03_line_progress : forall input p lo hi next,
  pull_next input p = Line lo hi next -> lo = p /\ p < hi /\ hi <= next /\ next <= length input.
Proof. exact pull_next_line_bounds. Qed.

(* the head scan is total *)
Theorem C03_scan_total : forall fuel src p cl,
  p <= length src -> length src - p < fuel -> scan_lines fuel src p cl <> SPanic.
Proof. exact scan_lines_no_panic. Qed.

(* C03_resume: whatever is appended, scanning the longer buffer from the state saved at the incomplete
   head (offset p' and content length cl') equals scanning it from where the first scan started --
   the saved Content-Length is part of the state *)
Theorem C03_resume : forall fuel src p cl p' cl' e,
  scan_lines fuel src p cl = SIncomplete p' cl' ->
  scan_lines fuel (src ++ e) p cl = scan_lines fuel (src ++ e) p' cl' \/
  exists f2, f2 <= fuel /\ scan_lines fuel (src ++ e) p cl = scan_lines f2 (src ++ e) p' cl'.
Proof. exact scan_lines_resume. Qed.

Theorem C03_fuel_irrelevant : forall fuel fuel' src p cl,
  scan_lines fuel src p cl <> SPanic -> fuel <= fuel' -> scan_lines fuel' src p cl = scan_lines fuel src p cl.
Proof. intros. now apply scan_lines_fuel. Qed.

(* a complete head (and an error inside it) is stable under extension: later bytes -- body, the next
   message, keep-alives -- never change where the head ends nor the body length it announces *)
Theorem C03_complete_head_stable : forall fuel src p cl e r,
  scan_lines fuel src p cl = r -> (exists q c, r = SComplete q c) \/ (exists x, r = SErr x) ->
  scan_lines fuel (src ++ e) p cl = r.
Proof. exact scan_lines_complete_ext. Qed.

(* only Content-Length / l (any case, blanks before the colon) sets the body length *)
Theorem C03_only_content_length : forall name,
  is_content_length name = true <->
  (bytes_eqb_nocase (rstrip_lws name) s_content_length = true \/ bytes_eqb_nocase (rstrip_lws name) s_l = true).
Proof. intros. unfold is_content_length. now rewrite orb_true_iff. Qed.

Example C03_example_names :
  map is_content_length [B"Content-Length"; B"content-length  "; B"L"; B"l"; B"Language"; B"l-custom"; B"Label"; B"Content-Lengt"]
  = [true; true; true; true; false; false; false; false].
Proof. vm_compute. reflexivity. Qed.

(* ---------- the property itself ---------- *)
(* A message is well formed for the decoder (wfm m he cl) when it does not begin with CR/LF, its first [he]
   bytes scan as a complete head announcing [cl] body bytes with he <= 4096, its length is he + cl, every
   head line is UTF-8 and the start line parses.  A stream is keep-alives, then messages each followed by
   keep-alives.  Whatever the chunks are, as long as they concatenate to the stream, the FramedRead loop
   yields exactly the messages (frame = the message's bytes, head length, body length), no error, nothing
   else. *)
Theorem C03_main : forall start_ok ka0 ms chunks,
  wf_all start_ok ms -> all_nl ka0 -> concat chunks = stream ka0 ms ->
  run_framed start_ok chunks = map frame_of ms.
Proof. exact framing_independent_of_segmentation. Qed.

(* in particular every segmentation gives what the unsegmented stream gives *)
Theorem C03_segmentation_independent : forall start_ok ka0 ms chunks,
  wf_all start_ok ms -> all_nl ka0 -> concat chunks = stream ka0 ms ->
  run_framed start_ok chunks = run_framed start_ok [stream ka0 ms].
Proof.
  intros start_ok ka0 ms chunks Hwf Hka Hc.
  rewrite (framing_independent_of_segmentation start_ok ka0 ms chunks Hwf Hka Hc).
  symmetry. apply (framing_independent_of_segmentation start_ok ka0 ms [stream ka0 ms] Hwf Hka).
  cbn [concat]. apply app_nil_r.
Qed.

(* non-vacuity: a request with a body and a response without are well formed *)
Example C03_example_wf :
  let m1 := B"OPTIONS sip:a SIP/2.0" ++ [CR; LF] ++ B"Content-Length: 4" ++ [CR; LF] ++ B"Via: x" ++ [CR; LF; CR; LF] ++ B"body" in
  let m2 := B"SIP/2.0 200 OK" ++ [CR; LF] ++ B"l: 0" ++ [CR; LF; CR; LF] in
  wfm (fun _ => true) m1 52 4 /\ wfm (fun _ => true) m2 24 0.
Proof.
  split.
  - apply mk_wfm.
    + vm_compute. reflexivity.
    + split; [vm_compute; lia|vm_compute; discriminate].
    + eexists. split; vm_compute; reflexivity.
    + vm_compute. reflexivity.
    + split; vm_compute; reflexivity.
  - apply mk_wfm.
    + vm_compute. reflexivity.
    + split; [vm_compute; lia|vm_compute; discriminate].
    + eexists. split; vm_compute; reflexivity.
    + vm_compute. reflexivity.
    + split; vm_compute; reflexivity.
Qed.

(* an end-to-end instance: two messages, a keep-alive, cut in the middle of the first body and
   right after the Content-Length line, give the same frames as the unsegmented stream *)
Example C03_example_segmentation :
  let m1 := B"OPTIONS sip:a SIP/2.0" ++ [CR; LF] ++ B"Content-Length: 4" ++ [CR; LF] ++ B"Via: x" ++ [CR; LF; CR; LF] ++ B"body" in
  let m2 := B"SIP/2.0 200 OK" ++ [CR; LF] ++ B"l: 0" ++ [CR; LF; CR; LF] in
  let s := m1 ++ [CR; LF] ++ m2 in
  run_framed (fun _ => true) [firstn 42 s; firstn 10 (skipn 42 s); skipn 52 s] = run_framed (fun _ => true) [s] /\
  length (run_framed (fun _ => true) [s]) = 2.
Proof. vm_compute. split; reflexivity. Qed.

(* "heads are at most 4096 bytes": a complete head of exactly the limit is accepted, only a longer one is refused *)
Theorem C03_head_limit_guard : Tables.head_limit_inclusive = true.
Proof. reflexivity. Qed.

Theorem C03_head_of_the_limit_accepted : Tables.head_limit_inclusive = true -> forall limit n, head_accepted limit n = true <-> (n <= limit)%nat.
Proof. exact head_here. Qed.

Theorem C03_head_limit_exclusive_refuted : forall limit, head_accepted_form false limit limit = false.
Proof. exact head_at_limit_refused_otherwise. Qed.
