(* Model/C01m.v -- whole messages: header names (header_names! table, Name::from_bytes, Name == Name),
   the Headers multimap (insert / remove / iter / Display), Endpoint::send_outgoing_{request,response}
   (Content-Length replaced by the body size, start line CRLF headers CRLF body) and the way back through
   parse_complete_sip (Model/C03: PullParser, Line::parse, Content-Length framing) into Headers again.
   The start line is a byte string here (its own grammar is Model/C01's subject).  Definitions only. *)
From Coq Require Import List Arith NArith Bool.
From Coq.Strings Require Import Byte.
From EZK Require Import Gen.Tables Lib.Bytes Lib.Num Lib.Utf8 Model.C03.
Import ListNotations.
Close Scope N_scope.
Open Scope nat_scope.

(* ---------- header names ---------- *)
Inductive hname := HKnown (i : nat) | HUnknown (b : bytes).

Definition hn_entry (i : nat) : bytes * list bytes := nth i sip_header_names ([], []).

Fixpoint find_entry (s : bytes) (l : list (bytes * list bytes)) (i : nat) : option nat :=
  match l with
  | [] => None
  | e :: r => if existsb (fun p => bytes_eqb_nocase p s) (snd e) then Some i else find_entry s r (S i)
  end.

(* Name::from_bytes: the first table row one of whose parse strings equals the input ignoring ASCII case *)
Definition hname_of (s : bytes) : hname :=
  match find_entry s sip_header_names 0 with Some i => HKnown i | None => HUnknown s end.

(* Name::as_print_str / as_parse_strs *)
Definition hname_print (n : hname) : bytes := match n with HKnown i => fst (hn_entry i) | HUnknown b => b end.
Definition hname_parse (n : hname) : list bytes := match n with HKnown i => snd (hn_entry i) | HUnknown _ => [] end.

(* impl PartialEq<str> for Name *)
Definition hname_eq_str (n : hname) (s : bytes) : bool :=
  bytes_eqb_nocase (hname_print n) s || existsb (fun p => bytes_eqb_nocase p s) (hname_parse n).

(* impl PartialEq for Name:  a == b *)
Definition hname_eqb (a b : hname) : bool :=
  hname_eq_str a (hname_print b) || existsb (hname_eq_str a) (hname_parse b).

(* ---------- Headers ---------- *)
Definition entry := (hname * list bytes)%type.

(* Headers::insert: entry_mut finds the first entry with entry.name == name *)
Fixpoint h_insert (n : hname) (v : bytes) (es : list entry) : list entry :=
  match es with
  | [] => [(n, [v])]
  | (m, vs) :: r => if hname_eqb m n then (m, vs ++ [v]) :: r else (m, vs) :: h_insert n v r
  end.

(* Headers::remove: the first entry with name == entry.name *)
Fixpoint h_remove (n : hname) (es : list entry) : list entry :=
  match es with
  | [] => []
  | (m, vs) :: r => if hname_eqb n m then r else (m, vs) :: h_remove n r
  end.

(* Headers::iter *)
Definition h_iter (es : list entry) : list (hname * bytes) := flat_map (fun e => map (pair (fst e)) (snd e)) es.

(* the values stored under a name, in order (what get / get_named decode) *)
Fixpoint h_values (n : hname) (es : list entry) : list bytes :=
  match es with
  | [] => []
  | (m, vs) :: r => if hname_eqb m n then vs else h_values n r
  end.

Definition crlf : bytes := [CR; LF].
Definition colon_sp : bytes := [":"%byte; SP].

Definition print_header_line (nv : hname * bytes) : bytes := hname_print (fst nv) ++ colon_sp ++ snd nv.

(* impl Display for Headers *)
Definition print_headers (es : list entry) : bytes := flat_map (fun nv => print_header_line nv ++ crlf) (h_iter es).

Definition cl_name : hname := Eval vm_compute in hname_of s_content_length.

(* Endpoint::send_outgoing_request / _response: the headers that go out, and the bytes *)
Definition sent_headers (es : list entry) (body : bytes) : list entry :=
  if sip_send_replaces_content_length
  then h_insert cl_name (print_dec (N.of_nat (length body))) (h_remove cl_name es)
  else es.

Definition encode_message (line : bytes) (es : list entry) (body : bytes) : bytes :=
  line ++ crlf ++ print_headers (sent_headers es body) ++ crlf ++ body.

(* ---------- the way back: parse_complete_sip ---------- *)
Definition headers_of (hs : list (bytes * bytes)) : list entry :=
  fold_left (fun acc nv => h_insert (hname_of (fst nv)) (snd nv) acc) hs [].

Definition parse_message (src : bytes) : option (bytes * list entry * bytes) :=
  match collect_headers (S (length src)) src 0 true [] with
  | None => None
  | Some (_, hs) =>
    match datagram_parse src with
    | DgOk _ body => Some (first_line src, headers_of hs, body)
    | _ => None
    end
  end.
