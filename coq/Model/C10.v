(* Model/C10.v -- executable model of crates/sip-ua/src/dialog/{layer,key}.rs
   (DialogLayer::receive: CSeq ordering with backlog; DialogKey::from_incoming; usage guard).
   Definitions only; proofs are in Proofs/C10.v. *)
From Coq Require Import List Arith NArith Bool.
From EZK Require Import Gen.Tables Lib.Bytes.
Import ListNotations.
Open Scope N_scope.

Definition u32max : N := 4294967295.
(* u32::saturating_add(1) *)
Definition sat_succ (n : N) : N := if n <? u32max then n + 1 else u32max.

(* An incoming in-dialog request as the layer sees it: CSeq number, an identity (the harness
   uses the Via branch), and whether the method is ACK (only affects logging in the code). *)
Record req := mkreq { r_cseq : N; r_id : N; r_ack : bool }.

(* BTreeMap<u32, IncomingRequest>: association list with unique keys (insert replaces) *)
Definition blog := list (N * N).   (* cseq -> request id *)

Fixpoint bl_lookup (k : N) (bl : blog) : option N :=
  match bl with
  | [] => None
  | (k', v) :: r => if k' =? k then Some v else bl_lookup k r
  end.

Fixpoint bl_remove (k : N) (bl : blog) : blog :=
  match bl with
  | [] => []
  | (k', v) :: r => if k' =? k then bl_remove k r else (k', v) :: bl_remove k r
  end.

Definition bl_insert (k v : N) (bl : blog) : blog := (k, v) :: bl_remove k bl.

Record dstate := mkd { next : option N; backlog : blog }.

(* while let Some(next_cseq) = last_cseq.checked_add(1) { if let Some(m) = backlog.remove(&next_cseq) {..} else break }
   fuel: every iteration that continues removes one backlog entry, so [length backlog] iterations suffice
   (Proofs/C10.v: drain_fuel_enough). *)
Fixpoint drain (fuel : nat) (last : N) (bl : blog) : list (N * N) * N * blog :=
  match fuel with
  | O => ([], last, bl)
  | S f =>
    if last <? u32max then
      match bl_lookup (last + 1) bl with
      | Some id =>
        let '(d, l, bl') := drain f (last + 1) (bl_remove (last + 1) bl) in
        ((last + 1, id) :: d, l, bl')
      | None => ([], last, bl)
      end
    else ([], last, bl)
  end.

(* One DialogLayer::receive on a request that matched this dialog entry.
   Output: the requests handed to the usages by this call, in order, as (cseq, id). *)
Definition step (st : dstate) (r : req) : dstate * list (N * N) :=
  let c := r_cseq r in
  let nx := match next st with Some n => n | None => c end in
  match c ?= nx with
  | Lt => (mkd (Some nx) (backlog st), [(c, r_id r)])
  | Eq =>
    let '(d, last, bl) := drain (S (length (backlog st))) c (backlog st) in
    (mkd (Some (sat_succ last)) bl, (c, r_id r) :: d)
  | Gt => (mkd (Some nx) (bl_insert c (r_id r) (backlog st)), [])
  end.

(* Ordering::Greater while the backlog already holds a request with this number: the layer returns without taking
   the request (it is left to the following layers / the endpoint's default answer) instead of overwriting the parked
   one.  [dlg_backlog_no_overwrite] (Gen.Tables) says whether the source has that guard. *)
Definition refused (st : dstate) (r : req) : bool :=
  dlg_backlog_no_overwrite &&
  match next st with
  | Some n => (n <? r_cseq r) && match bl_lookup (r_cseq r) (backlog st) with Some _ => true | None => false end
  | None => false
  end.

Definition run (st : dstate) (rs : list req) : dstate * list (N * N) :=
  fold_left (fun '(s, out) r => let '(s', d) := step s r in (s', out ++ d)) rs (st, []).

(* DialogEntry::new(peer_cseq) *)
Definition entry_new (peer_cseq : option N) : dstate :=
  mkd (option_map sat_succ peer_cseq) [].

(* ---------- dialog key ---------- *)
Record dkey := mkkey { k_call_id : bytes; k_peer_tag : option bytes; k_local_tag : bytes }.

(* DialogKey::from_incoming: call-id, From-tag (optional), To-tag (required) *)
Definition key_of_request (call_id : bytes) (from_tag to_tag : option bytes) : option dkey :=
  match to_tag with
  | Some t => Some (mkkey call_id from_tag t)
  | None => None
  end.

Definition obytes_eqb (a b : option bytes) : bool :=
  match a, b with
  | Some x, Some y => bytes_eqb x y
  | None, None => true
  | _, _ => false
  end.

Definition dkey_eqb (a b : dkey) : bool :=
  bytes_eqb (k_call_id a) (k_call_id b) && obytes_eqb (k_peer_tag a) (k_peer_tag b)
  && bytes_eqb (k_local_tag a) (k_local_tag b).

(* ---------- the layer: several dialogs, usages with guards ---------- *)
Record entry := mke { e_key : dkey; e_st : dstate; e_usages : list N }.

Inductive event :=
| Recv (call_id : bytes) (from_tag to_tag : option bytes) (r : req)
| DropUsage (k : dkey) (u : N)
| AddUsage (k : dkey) (u : N).

(* what a Recv produces: not intercepted, or (dialog key, usages snapshot, delivered requests) *)
Inductive outcome :=
| NotIntercepted
| Held
| Delivered (k : dkey) (usages : list N) (reqs : list (N * N)).

Fixpoint entries_update (k : dkey) (f : entry -> entry) (es : list entry) : list entry :=
  match es with
  | [] => []
  | e :: r => if dkey_eqb (e_key e) k then f e :: r else e :: entries_update k f r
  end.

Fixpoint entries_find (k : dkey) (es : list entry) : option entry :=
  match es with
  | [] => None
  | e :: r => if dkey_eqb (e_key e) k then Some e else entries_find k r
  end.

Definition layer_step (es : list entry) (ev : event) : list entry * outcome :=
  match ev with
  | Recv cid ft totag r =>
    match key_of_request cid ft totag with
    | None => (es, NotIntercepted)
    | Some k =>
      match entries_find k es with
      | None => (es, NotIntercepted)
      | Some e =>
        if refused (e_st e) r then (es, NotIntercepted) else
        let '(st', d) := step (e_st e) r in
        (entries_update k (fun e => mke (e_key e) st' (e_usages e)) es,
         match d with [] => Held | _ => Delivered (e_key e) (e_usages e) d end)
      end
    end
  | DropUsage k u =>
    (entries_update k (fun e => mke (e_key e) (e_st e) (filter (fun x => negb (x =? u)) (e_usages e))) es, NotIntercepted)
  | AddUsage k u =>
    (entries_update k (fun e => mke (e_key e) (e_st e) (e_usages e ++ [u])) es, NotIntercepted)
  end.

Definition layer_run (es : list entry) (evs : list event) : list entry * list outcome :=
  fold_left (fun '(s, out) ev => let '(s', o) := layer_step s ev in (s', out ++ [o])) evs (es, []).
