(* Model/C07.v -- model of create_ack in crates/sip-core/src/transaction/client_inv.rs:
   the ACK a client INVITE transaction builds for a non-2xx final response.
   Headers are an insertion-ordered multimap (sip-types Headers): a list of (name, value). *)
From Coq Require Import List NArith Bool.
From EZK Require Import Lib.Bytes.
Import ListNotations.
Open Scope N_scope.

Inductive hname := HVia | HFrom | HTo | HCallId | HCSeq | HRoute | HOther (n : N).

Definition hname_eqb (a b : hname) : bool :=
  match a, b with
  | HVia, HVia | HFrom, HFrom | HTo, HTo | HCallId, HCallId | HCSeq, HCSeq | HRoute, HRoute => true
  | HOther x, HOther y => x =? y
  | _, _ => false
  end.

Definition headers := list (hname * bytes).

(* all values stored under a name, in order (Headers::entry(name).values) *)
Definition values (h : headers) (n : hname) : list bytes :=
  map snd (filter (fun p => hname_eqb (fst p) n) h).

(* Headers::clone_into(dest, name): Err(missing) when the name is absent *)
Definition clone_into (src dest : headers) (n : hname) : option headers :=
  match values src n with
  | [] => None
  | vs => Some (dest ++ map (fun v => (n, v)) vs)
  end.

Record request := mkrq { rq_method : bytes; rq_uri : bytes; rq_headers : headers; rq_cseq : option N }.

Definition ack_method : bytes := Eval vm_compute in B"ACK".

(* create_ack(request, response): Via, From from the INVITE; To from the response; Call-ID from the
   INVITE; CSeq number of the INVITE with method ACK; Route from the INVITE when present *)
Definition create_ack (inv : request) (resp : headers) : option (request) :=
  match clone_into (rq_headers inv) [] HVia with None => None | Some h1 =>
  match clone_into (rq_headers inv) h1 HFrom with None => None | Some h2 =>
  match clone_into resp h2 HTo with None => None | Some h3 =>
  match clone_into (rq_headers inv) h3 HCallId with None => None | Some h4 =>
  match rq_cseq inv with None => None | Some n =>
    let h5 := h4 in
    let h6 := match values (rq_headers inv) HRoute with
              | [] => h5
              | vs => h5 ++ map (fun v => (HRoute, v)) vs
              end in
    Some (mkrq ack_method (rq_uri inv) h6 (Some n))
  end end end end end.
