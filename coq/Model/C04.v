(* Model/C04.v -- model of transaction matching: crates/sip-core/src/transaction/{key,mod,registration}.rs
   and the dispatch part of endpoint.rs::do_receive.  Definitions only. *)
From Coq Require Import List NArith Bool.
From EZK Require Import Lib.Bytes Gen.Tables.
Import ListNotations.
Open Scope N_scope.

Inductive role := Server | Client.
Inductive meth := INVITE | ACK | CANCEL | MOther (n : N).

Definition meth_eqb (a b : meth) : bool :=
  match a, b with
  | INVITE, INVITE | ACK, ACK | CANCEL, CANCEL => true
  | MOther x, MOther y => x =? y
  | _, _ => false
  end.

(* filter_method: INVITE and ACK are represented as None *)
Definition fold_method (m : meth) : option meth :=
  match m with INVITE | ACK => None | _ => Some m end.

Definition ometh_eqb (a b : option meth) : bool :=
  match a, b with
  | Some x, Some y => meth_eqb x y
  | None, None => true
  | _, _ => false
  end.

Record msg := mkmsg {
  m_is_request : bool;
  m_line_method : meth;          (* request line method (ignored for responses) *)
  m_branch : bytes;              (* top Via branch, empty when absent *)
  m_cseq_method : meth;
  m_cseq : N;
  m_from_tag : option bytes;
  m_call_id : bytes;
  m_sent_by : bytes              (* top Via sent-by (host and optional port) *)
}.

Inductive key :=
| K3261 (r : role) (branch : bytes) (m : option meth)
| K2543 (r : role) (m : option meth) (cseq : N) (from_tag call_id sent_by : bytes).

Definition role_eqb (a b : role) : bool :=
  match a, b with Server, Server | Client, Client => true | _, _ => false end.

Definition key_eqb (a b : key) : bool :=
  match a, b with
  | K3261 r1 b1 m1, K3261 r2 b2 m2 => role_eqb r1 r2 && bytes_eqb b1 b2 && ometh_eqb m1 m2
  | K2543 r1 m1 c1 f1 i1 s1, K2543 r2 m2 c2 f2 i2 s2 =>
    role_eqb r1 r2 && ometh_eqb m1 m2 && (c1 =? c2) && bytes_eqb f1 f2 && bytes_eqb i1 i2 && bytes_eqb s1 s2
  | _, _ => false
  end.

Definition has_cookie (b : bytes) : bool :=
  match strip_prefix branch_cookie b with Some _ => true | None => false end.

(* TsxKey::from_message_parts; None = HeaderError (From tag missing for an RFC 2543 style branch) *)
Definition key_of (m : msg) : option key :=
  let r := if m_is_request m then Server else Client in
  let fm := fold_method (m_cseq_method m) in
  if has_cookie (m_branch m) then Some (K3261 r (m_branch m) fm)
  else match m_from_tag m with
       | Some t => Some (K2543 r fm (m_cseq m) t (m_call_id m) (m_sent_by m))
       | None => None
       end.

(* what owns a table entry *)
Inductive owner :=
| HeldRequest                      (* an IncomingRequest (or the server transaction made from it) *)
| ClientTsx (surfacing : bool).    (* client transaction; after its final it only absorbs *)

Record entry := mke { e_id : N; e_key : key; e_owner : owner; e_ack_filter : bool }.

Definition table := list entry.

Fixpoint lookup (k : key) (t : table) : option entry :=
  match t with
  | [] => None
  | e :: r => if key_eqb (e_key e) k then Some e else lookup k r
  end.

Fixpoint remove_id (id : N) (t : table) : table :=
  match t with
  | [] => []
  | e :: r => if e_id e =? id then remove_id id r else e :: remove_id id r
  end.

Fixpoint update_id (id : N) (f : entry -> entry) (t : table) : table :=
  match t with
  | [] => []
  | e :: r => if e_id e =? id then f e :: r else e :: update_id id f r
  end.

Inductive route :=
| ToTsx (id : N) (visible : bool)   (* handed to the transaction [id]; visible = its user sees it *)
| NewRequest (id : N)               (* no transaction: a registration is created and the layers see it *)
| SurfacedNoReg                     (* rejected by the transaction's filter: layers see it, no registration *)
| Orphan                            (* response without transaction: dropped *)
| BadKey.                           (* no key could be derived: dropped *)

Inductive event :=
| Recv (m : msg)
| ClientStart (k : key) (id : N)          (* register_transaction with a fresh branch *)
| ClientFinal (id : N)                    (* the client transaction saw its final: stops surfacing *)
| RespondSuccess (id : N)                 (* ServerInvTsx::respond_success: ACK filter installed *)
| End (id : N).                           (* registration dropped *)


(* Endpoint::do_receive up to the layer loop; [fresh] is the id given to a newly created registration *)
Definition receive (t : table) (fresh : N) (m : msg) : table * route :=
  match key_of m with
  | None => (t, BadKey)
  | Some k =>
    match lookup k t with
    | Some e =>
      if e_ack_filter e && m_is_request m && meth_eqb (m_line_method m) ACK then (t, SurfacedNoReg)
      else (t, ToTsx (e_id e) (match e_owner e with ClientTsx s => s && negb (m_is_request m) | HeldRequest => false end))
    | None =>
      if m_is_request m then (mke fresh k HeldRequest false :: t, NewRequest fresh)
      else (t, Orphan)     (* the registration created for it is dropped when do_receive returns *)
    end
  end.

Definition step (st : table * N) (ev : event) : (table * N) * option route :=
  let '(t, fresh) := st in
  match ev with
  | Recv m => let '(t', r) := receive t fresh m in ((t', fresh + 1), Some r)
  | ClientStart k id => ((mke id k (ClientTsx true) false :: t, fresh), None)
  | ClientFinal id => ((update_id id (fun e => mke (e_id e) (e_key e) (ClientTsx false) (e_ack_filter e)) t, fresh), None)
  | RespondSuccess id => ((update_id id (fun e => mke (e_id e) (e_key e) (e_owner e) true) t, fresh), None)
  | End id => ((remove_id id t, fresh), None)
  end.

Definition run (evs : list event) : (table * N) * list (option route * N) :=
  fold_left (fun '(st, out) ev => let '(st', r) := step st ev in (st', out ++ [(r, N.of_nat (length (fst st')))]))
            evs (([], 1000), []).


(* ClientTsx::send / ClientInvTsx::send as the table sees them: the transaction is registered and the request is handed to the
   transport; from the moment the request is on the wire answers can come back - also while the caller is still inside send
   ([during]) - and later ([after]).  [tsx_client_registers_before_send] (Gen.Tables) says which comes first in the source. *)
Definition client_send_events (k : key) (id : N) (during after : list msg) : list event :=
  if tsx_client_registers_before_send
  then ClientStart k id :: map Recv during ++ map Recv after
  else map Recv during ++ ClientStart k id :: map Recv after.


(* InviteLayer.cancellables (sip-ua/src/invite): the pending INVITE is registered under (CSeq number, TsxKey::branch() of the
   INVITE) and a CANCEL is looked up under (its CSeq number, its branch) - TsxKey::branch() is the Via branch for an RFC 3261 key
   and empty for an RFC 2543 key.  [cancel_lookup_by_tsx_branch] (Gen.Tables) says whether the lookup uses TsxKey::branch() too. *)
Definition key_branch (k : key) : bytes := match k with K3261 _ b _ => b | K2543 _ _ _ _ _ _ => [] end.
Definition cancellable_reg (inv : msg) : option (N * bytes) :=
  match key_of inv with Some k => Some (m_cseq inv, key_branch k) | None => None end.
Definition cancellable_lookup (c : msg) : option (N * bytes) :=
  match key_of c with
  | Some k => Some (m_cseq c, if cancel_lookup_by_tsx_branch then key_branch k else m_branch c)
  | None => None
  end.
