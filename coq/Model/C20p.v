(* Model/C20p.v -- the pending table of the STUN client (crates/stun/src/lib.rs, StunEndpoint::send_request): how a call can end
   and what it leaves in the table.  Definitions only. *)
From EZK Require Import Gen.Tables.
(* ---------- the pending table of the client: how a call to send_request can end ---------- *)
Inductive call_end :=
| Answered            (* StunEndpoint::receive took the entry and woke the caller *)
| TimedOut            (* every transmission went unanswered *)
| SendFailed          (* the transport refused a (re)transmission: `?` returns early *)
| Abandoned.          (* the caller dropped the future *)

(* entries of this call left in the table after it ended: a scope guard covers every exit; explicit removal at the
   "nobody answered" exits does not *)
Definition pending_after (e : call_end) : nat :=
  match e with
  | Answered => 0
  | TimedOut => 0
  | SendFailed | Abandoned => if stun_cleanup_by_guard then 0 else 1
  end.
