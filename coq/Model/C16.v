(* Model/C16.v -- ownership accounting of the endpoint's tables:
   Transactions.map <-> TsxRegistration (held by an application object, or by a background task with a
   deadline: the absorbers of transaction/{client,client_inv,server,server_inv}.rs), and in the same
   shape DialogLayer.dialogs <-> Dialog, InviteLayer.cancellables <-> Acceptor,
   StunEndpoint.transactions <-> DropGuard, Transports.transports <-> receive task.
   An entry exists exactly as long as its owner does; lookups by messages that match nothing, or match
   an existing entry, never insert.  Definitions only. *)
From Coq Require Import List Arith NArith Bool.
Import ListNotations.
Open Scope N_scope.

Inductive owner :=
| Held (h : N)          (* an object the application holds: entry removed by its Drop *)
| Timed (until : N).    (* a background task that ends at [until] (ms) and drops the registration *)

Record entry := mke { e_key : N; e_owner : owner }.
Definition table := list entry.

Inductive op :=
| Create (key h : N)            (* a new key: register, hand the owning object to the application *)
| Detach (h until : N)          (* the object is consumed (final response sent / received): a task keeps the entry until [until] *)
| Drop (h : N)                  (* the application drops the object *)
| Advance (t : N)               (* the clock reaches t: tasks with a deadline <= t have ended *)
| Noise (key : N)               (* orphan response / unmatched CANCEL lookup / retransmission: looks up, never inserts *)
| Finish (key : N).             (* the task holding [key] ends before its deadline (e.g. the ACK for a rejected INVITE arrived) *)

Record world := mkw { now : N; tbl : table }.

Definition has_key (k : N) (t : table) : bool := existsb (fun e => e_key e =? k) t.
Definition held_by (h : N) (e : entry) : bool := match e_owner e with Held h' => h' =? h | Timed _ => false end.
Definition alive (t : N) (e : entry) : bool := match e_owner e with Held _ => true | Timed u => t <? u end.

Definition step (w : world) (o : op) : world :=
  match o with
  | Create k h => if has_key k (tbl w) || existsb (held_by h) (tbl w) then w
                  else mkw (now w) (mke k (Held h) :: tbl w)
  | Detach h u => mkw (now w) (filter (alive (now w))
                                 (map (fun e => if held_by h e then mke (e_key e) (Timed u) else e) (tbl w)))
  | Drop h => mkw (now w) (filter (fun e => negb (held_by h e)) (tbl w))
  | Advance t => let t' := N.max t (now w) in mkw t' (filter (alive t') (tbl w))
  | Noise _ => w
  | Finish k => mkw (now w) (filter (fun e => negb ((e_key e =? k) && match e_owner e with Timed _ => true | Held _ => false end)) (tbl w))
  end.

Definition run (ops : list op) : world := fold_left step ops (mkw 0 []).

Definition size (w : world) : N := N.of_nat (length (tbl w)).

(* the longest protocol timer an entry can outlive its object by: 64*T1 (Timer B/F/H/J) *)
Definition held_count (t : table) : nat := length (filter (fun e => match e_owner e with Held _ => true | _ => false end) t).
Definition timed_count (t : table) : nat := length (filter (fun e => match e_owner e with Timed _ => true | _ => false end) t).
