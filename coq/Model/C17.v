(* Model/C17.v -- session-timer arithmetic and the session's timer behaviour
   (crates/sip-ua/src/invite/{timer,session}.rs) and the registration refresh period
   (crates/sip-ua/src/register/mod.rs).  Seconds are u32 values, time is in ms. Definitions only. *)
From Coq Require Import List NArith Bool.
From EZK Require Import Gen.Tables.
Import ListNotations.
Open Scope N_scope.

Definition u32max : N := 4294967295.
Definition sat_add (a b : N) : N := N.min (a + b) u32max.      (* u32::saturating_add *)
Definition sat_sub (a b : N) : N := a - b.                      (* u32::saturating_sub (N subtraction truncates) *)

Inductive refresher := RUas | RUac | RUnspec.
Inductive role := Uac | Uas.

(* AcceptorTimerConfig::on_responding_success: (refresher announced, Session-Expires announced, local timer) *)
Definition uas_timer (interval : N) (cfg : refresher) (min_se : option N) : refresher * N * N :=
  let delta := match min_se with Some m => N.max m interval | None => interval end in
  match cfg with
  | RUas => (RUas, delta, sat_sub delta se_margin_s)
  | _ => (RUac, delta, sat_add delta se_margin_s)
  end.

(* InitiatorTimerConfig::create_timer_from_response: None = no Session-Expires in the 2xx (timer unsupported) *)
Definition uac_timer (se : option (N * refresher)) : option (refresher * N) :=
  match se with
  | None => None
  | Some (d, RUas) => Some (RUas, sat_add d se_margin_s)
  | Some (d, _) => Some (RUac, sat_sub d se_margin_s)
  end.

(* Session::handle_session_timer *)
Definition we_refresh (r : role) (f : refresher) : bool :=
  match r, f with Uac, RUac | Uas, RUas => true | _, _ => false end.

Inductive sout := RefreshNeeded (t : N) | ByeSent (t : N) | SFuel.

(* the session's timer: starts at [t0], restarts at every received refresh (re-INVITE) and at every
   RefreshNeeded it reports itself; the non-refresher hangs up when it fires. [evs] = instants of
   received refreshes (sorted), run until [horizon]. *)
Fixpoint session_run (fuel : nat) (mine : bool) (real_ms : N) (deadline : N) (evs : list N) (horizon : N) : list sout :=
  match fuel with
  | O => [SFuel]
  | S fuel =>
    match evs with
    | e :: rest =>
      if e <? deadline then session_run fuel mine real_ms (e + real_ms) rest horizon
      else if horizon <? deadline then []
      else if mine then RefreshNeeded deadline :: session_run fuel mine real_ms (deadline + real_ms) evs horizon
      else [ByeSent deadline]
    | [] =>
      if horizon <? deadline then []
      else if mine then RefreshNeeded deadline :: session_run fuel mine real_ms (deadline + real_ms) [] horizon
      else [ByeSent deadline]
    end
  end.

(* ---------- registration ---------- *)
(* create_reg_interval: period = max(lifetime, 20 s) - 10 s *)
Definition reg_interval (lifetime_s : N) : N := N.max lifetime_s reg_min_s - reg_margin_s.

Record reg := mkreg { r_cseq : N; r_call_id : N; r_expires : N }.
(* create_register: CSeq + 1 (u32 `+= 1`), same Call-ID *)
Definition create_register (r : reg) : (N * N) * reg := ((r_cseq r + 1, r_call_id r), mkreg (r_cseq r + 1) (r_call_id r) (r_expires r)).
Fixpoint create_registers (n : nat) (r : reg) : list (N * N) :=
  match n with O => [] | S k => let '(x, r') := create_register r in x :: create_registers k r' end.

(* ---------- the registration refresh timeline (register_interval is only re-created when the granted
   lifetime changes, or after a 4xx with Min-Expires) ---------- *)
Inductive rev := RSuccess (t : N) (expires : option N) | RMinExpires (t : N) (min_expires : N).
Record rst := mkrst { next_tick : N; period_ms : N; expires_s : N }.

Definition reg_restart (t : N) (e : N) : rst := mkrst (t + 1000 * reg_interval e) (1000 * reg_interval e) e.
Definition reg_start (t0 e : N) : rst := reg_restart t0 e.

Definition reg_event (st : rst) (ev : rev) : rst :=
  match ev with
  | RSuccess t (Some e) => if e =? expires_s st then st else reg_restart t e
  | RSuccess _ None => st
  | RMinExpires t m => reg_restart t m
  end.

Definition rev_time (ev : rev) : N := match ev with RSuccess t _ | RMinExpires t _ => t end.

(* ticks strictly before [until] *)
Fixpoint reg_ticks (fuel : nat) (st : rst) (until : N) : list N * rst :=
  match fuel with
  | O => ([], st)
  | S f => if next_tick st <? until
           then let '(l, st') := reg_ticks f (mkrst (next_tick st + period_ms st) (period_ms st) (expires_s st)) until in
                (next_tick st :: l, st')
           else ([], st)
  end.

Fixpoint reg_run (fuel : nat) (st : rst) (evs : list rev) (horizon : N) : list N :=
  match evs with
  | [] => fst (reg_ticks fuel st horizon)
  | ev :: rest =>
    let '(l, st') := reg_ticks fuel st (rev_time ev) in
    l ++ reg_run fuel (reg_event st' ev) rest horizon
  end.
