(* Model/C03.v -- the byte-level receive path:
   sip-types/src/msg.rs::PullParser (line splitter), sip-core/src/transport/streaming/decode.rs
   (StreamingDecoder::decode), tokio-util's FramedRead loop as used by receive_task, and the
   datagram reference sip-core/src/transport/parse.rs::parse_complete_sip (framing part).
   Slicing/indexing that can panic in Rust is an explicit [PPanic]; loops use fuel with [OutOfFuel]
   folded into PPanic (Proofs/C03.v shows neither is reachable).  Definitions only. *)
From Coq Require Import List Arith NArith Bool.
From Coq.Strings Require Import Byte.
From EZK Require Import Lib.Bytes Lib.Num Lib.Utf8.
Import ListNotations.
Close Scope N_scope.
Open Scope nat_scope.

Definition CR : byte := x0d.
Definition LF : byte := x0a.
Definition SP : byte := x20.
Definition HT : byte := x09.
Definition is_nl (b : byte) : bool := Byte.eqb b LF || Byte.eqb b CR.
Definition is_lws (b : byte) : bool := Byte.eqb b SP || Byte.eqb b HT.

(* memchr2(b'\n', b'\r', s) *)
Fixpoint find_nl (s : bytes) : option nat :=
  match s with
  | [] => None
  | c :: r => if is_nl c then Some 0 else option_map S (find_nl r)
  end.

Inductive pull := Line (lo hi next : nat) | EndOfHead | Incomplete | PPanic.

(* what follows a line break at the head of [rest]: folded continuation, end of a line
   (width of the break, and whether an empty line follows immediately), or not decidable yet *)
Inductive brk := Folded | Break (width : nat) (dbl : bool) | Undecided.

Definition classify (rest : bytes) : brk :=
  match rest with
  | a :: b :: t =>
    if Byte.eqb a LF then
      if is_lws b then Folded else Break 1 (Byte.eqb b LF)
    else if Byte.eqb b LF then
      match t with
      | c :: t' =>
        if is_lws c then Folded
        else match t' with
             | d :: _ => Break 2 (Byte.eqb c CR && Byte.eqb d LF)
             | [] => Undecided
             end
      | [] => Undecided
      end
    else Undecided
  | _ => Undecided
  end.

(* PullParser::next: [lb] = line_begin, [skip] as in the Rust loop *)
Fixpoint pull_loop (fuel : nat) (input : bytes) (lb skip : nat) : pull :=
  match fuel with
  | O => PPanic
  | S fuel =>
    if Nat.ltb (length input) (lb + skip) then PPanic else
    match find_nl (skipn (lb + skip) input) with
    | None => Incomplete
    | Some off =>
      let pos := off + lb + skip in
      match classify (skipn pos input) with
      | Folded => pull_loop fuel input lb (skip + off + 1)
      | Break w dbl =>
        if Nat.eqb pos lb then EndOfHead
        else Line lb pos (if dbl then pos else pos + w)
      | Undecided => Incomplete
      end
    end
  end.

Definition pull_next (input : bytes) (progress : nat) : pull :=
  pull_loop (S (length input)) input progress 0.

(* PullParser::head_end *)
Definition head_end (input : bytes) (progress : nat) : nat :=
  match skipn progress input with
  | a :: b :: c :: d :: _ =>
    if Byte.eqb a CR && Byte.eqb b LF && Byte.eqb c CR && Byte.eqb d LF then progress + 4
    else if Byte.eqb a LF && Byte.eqb b LF then progress + 2 else progress
  | a :: b :: _ => if Byte.eqb a LF && Byte.eqb b LF then progress + 2 else progress
  | _ => progress
  end.

Definition sub (s : bytes) (lo hi : nat) : bytes := firstn (hi - lo) (skipn lo s).

(* ---------- Content-Length sniffing of the decoder ---------- *)
Definition s_content_length : bytes := Eval vm_compute in B"content-length".
Definition s_l : bytes := Eval vm_compute in B"l".

Fixpoint rstrip_lws (s : bytes) : bytes :=
  match s with
  | [] => []
  | c :: r => match rstrip_lws r with
              | [] => if is_lws c then [] else [c]
              | r' => c :: r'
              end
  end.

Definition is_content_length (name : bytes) : bool :=
  let n := rstrip_lws name in
  bytes_eqb_nocase n s_content_length || bytes_eqb_nocase n s_l.

(* line.splitn(2, ':') *)
Fixpoint split_colon (s : bytes) : bytes * option bytes :=
  match s with
  | [] => ([], None)
  | c :: r => if Byte.eqb c ":"%byte then ([], Some r)
              else let '(a, b) := split_colon r in (c :: a, b)
  end.

Inductive derr := TooLarge | Malformed | IoRemaining.

Definition usize_max : N := 18446744073709551615%N.
Definition max_body : N := 65535%N.
Definition max_head : N := 4096%N.

(* effect of one header line on the sniffed content length *)
Definition sniff_line (line : bytes) (cl : N) : N + derr :=
  let '(name, rest) := split_colon line in
  if is_content_length name then
    match rest with
    | None => inr Malformed
    | Some v =>
      if utf8_valid v then
        match parse_uint usize_max (trim v) with
        | Some n => if (max_body <? n)%N then inr TooLarge else inl n
        | None => inr Malformed
        end
      else inr Malformed
    end
  else inl cl.

Inductive scan := SIncomplete (progress : nat) (cl : N) | SComplete (progress : nat) (cl : N) | SErr (e : derr) | SPanic.

(* for line in &mut parser { ... } *)
Fixpoint scan_lines (fuel : nat) (src : bytes) (p : nat) (cl : N) : scan :=
  match fuel with
  | O => SPanic
  | S fuel =>
    match pull_next src p with
    | Line lo hi next =>
      match sniff_line (sub src lo hi) cl with
      | inl cl' => scan_lines fuel src next cl'
      | inr e => SErr e
      end
    | EndOfHead => SComplete p cl
    | Incomplete => SIncomplete p cl
    | PPanic => SPanic
    end
  end.

Record dstate := mkds { head_progress : nat; content_len : N }.

Inductive dres :=
| DNone
| DFrame (frame : bytes) (hend : nat) (clen : N)     (* the frame, its head length and body length *)
| DErr (e : derr)
| DPanic.

Fixpoint drop_crlf (s : bytes) : bytes :=
  match s with
  | c :: r => if is_nl c then drop_crlf r else s
  | [] => []
  end.

(* second pass over the split-off frame: every line must be UTF-8, the start line must parse.
   [start_ok] abstracts MessageLine::parse (C01's subject). *)
Fixpoint lines_utf8 (fuel : nat) (src : bytes) (p : nat) : bool :=
  match fuel with
  | O => false
  | S fuel =>
    match pull_next src p with
    | Line lo hi next => utf8_valid (sub src lo hi) && lines_utf8 fuel src next
    | EndOfHead => true
    | _ => false
    end
  end.

Definition first_line (src : bytes) : bytes :=
  match pull_next src 0 with Line lo hi _ => sub src lo hi | _ => [] end.

Section Decode.
  Variable start_ok : bytes -> bool.

  (* StreamingDecoder::decode(&mut self, src) -> (new state, new src, result) *)
  Definition decode (st : dstate) (src0 : bytes) : dstate * bytes * dres :=
    let src := if Nat.eqb (head_progress st) 0 then drop_crlf src0 else src0 in
    match src with
    | [] => (st, [], DNone)
    | _ =>
      match scan_lines (S (length src)) src (head_progress st) (content_len st) with
      | SPanic => (st, src, DPanic)
      | SErr e => (st, src, DErr e)
      | SIncomplete p cl =>
        (mkds p cl, src, if (max_head <? N.of_nat (length src))%N then DErr TooLarge else DNone)
      | SComplete p cl =>
        let he := head_end src p in
        if (max_head <? N.of_nat he)%N then (mkds (head_progress st) cl, src, DErr TooLarge)
        else
          let expected := he + N.to_nat cl in
          if Nat.ltb (length src) expected then (mkds (head_progress st) cl, src, DNone)
          else
            let frame := firstn expected src in
            let rest := skipn expected src in
            if lines_utf8 (S (length frame)) frame 0 && start_ok (first_line frame)
            then (mkds 0 0, rest, DFrame frame he cl)
            else (mkds 0 0, rest, DErr Malformed)
      end
    end.

  (* FramedRead: after every read decode until None; an error ends the stream; at EOF decode_eof *)
  Inductive item := IFrame (frame : bytes) (hend : nat) (clen : N) | IErr (e : derr) | IPanic.

  Fixpoint drain (fuel : nat) (st : dstate) (buf : bytes) : list item * option (dstate * bytes) :=
    match fuel with
    | O => ([IPanic], None)
    | S fuel =>
      match decode st buf with
      | (st', buf', DNone) => ([], Some (st', buf'))
      | (st', buf', DFrame f h c) =>
        let '(is, k) := drain fuel st' buf' in (IFrame f h c :: is, k)
      | (_, _, DErr e) => ([IErr e], None)
      | (_, _, DPanic) => ([IPanic], None)
      end
    end.

  Fixpoint run_chunks (st : dstate) (buf : bytes) (chunks : list bytes) : list item :=
    match chunks with
    | [] =>
      (* EOF: decode_eof = decode, then "bytes remaining on stream" if something is left *)
      match drain (S (length buf)) st buf with
      | (is, Some (_, [])) => is
      | (is, Some (_, _ :: _)) => is ++ [IErr IoRemaining]
      | (is, None) => is
      end
    | c :: rest =>
      match c with
      | [] => run_chunks st buf rest          (* a zero-length read does not happen before EOF *)
      | _ =>
        match drain (S (length (buf ++ c))) st (buf ++ c) with
        | (is, Some (st', buf')) => is ++ run_chunks st' buf' rest
        | (is, None) => is
        end
      end
    end.

  Definition run_framed (chunks : list bytes) : list item := run_chunks (mkds 0 0) [] chunks.
End Decode.

(* ---------- the datagram reference: parse_complete_sip's framing ---------- *)
(* header lookup of Headers::get_named::<ContentLength>(): first header whose name (token run) equals
   content-length / l ignoring case; value trimmed and parsed as usize *)
Definition token_extra : bytes := Eval vm_compute in B"-.!%*_`'~+".
Definition token_class (b : byte) : bool := is_alnum b || existsb (Byte.eqb b) token_extra.

Definition is_ascii_ws (b : byte) : bool :=
  Byte.eqb b SP || Byte.eqb b HT || Byte.eqb b LF || Byte.eqb b CR || Byte.eqb b x0c.

(* Line::parse: ws, token run, ws, ':', ws, rest *)
Definition parse_header_line (line : bytes) : option (bytes * bytes) :=
  let l1 := snd (take_while is_ascii_ws line) in
  let '(name, l2) := take_while token_class l1 in
  let l3 := snd (take_while is_ascii_ws l2) in
  match l3 with
  | c :: l4 => if Byte.eqb c ":"%byte then Some (name, snd (take_while is_ascii_ws l4)) else None
  | [] => None
  end.

Inductive dgram := DgOk (hend : nat) (body : bytes) | DgErr | DgPanic.

Fixpoint collect_headers (fuel : nat) (src : bytes) (p : nat) (first : bool) (acc : list (bytes * bytes))
  : option (nat * list (bytes * bytes)) :=
  match fuel with
  | O => None
  | S fuel =>
    match pull_next src p with
    | Line lo hi next =>
      let line := sub src lo hi in
      if negb (utf8_valid line) then None
      else if first then collect_headers fuel src next false acc
      else match parse_header_line line with
           | Some nv => collect_headers fuel src next false (acc ++ [nv])
           | None => None
           end
    | EndOfHead => Some (p, acc)
    | _ => None
    end
  end.

Definition is_cl_name (n : bytes) : bool := bytes_eqb_nocase n s_content_length || bytes_eqb_nocase n s_l.

Definition datagram_parse (src : bytes) : dgram :=
  match collect_headers (S (length src)) src 0 true [] with
  | None => DgErr
  | Some (p, hs) =>
    let he := head_end src p in
    match find (fun nv => is_cl_name (fst nv)) hs with
    | Some (_, v) =>
      match parse_uint usize_max (trim v) with
      | Some n =>
        if (n =? 0)%N then DgOk he []
        else if (N.of_nat he + n <=? N.of_nat (length src))%N then DgOk he (sub src he (he + N.to_nat n))
        else DgErr
      | None => DgOk he (skipn he src)      (* no valid content-length: the rest of the datagram *)
      end
    | None => DgOk he (skipn he src)
    end
  end.
