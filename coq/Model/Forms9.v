(* Model/Forms9.v -- further decision points of the source made explicit (see Model/Forms8.v): each definition follows the form the
   translator finds (Gen/Tables.v, section forms9); [.._form b] lets the theorems say what the other form would do.  Definitions only. *)
From Coq Require Import List NArith Arith Bool.
From Coq.Strings Require Import Byte.
From EZK Require Import Lib.Bytes Gen.Tables.
Import ListNotations.
Local Close Scope N_scope.

(* ---- C12: Accepted::retransmit --------------------------------------------------------------------------------------- *)
(* does a call of retransmit put the 2xx on the wire *)
Definition retransmit_sends_form (any_transport reliable : bool) : bool := any_transport || negb reliable.
Definition retransmit_sends := retransmit_sends_form accepted_retransmit_any_transport.
(* copies of the 2xx on the wire when the retransmission timer fired [fired] times before the ACK (or the give-up) *)
Definition copies_2xx_form (any_transport reliable : bool) (fired : nat) : nat :=
  if retransmit_sends_form any_transport reliable then 1 + fired else 1.

(* ---- C13: Initiator::terminate_early_dialogs -------------------------------------------------------------------------- *)
(* the early dialogs that are sent Terminate; the other form removes entry idx and then advances idx *)
Fixpoint every_other {A} (l : list A) : list A :=
  match l with
  | [] => []
  | x :: [] => [x]
  | x :: _ :: r => x :: every_other r
  end.
Definition terminated_form {A} (drained : bool) (l : list A) : list A := if drained then l else every_other l.
Definition terminated {A} := @terminated_form A early_dialogs_drained.

(* ---- C15: the idle deadline of an accepted connection (ms) ------------------------------------------------------------ *)
Definition idle_deadline_form (at_accept : bool) (listening_since accepted_at : N) : N :=
  ((if at_accept then accepted_at else listening_since) + 32000)%N.
Definition idle_deadline := idle_deadline_form idle_timer_armed_at_accept.

(* ---- C20: the comparison of the computed digest with the attribute value ---------------------------------------------- *)
Fixpoint zip_all_eq (a b : bytes) : bool :=
  match a, b with
  | x :: r, y :: s => Byte.eqb x y && zip_all_eq r s
  | _, _ => true                    (* zip stops at the shorter side *)
  end.
Definition digest_matches_form (whole : bool) (digest value : bytes) : bool :=
  if whole then bytes_eqb digest value else zip_all_eq digest value.
Definition digest_matches := digest_matches_form integrity_compares_whole_value.

(* ---- C03: the size check of a complete head ---------------------------------------------------------------------------- *)
Definition head_accepted_form (inclusive : bool) (limit head_len : nat) : bool :=
  if inclusive then Nat.leb head_len limit else Nat.ltb head_len limit.
Definition head_accepted := head_accepted_form head_limit_inclusive.

(* ---- C19: what ends a token ------------------------------------------------------------------------------------------- *)
(* bytes of a UTF-8 encoded non-ASCII character are >= 0x80; with the Unicode predicate some of those characters end a token *)
Definition ascii_ws (b : byte) : bool :=
  Byte.eqb b x20 || Byte.eqb b x09 || Byte.eqb b x0a || Byte.eqb b x0d || Byte.eqb b x0c.

(* ---- C07: the Via of the transaction's ACK ---------------------------------------------------------------------------- *)
Definition ack_via_form {A} (cloned : bool) (invite_via from_transport : A) : A := if cloned then invite_via else from_transport.
Definition ack_via {A} := @ack_via_form A ack_via_cloned.

(* ---- C08: final responses to a PRACK the invite usage has taken ------------------------------------------------------- *)
Definition prack_finals_form (unconditional acceptor_waiting : bool) : nat := if unconditional || acceptor_waiting then 1 else 0.
Definition prack_finals := prack_finals_form prack_answered_unconditionally.

(* ---- C11: the CSeq of the ACK of each refresh round ([rounds] = the numbers of the refresh re-INVITEs) ------------------- *)
Definition refresh_acks_form (per_round : bool) (rounds : list N) : list N :=
  if per_round then rounds else match rounds with [] => [] | first :: _ => map (fun _ => first) rounds end.
Definition refresh_acks := refresh_acks_form refresh_ack_per_round.
