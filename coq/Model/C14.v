(* Model/C14.v -- model of transport selection for an IP-literal target:
   crates/sip-core/src/transport/mod.rs::{resolve_uri, select, find_matching_unmanaged_transport,
   find_matching_idling_transport, connect}, endpoint.rs::create_outgoing, uri/mod.rs::allows_security_level.
   HashMap iteration order over the managed connections is arbitrary: [select] returns every
   outcome that some order can produce. *)
From Coq Require Import List NArith Bool.
Import ListNotations.
Open Scope N_scope.

Record uri := mkuri { u_secure : bool; u_v6 : bool; u_ip : N; u_port : option N }.

Record datagram := mkdg { dg_secure : bool; dg_v6 : bool }.               (* unmanaged transport *)
Record factory := mkfac { f_secure : bool; f_connects : bool }.            (* connect succeeds? *)
Record conn := mkconn { c_secure : bool; c_outgoing : bool; c_v6 : bool; c_ip : N; c_port : N; c_usable : bool }.

Record config := mkcfg { unmanaged : list datagram; factories : list factory; conns : list conn }.

Definition allows (u : uri) (secure : bool) : bool := if u_secure u then secure else true.

(* resolve_uri: URI port, else 5061 for sips, else 5060; IP literals need no DNS *)
Definition resolve_port (u : uri) : N :=
  match u_port u with Some p => p | None => if u_secure u then 5061 else 5060 end.

Inductive choice :=
| UseDatagram (i : nat)
| UseConn (i : nat)
| NewConn (i : nat)        (* factory i connected *)
| Fail.

Fixpoint find_index {A} (p : A -> bool) (l : list A) (i : nat) : option nat :=
  match l with
  | [] => None
  | x :: r => if p x then Some i else find_index p r (S i)
  end.

Fixpoint all_indices {A} (p : A -> bool) (l : list A) (i : nat) : list nat :=
  match l with
  | [] => []
  | x :: r => if p x then i :: all_indices p r (S i) else all_indices p r (S i)
  end.

Definition dg_matches (u : uri) (d : datagram) : bool := Bool.eqb (dg_v6 d) (u_v6 u) && allows u (dg_secure d).

Definition conn_matches (u : uri) (c : conn) : bool :=
  c_outgoing c && Bool.eqb (c_v6 c) (u_v6 u) && (c_ip c =? u_ip u) && (c_port c =? resolve_port u)
  && allows u (c_secure c) && c_usable c.

Definition fac_ok (u : uri) (f : factory) : bool := allows u (f_secure f) && f_connects f.

(* Transports::select for the single server entry of an IP literal *)
Definition select (cfg : config) (u : uri) : list choice :=
  match find_index (dg_matches u) (unmanaged cfg) 0 with
  | Some i => [UseDatagram i]
  | None =>
    match all_indices (conn_matches u) (conns cfg) 0 with
    | (_ :: _) as is => map UseConn is
    | [] =>
      match find_index (fac_ok u) (factories cfg) 0 with
      | Some i => [NewConn i]
      | None => [Fail]
      end
    end
  end.

(* factories that are asked to connect before the outcome (those allowed, in order, up to the first success) *)
Fixpoint asked (u : uri) (fs : list factory) (i : nat) : list nat :=
  match fs with
  | [] => []
  | f :: r => if allows u (f_secure f) then (if f_connects f then [i] else i :: asked u r (S i)) else asked u r (S i)
  end.

Definition choice_secure (cfg : config) (c : choice) : bool :=
  match c with
  | UseDatagram i => match nth_error (unmanaged cfg) i with Some d => dg_secure d | None => false end
  | UseConn i => match nth_error (conns cfg) i with Some x => c_secure x | None => false end
  | NewConn i => match nth_error (factories cfg) i with Some f => f_secure f | None => false end
  | Fail => true
  end.

(* create_outgoing: a transport/destination pinned in the caller's target info is used as is *)
Definition create_outgoing {T} (pinned : option T) (selected : T) : T :=
  match pinned with Some t => t | None => selected end.
