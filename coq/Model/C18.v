(* Model/C18.v -- model of crates/sip-auth/src/{digest,lib}.rs.
   Digest values are symbolic terms over an uninterpreted hash: every theorem holds for every
   interpretation of the hash functions (md5 / sha-256 / sha-512-256 and their lower-hex printing are
   not ezk's code).  Definitions only. *)
From Coq Require Import List NArith Bool.
From EZK Require Import Gen.Tables Lib.Bytes.
Import ListNotations.
Open Scope N_scope.

Inductive alg := MD5 | SHA256 | SHA512256.

Inductive expr :=
| Lit (b : bytes)
| Cat (l : list expr)          (* concatenation *)
| H (a : alg) (e : expr)       (* lower-case hex of the hash of the bytes of e *)
| Hex8 (n : N).                (* {:08X} *)

Definition b_colon : bytes := Eval vm_compute in B":".
Definition colon : expr := Lit b_colon.
Fixpoint join (l : list expr) : list expr :=
  match l with
  | [] => []
  | [x] => [x]
  | x :: r => x :: colon :: join r
  end.
Definition cj (l : list expr) : expr := Cat (join l).

Inductive qopopt := OAuth | OAuthInt | OOther.
Inductive qop := QNone | QAuth | QAuthInt.

Record challenge := mkch {
  c_alg : option alg;          (* None = an algorithm the authenticator does not know *)
  c_sess : bool;
  c_qops : list qopopt;
  c_userhash : bool;
  c_realm : bytes; c_nonce : bytes; c_opaque : option bytes
}.

Record creds := mkcr { cr_user : bytes; cr_pass : bytes }.
Record request := mkrq { rq_method : bytes; rq_uri : bytes; rq_body : bytes }.

Definition qopopt_eqb (a b : qopopt) : bool :=
  match a, b with OAuth, OAuth | OAuthInt, OAuthInt | OOther, OOther => true | _, _ => false end.
Definition has (q : qopopt) (l : list qopopt) : bool := existsb (qopopt_eqb q) l.

(* which qop the authenticator answers with; None = Error::UnsupportedQop *)
Definition choose_qop (enforce : bool) (qs : list qopopt) : option qop :=
  match qs with
  | [] => Some (if enforce then QAuth else QNone)   (* [enforce] = enforce_qop || the algorithm is a -sess one *)
  | _ => if has OAuthInt qs then Some QAuthInt else if has OAuth qs then Some QAuth else None
  end.

Definition b_auth : bytes := Eval vm_compute in B"auth".
Definition b_auth_int : bytes := Eval vm_compute in B"auth-int".
Definition s_auth : expr := Lit b_auth.
Definition s_auth_int : expr := Lit b_auth_int.
Definition qop_lit (q : qop) : expr := match q with QAuthInt => s_auth_int | _ => s_auth end.

(* ---------- what the code computes ---------- *)
Definition code_ha1 (a : alg) (sess : bool) (c : creds) (realm nonce : bytes) (cnonce : expr) : expr :=
  let base := H a (cj [Lit (cr_user c); Lit realm; Lit (cr_pass c)]) in
  if sess then H a (cj [base; Lit nonce; cnonce]) else base.

Definition code_ha2 (a : alg) (q : qop) (r : request) : expr :=
  match q with
  | QAuthInt => H a (cj [Lit (rq_method r); Lit (rq_uri r); H a (Lit (rq_body r))])
  | _ => H a (cj [Lit (rq_method r); Lit (rq_uri r)])
  end.

(* first use (digest_respond): nc = 1 *)
Definition code_first (a : alg) (q : qop) (ha1 ha2 : expr) (nonce : bytes) (cnonce : expr) : expr :=
  match q with
  | QNone => H a (cj [ha1; Lit nonce; ha2])
  | _ => H a (cj [ha1; Lit nonce; Hex8 1; cnonce; qop_lit q; ha2])
  end.

(* every later use (on_authorize_request): nc incremented, response recomputed from the saved ha1 / ha2 *)
Definition code_reuse (a : alg) (q : qop) (ha1 ha2 : expr) (nonce : bytes) (cnonce : expr) (nc : N) : expr :=
  H a (cj [ha1; Lit nonce; Hex8 nc; cnonce; qop_lit q; ha2]).

Record dresponse := mkdr {
  d_username : expr; d_realm : bytes; d_nonce : bytes; d_uri : bytes; d_response : expr;
  d_alg : alg; d_sess : bool; d_opaque : option bytes; d_qop : qop; d_nc : N; d_userhash : bool
}.

(* the header produced for the n-th request (n >= 1) that uses the response to challenge [ch] *)
Definition respond (enforce : bool) (ch : challenge) (c : creds) (r : request) (cnonce : expr) (n : N) : option dresponse :=
  match c_alg ch, choose_qop (enforce || c_sess ch) (c_qops ch) with
  | Some a, Some q =>
    let ha1 := code_ha1 a (c_sess ch) c (c_realm ch) (c_nonce ch) cnonce in
    let ha2 := code_ha2 a q r in
    let resp := match q with
                | QNone => code_first a q ha1 ha2 (c_nonce ch) cnonce
                | _ => if n <=? 1 then code_first a q ha1 ha2 (c_nonce ch) cnonce
                       else code_reuse a q ha1 ha2 (c_nonce ch) cnonce n
                end in
    Some (mkdr (if c_userhash ch then H a (cj [Lit (cr_user c); Lit (c_realm ch)]) else Lit (cr_user c))
               (c_realm ch) (c_nonce ch) (rq_uri r) resp a (c_sess ch) (c_opaque ch) q
               (match q with QNone => 0 | _ => N.max n 1 end) (c_userhash ch))
  | _, _ => None
  end.

(* ---------- RFC 7616 sec. 3.4, written directly ---------- *)
Definition rfc_A1 (a : alg) (sess : bool) (user realm pass nonce : bytes) (cnonce : expr) : expr :=
  if sess then cj [H a (cj [Lit user; Lit realm; Lit pass]); Lit nonce; cnonce]
  else cj [Lit user; Lit realm; Lit pass].

Definition rfc_A2 (a : alg) (q : qop) (method uri body : bytes) : expr :=
  match q with
  | QAuthInt => cj [Lit method; Lit uri; H a (Lit body)]
  | _ => cj [Lit method; Lit uri]
  end.

Definition rfc_response (a : alg) (sess : bool) (q : qop) (user realm pass nonce method uri body : bytes)
  (cnonce : expr) (nc : N) : expr :=
  let ha1 := H a (rfc_A1 a sess user realm pass nonce cnonce) in
  let ha2 := H a (rfc_A2 a q method uri body) in
  match q with
  | QNone => H a (cj [ha1; Lit nonce; ha2])
  | _ => H a (cj [ha1; Lit nonce; Hex8 nc; cnonce; qop_lit q; ha2])
  end.

Definition rfc_username (a : alg) (userhash : bool) (user realm : bytes) : expr :=
  if userhash then H a (cj [Lit user; Lit realm]) else Lit user.

(* ---------- the session: which challenge is answered, with which credentials, in which header ---------- *)
Record entry := mke { e_realm : bytes; e_nonce : bytes; e_proxy : bool; e_chal : challenge; e_creds : creds; e_uses : N }.

Definition store := (list (bytes * creds) * option creds)%type.
Fixpoint store_get (realm : bytes) (m : list (bytes * creds)) : option creds :=
  match m with [] => None | (r, c) :: t => if bytes_eqb r realm then Some c else store_get realm t end.
(* CredentialStore::add_for_realm: HashMap::insert, the credentials given last for a realm are the stored ones.
   [auth_store_add_replaces] (Gen.Tables) says whether the source has that form; an or_insert would keep the first. *)
Fixpoint store_add (realm : bytes) (c : creds) (m : list (bytes * creds)) : list (bytes * creds) :=
  match m with
  | [] => [(realm, c)]
  | (r, c0) :: t => if bytes_eqb r realm then (r, if auth_store_add_replaces then c else c0) :: t else (r, c0) :: store_add realm c t
  end.
Definition add_for_realm (realm : bytes) (c : creds) (s : store) : store := (store_add realm c (fst s), snd s).
Definition set_default (c : creds) (s : store) : store := (fst s, Some c).
Definition creds_for (s : store) (realm : bytes) : option creds :=
  match store_get realm (fst s) with Some c => Some c | None => snd s end.

Fixpoint find_entry (realm : bytes) (es : list entry) : option entry :=
  match es with [] => None | e :: t => if bytes_eqb (e_realm e) realm then Some e else find_entry realm t end.
Fixpoint remove_entry (realm : bytes) (es : list entry) : list entry :=
  match es with [] => [] | e :: t => if bytes_eqb (e_realm e) realm then t else e :: remove_entry realm t end.

(* group the challenges by realm in order of first appearance (WWW-Authenticate first, then Proxy-) *)
Fixpoint group_add (p : bool) (ch : challenge) (gs : list (bytes * list (bool * challenge))) :=
  match gs with
  | [] => [(c_realm ch, [(p, ch)])]
  | (r, l) :: t => if bytes_eqb r (c_realm ch) then (r, l ++ [(p, ch)]) :: t else (r, l) :: group_add p ch t
  end.
Definition group (chs : list (bool * challenge)) := fold_left (fun gs pc => group_add (fst pc) (snd pc) gs) chs [].

(* handle_challenge: does the authenticator answer this challenge? *)
Definition answerable (enforce reject_md5 : bool) (es : list entry) (ch : challenge) : bool :=
  let fresh := match find_entry (c_realm ch) es with
               | Some e => negb (bytes_eqb (e_nonce e) (c_nonce ch))
               | None => true
               end in
  fresh &&
  match c_alg ch with
  | Some MD5 => negb reject_md5
  | Some _ => true
  | None => false
  end &&
  match choose_qop (enforce || c_sess ch) (c_qops ch) with Some _ => true | None => false end.

Fixpoint first_answerable (enforce reject_md5 : bool) (es : list entry) (l : list (bool * challenge)) : option (bool * challenge) :=
  match l with
  | [] => None
  | pc :: t => if answerable enforce reject_md5 es (snd pc) then Some pc else first_answerable enforce reject_md5 es t
  end.

(* handle_authenticate over the grouped realms; returns the new entries and the realms that failed *)
Fixpoint handle_groups (enforce reject_md5 : bool) (st : store) (es : list entry)
  (gs : list (bytes * list (bool * challenge))) : list entry * list bytes :=
  match gs with
  | [] => (es, [])
  | (realm, l) :: t =>
    match creds_for st realm with
    | None => let '(es', f) := handle_groups enforce reject_md5 st es t in (es', realm :: f)
    | Some c =>
      match first_answerable enforce reject_md5 es l with
      | Some (p, ch) =>
        handle_groups enforce reject_md5 st (remove_entry realm es ++ [mke realm (c_nonce ch) p ch c 0]) t
      | None => let '(es', f) := handle_groups enforce reject_md5 st es t in (es', realm :: f)
      end
    end
  end.

Definition handle_authenticate (enforce reject_md5 : bool) (st : store) (es : list entry) (chs : list (bool * challenge)) :=
  handle_groups enforce reject_md5 st es (group chs).

(* authorize_request: every entry yields one header (Proxy-Authorization iff it answers a Proxy-Authenticate),
   its use count grows by one *)
Definition authorize (es : list entry) : list entry * list (bool * bytes * N) :=
  (map (fun e => mke (e_realm e) (e_nonce e) (e_proxy e) (e_chal e) (e_creds e) (e_uses e + 1)) es,
   map (fun e => (e_proxy e, e_realm e, e_uses e + 1)) es).
