(* Model/C01h.v -- IPv4 literals in the host part (crates/sip-types/src/host.rs): ip4_address = four nom `u8` numbers separated
   by dots (decimal digits, value <= 255), then Ipv4Addr::from_str on the recognised text (strict: one to three digits per octet,
   no leading zero); a text that is not accepted this way is left to the hostname rule (and, as a target, to DNS).
   Definitions only. *)
From Coq Require Import List NArith Bool.
From Coq.Strings Require Import Byte.
From EZK Require Import Lib.Bytes Lib.Num.
Import ListNotations.
Open Scope N_scope.

Definition dot : byte := "."%byte.

(* nom::character::complete::u8: at least one digit, the value must fit *)
Definition nom_u8 (s : bytes) : option (bytes * bytes) :=
  let '(d, r) := take_while is_digit s in
  match d with
  | [] => None
  | _ :: _ => match parse_uint 255 d with Some _ => Some (d, r) | None => None end
  end.

Definition expect_dot (s : bytes) : option bytes :=
  match s with c :: r => if Byte.eqb c dot then Some r else None | [] => None end.

(* recognize(tuple((u8, '.', u8, '.', u8, '.', u8))): the four digit strings and what follows *)
Definition ip4_address (s : bytes) : option (bytes * bytes * bytes * bytes * bytes) :=
  match nom_u8 s with None => None | Some (a, s1) =>
  match expect_dot s1 with None => None | Some s2 =>
  match nom_u8 s2 with None => None | Some (b, s3) =>
  match expect_dot s3 with None => None | Some s4 =>
  match nom_u8 s4 with None => None | Some (c, s5) =>
  match expect_dot s5 with None => None | Some s6 =>
  match nom_u8 s6 with None => None | Some (d, rest) => Some (a, b, c, d, rest)
  end end end end end end end.

(* Ipv4Addr::from_str on one octet: 1..3 digits, no leading zero except for "0" itself *)
Definition strict_octet (d : bytes) : option N :=
  match d with
  | [] => None
  | c :: r =>
    if Nat.ltb 3 (length d) then None
    else if Byte.eqb c "0"%byte && negb (match r with [] => true | _ => false end) then None
    else parse_uint 255 d
  end.

Inductive host4 := IsIP4 (a b c d : N) (rest : bytes) | NotIP4.

(* the second alternative of Host::parse *)
Definition parse_host4 (s : bytes) : host4 :=
  match ip4_address s with
  | None => NotIP4
  | Some (a, b, c, d, rest) =>
    match strict_octet a, strict_octet b, strict_octet c, strict_octet d with
    | Some x, Some y, Some z, Some w => IsIP4 x y z w rest
    | _, _, _, _ => NotIP4
    end
  end.

(* impl Display for Ipv4Addr *)
Definition print_ip4 (a b c d : N) : bytes :=
  print_dec a ++ dot :: print_dec b ++ dot :: print_dec c ++ dot :: print_dec d.
