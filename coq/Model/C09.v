(* Model/C09.v -- model of Endpoint::create_response, add_received_rport and the Content-Length
   insertion of send_outgoing_* (crates/sip-core/src/endpoint.rs).  Definitions only. *)
From Coq Require Import List NArith Bool.
From Coq.Strings Require Import Byte.
From EZK Require Import Lib.Bytes Lib.Num Gen.Tables.
Import ListNotations.
Open Scope N_scope.

(* a host: IP literal (family, numeric value, canonical text as ezk prints it) or a name *)
Inductive host := HIP (v6 : bool) (num : N) (text : bytes) | HName (text : bytes).

Definition host_text (h : host) : bytes := match h with HIP _ _ t => t | HName t => t end.
Definition host_eqb (a b : host) : bool :=
  match a, b with
  | HIP f1 n1 _, HIP f2 n2 _ => Bool.eqb f1 f2 && (n1 =? n2)
  | HName x, HName y => bytes_eqb x y
  | _, _ => false
  end.

Definition params := list (bytes * option bytes).

Record via := mkvia { v_transport : bytes; v_host : host; v_port : option N; v_params : params }.

(* socket address: IP (family, numeric, text without brackets) and port *)
Record addr := mkaddr { a_v6 : bool; a_num : N; a_text : bytes; a_port : N }.

Fixpoint param_get (name : bytes) (ps : params) : option (option bytes) :=
  match ps with
  | [] => None
  | (n, v) :: r => if bytes_eqb n name then Some v else param_get name r
  end.

Definition param_val (name : bytes) (ps : params) : option bytes :=
  match param_get name ps with Some (Some v) => Some v | _ => None end.

Fixpoint param_set (name : bytes) (v : bytes) (ps : params) : params :=
  match ps with
  | [] => []
  | (n, x) :: r => if bytes_eqb n name then (n, Some v) :: r else (n, x) :: param_set name v r
  end.

(* Params::push_or_edit *)
Definition push_or_edit (name v : bytes) (ps : params) : params :=
  match param_get name ps with
  | Some _ => param_set name v ps
  | None => ps ++ [(name, Some v)]
  end.

Definition s_received : bytes := Eval vm_compute in B"received".
Definition s_rport : bytes := Eval vm_compute in B"rport".
Definition s_maddr : bytes := Eval vm_compute in B"maddr".

(* add_received_rport(via, source) *)
Definition add_received_rport (v : via) (src : addr) : via :=
  let ps1 := if host_eqb (HIP (a_v6 src) (a_num src) (a_text src)) (v_host v) then v_params v
             else push_or_edit s_received (a_text src) (v_params v) in
  let ps2 := match param_get s_rport ps1 with
             | Some _ => param_set s_rport (print_dec (a_port src)) ps1
             | None => ps1
             end in
  mkvia (v_transport v) (v_host v) (v_port v) ps2.

(* Ipv4Addr::from_str: four decimal octets, 1-3 digits, no leading zero, <= 255 *)
Fixpoint split_dots (s : bytes) (cur : bytes) : list bytes :=
  match s with
  | [] => [rev cur]
  | c :: r => if Byte.eqb c "."%byte then rev cur :: split_dots r [] else split_dots r (c :: cur)
  end.

Definition parse_octet (s : bytes) : option N :=
  match s with
  | [] => None
  | [_] | [_; _] | [_; _; _] =>
    if forallb is_digit s then
      match s with
      | c :: _ :: _ => if Byte.eqb c "0"%byte then None
                       else match digits_value 0 s with Some v => if v <=? 255 then Some v else None | None => None end
      | _ => digits_value 0 s
      end
    else None
  | _ => None
  end.

Definition parse_ipv4 (s : bytes) : option N :=
  match map parse_octet (split_dots s []) with
  | [Some a; Some b; Some c; Some d] => Some (((a * 256 + b) * 256 + c) * 256 + d)
  | _ => None
  end.

Definition print_ipv4 (n : N) : bytes :=
  print_dec (n / 16777216) ++ ["."%byte] ++ print_dec ((n / 65536) mod 256) ++ ["."%byte] ++
  print_dec ((n / 256) mod 256) ++ ["."%byte] ++ print_dec (n mod 256).

(* destination of a response; [v0] is the top Via after add_received_rport; [conn] is the remote
   address of the connection the request arrived on (None for datagram transports) *)
Definition destination (v0 : via) (src : addr) (conn : option addr) : addr :=
  match conn with
  | Some remote => remote
  | None =>
    match match param_val s_maddr (v_params v0) with Some m => parse_ipv4 m | None => None end with
    | Some ip => mkaddr false ip (print_ipv4 ip) (match v_port v0 with Some p => p | None => 5060 end)
    | None =>
      match match param_val s_rport (v_params v0) with Some r => parse_uint 65535 r | None => None end with
      | Some p => mkaddr (a_v6 src) (a_num src) (a_text src) p
      | None => src
      end
    end
  end.

Fixpoint assoc_code (c : N) (t : list (N * bytes)) : option bytes :=
  match t with [] => None | (k, v) :: r => if k =? c then Some v else assoc_code c r end.

(* the request parts a response is built from *)
Record request := mkreq {
  rq_vias : list via;          (* as received, top first; non-empty *)
  rq_from : bytes; rq_to : bytes; rq_call_id : bytes; rq_cseq : bytes;
  rq_timestamp : list bytes
}.

Inductive hname := HVia | HFrom | HTo | HCallId | HCSeq | HTimestamp | HContentLength.

Definition print_params (ps : params) : bytes :=
  flat_map (fun p => ";"%byte :: fst p ++ match snd p with Some v => "="%byte :: v | None => [] end) ps.

Definition s_sip20 : bytes := Eval vm_compute in B"SIP/2.0/".
Definition print_via (v : via) : bytes :=
  s_sip20 ++ v_transport v ++ [" "%byte] ++ host_text (v_host v) ++
  match v_port v with Some p => ":"%byte :: print_dec p | None => [] end ++ print_params (v_params v).

Record response := mkresp {
  rs_code : N; rs_reason : option bytes;
  rs_headers : list (hname * bytes);
  rs_dest : addr
}.

(* do_receive (stamps the top Via) followed by create_response *)
Definition create_response (rq : request) (src : addr) (conn : option addr) (code : N) (reason : option bytes) : option response :=
  match rq_vias rq with
  | [] => None
  | v0 :: vs =>
    let v0' := add_received_rport v0 src in
    Some (mkresp code
            (match reason with Some r => Some r | None => assoc_code code code_reasons end)
            (map (fun v => (HVia, print_via v)) (v0' :: vs) ++
             [(HFrom, rq_from rq); (HTo, rq_to rq); (HCallId, rq_call_id rq); (HCSeq, rq_cseq rq)] ++
             (if code =? 100 then map (fun t => (HTimestamp, t)) (rq_timestamp rq) else []))
            (destination v0' src conn))
  end.

Definition hname_eqb (a b : hname) : bool :=
  match a, b with
  | HVia, HVia | HFrom, HFrom | HTo, HTo | HCallId, HCallId | HCSeq, HCSeq | HTimestamp, HTimestamp
  | HContentLength, HContentLength => true
  | _, _ => false
  end.

(* send_outgoing_*: exactly one Content-Length equal to the body size, whatever was there before *)
Definition finalize_headers (hs : list (hname * bytes)) (body_len : N) : list (hname * bytes) :=
  filter (fun p => negb (hname_eqb (fst p) HContentLength)) hs ++ [(HContentLength, print_dec body_len)].
