(* Model/C02.v -- the panic sites of the receive path that are pure index / integer logic:
   sip-core/src/transport/parse.rs::parse_complete_sip (body slicing with usize arithmetic),
   sip-core/src/lib.rs::BaseHeaders::extract_from + endpoint.rs::do_receive (via[0]),
   the per-socket receive loop of transport/udp.rs and the per-connection loop of
   transport/streaming/mod.rs (as folds over packets / decoded items).
   The line splitter, the stream decoder and the FramedRead loop are Model/C03.v.
   Rust operations that can panic are explicit: [usize_add] (overflow: panic in debug, wrap in
   release), [slice] (Bytes::slice panics unless lo <= hi <= len), [index0] (v[0] on an empty Vec).
   Definitions only. *)
From Coq Require Import List Arith NArith Bool.
From Coq.Strings Require Import Byte.
From EZK Require Import Lib.Bytes Lib.Num Lib.Utf8 Model.C03.
Import ListNotations.
Close Scope N_scope.
Open Scope nat_scope.

(* a + b on usize: None = panic (debug profile), wrapped value in release *)
Definition usize_add (debug : bool) (a b : N) : option N :=
  let s := (a + b)%N in
  if (s <=? usize_max)%N then Some s
  else if debug then None else Some (s mod (usize_max + 1))%N.

(* Bytes::slice(lo..hi) *)
Definition slice (s : bytes) (lo hi : N) : option bytes :=
  if ((lo <=? hi) && (hi <=? N.of_nat (length s)))%N
  then Some (sub s (N.to_nat lo) (N.to_nat hi)) else None.

(* parse_complete_sip after the head has been split into lines: [checked] = the announced body end
   is computed with checked_add (Gen.Tables.dg_body_end_checked says which form the source has) *)
Definition datagram_body (checked debug : bool) (src : bytes) (he : nat) (cl : option N) : dgram :=
  let len := N.of_nat (length src) in
  let h := N.of_nat he in
  match cl with
  | Some n =>
    if (n =? 0)%N then DgOk he []
    else if checked then
      (* head_end.checked_add(len).filter(|e| buffer.len() >= e) *)
      if ((h + n <=? usize_max) && (h + n <=? len))%N then
        match slice src h (h + n)%N with Some b => DgOk he b | None => DgPanic end
      else DgErr
    else
      (* buffer.len() >= head_end + len.0 ; buffer.slice(head_end..head_end + len.0) *)
      match usize_add debug h n with
      | None => DgPanic
      | Some e => if (e <=? len)%N then
                    match slice src h e with Some b => DgOk he b | None => DgPanic end
                  else DgErr
      end
  | None =>
    if (h =? len)%N then DgOk he []
    else match slice src h len with Some b => DgOk he b | None => DgPanic end
  end.

Definition header_content_length (hs : list (bytes * bytes)) : option N :=
  match find (fun nv => is_cl_name (fst nv)) hs with
  | Some (_, v) => parse_uint usize_max (trim v)
  | None => None
  end.

Definition datagram_code (checked debug : bool) (src : bytes) : dgram :=
  match collect_headers (S (length src)) src 0 true [] with
  | None => DgErr
  | Some (p, hs) => datagram_body checked debug src (head_end src p) (header_content_length hs)
  end.

(* ---------- BaseHeaders::extract_from and do_receive's via[0] ---------- *)
Inductive base (V : Type) := BOk (top : V) | BErr | BPanic.
Arguments BOk {V}. Arguments BErr {V}. Arguments BPanic {V}.

(* [vias] = the Via values that parsed (unparsable ones are skipped by Headers::get_named::<Vec<Via>>);
   [require] = extract_from rejects an empty list (Gen.Tables.base_requires_via) *)
Definition top_via {V} (require : bool) (vias : list V) : base V :=
  match vias with
  | v :: _ => BOk v
  | [] => if require then BErr else BPanic
  end.

(* ---------- receive loops ---------- *)
(* what one datagram does to the socket's receive task *)
Inductive pkt := Delivered (he : nat) (body : bytes) | Dropped | KeepAlive | TaskPanic.

Definition ka_req : bytes := [CR; LF; CR; LF].
Definition ka_resp : bytes := [CR; LF].

Definition handle_packet (checked debug : bool) (p : bytes) : pkt :=
  if bytes_eqb p ka_req || bytes_eqb p ka_resp then KeepAlive
  else match datagram_code checked debug p with
       | DgOk he b => Delivered he b
       | DgErr => Dropped
       | DgPanic => TaskPanic
       end.

(* loop { recv_from; handle_msg } : a panic ends the task, later packets are never looked at *)
Fixpoint udp_loop (checked debug : bool) (ps : list bytes) : list pkt * bool :=
  match ps with
  | [] => ([], true)
  | p :: rest =>
    match handle_packet checked debug p with
    | TaskPanic => ([TaskPanic], false)
    | o => let '(os, alive) := udp_loop checked debug rest in (o :: os, alive)
    end
  end.

(* ---------- second pass of StreamingDecoder::decode over the split-off frame ---------- *)
(* the PullParser is run again from offset 0 over the frame; where it stops is the head end used for the body slice *)
Fixpoint second_head (fuel : nat) (frame : bytes) (p : nat) : option nat :=
  match fuel with
  | O => None
  | S f =>
    match pull_next frame p with
    | Line _ _ next => second_head f frame next
    | EndOfHead => Some p
    | _ => None
    end
  end.

(* the Headers value the second pass builds: malformed header lines are logged and skipped *)
Fixpoint lenient_headers (fuel : nat) (frame : bytes) (p : nat) (first : bool) (acc : list (bytes * bytes)) : list (bytes * bytes) :=
  match fuel with
  | O => acc
  | S f =>
    match pull_next frame p with
    | Line lo hi next =>
      if first then lenient_headers f frame next false acc
      else match parse_header_line (sub frame lo hi) with
           | Some nv => lenient_headers f frame next false (acc ++ [nv])
           | None => lenient_headers f frame next false acc
           end
    | _ => acc
    end
  end.

Inductive sp := SpOk (he : nat) (body : bytes) | SpMalformed | SpPanic.

(* [saved] = the body length is the one the first pass stored (Gen.Tables.stream_body_len_saved says which form the
   source has); the other form decodes Content-Length again from the parsed headers (first value) *)
Definition second_pass (saved : bool) (frame : bytes) (cl : N) : sp :=
  match second_head (S (length frame)) frame 0 with
  | None => SpMalformed
  | Some p =>
    let he := head_end frame p in
    let n := if saved then cl
             else match header_content_length (lenient_headers (S (length frame)) frame 0 true []) with Some n => n | None => 0%N end in
    match slice frame (N.of_nat he) (N.of_nat he + n) with
    | Some b => SpOk he b
    | None => SpPanic
    end
  end.
