(* Model/C08.v -- who answers an incoming request:
   sip-core/src/endpoint.rs::do_receive (layer loop, handle_unwanted_request),
   sip-ua/src/dialog/layer.rs::DialogLayer::receive (CSeq ordering of Model/C10.v, usage loop,
   handle_unwanted_request).  A layer / usage that takes a request answers it through the
   transaction it creates (INVITE: server INVITE transaction with a failure response, else a
   non-INVITE server transaction); ACKs cannot be answered.  Definitions only. *)
From Coq Require Import List Arith NArith Bool.
From EZK Require Import Lib.Bytes Model.C10.
Import ListNotations.
Close Scope N_scope.
Open Scope nat_scope.

Inductive meth := Invite | Ack | Bye | Cancel | Options | Info | Update | Message | Unknown.

Definition meth_eqb (a b : meth) : bool :=
  match a, b with
  | Invite, Invite | Ack, Ack | Bye, Bye | Cancel, Cancel | Options, Options | Info, Info
  | Update, Update | Message, Message | Unknown, Unknown => true
  | _, _ => false
  end.

Definition takes (mask : list meth) (m : meth) : bool := existsb (meth_eqb m) mask.

(* an incoming request that starts a new server transaction: identity (the harness uses the Via
   branch), method, the dialog it matches (index into the dialog table; None = no To-tag or no such
   dialog), CSeq number *)
Record req := mkq { q_id : N; q_meth : meth; q_dlg : option nat; q_cseq : N }.

Inductive layer := LRec (mask : list meth) | LDialog.

Record dentry := mkde { d_st : C10.dstate; d_usages : list (list meth) }.

Inductive ev :=
| Offer (layer : nat) (rid : N)                 (* a recording layer looked at the request *)
| UOffer (dlg usage : nat) (rid : N)            (* a usage of a dialog looked at the request *)
| Final (rid : N) (code : N) (inv_tsx : bool)   (* final response, through an INVITE server transaction or not *)
| Parked (rid : N).                             (* held in a dialog backlog *)

Definition is_ack (r : req) : bool := meth_eqb (q_meth r) Ack.
Definition is_invite (r : req) : bool := meth_eqb (q_meth r) Invite.

Definition answer (r : req) (code : N) : list ev :=
  if is_ack r then [] else [Final (q_id r) code (is_invite r)].

(* what a taking layer / usage of the harness answers: 486 to INVITE, 200 otherwise *)
Definition taker_code (r : req) : N := if is_invite r then 486%N else 200%N.

(* the usage loop of DialogLayer::receive, then its handle_unwanted_request (404) *)
Fixpoint offer_usages (d : nat) (us : list (list meth)) (i : nat) (r : req) : list ev :=
  match us with
  | [] => answer r 404%N
  | u :: rest =>
    UOffer d i (q_id r) :: (if takes u (q_meth r) then answer r (taker_code r) else offer_usages d rest (S i) r)
  end.

Definition lookup (id : N) (env : list req) : option req := find (fun x => N.eqb (q_id x) id) env.

Fixpoint set_nth {A} (l : list A) (n : nat) (x : A) : list A :=
  match l, n with
  | [], _ => []
  | _ :: t, O => x :: t
  | h :: t, S k => h :: set_nth t k x
  end.

(* the requests a dialog hands to its usages in this call: the CSeq machine of Model/C10 *)
Definition deliver (d : nat) (e : dentry) (env : list req) (r : req) : dentry * list req * bool :=
  let '(st', del) := C10.step (d_st e) (C10.mkreq (q_cseq r) (q_id r) (is_ack r)) in
  (mkde st' (d_usages e),
   flat_map (fun ci => match lookup (snd ci) (r :: env) with Some r' => [r'] | None => [] end) del,
   match del with [] => true | _ => false end).

(* the layer loop of do_receive, then handle_unwanted_request (481) *)
Fixpoint walk (ls : list layer) (i : nat) (ds : list dentry) (env : list req) (r : req) : list dentry * list ev :=
  match ls with
  | [] => (ds, answer r 481%N)
  | LRec mask :: rest =>
    if takes mask (q_meth r) then (ds, Offer i (q_id r) :: answer r (taker_code r))
    else let '(ds', evs) := walk rest (S i) ds env r in (ds', Offer i (q_id r) :: evs)
  | LDialog :: rest =>
    match q_dlg r with
    | None => walk rest (S i) ds env r
    | Some d =>
      match nth_error ds d with
      | None => walk rest (S i) ds env r
      | Some e =>
        if C10.refused (d_st e) (C10.mkreq (q_cseq r) (q_id r) (is_ack r)) then walk rest (S i) ds env r else
        let '(e', reqs, parked) := deliver d e env r in
        (set_nth ds d e',
         if parked then [Parked (q_id r)]
         else flat_map (fun r' => offer_usages d (d_usages e) 0 r') reqs)
      end
    end
  end.

(* a history of requests, each dispatched to completion before the next *)
Fixpoint run (ls : list layer) (ds : list dentry) (env : list req) (rs : list req) : list dentry * list ev :=
  match rs with
  | [] => (ds, [])
  | r :: rest =>
    let '(ds1, e1) := walk ls 0 ds env r in
    let '(ds2, e2) := run ls ds1 (r :: env) rest in
    (ds2, e1 ++ e2)
  end.

Definition finals (id : N) (evs : list ev) : nat :=
  length (filter (fun e => match e with Final i _ _ => N.eqb i id | _ => false end) evs).

(* the requests that reach an answerer in this dispatch (the request itself unless parked, plus the
   parked ones it releases) *)
Fixpoint handled (ls : list layer) (ds : list dentry) (env : list req) (r : req) : list req :=
  match ls with
  | [] => [r]
  | LRec mask :: rest => if takes mask (q_meth r) then [r] else handled rest ds env r
  | LDialog :: rest =>
    match q_dlg r with
    | None => handled rest ds env r
    | Some d =>
      match nth_error ds d with
      | None => handled rest ds env r
      | Some e => if C10.refused (d_st e) (C10.mkreq (q_cseq r) (q_id r) (is_ack r)) then handled rest ds env r
                  else let '(_, reqs, _) := deliver d e env r in reqs
      end
    end
  end.
