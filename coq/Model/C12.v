(* Model/C12.v -- UAS side of an INVITE handled through the acceptor:
   crates/sip-ua/src/invite/{mod,acceptor,prack}.rs.
   (1) an untimed machine for the "exactly one final response" race: the pending INVITE transaction is
       a linear token that exactly one of set_cancelled / set_established / set_terminated moves out;
       the critical sections are serialised by the state mutex, so any interleaving is a sequence of
       these atomic events;
   (2) the timed retransmission loops of the 2xx (until the ACK) and of a reliable provisional
       response (until the PRACK).  Definitions only. *)
From Coq Require Import List NArith Bool.
From EZK Require Import Gen.Tables Model.Tsx.
Import ListNotations.
Open Scope N_scope.

Inductive istate := Prov | Cancelled | Established | Terminated.

Record ust := mkust { state : istate; cancellable : bool (* entry still in InviteLayer.cancellables *);
                      acceptor_alive : bool }.

Inductive uevent :=
| EvCancel (matching : bool)     (* CANCEL; matching = same branch and CSeq as the pending INVITE *)
| EvBye                          (* BYE inside the dialog *)
| EvAccept                       (* application: respond_success *)
| EvReject (code : N)            (* application: respond_failure *)
| EvProvisional                  (* application: respond_provisional *)
| EvDropAcceptor                 (* application drops the Acceptor without answering *)
| EvGone.                        (* respond_success / respond_failure returned: the Acceptor is dropped, its pending-cancel entry removed *)

Inductive uout :=
| InviteFinal (code : N)         (* a final response to the INVITE (own Via / CSeq of the INVITE) *)
| CancelAnswer (code : N)        (* answer to the CANCEL, with the CANCEL's Via / CSeq *)
| ByeAnswer (code : N)           (* answer to the BYE, with the BYE's Via / CSeq *)
| ByeToSession                   (* BYE handed to the established session (which answers it) *)
| ProvisionalSent
| AcceptResult (ok : bool)       (* false = RequestTerminated *)
| RejectResult (ok : bool)
| ProvisionalResult (ok : bool).

Definition ustep (s : ust) (e : uevent) : ust * list uout :=
  match e with
  | EvCancel true =>
    if cancellable s then
      match state s with
      | Prov => (mkust Cancelled false (acceptor_alive s), [InviteFinal 487; CancelAnswer 200])
      | st => (mkust st false (acceptor_alive s), [CancelAnswer 200])
      end
    else (s, [CancelAnswer 481])
  | EvCancel false => (s, [CancelAnswer 481])
  | EvBye =>
    match state s with
    | Prov => (mkust Terminated (cancellable s) (acceptor_alive s), [InviteFinal 487; ByeAnswer 200])
    | Established => (mkust Terminated (cancellable s) (acceptor_alive s), [ByeToSession])
    | _ => (mkust Terminated (cancellable s) (acceptor_alive s), [ByeAnswer 404])
    end
  | EvAccept =>
    if acceptor_alive s then
      match state s with
      | Prov => (mkust Established (cancellable s) false, [InviteFinal 200; AcceptResult true])
      | st => (mkust st false false, [AcceptResult false])
      end
    else (s, [])
  | EvReject code =>
    if acceptor_alive s then
      match state s with
      | Prov => (mkust Cancelled (cancellable s) false, [InviteFinal code; RejectResult true])
      | st => (mkust st false false, [RejectResult false])
      end
    else (s, [])
  | EvProvisional =>
    if acceptor_alive s then
      match state s with
      | Prov => (s, [ProvisionalSent; ProvisionalResult true])
      | _ => (s, [ProvisionalResult false])
      end
    else (s, [])
  | EvDropAcceptor => (mkust (state s) false false, [])
  | EvGone => (mkust (state s) false (acceptor_alive s), [])
  end.

Definition urun (evs : list uevent) : ust * list uout :=
  fold_left (fun '(s, out) e => let '(s', o) := ustep s e in (s', out ++ o)) evs (mkust Prov true true, []).

Definition is_final (o : uout) : bool := match o with InviteFinal _ => true | _ => false end.
Definition finals (l : list uout) : nat := length (filter is_final l).

(* ---------- timed retransmission until a matching event ---------- *)
(* [cap] = Some T2 for the 2xx, None for a reliable provisional response; the loop sends the first
   copy at t0 (done by the caller), then re-sends at doubling intervals until the matching event or
   t0 + 64*T1.  [arrival] = instant of the matching ACK / PRACK, if any. *)
Fixpoint retrans (fuel : nat) (cap : option N) (tie : bool) (abandon next delta : N) (arrival : option N) : list out :=
  match fuel with
  | O => [OutOfFuel]
  | S fuel =>
    let deadline := N.min next abandon in
    let seen := match arrival with
                | Some a => if tie then a <=? deadline else a <? deadline
                | None => false
                end in
    if seen then [Done (match arrival with Some a => a | None => 0 end)]
    else if abandon <=? deadline then [TimedOut abandon]
    else
      let d' := match cap with Some c => N.min (delta * 2) c | None => delta * 2 end in
      Send deadline :: retrans fuel cap tie abandon (deadline + d') d' arrival
  end.

Definition retransmit_2xx (tie : bool) (t0 : N) (ack : option N) : list out :=
  Send t0 :: retrans 80 (Some T2_ms) tie (t0 + timeout_ms) (t0 + T1_ms) T1_ms ack.

Definition retransmit_reliable_1xx (tie : bool) (t0 : N) (prack : option N) : list out :=
  Send t0 :: retrans 80 None tie (t0 + timeout_ms) (t0 + T1_ms) T1_ms prack.

(* which PRACK completes the rendezvous: only the one whose RAck carries the awaited RSeq and CSeq *)
Inductive prack := PrackOk (rseq cseq : N) | PrackMalformed | PrackNoRack.
Definition prack_matches (awaited_rseq awaited_cseq : N) (p : prack) : bool :=
  match p with PrackOk r c => (r =? awaited_rseq) && (c =? awaited_cseq) | _ => false end.

(* the awaited PRACK survives every non-matching one *)
Fixpoint prack_run (awaited : option (N * N)) (ps : list prack) : option (N * N) * list bool :=
  match ps with
  | [] => (awaited, [])
  | p :: r =>
    match awaited with
    | Some (rs, cs) =>
      if prack_matches rs cs p then let '(a, l) := prack_run None r in (a, true :: l)
      else let '(a, l) := prack_run awaited r in (a, false :: l)
    | None => let '(a, l) := prack_run None r in (a, false :: l)
    end
  end.
