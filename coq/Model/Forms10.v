(* Model/Forms10.v -- third batch of decision points made explicit (see Model/Forms8.v).  Definitions only. *)
From Coq Require Import List NArith Arith Bool.
From Coq.Strings Require Import Byte.
From EZK Require Import Lib.Bytes Gen.Tables.
Import ListNotations.
Local Close Scope N_scope.

(* ---- C02: indexing the character-class table; None = index out of bounds (panic) ---------------------------------------- *)
Definition lookup_form (guarded : bool) (table : list bool) (c : nat) : option bool :=
  if (if guarded then Nat.ltb c (length table) else Nat.leb c (length table))
  then nth_error table c            (* indexes the table *)
  else Some false.                  (* outside the table: not in the class *)
Definition lookup := lookup_form lookup_index_guarded.

(* ---- C05: ClientTsx::receive_final when [provs] provisional responses precede the final -------------------------------- *)
(* true = the final response is what the caller gets *)
Definition receive_final_form (loops : bool) (provs : nat) : bool := loops || Nat.leb provs 1.
Definition receive_final := receive_final_form receive_final_loops.

(* ---- C06: further transmissions of the final by ServerTsx::respond over a reliable transport ---------------------------- *)
Definition reliable_extra_sends_form (returns_at_once : bool) (waiting_copies : nat) : nat := if returns_at_once then 0 else waiting_copies.
Definition reliable_extra_sends := reliable_extra_sends_form nonink_reliable_returns_at_once.

(* ---- C07: which final responses the INVITE client transaction ACKs ------------------------------------------------------ *)
Inductive fclass := F2 | F3 | F4 | F5 | F6 | FExt.        (* FExt: a code outside 100..699 *)
Definition acked_form (catch_all : bool) (c : fclass) : bool :=
  match c with
  | F2 => false
  | F3 | F4 | F5 => true
  | F6 | FExt => catch_all
  end.
Definition acked := acked_form non2xx_arm_catches_all.

(* ---- C10: equality of the tags (and Call-IDs) in a dialog key ----------------------------------------------------------- *)
Definition key_part_eq_form (bytewise : bool) (a b : bytes) : bool :=
  if bytewise then bytes_eqb a b else bytes_eqb (map to_lower a) (map to_lower b).
Definition key_part_eq := key_part_eq_form dialog_key_bytewise.

(* ---- C11: the callee's remote target after the ACK ---------------------------------------------------------------------- *)
Definition callee_target_form {A} (from_invite : bool) (invite_contact : A) (ack_contact : option A) : A :=
  if from_invite then invite_contact else match ack_contact with Some c => c | None => invite_contact end.
Definition callee_target {A} := @callee_target_form A callee_target_from_invite.

(* ---- C14: is a factory asked to connect ----------------------------------------------------------------------------------- *)
Definition connects_form (only_when_none : bool) (found_existing : bool) : bool := if only_when_none then negb found_existing else true.
Definition connects := connects_form connect_only_when_none_found.

(* ---- C17: Registration::receive_success_response over a sequence of granted lifetimes (seconds) --------------------------- *)
(* state: (stored lifetime, lifetime the running refresh interval was built for) *)
Definition reg_step_form (stores : bool) (st : N * N) (granted : N) : N * N :=
  let '(stored, built_for) := st in
  if N.eqb stored granted then st else ((if stores then granted else stored), granted).
Definition reg_run_form (stores : bool) (requested : N) (grants : list N) : N * N :=
  fold_left (reg_step_form stores) grants (requested, requested).
Definition reg_run := reg_run_form granted_lifetime_stored.

(* ---- C20: what a query sees behind an integrity attribute ---------------------------------------------------------------- *)
Inductive atyp := TIntegrity | TIntegritySha256 | TFingerprint | TOtherAttr.
Definition visible_after_integrity_form (names_sha256 : bool) (t : atyp) : bool :=
  match t with
  | TFingerprint => true
  | TIntegritySha256 => names_sha256
  | TIntegrity => negb names_sha256
  | TOtherAttr => false
  end.
Definition visible_after_integrity := visible_after_integrity_form sha256_visible_after_integrity.

(* ---- C19: the text of a line handed to the field parsers ------------------------------------------------------------------ *)
Definition is_blank (b : byte) : bool := Byte.eqb b x20 || Byte.eqb b x09.
Fixpoint trim_end (s : bytes) : bytes :=
  match s with
  | [] => []
  | b :: r => match trim_end r with
              | [] => if is_blank b then [] else [b]
              | r' => b :: r'
              end
  end.
Definition line_text_form (verbatim : bool) (s : bytes) : bytes := if verbatim then s else trim_end s.
Definition line_text := line_text_form sdp_lines_verbatim.

(* ---- C16: does dropping an Acceptor remove its pending-cancel entry ------------------------------------------------------- *)
Definition drop_removes_form (always : bool) (state_is_cancelled : bool) : bool := always || negb state_is_cancelled.
Definition drop_removes := drop_removes_form acceptor_drop_always_removes.

(* ---- C13: does the session made from a 2xx get a session timer ------------------------------------------------------------ *)
Definition session_has_timer_form (from_header : bool) (has_session_expires lists_supported_timer : bool) : bool :=
  has_session_expires && (from_header || lists_supported_timer).
Definition session_has_timer := session_has_timer_form session_timer_from_header.

(* ---- C10: does dropping a UsageGuard remove its usage when another thread is inside the dialog layer -------------------- *)
Definition guard_drop_removes_form (waits_for_lock : bool) (lock_held_elsewhere : bool) : bool := waits_for_lock || negb lock_held_elsewhere.
Definition guard_drop_removes := guard_drop_removes_form usage_guard_drop_waits.

(* ---- C20: from which instant on does a response carrying the request's transaction id find the request ---------------------- *)
(* first_send_done = the instant the transport's send_to future of the first transmission completes; resp_at = arrival of the response *)
Definition registered_from_form (before_send : bool) (first_send_done : N) : N := if before_send then 0%N else first_send_done.
Definition response_matched_form (before_send : bool) (first_send_done resp_at : N) : bool :=
  (registered_from_form before_send first_send_done <=? resp_at)%N.
Definition response_matched := response_matched_form stun_tsx_registered_before_send.
