(* Model/C01.v -- crates/sip-types: percent escaping (percent-encoding crate semantics with the sets derived
   by encode_set! from the parsers' character classes), method classification, the user part, URI and
   header parameters, and the SIP URI printer / parser with the RFC 3261 Table 1 print contexts.
   Hosts are byte strings accepted by a validity predicate (Host::parse has its own nom parser; the
   std IPv6 text form is not modelled).  Character classes and method names come from Gen/Tables.v.
   Definitions only. *)
From Coq Require Import List Arith NArith Bool.
From Coq.Strings Require Import Byte.
From EZK Require Import Gen.Tables Lib.Bytes Lib.Num.
Import ListNotations.
Close Scope N_scope.
Open Scope nat_scope.

Definition mem (c : byte) (l : list byte) : bool := existsb (Byte.eqb c) l.

Definition pct : byte := "%"%byte.

(* ---------- percent-encoding crate ---------- *)
Definition hexd (n : N) : byte := if (n <? 10)%N then n2b (48 + n) else n2b (55 + n).      (* upper case *)
Definition hexv (b : byte) : option N :=
  let n := b2n b in
  if ((48 <=? n) && (n <=? 57))%N then Some (n - 48)%N
  else if ((65 <=? n) && (n <=? 70))%N then Some (n - 55)%N
  else if ((97 <=? n) && (n <=? 102))%N then Some (n - 87)%N
  else None.

(* percent_encode(input, set): [keep c] = c is not in the set *)
Fixpoint pct_encode (keep : byte -> bool) (s : bytes) : bytes :=
  match s with
  | [] => []
  | c :: r => if keep c then c :: pct_encode keep r
              else pct :: hexd (b2n c / 16) :: hexd (b2n c mod 16) :: pct_encode keep r
  end.

(* percent_decode: "%" followed by two hex digits is one byte, everything else is literal *)
Fixpoint pct_decode (s : bytes) : bytes :=
  match s with
  | [] => []
  | c :: r =>
    if Byte.eqb c pct then
      match r with
      | h :: l :: r' =>
        match hexv h, hexv l with
        | Some a, Some b => n2b (a * 16 + b) :: pct_decode r'
        | _, _ => c :: pct_decode r
        end
      | _ => c :: pct_decode r
      end
    else c :: pct_decode r
  end.

(* encode_set!(class): CONTROLS, NUL, every ASCII byte outside the class, and (sip_encode_set_has_percent) '%';
   non-ASCII bytes are always escaped *)
Definition keep_of (class : list byte) (c : byte) : bool :=
  (b2n c <? 128)%N && (32 <=? b2n c)%N && negb (N.eqb (b2n c) 127) && mem c class &&
  negb (sip_encode_set_has_percent && Byte.eqb c pct).

Definition user_keep := keep_of sip_user_class.
Definition param_keep := keep_of sip_param_class.
Definition header_keep := keep_of sip_header_class.

(* ---------- methods ---------- *)
Fixpoint index_of (s : bytes) (l : list bytes) (i : nat) : option nat :=
  match l with [] => None | x :: r => if bytes_eqb s x then Some i else index_of s r (S i) end.

Inductive method := MKnown (i : nat) | MOther (tok : bytes).
Definition method_of (tok : bytes) : method :=
  match index_of tok sip_method_names 0 with Some i => MKnown i | None => MOther tok end.
Definition method_name (m : method) : bytes :=
  match m with MKnown i => nth i sip_method_names [] | MOther t => t end.

(* Method::parse: take_while1(token), then the classification; what follows the token is left to the caller
   (CSeq / RAck stop there, the request line goes on with a blank) *)
Definition is_token_char (c : byte) : bool := mem c sip_token_class.
Definition method_parse (s : bytes) : option (method * bytes) :=
  let '(a, b) := take_while is_token_char s in
  match a with [] => None | _ :: _ => Some (method_of a, b) end.

(* ---------- parameters ---------- *)
Record param := mkparam { pm_name : bytes; pm_value : option bytes }.

Definition eqs : byte := "="%byte.

(* Param::write *)
Definition print_param (keep : byte -> bool) (p : param) : bytes :=
  pct_encode keep (pm_name p) ++ match pm_value p with Some v => eqs :: pct_encode keep v | None => [] end.

(* FilteredPrint: first delimiter, then delimiter between the parameters that pass the filter *)
Fixpoint print_params_from (keep : byte -> bool) (first delim : byte) (is_first : bool) (ps : list param) : bytes :=
  match ps with
  | [] => []
  | p :: r => (if is_first then first else delim) :: print_param keep p ++ print_params_from keep first delim false r
  end.

Definition print_params keep first delim (ps : list param) : bytes := print_params_from keep first delim true ps.

Definition is_ws (b : byte) : bool :=
  Byte.eqb b x20 || Byte.eqb b x09 || Byte.eqb b x0a || Byte.eqb b x0d || Byte.eqb b x0c.
Definition skip_ws (s : bytes) : bytes := snd (take_while is_ws s).

(* Param::do_parse without the quoted-string alternative (the printer never writes a raw quote) *)
Definition parse_param (class : list byte) (s : bytes) : option (param * bytes) :=
  let '(name, r1) := take_while (fun c => mem c class) (skip_ws s) in
  let r1' := skip_ws r1 in
  match r1' with
  | c :: r2 =>
    if Byte.eqb c eqs then
      let r2' := skip_ws r2 in
      match r2' with
      | q :: _ => if Byte.eqb q """"%byte then None       (* quoted value: not produced by the printer, not modelled *)
                  else let '(v, r3) := take_while (fun c => mem c class) r2' in
                       Some (mkparam (pct_decode name) (Some (pct_decode v)), r3)
      | [] => Some (mkparam (pct_decode name) (Some []), [])
      end
    else Some (mkparam (pct_decode name) None, r1')
  | [] => Some (mkparam (pct_decode name) None, r1')
  end.

(* Params::parse: opt(ws(first, param, many0(ws(delim, param)))) *)
Fixpoint parse_params_rest (fuel : nat) (class : list byte) (delim : byte) (s : bytes) : list param * bytes :=
  match fuel with
  | O => ([], s)
  | S f =>
    match skip_ws s with
    | c :: r => if Byte.eqb c delim then
                  match parse_param class r with
                  | Some (p, r') => let '(ps, r'') := parse_params_rest f class delim r' in (p :: ps, r'')
                  | None => ([], s)
                  end
                else ([], s)
    | [] => ([], s)
    end
  end.

Definition parse_params (class : list byte) (first delim : byte) (s : bytes) : list param * bytes :=
  match skip_ws s with
  | c :: r => if Byte.eqb c first then
                match parse_param class r with
                | Some (p, r') => let '(ps, r'') := parse_params_rest (S (length r')) class delim r' in (p :: ps, r'')
                | None => ([], s)
                end
              else ([], s)
  | [] => ([], s)
  end.

(* ---------- SIP URI ---------- *)
Record uri := mkuri {
  u_sips : bool; u_user : option bytes; u_pw : option bytes; u_host : bytes; u_port : option N;
  u_params : list param; u_headers : list param }.

Inductive ctx := CNone | CReqUri | CFromTo | CContact | CContactRegister | CRouting.

Definition t_maddr : bytes := Eval vm_compute in B"maddr".
Definition t_ttl : bytes := Eval vm_compute in B"ttl".
Definition t_transport : bytes := Eval vm_compute in B"transport".
Definition t_lr : bytes := Eval vm_compute in B"lr".
Definition t_sip : bytes := Eval vm_compute in B"sip:".
Definition t_sips : bytes := Eval vm_compute in B"sips:".

Definition name_in (n : bytes) (l : list bytes) : bool := existsb (bytes_eqb n) l.

(* RFC 3261 Table 1: what a context may carry *)
Definition project (c : ctx) (u : uri) : uri :=
  match c with
  | CNone => u
  | CReqUri => mkuri (u_sips u) (u_user u) (u_pw u) (u_host u) (u_port u) (u_params u) []
  | CFromTo => mkuri (u_sips u) (u_user u) (u_pw u) (u_host u) None
                     (filter (fun p => negb (name_in (pm_name p) [t_maddr; t_ttl; t_transport; t_lr])) (u_params u)) []
  | CContact => mkuri (u_sips u) (u_user u) (u_pw u) (u_host u) (u_port u) (filter (fun p => negb (name_in (pm_name p) [t_ttl])) (u_params u)) []
  | CContactRegister => mkuri (u_sips u) (u_user u) (u_pw u) (u_host u) (u_port u) (filter (fun p => negb (name_in (pm_name p) [t_lr])) (u_params u)) (u_headers u)
  | CRouting => mkuri (u_sips u) (u_user u) (u_pw u) (u_host u) (u_port u) (filter (fun p => negb (name_in (pm_name p) [t_ttl])) (u_params u)) []
  end.

Definition at_ : byte := "@"%byte.
Definition colon : byte := ":"%byte.
Definition semi : byte := ";"%byte.
Definition qmark : byte := "?"%byte.
Definition amp : byte := "&"%byte.

(* Print for SipUri in the default context (all fields) *)
Definition print_uri_all (u : uri) : bytes :=
  (if u_sips u then t_sips else t_sip) ++
  (match u_user u with
   | Some usr => pct_encode user_keep usr ++ (match u_pw u with Some pw => colon :: pw | None => [] end) ++ [at_]
   | None => []
   end) ++
  u_host u ++ (match u_port u with Some p => colon :: print_dec p | None => [] end) ++
  print_params param_keep semi semi (u_params u) ++ print_params header_keep qmark amp (u_headers u).

(* Print for SipUri with a context = printing the projection *)
Definition print_uri (c : ctx) (u : uri) : bytes := print_uri_all (project c u).

Section Parse.
  (* Host::parse: how many bytes of the input are the host (None = no host) *)
  Variable host_len : bytes -> option nat.

  (* parse_scheme with tag_no_case *)
  Definition parse_scheme (s : bytes) : option (bool * bytes) :=
    match strip_prefix_nocase t_sip s with
    | Some r => Some (false, r)
    | None => match strip_prefix_nocase t_sips s with Some r => Some (true, r) | None => None end
    end.

  (* parse_user_pw: opt(terminated((take_while(user), opt(":" take_while(password))), "@")) *)
  Definition parse_user_pw (s : bytes) : option (bytes * option bytes) * bytes :=
    let '(usr, r1) := take_while (fun c => mem c sip_user_class) s in
    let '(pw, r2) := match r1 with
                     | c :: r => if Byte.eqb c colon then let '(p, r') := take_while (fun c => mem c sip_password_class) r in (Some p, r')
                                 else (None, r1)
                     | [] => (None, r1)
                     end in
    match r2 with
    | c :: r3 => if Byte.eqb c at_ then (Some (usr, pw), r3) else (None, s)
    | [] => (None, s)
    end.

  Definition u16max : N := 65535%N.

  (* SipUri::parse *)
  Definition parse_uri (s : bytes) : option (uri * bytes) :=
    match parse_scheme s with
    | None => None
    | Some (sips, r0) =>
      let '(up, r1) := parse_user_pw r0 in
      match host_len r1 with
      | None => None
      | Some n =>
        let host := firstn n r1 in
        let r2 := skipn n r1 in
        let port_res :=
          match r2 with
          | c :: r => if Byte.eqb c colon then
                        let '(d, r') := take_while is_digit r in
                        match parse_uint u16max d with Some p => Some (Some p, r') | None => None end
                      else Some (None, r2)
          | [] => Some (None, r2)
          end in
        match port_res with
        | None => None
        | Some (port, r3) =>
          let '(ps, r4) := parse_params sip_param_class semi semi r3 in
          let '(hs, r5) := parse_params sip_header_class qmark amp r4 in
          Some (mkuri sips (match up with Some (u, _) => Some (pct_decode u) | None => None end)
                      (match up with Some (_, pw) => pw | None => None end) host port ps hs, r5)
        end
      end
    end.
End Parse.
