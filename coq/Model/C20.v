(* Model/C20.v -- byte-level model of crates/stun-types (builder.rs, parse.rs, header.rs, lib.rs::is_stun_message,
   attributes/{addr,integrity,fingerprint}.rs) and of the retry loop of crates/stun/src/lib.rs::send_request.
   HMAC is a section variable; CRC-32 is computed bitwise (reflected polynomial edb88320).
   Definitions only. *)
From Coq Require Import List Arith NArith Bool.
From Coq.Strings Require Import Byte.
From EZK Require Import Lib.Bytes.
Import ListNotations.
Close Scope N_scope.
Open Scope nat_scope.

(* ---------- integers on the wire ---------- *)
Fixpoint be (k : nat) (n : N) : bytes :=
  match k with
  | O => []
  | S k' => be k' (n / 256)%N ++ [n2b (n mod 256)%N]
  end.

Definition of_be (l : bytes) : N := fold_left (fun a b => (a * 256 + b2n b)%N) l 0%N.

Definition cookie : N := 554869826%N.            (* 0x2112A442 *)
Definition fp_xor : N := 1398035790%N.           (* 0x5354554e *)
Definition crc_poly : N := 3988292384%N.         (* 0xedb88320 *)

Definition pad4 (n : nat) : nat := (4 - n mod 4) mod 4.

(* ---------- CRC-32 (IEEE), one byte = eight shift/xor steps ---------- *)
Definition crc_bit (c : N) : N := if N.odd c then N.lxor crc_poly (c / 2) else (c / 2)%N.
Definition crc_byte (c : N) (b : byte) : N :=
  let c := N.lxor c (b2n b) in
  crc_bit (crc_bit (crc_bit (crc_bit (crc_bit (crc_bit (crc_bit (crc_bit c))))))).
Definition crc32 (l : bytes) : N := N.lxor (fold_left crc_byte l 4294967295%N) 4294967295%N.

(* ---------- header ---------- *)
(* message type = method bits | class bits; z (top two bits) = 0 *)
Definition head (typ len tsx : N) : bytes := be 2 typ ++ be 2 len ++ be 4 cookie ++ be 12 tsx.

Inductive class := Request | Indication | Success | Error.
Definition class_bits (c : class) : N :=
  match c with Request => 0 | Indication => 16 | Success => 256 | Error => 272 end%N.
Definition binding : N := 1%N.
Definition msg_type (c : class) : N := (binding + class_bits c)%N.

Definition class_of (typ : N) : class :=
  match N.land typ 272 with
  | 0 => Request | 16 => Indication | 256 => Success | _ => Error
  end%N.

(* Method::try_from: only Binding is known to the parser *)
Definition method_ok (typ : N) : bool := N.eqb (N.land typ 16111) 1.     (* mask 0x3EEF *)

(* ---------- address attributes ---------- *)
Definition xor16 : N := 8466%N.                  (* cookie >> 16 *)

(* family: true = IPv4 *)
Definition enc_addr (xor : bool) (tsx : N) (v4 : bool) (ip port : N) : bytes :=
  let p := if xor then N.lxor port xor16 else port in
  if v4 then [x00; x01] ++ be 2 p ++ be 4 (if xor then N.lxor ip cookie else ip)
  else [x00; x02] ++ be 2 p ++ be 16 (if xor then N.lxor ip (cookie * 79228162514264337593543950336 + tsx) else ip).

Definition dec_addr (xor : bool) (tsx : N) (v : bytes) : option (bool * N * N) :=
  match v with
  | z :: f :: p1 :: p2 :: rest =>
    if negb (Byte.eqb z x00) then None else
    let port := of_be [p1; p2] in
    let port := if xor then N.lxor port xor16 else port in
    if Byte.eqb f x01 then
      match rest with
      | a :: b :: c :: d :: _ =>
        let ip := of_be [a; b; c; d] in
        Some (true, (if xor then N.lxor ip cookie else ip), port)
      | _ => None
      end
    else if Byte.eqb f x02 then
      if Nat.ltb (length rest) 16 then None else
      let ip := of_be (firstn 16 rest) in
      Some (false, (if xor then N.lxor ip (cookie * 79228162514264337593543950336 + tsx) else ip), port)
    else None
  | _ => None
  end.

Section Codec.
  (* HMAC: algorithm (1 = SHA-1, 2 = SHA-256), key, message *)
  Variable hmac : N -> bytes -> bytes -> bytes.

  Definition hmac_len (alg : N) : nat := if N.eqb alg 1 then 20 else 32.
  Definition integ_type (alg : N) : N := if N.eqb alg 1 then 8%N else 28%N.      (* 0x0008, 0x001C *)
  Definition finger_type : N := 32808%N.                                            (* 0x8028 *)

  (* what add_attr_with is given: an attribute whose value is known up front, or one computed over the
     buffer so far *)
  Inductive battr :=
  | BRaw (typ : N) (val : bytes)
  | BInteg (alg : N) (key : bytes)
  | BFinger.

  Definition attr_typ (a : battr) : N :=
    match a with BRaw t _ => t | BInteg alg _ => integ_type alg | BFinger => finger_type end.
  Definition attr_len (a : battr) : nat :=
    match a with BRaw _ v => length v | BInteg alg _ => hmac_len alg | BFinger => 4 end.

  (* value of a computed attribute given the message prefix it covers *)
  Definition attr_value (a : battr) (prefix : bytes) : bytes :=
    match a with
    | BRaw _ v => v
    | BInteg alg key => hmac alg key prefix
    | BFinger => be 4 (N.lxor (crc32 prefix) fp_xor)
    end.

  (* MessageBuilder::set_len: rewrites the first four bytes from the kept head word *)
  Definition set_len (typ : N) (buf : bytes) (len : N) : bytes := be 2 typ ++ be 2 len ++ skipn 4 buf.

  (* MessageBuilder::add_attr_with; None = the u16 conversions fail (message body above 65535 bytes) *)
  Definition add_attr (padmode : bool) (typ : N) (buf : bytes) (a : battr) : option bytes :=
    let enc_len := attr_len a in
    let pad := pad4 enc_len in
    let body_after := (length buf - 20) + 4 + enc_len + pad in
    if Nat.ltb 65535 body_after then None else
    let buf1 := buf ++ be 2 (attr_typ a) ++ be 2 (N.of_nat (if padmode then enc_len + pad else enc_len)) in
    let buf2 := set_len typ buf1 (N.of_nat body_after) in
    let v := attr_value a (firstn (length buf2 - 4) buf2) in
    Some (buf2 ++ v ++ repeat x00 pad).

  Fixpoint add_attrs (padmode : bool) (typ : N) (buf : bytes) (attrs : list battr) : option bytes :=
    match attrs with
    | [] => Some buf
    | a :: rest => match add_attr padmode typ buf a with
                   | Some buf' => add_attrs padmode typ buf' rest
                   | None => None
                   end
    end.

  Definition build (padmode : bool) (c : class) (tsx : N) (attrs : list battr) : option bytes :=
    add_attrs padmode (msg_type c) (head (msg_type c) 0 tsx) attrs.

  (* ---------- the specification: RFC 8489 sec. 5 / 14 in one pass ---------- *)
  Definition tlv (typ : N) (v : bytes) : bytes := be 2 typ ++ be 2 (N.of_nat (length v)) ++ v ++ repeat x00 (pad4 (length v)).

  (* [done] = the attributes encoded so far; a computed attribute covers the header, with the length
     field pointing to the end of that attribute, and everything before the attribute *)
  Fixpoint rfc_body (typ tsx : N) (done : bytes) (attrs : list battr) : bytes :=
    match attrs with
    | [] => done
    | a :: rest =>
      let n := attr_len a in
      let prefix := head typ (N.of_nat (length done + 4 + n + pad4 n)) tsx ++ done in
      rfc_body typ tsx (done ++ tlv (attr_typ a) (attr_value a prefix)) rest
    end.

  Definition rfc_encode (c : class) (tsx : N) (attrs : list battr) : bytes :=
    let body := rfc_body (msg_type c) tsx [] attrs in
    head (msg_type c) (N.of_nat (length body)) tsx ++ body.

  (* ---------- parser ---------- *)
  Record pattr := mkpa { p_typ : N; p_begin : nat; p_end : nat; p_trim : nat; p_padend : nat }.

  Fixpoint count_trailing_zeros (l : bytes) : nat :=
    match l with
    | [] => 0
    | b :: r => let k := count_trailing_zeros r in
                if Nat.eqb k (length r) then (if Byte.eqb b x00 then S k else k) else k
    end.

  Definition slice (buf : bytes) (lo hi : nat) : bytes := firstn (hi - lo) (skipn lo buf).

  (* the attribute walk of ParsedMessage::parse *)
  Fixpoint parse_attrs (fuel : nat) (buf : bytes) (pos : nat) : option (list pattr) :=
    match fuel with
    | O => None
    | S fuel =>
      if Nat.leb (length buf) pos then Some []
      else if Nat.ltb (length buf) (pos + 4) then None
      else
        let typ := of_be (slice buf pos (pos + 2)) in
        let len := N.to_nat (of_be (slice buf (pos + 2) (pos + 4))) in
        let vb := pos + 4 in
        let ve := vb + len in
        let pe := ve + pad4 len in
        if Nat.ltb (length buf) pe then None
        else
          let trim := if Nat.eqb (pad4 len) 0 then ve - count_trailing_zeros (slice buf vb ve) else ve in
          match parse_attrs fuel buf pe with
          | Some rest => Some (mkpa typ vb ve trim pe :: rest)
          | None => None
          end
    end.

  Record parsed := mkparsed { m_class : class; m_tsx : N; m_attrs : list pattr }.

  Definition parse (buf : bytes) : option parsed :=
    if Nat.ltb (length buf) 20 then None else
    let typ := of_be (slice buf 0 2) in
    if negb (N.eqb (typ / 16384) 0) then None else
    if negb (N.eqb (of_be (slice buf 4 8)) cookie) then None else
    if negb (method_ok typ) then None else
    match parse_attrs (S (length buf)) buf 20 with
    | Some attrs => Some (mkparsed (class_of typ) (of_be (slice buf 8 20)) attrs)
    | None => None
    end.

  (* get_attr_with: first attribute of the type; attributes after an integrity attribute other than
     MESSAGE-INTEGRITY-SHA256 and FINGERPRINT are ignored *)
  Fixpoint find_attr (typ : N) (after_integrity : bool) (attrs : list pattr) : option pattr :=
    match attrs with
    | [] => None
    | a :: rest =>
      if after_integrity && negb (N.eqb (p_typ a) 28 || N.eqb (p_typ a) finger_type) then None
      else if N.eqb (p_typ a) typ then Some a
      else find_attr typ (after_integrity || N.eqb (p_typ a) 8 || N.eqb (p_typ a) 28) rest
    end.

  (* message_integrity_decode / Fingerprint::decode: recompute over the prefix with the length field
     patched to the end of the attribute (integrity), or as it stands (fingerprint) *)
  Definition verify_integrity (alg : N) (key : bytes) (buf : bytes) (a : pattr) : bool :=
    let patched := be 2 (of_be (slice buf 0 2)) ++ be 2 (N.of_nat (p_padend a - 20)) ++ skipn 4 buf in
    bytes_eqb (hmac alg key (firstn (p_begin a - 4) patched)) (slice buf (p_begin a) (p_end a)).

  Definition verify_fingerprint (buf : bytes) (a : pattr) : bool :=
    Nat.eqb (p_end a - p_begin a) 4 &&
    N.eqb (N.lxor (crc32 (firstn (p_begin a - 4) buf)) fp_xor) (of_be (slice buf (p_begin a) (p_end a))).
End Codec.

(* ---------- is_stun_message ---------- *)
Inductive stun_info := TooShort | NoStun | YesStun (remaining : nat) | Incomplete (needed : nat).

Definition is_stun (b : bytes) : stun_info :=
  if Nat.ltb (length b) 20 then TooShort
  else if negb (N.eqb (of_be (firstn 1 b) / 64) 0) then NoStun
  else if negb (N.eqb (of_be (firstn 4 (skipn 4 b))) cookie) then NoStun
  else
    let expected := N.to_nat (of_be (firstn 2 (skipn 2 b))) + 20 in
    if Nat.ltb (length b) expected then Incomplete (expected - length b) else YesStun (length b - expected).

(* ---------- the client's retry loop over an unreliable transport (times in ms) ---------- *)
(* [resp] = instant at which the matching response is handed to the endpoint (exact ties with a timeout
   are not modelled).  Result: send instants, whether a response was returned, instant of return *)
Fixpoint attempts (k : nat) (t delta : N) (resp : option N) : list N * bool * N :=
  match k with
  | O => ([], false, t)
  | S k' =>
    match resp with
    | Some r =>
      if (r <? t + delta)%N then ([t], true, N.max r t)
      else let '(s, ok, e) := attempts k' (t + delta)%N (2 * delta)%N resp in (t :: s, ok, e)
    | None => let '(s, ok, e) := attempts k' (t + delta)%N (2 * delta)%N resp in (t :: s, ok, e)
    end
  end.

Definition client_run (resp : option N) : list N * bool * N := attempts 7 0%N 500%N resp.

