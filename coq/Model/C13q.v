(* Model/C13q.v -- the channel between Initiator::receive and one early dialog (tokio mpsc with
   [early_channel_capacity] slots, crates/sip-ua/src/invite/initiator.rs): the initiator forwards a response
   with send().await, Early::receive takes one event per call.  While the buffer is full the initiator is
   suspended in that send and the responses behind it wait in the transaction's own (unbounded) queue.
   [blocks] says whether the hand-over waits for a free slot (send().await) or gives up (try_send).
   Items are numbers (the index of the response in the history).  Definitions only. *)
From Coq Require Import List Arith NArith Bool.
From EZK Require Import Gen.Tables.
Import ListNotations.
Close Scope N_scope.
Open Scope nat_scope.

Inductive cev := Arrive (x : N) | Read.

(* waiting: not handed over yet, oldest first; queue: the channel's buffer; got: returned by Early::receive so far;
   lost: dropped *)
Record chan := mkchan { waiting : list N; queue : list N; got : list N; lost : list N }.

Definition chan0 : chan := mkchan [] [] [] [].

Definition refill (cap : nat) (c : chan) : chan :=
  match waiting c with
  | x :: w => if length (queue c) <? cap then mkchan w (queue c ++ [x]) (got c) (lost c) else c
  | [] => c
  end.

Definition cstep (blocks : bool) (cap : nat) (c : chan) (e : cev) : chan :=
  match e with
  | Arrive x =>
    match waiting c with
    | [] =>
      if length (queue c) <? cap then mkchan [] (queue c ++ [x]) (got c) (lost c)
      else if blocks then mkchan [x] (queue c) (got c) (lost c)
      else mkchan [] (queue c) (got c) (lost c ++ [x])
    | _ :: _ => mkchan (waiting c ++ [x]) (queue c) (got c) (lost c)
    end
  | Read =>
    match queue c with
    | q :: qs => refill cap (mkchan (waiting c) qs (got c ++ [q]) (lost c))
    | [] => c
    end
  end.

Definition crun (blocks : bool) (cap : nat) (evs : list cev) : chan := fold_left (cstep blocks cap) evs chan0.

Fixpoint arrivals (evs : list cev) : list N :=
  match evs with [] => [] | Arrive x :: r => x :: arrivals r | Read :: r => arrivals r end.

(* the code's channel *)
Definition early_cap : nat := N.to_nat early_channel_capacity.
Definition early_chan (evs : list cev) : chan := crun early_forward_blocks early_cap evs.
