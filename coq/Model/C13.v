(* Model/C13.v -- model of Initiator::receive's classification of the responses to its INVITE
   (crates/sip-ua/src/invite/initiator.rs) and of what an early dialog does with what is forwarded
   to it (Early::receive).  Tags are opaque byte strings.  Definitions only. *)
From Coq Require Import List NArith Bool.
From EZK Require Import Lib.Bytes.
Import ListNotations.
Open Scope N_scope.

Record resp := mkresp { rs_code : N; rs_tag : option bytes }.

(* what the initiator keeps: the early dialogs it created (tag, still listening?) and the tags of the
   sessions it created directly *)
Record ist := mkist { earlies : list (bytes * bool); sessions : list bytes }.

Inductive action :=
| ToCallerProvisional                 (* Response::Provisional *)
| ToCallerEarly (tag : bytes)         (* Response::Early: a new early dialog *)
| ToCallerSession (tag : bytes)       (* Response::Session: a new session *)
| ToCallerFailure (terminated : list bytes)   (* Response::Failure; these early dialogs were told to terminate *)
| ForwardToEarly (tag : bytes) (becomes_session : bool)   (* handed to the early dialog with that tag *)
| Ignored                             (* dropped with a log line: duplicate / no To-tag *)
| Panic.

Fixpoint find_early (t : bytes) (es : list (bytes * bool)) : option bool :=
  match es with
  | [] => None
  | (x, alive) :: r => if bytes_eqb x t then Some alive else find_early t r
  end.

Fixpoint set_early (t : bytes) (alive : bool) (es : list (bytes * bool)) : list (bytes * bool) :=
  match es with
  | [] => []
  | (x, a) :: r => if bytes_eqb x t then (x, alive) :: r else (x, a) :: set_early t alive r
  end.

Definition mem (t : bytes) (l : list bytes) : bool := existsb (bytes_eqb t) l.

Definition step (s : ist) (r : resp) : ist * action :=
  let c := rs_code r in
  if c <=? 100 then (s, ToCallerProvisional)
  else
    match rs_tag r with
    | Some t =>
      if c <=? 299 then
        match find_early t (earlies s) with
        | Some alive =>
          if alive then
            (* forwarded; a 2xx turns the early dialog into a session and the Early stops listening *)
            if 200 <=? c then (mkist (set_early t false (earlies s)) (sessions s), ForwardToEarly t true)
            else (s, ForwardToEarly t false)
          else (s, Ignored)
        | None =>
          if mem t (sessions s) then (s, Ignored)
          else if c <=? 199 then (mkist (earlies s ++ [(t, true)]) (sessions s), ToCallerEarly t)
          else (mkist (earlies s) (sessions s ++ [t]), ToCallerSession t)
        end
      else (mkist [] (sessions s), ToCallerFailure (map fst (filter snd (earlies s))))
    | None =>
      if 300 <=? c then (mkist [] (sessions s), ToCallerFailure (map fst (filter snd (earlies s))))
      else (s, Ignored)
    end.

Definition run (rs : list resp) : ist * list action :=
  fold_left (fun '(s, out) r => let '(s', a) := step s r in (s', out ++ [a])) rs (mkist [] [], []).

(* the dialogs that exist for a tag after a history: an early dialog, a session made from an early
   dialog, or a session made directly *)
Definition dialog_tags (s : ist) : list bytes := map fst (earlies s) ++ sessions s.
Definition established_tags (s : ist) : list bytes :=
  map fst (filter (fun e => negb (snd e)) (earlies s)) ++ sessions s.
