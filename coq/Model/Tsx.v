(* Model/Tsx.v -- timed models of the four RFC 3261 transaction state machines as coded in
   crates/sip-core/src/transaction/{client,client_inv,server,server_inv}.rs.
   Time is N milliseconds.  A run consumes the (time-sorted) list of arrivals and produces the
   list of observable outputs in the order they happen.  The caller is the cooperative one the
   API documents: it awaits [receive] again as soon as the previous call returned.
   [tie] decides an exact coincidence of an arrival with a timer (true: the message is seen first,
   which is how tokio's Timeout polls); theorems hold for both values.
   Definitions only. *)
From Coq Require Import List NArith Bool.
From EZK Require Import Gen.Tables.
Import ListNotations.
Open Scope N_scope.

Inductive cls := Prov | Succ | Fail.
Definition cls_eqb (a b : cls) : bool :=
  match a, b with Prov, Prov | Succ, Succ | Fail, Fail => true | _, _ => false end.

Inductive out :=
| Send (t : N)                 (* the request / response (re)transmitted *)
| AckSent (t : N)              (* client INVITE: ACK for a non-2xx final *)
| Got (t : N) (c : cls)        (* receive() returned a response to the caller *)
| TimedOut (t : N)             (* receive()/respond returned RequestTimedOut *)
| Done (t : N)                 (* client INVITE: receive() returned None; server: respond returned Ok *)
| OutOfFuel.

Definition time_of (o : out) : N :=
  match o with Send t | AckSent t | Got t _ | TimedOut t | Done t => t | OutOfFuel => 0 end.
Definition is_send (o : out) : bool := match o with Send _ => true | _ => false end.
Definition is_timedout (o : out) : bool := match o with TimedOut _ => true | _ => false end.
Definition is_final_got (o : out) : bool := match o with Got _ Succ | Got _ Fail => true | _ => false end.

(* deadline factor (T1 * 64) and the INVITE client's completed-state lifetime, regenerated *)
Definition timeout_ms : N := tsx_timeout_factor * T1_ms.

Section Client.
  Variable tie : bool.
  Definition before (a t : N) : bool := if tie then a <=? t else a <? t.

  (* ================= non-INVITE client (client.rs) ================= *)
  (* Proceeding (and reliable Init): timeout_at(self.timeout, receive_response()) *)
  Fixpoint ni_wait (deadline now : N) (arrs : list (N * cls)) : list out :=
    match arrs with
    | [] => [TimedOut deadline]
    | (a, c) :: rest =>
      if before a deadline then
        let t := N.max a now in
        match c with
        | Prov => Got t c :: ni_wait deadline t rest
        | _ => [Got t c]            (* final: registration moves to the absorber task; nothing surfaces *)
        end
      else [TimedOut deadline]
    end.

  (* Init over an unreliable transport: loop { timeout(n, recv) inside timeout_at(deadline) } *)
  Fixpoint ni_init (fuel : nat) (deadline now n : N) (arrs : list (N * cls)) : list out :=
    match fuel with
    | O => [OutOfFuel]
    | S fuel =>
      let fire := now + n in
      let timer :=
        if fire <? deadline then Send fire :: ni_init fuel deadline fire (N.min (n * 2) T2_ms) arrs
        else if fire =? deadline then [Send fire; TimedOut deadline]
        else [TimedOut deadline] in
      match arrs with
      | (a, c) :: rest =>
        if before a (N.min fire deadline) then
          let t := N.max a now in
          match c with
          | Prov => Got t c :: ni_wait deadline t rest
          | _ => [Got t c]
          end
        else timer
      | [] => timer
      end
    end.

  Definition fuel0 : nat := N.to_nat tsx_timeout_factor + 2.

  Definition client_noninvite (reliable : bool) (arrs : list (N * cls)) : list out :=
    Send 0 ::
    (if reliable then ni_wait timeout_ms 0 arrs
     else ni_init fuel0 timeout_ms 0 T1_ms arrs).

  (* ================= INVITE client (client_inv.rs) ================= *)
  (* Accepted: every response until first-2xx + 64*T1 is handed to the caller, then None *)
  Fixpoint inv_accepted (deadline now : N) (arrs : list (N * cls)) : list out :=
    match arrs with
    | [] => [Done deadline]
    | (a, c) :: rest =>
      if before a deadline then let t := N.max a now in Got t c :: inv_accepted deadline t rest
      else [Done deadline]
    end.

  (* Completed: on an unreliable transport a task re-sends the ACK for every message that reaches
     the transaction within inv_completed_ms; on a reliable transport the registration is dropped *)
  Fixpoint inv_completed (reliable : bool) (until : N) (arrs : list (N * cls)) : list out :=
    match arrs with
    | [] => []
    | (a, c) :: rest =>
      if negb reliable && before a until then AckSent a :: inv_completed reliable until rest else []
    end.

  Definition inv_final (reliable : bool) (t : N) (c : cls) (rest : list (N * cls)) : list out :=
    match c with
    | Succ => Got t c :: inv_accepted (t + timeout_ms) t rest
    | _ => AckSent t :: Got t c :: Done t :: inv_completed reliable (t + inv_completed_ms) rest
    end.

  (* Proceeding: no timeout of its own (RFC 3261 17.1.1.2: Timer B only runs in Calling) *)
  Fixpoint inv_proceeding (reliable : bool) (now : N) (arrs : list (N * cls)) : list out :=
    match arrs with
    | [] => []
    | (a, c) :: rest =>
      let t := N.max a now in
      match c with
      | Prov => Got t c :: inv_proceeding reliable t rest
      | _ => inv_final reliable t c rest
      end
    end.

  Definition inv_msg (reliable : bool) (t : N) (c : cls) (rest : list (N * cls)) : list out :=
    match c with
    | Prov => Got t c :: inv_proceeding reliable t rest
    | _ => inv_final reliable t c rest
    end.

  Definition inv_wait (reliable : bool) (deadline now : N) (arrs : list (N * cls)) : list out :=
    match arrs with
    | [] => [TimedOut deadline]
    | (a, c) :: rest => if before a deadline then inv_msg reliable (N.max a now) c rest else [TimedOut deadline]
    end.

  Fixpoint inv_init (fuel : nat) (deadline now n : N) (arrs : list (N * cls)) : list out :=
    match fuel with
    | O => [OutOfFuel]
    | S fuel =>
      let fire := now + n in
      let timer :=
        if fire <? deadline then Send fire :: inv_init fuel deadline fire (n * 2) arrs
        else if fire =? deadline then [Send fire; TimedOut deadline]
        else [TimedOut deadline] in
      match arrs with
      | (a, c) :: rest =>
        if before a (N.min fire deadline) then inv_msg false (N.max a now) c rest else timer
      | [] => timer
      end
    end.

  Definition client_invite (reliable : bool) (arrs : list (N * cls)) : list out :=
    Send 0 ::
    (if reliable then inv_wait true timeout_ms 0 arrs
     else inv_init fuel0 timeout_ms 0 T1_ms arrs).
End Client.

(* ================= server transactions (server.rs, server_inv.rs) ================= *)
Inductive sev := ReqRetrans | AckIn | OtherIn.   (* what reaches the transaction after the final response *)

Section Server.
  Variable tie : bool.
  Definition sbefore (a t : N) : bool := if tie then a <=? t else a <? t.

  (* non-INVITE: respond() sends now; unreliable: a task re-sends per request retransmission for 64*T1 *)
  Fixpoint srv_absorb (until : N) (evs : list (N * sev)) : list out :=
    match evs with
    | [] => []
    | (a, e) :: rest =>
      if sbefore a until then
        match e with
        | ReqRetrans | AckIn => Send a :: srv_absorb until rest   (* msg.line.is_request() *)
        | OtherIn => srv_absorb until rest
        end
      else []
    end.

  Definition server_noninvite (reliable : bool) (t0 : N) (evs : list (N * sev)) : list out :=
    Send t0 :: Done t0 :: (if reliable then [] else srv_absorb (t0 + timeout_ms) evs).

  (* INVITE 3xx-6xx: respond_failure sends now, then waits for the ACK; unreliable: timer G at T1
     doubling capped at T2 and one re-send per INVITE retransmission; timer H = 64*T1 -> TimedOut *)
  Fixpoint srv_inv_fail (fuel : nat) (reliable : bool) (abandon now next_g delta : N) (evs : list (N * sev)) : list out :=
    match fuel with
    | O => [OutOfFuel]
    | S fuel =>
      let deadline := if reliable then abandon else N.min next_g abandon in
      let timer :=
        if abandon <=? deadline then [TimedOut abandon]
        else
          let d' := N.min (delta * 2) T2_ms in
          Send deadline :: srv_inv_fail fuel reliable abandon deadline (deadline + d') d' evs in
      match evs with
      | (a, e) :: rest =>
        if sbefore a deadline then
          let t := N.max a now in
          match e with
          | ReqRetrans => Send t :: srv_inv_fail fuel reliable abandon t next_g delta rest
          | AckIn => [Done t]
          | OtherIn => srv_inv_fail fuel reliable abandon t next_g delta rest
          end
        else timer
      | [] => timer
      end
    end.

  Definition server_invite_failure (reliable : bool) (t0 : N) (evs : list (N * sev)) : list out :=
    Send t0 :: srv_inv_fail (N.to_nat tsx_timeout_factor + 2 + length evs) reliable (t0 + timeout_ms) t0 (t0 + T1_ms) T1_ms evs.
End Server.
