(* Model/C12o.v -- two orderings the timed models take for granted, made explicit:
   (1) Acceptor::respond_success: the ACK rendezvous is registered, then the 2xx is handed to the transport; an ACK the endpoint
       processes while that send has not returned yet is matched iff the rendezvous is there already;
   (2) the queue between Endpoint::do_receive and a transaction (TsxRegistration.receiver): unbounded, or bounded with try_send.
   Definitions only. *)
From Coq Require Import List Arith Bool.
From EZK Require Import Gen.Tables.
Import ListNotations.

(* ---- (1) ---- *)
Inductive astep := RegisterRendezvous | SendReturns | AckArrives.

(* the order of the steps when the ACK is processed while the send of the 2xx is pending *)
Definition accept_steps : list astep :=
  if ack_rendezvous_before_send then [RegisterRendezvous; AckArrives; SendReturns] else [AckArrives; SendReturns; RegisterRendezvous].

(* is the ACK matched (not dropped): the rendezvous exists when it arrives *)
Fixpoint ack_matched (registered : bool) (l : list astep) : bool :=
  match l with
  | [] => false
  | RegisterRendezvous :: r => ack_matched true r
  | AckArrives :: _ => registered
  | SendReturns :: r => ack_matched registered r
  end.

(* ---- (2) ---- *)
(* n messages arrive for a transaction that has not taken any yet; how many are refused (and therefore handed to the layers as
   new requests) *)
Definition refused_of (capacity : option nat) (n : nat) : nat :=
  match capacity with None => 0 | Some c => n - c end.
Definition tsx_queue_capacity : option nat := if tsx_queue_unbounded then None else Some 8.
