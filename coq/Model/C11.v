(* Model/C11.v -- model of crates/sip-ua/src/dialog/{mod,client_builder}.rs: dialog construction on
   both sides, Dialog::create_request / create_response, invite::create_ack, prack::create_prack.
   URIs and name-addrs are opaque byte strings (their text form is C01's business). *)
From Coq Require Import List NArith Bool.
From EZK Require Import Lib.Bytes.
Import ListNotations.
Open Scope N_scope.

Definition u32_wrap (n : N) : N := n mod 4294967296.     (* AtomicU32::fetch_add / wrapping_add *)

Record dialog := mkdlg {
  d_call_id : bytes;
  d_local_uri : bytes; d_local_tag : bytes;
  d_peer_uri : bytes; d_peer_tag : option bytes;
  d_target : bytes;                 (* peer Contact URI *)
  d_route : list bytes;             (* route set *)
  d_cseq : N;                       (* next local CSeq *)
  d_local_contact : bytes
}.

(* the dialog-creating request as the UAS sees it *)
Record inreq := mkinreq {
  q_method : bytes;
  q_from_uri : bytes; q_from_tag : option bytes;
  q_to_uri : bytes; q_to_tag : option bytes;
  q_call_id : bytes; q_cseq : N;
  q_contact : option bytes;
  q_record_route : list bytes
}.

(* Dialog::new_server: [tag] and [cseq0] are the random local tag and initial sequence number *)
Definition new_server (rq : inreq) (tag : bytes) (cseq0 : N) (local_contact : bytes) : option dialog :=
  match q_from_tag rq, q_contact rq with
  | Some ft, Some c =>
    Some (mkdlg (q_call_id rq) (q_to_uri rq) tag (q_from_uri rq) (Some ft) c (q_record_route rq) cseq0 local_contact)
  | _, _ => None
  end.

(* the response that creates the dialog on the UAC side *)
Record inresp := mkinresp {
  p_to_uri : bytes; p_to_tag : option bytes;
  p_contact : option bytes;
  p_record_route : list bytes
}.

Record builder := mkbld {
  b_call_id : bytes; b_local_uri : bytes; b_local_tag : bytes;
  b_cseq : N;                       (* CSeq used by the INVITE *)
  b_contact : bytes
}.

(* ClientDialogBuilder::create_dialog_from_response *)
Definition from_response (b : builder) (rp : inresp) : option dialog :=
  match p_to_tag rp, p_contact rp with
  | Some _, Some c =>
    Some (mkdlg (b_call_id b) (b_local_uri b) (b_local_tag b) (p_to_uri rp) (p_to_tag rp) c
                (rev (p_record_route rp)) (u32_wrap (b_cseq b + 1)) (b_contact b))
  | _, _ => None
  end.

Record outreq := mkoutreq {
  o_method : bytes; o_uri : bytes;
  o_from_uri : bytes; o_from_tag : bytes;
  o_to_uri : bytes; o_to_tag : option bytes;
  o_call_id : bytes; o_cseq : N; o_max_forwards : N;
  o_route : list bytes
}.

(* Dialog::create_request: one atomic fetch_add on the counter *)
Definition create_request (d : dialog) (m : bytes) : outreq * dialog :=
  (mkoutreq m (d_target d) (d_local_uri d) (d_local_tag d) (d_peer_uri d) (d_peer_tag d)
            (d_call_id d) (d_cseq d) 70 (d_route d),
   mkdlg (d_call_id d) (d_local_uri d) (d_local_tag d) (d_peer_uri d) (d_peer_tag d) (d_target d)
         (d_route d) (u32_wrap (d_cseq d + 1)) (d_local_contact d)).

Fixpoint create_requests (d : dialog) (ms : list bytes) : list outreq * dialog :=
  match ms with
  | [] => ([], d)
  | m :: r => let '(q, d1) := create_request d m in let '(qs, d2) := create_requests d1 r in (q :: qs, d2)
  end.

Definition ack_method : bytes := Eval vm_compute in B"ACK".

(* invite::create_ack(dialog, cseq_num): create_request(ACK) then the CSeq number is overwritten *)
Definition create_ack (d : dialog) (n : N) : outreq * dialog :=
  let '(q, d') := create_request d ack_method in
  (mkoutreq (o_method q) (o_uri q) (o_from_uri q) (o_from_tag q) (o_to_uri q) (o_to_tag q)
            (o_call_id q) n (o_max_forwards q) (o_route q), d').

(* Dialog::create_response for the dialog-creating INVITE/SUBSCRIBE: To-tag, Contact, Record-Route copy *)
Record outresp := mkoutresp { r_to_tag : option bytes; r_contact : option bytes; r_record_route : list bytes }.

Definition invite_method : bytes := Eval vm_compute in B"INVITE".
Definition subscribe_method : bytes := Eval vm_compute in B"SUBSCRIBE".
Definition creates_dialog (m : bytes) : bool := bytes_eqb m invite_method || bytes_eqb m subscribe_method.

Definition create_response (d : dialog) (rq : inreq) (code : N) : outresp :=
  if creates_dialog (q_method rq) then
    mkoutresp
      (match q_to_tag rq with
       | Some t => Some t
       | None => if 100 <? code then Some (d_local_tag d) else None
       end)
      (if ((101 <=? code) && (code <=? 399)) || (code =? 485) then Some (d_local_contact d) else None)
      (q_record_route rq)
  else mkoutresp (q_to_tag rq) None [].
