(* Model/Forms8.v -- small decision points of the source whose form the larger models take for granted, made explicit: each
   definition follows the form the translator finds in the source (a flag of Gen/Tables.v, section forms8); the form-indexed
   variants ([.._form b]) let the theorems say what the other form would do.  Definitions only. *)
From Coq Require Import List NArith Arith Bool.
From EZK Require Import Lib.Bytes Gen.Tables.
Import ListNotations.

(* ---- C02: Endpoint::handle_unwanted_request -------------------------------------------------------------------------- *)
Inductive rmeth := RInvite | RAck | ROther.
Inductive tkind := KInvite | KNonInvite.
(* TsxKey::is_invite(): the key's method is the CSeq method with INVITE and ACK folded *)
Definition key_is_invite (cseq_m : rmeth) : bool := match cseq_m with RInvite | RAck => true | ROther => false end.
Definition unwanted_kind_form (from_line : bool) (line_m cseq_m : rmeth) : tkind :=
  if from_line then (match line_m with RInvite => KInvite | _ => KNonInvite end)
  else (if key_is_invite cseq_m then KInvite else KNonInvite).
Definition unwanted_kind := unwanted_kind_form unwanted_kind_from_line.
(* ServerInvTsx::new asserts the request line says INVITE; ServerTsx::new asserts it says neither INVITE nor ACK *)
Definition ctor_asserts (k : tkind) (line_m : rmeth) : bool :=
  match k, line_m with
  | KInvite, RInvite => true
  | KNonInvite, ROther => true
  | _, _ => false
  end.
(* the default handling: ACK is left alone, anything else is answered through a server transaction; false = the receive path panics *)
Definition unwanted_ok_form (from_line : bool) (line_m cseq_m : rmeth) : bool :=
  match line_m with RAck => true | _ => ctor_asserts (unwanted_kind_form from_line line_m cseq_m) line_m end.
Definition unwanted_ok := unwanted_ok_form unwanted_kind_from_line.

(* ---- C04: which Via the transaction key is made from ------------------------------------------------------------------ *)
Record via := mkvia { v_branch : bytes; v_sent_by : bytes }.
Definition pick_via_form (top : bool) (vs : list via) : option via := if top then hd_error vs else hd_error (rev vs).
Definition pick_via := pick_via_form key_from_top_via.

(* ---- C06: a provisional response while copies of the INVITE are waiting in the transaction's queue --------------------- *)
(* (transmissions of the 1xx by this call, copies still waiting afterwards) *)
Definition provisional_form (ignores_queue : bool) (waiting : nat) : nat * nat :=
  if ignores_queue then (1, waiting)%nat else (1 + waiting, 0)%nat.
Definition provisional := provisional_form provisional_ignores_queue.
(* the final response: once by the call, once more for every waiting copy *)
Definition final_at_call (waiting : nat) : nat := (1 + waiting)%nat.

(* ---- C09: where the copy of a response goes when the request arrives again -------------------------------------------- *)
Definition resend_dest_form {A} (keeps : bool) (stored retx_source : A) : A := if keeps then stored else retx_source.
Definition resend_dest {A} := @resend_dest_form A resend_keeps_destination.

(* ---- C10 / C16: sequencing in DialogLayer::receive -------------------------------------------------------------------- *)
(* the expected number after [arriving] (= the expected one) released itself and [k] parked successors *)
Definition next_after_release_form (from_last : bool) (arriving : N) (k : nat) : N :=
  if from_last then (arriving + N.of_nat k + 1)%N else (arriving + 1)%N.
Definition next_after_release := next_after_release_form next_cseq_from_last_released.
(* does a request with the expected number advance the expected number when [nus] usages are registered *)
Definition sequences_form (always : bool) (nus : nat) : bool := always || negb (Nat.eqb nus 0).
Definition sequences := sequences_form sequenced_without_usages.

(* ---- C12: the awaited-ACK slot (InviteUsage::receive, ACK arm) --------------------------------------------------------- *)
(* slot: the CSeq an ACK is awaited for; result: the slot afterwards, and whether this ACK was handed to the waiting respond_success *)
Definition ack_arm_form (puts_back : bool) (slot : option N) (cseq : N) : option N * bool :=
  match slot with
  | None => (None, false)
  | Some a => if N.eqb a cseq then (None, true) else ((if puts_back then Some a else None), false)
  end.
Definition ack_arm := ack_arm_form ack_mismatch_puts_back.
Local Close Scope N_scope.
Fixpoint acks_form (puts_back : bool) (slot : option N) (l : list N) : option N * list bool :=
  match l with
  | [] => (slot, [])
  | c :: r => let '(s1, m) := ack_arm_form puts_back slot c in let '(s2, ms) := acks_form puts_back s1 r in (s2, m :: ms)
  end.
Definition acks := acks_form ack_mismatch_puts_back.

(* ---- C13: how long the INVITE client transaction stays after the first 2xx (timer M), in ms ---------------------------- *)
Definition timer_m_form (any_transport : bool) (reliable : bool) : N :=
  if any_transport then (tsx_timeout_factor * T1_ms)%N else if reliable then 0%N else (tsx_timeout_factor * T1_ms)%N.
Definition timer_m := timer_m_form timer_m_any_transport.
(* a further 2xx (another fork) arriving [d] ms after the first one is handed to the caller iff the transaction is still there *)
Definition fork_2xx_delivered_form (any_transport reliable : bool) (d : N) : bool := (d <? timer_m_form any_transport reliable)%N.

(* ---- C14: an IP literal as the destination ---------------------------------------------------------------------------- *)
(* (is IPv6, address as a number); an IPv4-mapped IPv6 address ::ffff:a.b.c.d is 0xffff * 2^32 + a.b.c.d *)
Definition mapped_base : N := 281470681743360%N.     (* 0xffff_0000_0000 *)
Definition canonical (a : bool * N) : bool * N :=
  let '(v6, n) := a in
  if v6 && (mapped_base <=? n)%N && (n <? mapped_base + 4294967296)%N then (false, (n - mapped_base)%N) else a.
Definition literal_dest_form (verbatim : bool) (a : bool * N) : bool * N := if verbatim then a else canonical a.
Definition literal_dest := literal_dest_form ip_literal_verbatim.

(* ---- C20: the length test of is_stun_message --------------------------------------------------------------------------- *)
Definition long_enough_form (header_suffices : bool) (len : N) : bool :=
  if header_suffices then (stun_header_len <=? len)%N else (stun_header_len <? len)%N.
Definition long_enough := long_enough_form stun_header_len_suffices.
