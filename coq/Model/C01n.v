(* Model/C01n.v -- display names of name-addr values (sip-types/src/uri/name_addr.rs): printed as a quoted-string with
   the double quote and the backslash escaped by a backslash (RFC 3261 25.1), read back by parse_quoted_string which
   resolves the escapes.
   Byte level: both special characters are ASCII and never occur inside a multi-byte UTF-8 sequence, so the
   character loop of the source and this byte loop agree on valid UTF-8.  Definitions only. *)
From Coq Require Import List Arith NArith Bool.
From Coq.Strings Require Import Byte.
From EZK Require Import Gen.Tables Lib.Bytes.
Import ListNotations.
Open Scope nat_scope.

Definition dq : byte := """"%byte.
Definition bs : byte := "\"%byte.

Definition needs_escape (c : byte) : bool := Byte.eqb c dq || Byte.eqb c bs.

(* impl Print for NameAddr: the display name between quotes ([sip_display_quoted_escaped] = the source escapes) *)
Fixpoint quote (s : bytes) : bytes :=
  match s with
  | [] => []
  | c :: r => if sip_display_quoted_escaped && needs_escape c then bs :: c :: quote r else c :: quote r
  end.

Definition print_display (name : bytes) : bytes := dq :: quote name ++ [dq].

(* parse_quoted_string after the opening quote: content with the escapes resolved, and what follows the closing quote;
   None = unterminated *)
Fixpoint unquote (s : bytes) : option (bytes * bytes) :=
  match s with
  | [] => None
  | c :: r =>
    if Byte.eqb c dq then Some ([], r)
    else if Byte.eqb c bs then
      match r with
      | e :: r' => match unquote r' with Some (n, rest) => Some (e :: n, rest) | None => None end
      | [] => None
      end
    else match unquote r with Some (n, rest) => Some (c :: n, rest) | None => None end
  end.

Definition parse_display (s : bytes) : option (bytes * bytes) :=
  match s with
  | c :: r => if Byte.eqb c dq then unquote r else None
  | [] => None
  end.
