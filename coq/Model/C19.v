(* Model/C19.v -- crates/sdp-types: the line dispatcher of session_description.rs (which field a line sets,
   attachment of c= / b= / a= lines to the last media section), the printers (Display) of the session
   and media descriptions, the media line, the direction / flag / unknown attributes, the crypto suite
   token and the keying-material lifetime.  Field payloads that have their own nom parser in the code
   (origin, time, connection, bandwidth, rtcp, rtpmap, fmtp, candidate, the rest of the crypto line) are
   byte strings here, accepted when a validity predicate (a section variable) says so.  Definitions only. *)
From Coq Require Import List Arith NArith Bool.
From Coq.Strings Require Import Byte.
From EZK Require Import Lib.Bytes Lib.Num Lib.Utf8.
Import ListNotations.
Close Scope N_scope.
Open Scope nat_scope.

Definition CR : byte := x0d.
Definition LF : byte := x0a.
Definition is_eol (b : byte) : bool := Byte.eqb b CR || Byte.eqb b LF.
Definition is_ws (b : byte) : bool :=
  Byte.eqb b x20 || Byte.eqb b x09 || Byte.eqb b x0a || Byte.eqb b x0d || Byte.eqb b x0c.
Definition not_ws (b : byte) : bool := negb (is_ws b).

(* src.split(|c| c == '\n' || c == '\r').filter(|l| !l.is_empty()) *)
Fixpoint split_lines (s cur : bytes) : list bytes :=
  match s with
  | [] => match cur with [] => [] | _ => [rev cur] end
  | b :: r => if is_eol b then (match cur with [] => split_lines r [] | _ => rev cur :: split_lines r [] end)
              else split_lines r (b :: cur)
  end.

(* ---------- tokens that must be matched whole ---------- *)
Inductive dir := SendRecv | RecvOnly | SendOnly | Inactive.
Inductive mtype := Audio | Video | Text | App.
Inductive proto := PUdp | PAvp | PSavp | PSavpf | POther (s : bytes).

Definition t_sendrecv : bytes := Eval vm_compute in B"sendrecv".
Definition t_recvonly : bytes := Eval vm_compute in B"recvonly".
Definition t_sendonly : bytes := Eval vm_compute in B"sendonly".
Definition t_inactive : bytes := Eval vm_compute in B"inactive".
Definition t_eoc : bytes := Eval vm_compute in B"end-of-candidates".
Definition t_icelite : bytes := Eval vm_compute in B"ice-lite".
Definition t_audio : bytes := Eval vm_compute in B"audio".
Definition t_video : bytes := Eval vm_compute in B"video".
Definition t_text : bytes := Eval vm_compute in B"text".
Definition t_application : bytes := Eval vm_compute in B"application".
Definition t_udp : bytes := Eval vm_compute in B"udp".
Definition t_avp : bytes := Eval vm_compute in B"RTP/AVP".
Definition t_savp : bytes := Eval vm_compute in B"RTP/SAVP".
Definition t_savpf : bytes := Eval vm_compute in B"RTP/SAVPF".

Definition dir_name (d : dir) : bytes :=
  match d with SendRecv => t_sendrecv | RecvOnly => t_recvonly | SendOnly => t_sendonly | Inactive => t_inactive end.
Definition dir_of (s : bytes) : option dir :=
  if bytes_eqb s t_sendrecv then Some SendRecv else if bytes_eqb s t_recvonly then Some RecvOnly
  else if bytes_eqb s t_sendonly then Some SendOnly else if bytes_eqb s t_inactive then Some Inactive else None.

Definition mtype_name (m : mtype) : bytes :=
  match m with Audio => t_audio | Video => t_video | Text => t_text | App => t_application end.
Definition mtype_of (s : bytes) : option mtype :=
  if bytes_eqb s t_audio then Some Audio else if bytes_eqb s t_video then Some Video
  else if bytes_eqb s t_text then Some Text else if bytes_eqb s t_application then Some App else None.

Definition proto_name (p : proto) : bytes :=
  match p with PUdp => t_udp | PAvp => t_avp | PSavp => t_savp | PSavpf => t_savpf | POther s => s end.
Definition proto_of (s : bytes) : proto :=
  if bytes_eqb s t_udp then PUdp else if bytes_eqb s t_avp then PAvp
  else if bytes_eqb s t_savp then PSavp else if bytes_eqb s t_savpf then PSavpf else POther s.

(* the crypto suites: the known names, anything else is an extension *)
Definition suites : list bytes := Eval vm_compute in
  [B"AES_CM_128_HMAC_SHA1_80"; B"AES_CM_128_HMAC_SHA1_32"; B"F8_128_HMAC_SHA1_80"; B"AES_192_CM_HMAC_SHA1_80";
   B"AES_192_CM_HMAC_SHA1_32"; B"AES_256_CM_HMAC_SHA1_80"; B"AES_256_CM_HMAC_SHA1_32"; B"AEAD_AES_128_GCM"; B"AEAD_AES_256_GCM"].
Inductive suite := SKnown (i : nat) | SExt (s : bytes).
Fixpoint index_of (s : bytes) (l : list bytes) (i : nat) : option nat :=
  match l with [] => None | x :: r => if bytes_eqb s x then Some i else index_of s r (S i) end.
Definition suite_of (s : bytes) : suite := match index_of s suites 0 with Some i => SKnown i | None => SExt s end.
Definition suite_name (s : suite) : bytes := match s with SKnown i => nth i suites [] | SExt e => e end.

(* ---------- numbers ---------- *)
Definition u16max : N := 65535%N.
Definition u32max : N := 4294967295%N.
Definition digits_of (s : bytes) : bytes * bytes := take_while is_digit s.

(* map_res(digit1, FromStr::from_str) *)
Definition number (bound : N) (s : bytes) : option (N * bytes) :=
  let '(d, r) := digits_of s in
  match d with
  | [] => None
  | _ => match parse_uint bound d with Some n => Some (n, r) | None => None end
  end.

Definition skip_ws (s : bytes) : bytes := snd (take_while is_ws s).
Definition token (s : bytes) : bytes * bytes := take_while not_ws s.

(* keying material lifetime: '|' then optional "2^" then a number; 2^n must fit u32 (checked_pow) *)
Definition t_pow : bytes := Eval vm_compute in B"2^".
Definition print_lifetime (n : N) : bytes :=
  if (0 <? n)%N && N.eqb (2 ^ N.log2 n) n then t_pow ++ print_dec (N.log2 n) else print_dec n.
Definition parse_lifetime (s : bytes) : option (N * bytes) :=
  match strip_prefix t_pow s with
  | Some r => match number u32max r with
              | Some (e, r') => if (e <? 32)%N then Some ((2 ^ e)%N, r') else None
              | None => None
              end
  | None => number u32max s
  end.

(* ---------- the media line ---------- *)
Record media := mkmedia { m_type : mtype; m_port : N; m_ports_num : option N; m_proto : proto; m_fmts : list N }.

Definition sp : byte := x20.
Definition slash : byte := "/"%byte.

Fixpoint print_fmts (l : list N) : bytes :=
  match l with [] => [] | f :: r => sp :: print_dec f ++ print_fmts r end.

(* Display for Media, without the leading "m=" *)
Definition print_media (m : media) : bytes :=
  mtype_name (m_type m) ++ [sp] ++ print_dec (m_port m) ++
  (match m_ports_num m with Some n => slash :: print_dec n | None => [] end) ++ [sp] ++
  proto_name (m_proto m) ++ print_fmts (m_fmts m).

(* many0(ws(number)) *)
Fixpoint parse_fmts (fuel : nat) (s : bytes) : list N :=
  match fuel with
  | O => []
  | S f => match number u32max (skip_ws s) with
           | Some (n, r) => n :: parse_fmts f r
           | None => []
           end
  end.

(* Media::parse: ws((MediaType, number u16, opt(slash_num), TransportProtocol, many0(ws(number)))) *)
Definition parse_media (s : bytes) : option media :=
  let '(t, r1) := token (skip_ws s) in
  match t with [] => None | _ =>
  match mtype_of t with
  | None => None
  | Some mt =>
    match number u16max (skip_ws r1) with
    | None => None
    | Some (port, r2) =>
      let r2' := skip_ws r2 in
      let '(pn, r3) := match r2' with
                       | c :: r => if Byte.eqb c slash then
                                     match number u32max r with Some (n, r') => (Some n, r') | None => (None, r2') end
                                   else (None, r2')
                       | [] => (None, r2')
                       end in
      let '(p, r4) := token (skip_ws r3) in
      match p with
      | [] => None
      | _ => Some (mkmedia mt port pn (proto_of p) (parse_fmts (S (length r4)) r4))
      end
    end
  end end.

(* ---------- lines ---------- *)
Record uattr := mkattr { a_name : bytes; a_value : option bytes }.

Inductive line :=
| LVersion
| LOrigin (p : bytes) | LName (p : bytes) | LTime (p : bytes) | LConn (p : bytes) | LBw (p : bytes)
| LMedia (m : media)
| LDir (d : dir) | LEoc | LIceLite
| LRtpmap (p : bytes) | LFmtp (p : bytes) | LRtcp (p : bytes) | LIceOptions (p : bytes) | LUfrag (p : bytes) | LPwd (p : bytes)
| LCandidate (p : bytes) | LCrypto (p : bytes)
| LAttr (a : uattr)
| LIgnored (raw : bytes).

Definition colon : byte := ":"%byte.
Definition eq_ : byte := "="%byte.

Definition t_rtpmap : bytes := Eval vm_compute in B"rtpmap".
Definition t_fmtp : bytes := Eval vm_compute in B"fmtp".
Definition t_rtcp : bytes := Eval vm_compute in B"rtcp".
Definition t_iceoptions : bytes := Eval vm_compute in B"ice-options".
Definition t_iceufrag : bytes := Eval vm_compute in B"ice-ufrag".
Definition t_icepwd : bytes := Eval vm_compute in B"ice-pwd".
Definition t_candidate : bytes := Eval vm_compute in B"candidate".
Definition t_crypto : bytes := Eval vm_compute in B"crypto".

(* line.split_once(':') *)
Fixpoint split_once (s : bytes) : option (bytes * bytes) :=
  match s with
  | [] => None
  | c :: r => if Byte.eqb c colon then Some ([], r)
              else match split_once r with Some (a, b) => Some (c :: a, b) | None => None end
  end.

Section Dispatch.
  (* the field parsers that are not modelled: does the payload parse? *)
  Variable valid : bytes -> bytes -> bool.      (* kind (the attribute or field name) -> payload -> accepted *)

  (* Parser::parse_line as a classification; None = the line makes the whole parse fail *)
  Definition classify_attr (l : bytes) : option line :=
    match split_once l with
    | Some (name, value) =>
      if bytes_eqb name t_rtpmap then (if valid t_rtpmap value then Some (LRtpmap value) else None)
      else if bytes_eqb name t_fmtp then (if valid t_fmtp value then Some (LFmtp value) else None)
      else if bytes_eqb name t_rtcp then (if valid t_rtcp value then Some (LRtcp value) else None)
      else if bytes_eqb name t_icelite then Some LIceLite
      else if bytes_eqb name t_iceoptions then (if valid t_iceoptions value then Some (LIceOptions value) else None)
      else if bytes_eqb name t_iceufrag then (if valid t_iceufrag value then Some (LUfrag value) else None)
      else if bytes_eqb name t_icepwd then (if valid t_icepwd value then Some (LPwd value) else None)
      else if bytes_eqb name t_candidate then (if valid t_candidate value then Some (LCandidate value) else None)
      else if bytes_eqb name t_crypto then (if valid t_crypto value then Some (LCrypto value) else None)
      else Some (LAttr (mkattr name (Some value)))
    | None =>
      match dir_of l with
      | Some d => Some (LDir d)
      | None => if bytes_eqb l t_icelite then Some LIceLite
                else if bytes_eqb l t_eoc then Some LEoc
                else Some (LAttr (mkattr l None))
      end
    end.

  Definition classify (l : bytes) : option line :=
    match l with
    | k :: e :: rest =>
      (* complete_line.get(2..): byte index 2 must be a character boundary (the end of the line, or not a continuation byte) *)
      if (match rest with c :: _ => is_cont c | [] => false end) then None else
      if Byte.eqb e eq_ then
        if Byte.eqb k "v"%byte then (match rest with [z] => if Byte.eqb z "0"%byte then Some LVersion else Some (LIgnored l) | _ => Some (LIgnored l) end)
        else if Byte.eqb k "s"%byte then Some (LName rest)
        else if Byte.eqb k "o"%byte then (if valid [k] rest then Some (LOrigin rest) else None)
        else if Byte.eqb k "t"%byte then (if valid [k] rest then Some (LTime rest) else None)
        else if Byte.eqb k "c"%byte then (if valid [k] rest then Some (LConn rest) else None)
        else if Byte.eqb k "b"%byte then (if valid [k] rest then Some (LBw rest) else None)
        else if Byte.eqb k "m"%byte then (match parse_media rest with Some m => Some (LMedia m) | None => None end)
        else if Byte.eqb k "a"%byte then classify_attr rest
        else Some (LIgnored l)
      else Some (LIgnored l)
    | _ => None           (* complete_line.get(2..) fails: Incomplete *)
    end.
End Dispatch.

(* ---------- descriptions ---------- *)
Record mdesc := mkmd {
  md_media : media; md_dir : dir; md_conn : option bytes; md_bw : list bytes; md_rtcp : option bytes;
  md_rtpmaps : list bytes; md_fmtps : list bytes; md_ufrag : option bytes; md_pwd : option bytes;
  md_cands : list bytes; md_eoc : bool; md_crypto : list bytes; md_attrs : list uattr }.

Record sdesc := mksd {
  s_name : bytes; s_origin : bytes; s_time : bytes; s_dir : dir; s_conn : option bytes; s_bw : list bytes;
  s_iceopts : option bytes; s_icelite : bool; s_ufrag : option bytes; s_pwd : option bytes;
  s_attrs : list uattr; s_media : list mdesc }.

(* parser state: the session part (name / origin / time still optional) and the media sections, newest first *)
Record pstate := mkps {
  p_name : option bytes; p_origin : option bytes; p_time : option bytes; p_dir : dir; p_conn : option bytes; p_bw : list bytes;
  p_iceopts : option bytes; p_icelite : bool; p_ufrag : option bytes; p_pwd : option bytes; p_attrs : list uattr;
  p_media : list mdesc }.

Definition ps0 : pstate := mkps None None None SendRecv None [] None false None None [] [].

Definition upd_last (f : mdesc -> mdesc) (ms : list mdesc) : list mdesc :=
  match ms with m :: r => f m :: r | [] => [] end.

Definition new_media (m : media) (d : dir) : mdesc := mkmd m d None [] None [] [] None None [] false [] [].

Definition set_md_conn c m := mkmd (md_media m) (md_dir m) (Some c) (md_bw m) (md_rtcp m) (md_rtpmaps m) (md_fmtps m) (md_ufrag m) (md_pwd m) (md_cands m) (md_eoc m) (md_crypto m) (md_attrs m).
Definition add_md_bw b m := mkmd (md_media m) (md_dir m) (md_conn m) (md_bw m ++ [b]) (md_rtcp m) (md_rtpmaps m) (md_fmtps m) (md_ufrag m) (md_pwd m) (md_cands m) (md_eoc m) (md_crypto m) (md_attrs m).
Definition set_md_dir d m := mkmd (md_media m) d (md_conn m) (md_bw m) (md_rtcp m) (md_rtpmaps m) (md_fmtps m) (md_ufrag m) (md_pwd m) (md_cands m) (md_eoc m) (md_crypto m) (md_attrs m).
Definition set_md_rtcp r m := mkmd (md_media m) (md_dir m) (md_conn m) (md_bw m) (Some r) (md_rtpmaps m) (md_fmtps m) (md_ufrag m) (md_pwd m) (md_cands m) (md_eoc m) (md_crypto m) (md_attrs m).
Definition add_md_rtpmap r m := mkmd (md_media m) (md_dir m) (md_conn m) (md_bw m) (md_rtcp m) (md_rtpmaps m ++ [r]) (md_fmtps m) (md_ufrag m) (md_pwd m) (md_cands m) (md_eoc m) (md_crypto m) (md_attrs m).
Definition add_md_fmtp r m := mkmd (md_media m) (md_dir m) (md_conn m) (md_bw m) (md_rtcp m) (md_rtpmaps m) (md_fmtps m ++ [r]) (md_ufrag m) (md_pwd m) (md_cands m) (md_eoc m) (md_crypto m) (md_attrs m).
Definition set_md_ufrag u m := mkmd (md_media m) (md_dir m) (md_conn m) (md_bw m) (md_rtcp m) (md_rtpmaps m) (md_fmtps m) (Some u) (md_pwd m) (md_cands m) (md_eoc m) (md_crypto m) (md_attrs m).
Definition set_md_pwd u m := mkmd (md_media m) (md_dir m) (md_conn m) (md_bw m) (md_rtcp m) (md_rtpmaps m) (md_fmtps m) (md_ufrag m) (Some u) (md_cands m) (md_eoc m) (md_crypto m) (md_attrs m).
Definition add_md_cand c m := mkmd (md_media m) (md_dir m) (md_conn m) (md_bw m) (md_rtcp m) (md_rtpmaps m) (md_fmtps m) (md_ufrag m) (md_pwd m) (md_cands m ++ [c]) (md_eoc m) (md_crypto m) (md_attrs m).
Definition set_md_eoc m := mkmd (md_media m) (md_dir m) (md_conn m) (md_bw m) (md_rtcp m) (md_rtpmaps m) (md_fmtps m) (md_ufrag m) (md_pwd m) (md_cands m) true (md_crypto m) (md_attrs m).
Definition add_md_crypto c m := mkmd (md_media m) (md_dir m) (md_conn m) (md_bw m) (md_rtcp m) (md_rtpmaps m) (md_fmtps m) (md_ufrag m) (md_pwd m) (md_cands m) (md_eoc m) (md_crypto m ++ [c]) (md_attrs m).
Definition add_md_attr a m := mkmd (md_media m) (md_dir m) (md_conn m) (md_bw m) (md_rtcp m) (md_rtpmaps m) (md_fmtps m) (md_ufrag m) (md_pwd m) (md_cands m) (md_eoc m) (md_crypto m) (md_attrs m ++ [a]).

Definition with_media (f : list mdesc -> list mdesc) (p : pstate) : pstate :=
  mkps (p_name p) (p_origin p) (p_time p) (p_dir p) (p_conn p) (p_bw p) (p_iceopts p) (p_icelite p) (p_ufrag p) (p_pwd p) (p_attrs p) (f (p_media p)).

(* what a classified line does to the state: attachment to the last media section when there is one *)
Definition apply_line (p : pstate) (l : line) : pstate :=
  let in_media := match p_media p with [] => false | _ => true end in
  match l with
  | LVersion | LIgnored _ => p
  | LName s => mkps (Some s) (p_origin p) (p_time p) (p_dir p) (p_conn p) (p_bw p) (p_iceopts p) (p_icelite p) (p_ufrag p) (p_pwd p) (p_attrs p) (p_media p)
  | LOrigin s => mkps (p_name p) (Some s) (p_time p) (p_dir p) (p_conn p) (p_bw p) (p_iceopts p) (p_icelite p) (p_ufrag p) (p_pwd p) (p_attrs p) (p_media p)
  | LTime s => mkps (p_name p) (p_origin p) (Some s) (p_dir p) (p_conn p) (p_bw p) (p_iceopts p) (p_icelite p) (p_ufrag p) (p_pwd p) (p_attrs p) (p_media p)
  | LConn c => if in_media then with_media (upd_last (set_md_conn c)) p
               else mkps (p_name p) (p_origin p) (p_time p) (p_dir p) (Some c) (p_bw p) (p_iceopts p) (p_icelite p) (p_ufrag p) (p_pwd p) (p_attrs p) (p_media p)
  | LBw b => if in_media then with_media (upd_last (add_md_bw b)) p
             else mkps (p_name p) (p_origin p) (p_time p) (p_dir p) (p_conn p) (p_bw p ++ [b]) (p_iceopts p) (p_icelite p) (p_ufrag p) (p_pwd p) (p_attrs p) (p_media p)
  | LMedia m => with_media (fun ms => new_media m (p_dir p) :: ms) p
  | LDir d => if in_media then with_media (upd_last (set_md_dir d)) p
              else mkps (p_name p) (p_origin p) (p_time p) d (p_conn p) (p_bw p) (p_iceopts p) (p_icelite p) (p_ufrag p) (p_pwd p) (p_attrs p) (p_media p)
  | LEoc => with_media (upd_last set_md_eoc) p
  | LIceLite => mkps (p_name p) (p_origin p) (p_time p) (p_dir p) (p_conn p) (p_bw p) (p_iceopts p) true (p_ufrag p) (p_pwd p) (p_attrs p) (p_media p)
  | LRtpmap r => with_media (upd_last (add_md_rtpmap r)) p
  | LFmtp r => with_media (upd_last (add_md_fmtp r)) p
  | LRtcp r => with_media (upd_last (set_md_rtcp r)) p
  | LIceOptions o => mkps (p_name p) (p_origin p) (p_time p) (p_dir p) (p_conn p) (p_bw p) (Some o) (p_icelite p) (p_ufrag p) (p_pwd p) (p_attrs p) (p_media p)
  | LUfrag u => if in_media then with_media (upd_last (set_md_ufrag u)) p
                else mkps (p_name p) (p_origin p) (p_time p) (p_dir p) (p_conn p) (p_bw p) (p_iceopts p) (p_icelite p) (Some u) (p_pwd p) (p_attrs p) (p_media p)
  | LPwd u => if in_media then with_media (upd_last (set_md_pwd u)) p
              else mkps (p_name p) (p_origin p) (p_time p) (p_dir p) (p_conn p) (p_bw p) (p_iceopts p) (p_icelite p) (p_ufrag p) (Some u) (p_attrs p) (p_media p)
  | LCandidate c => with_media (upd_last (add_md_cand c)) p
  | LCrypto c => with_media (upd_last (add_md_crypto c)) p
  | LAttr a => if in_media then with_media (upd_last (add_md_attr a)) p
               else mkps (p_name p) (p_origin p) (p_time p) (p_dir p) (p_conn p) (p_bw p) (p_iceopts p) (p_icelite p) (p_ufrag p) (p_pwd p) (p_attrs p ++ [a]) (p_media p)
  end.

Definition finish (p : pstate) : option sdesc :=
  match p_origin p, p_name p, p_time p with
  | Some o, Some n, Some t =>
    Some (mksd n o t (p_dir p) (p_conn p) (p_bw p) (p_iceopts p) (p_icelite p) (p_ufrag p) (p_pwd p) (p_attrs p) (rev (p_media p)))
  | _, _, _ => None
  end.

Definition parse_lines (ls : list line) : option sdesc := finish (fold_left apply_line ls ps0).

(* ---------- printers (Display) as line lists ---------- *)
Definition opt_line {A} (f : A -> line) (o : option A) : list line := match o with Some x => [f x] | None => [] end.

Definition print_md (m : mdesc) : list line :=
  [LMedia (md_media m)] ++ opt_line LConn (md_conn m) ++ map LBw (md_bw m) ++ [LDir (md_dir m)] ++
  opt_line LRtcp (md_rtcp m) ++ map LRtpmap (md_rtpmaps m) ++ map LFmtp (md_fmtps m) ++
  opt_line LUfrag (md_ufrag m) ++ opt_line LPwd (md_pwd m) ++ map LCandidate (md_cands m) ++
  (if md_eoc m then [LEoc] else []) ++ map LCrypto (md_crypto m) ++ map LAttr (md_attrs m).

Definition print_sd (s : sdesc) : list line :=
  [LVersion; LOrigin (s_origin s); LName (s_name s)] ++ opt_line LConn (s_conn s) ++ map LBw (s_bw s) ++
  [LTime (s_time s)] ++ opt_line LIceOptions (s_iceopts s) ++ (if s_icelite s then [LIceLite] else []) ++
  [LDir (s_dir s)] ++ opt_line LUfrag (s_ufrag s) ++ opt_line LPwd (s_pwd s) ++ map LAttr (s_attrs s) ++
  flat_map print_md (s_media s).

(* ---------- rendering a line as text ---------- *)

Definition render (l : line) : bytes :=
  match l with
  | LVersion => [ "v"%byte; eq_; "0"%byte ]
  | LOrigin p => "o"%byte :: eq_ :: p
  | LName p => "s"%byte :: eq_ :: p
  | LTime p => "t"%byte :: eq_ :: p
  | LConn p => "c"%byte :: eq_ :: p
  | LBw p => "b"%byte :: eq_ :: p
  | LMedia m => "m"%byte :: eq_ :: print_media m
  | LDir d => "a"%byte :: eq_ :: dir_name d
  | LEoc => "a"%byte :: eq_ :: t_eoc
  | LIceLite => "a"%byte :: eq_ :: t_icelite
  | LRtpmap p => "a"%byte :: eq_ :: t_rtpmap ++ colon :: p
  | LFmtp p => "a"%byte :: eq_ :: t_fmtp ++ colon :: p
  | LRtcp p => "a"%byte :: eq_ :: t_rtcp ++ colon :: p
  | LIceOptions p => "a"%byte :: eq_ :: t_iceoptions ++ colon :: p
  | LUfrag p => "a"%byte :: eq_ :: t_iceufrag ++ colon :: p
  | LPwd p => "a"%byte :: eq_ :: t_icepwd ++ colon :: p
  | LCandidate p => "a"%byte :: eq_ :: t_candidate ++ colon :: p
  | LCrypto p => "a"%byte :: eq_ :: t_crypto ++ colon :: p
  | LAttr a => "a"%byte :: eq_ :: a_name a ++ (match a_value a with Some v => colon :: v | None => [] end)
  | LIgnored raw => raw
  end.

Definition render_all (ls : list line) : bytes := flat_map (fun l => render l ++ [CR; LF]) ls.

Section Text.
  Variable valid : bytes -> bytes -> bool.

  Fixpoint classify_all (ls : list bytes) : option (list line) :=
    match ls with
    | [] => Some []
    | l :: r => match classify valid l, classify_all r with
                | Some x, Some xs => Some (x :: xs)
                | _, _ => None
                end
    end.

  (* SessionDescription::parse *)
  Definition parse_text (t : bytes) : option sdesc :=
    match classify_all (split_lines t []) with
    | Some ls => parse_lines ls
    | None => None
    end.

  (* Display for SessionDescription *)
  Definition print_text (s : sdesc) : bytes := render_all (print_sd s).
End Text.
