(* Model/C19c.v -- the ICE candidate attribute (crates/sdp-types/src/attributes/candidate.rs): IceCandidate::parse
   (the nom grammar with the ws(..) combinator: ASCII white space is skipped in front of every element) and its Display.
   The value starts at "candidate:" (the "a=" and the dispatch on the attribute name are Model/C19's subject).
   Addresses are kept as the text that stands in the line: the text form of an IP address is std's (print and parse are
   inverse there), a host name is its own text.  Definitions only. *)
From Coq Require Import List NArith Bool.
From Coq.Strings Require Import Byte.
From EZK Require Import Lib.Bytes Lib.Num.
Import ListNotations.
Open Scope N_scope.

Definition SPc : byte := " "%byte.

(* char::is_ascii_whitespace: space, tab, line feed, form feed, carriage return *)
Definition is_ws (c : byte) : bool :=
  let n := b2n c in (n =? 32) || (n =? 9) || (n =? 10) || (n =? 12) || (n =? 13).
Definition nws (c : byte) : bool := negb (is_ws c).
Definition ice_char (c : byte) : bool := is_alnum c || Byte.eqb c "+"%byte || Byte.eqb c "/"%byte.
Definition host6_char (c : byte) : bool :=
  is_alnum c || Byte.eqb c "_"%byte || Byte.eqb c "-"%byte || Byte.eqb c "."%byte || Byte.eqb c ":"%byte.

Definition skip_ws (s : bytes) : bytes := snd (take_while is_ws s).

(* take_while_m_n(0, n, p) *)
Fixpoint take_upto (n : nat) (p : byte -> bool) (s : bytes) : bytes * bytes :=
  match n with
  | O => ([], s)
  | S k => match s with
           | c :: r => if p c then let '(a, b) := take_upto k p r in (c :: a, b) else ([], s)
           | [] => ([], [])
           end
  end.

(* map_res(digit1, FromStr::from_str) for an unsigned type with the given maximum *)
Definition number (bound : N) (s : bytes) : option (N * bytes) :=
  let '(d, r) := take_while is_digit s in
  match d with
  | [] => None
  | _ :: _ => match parse_uint bound d with Some n => Some (n, r) | None => None end
  end.

Definition u16max : N := 65535.
Definition u32max : N := 4294967295.
Definition u64max : N := 18446744073709551615.

Record cand := mkcand {
  cd_foundation : bytes; cd_component : N; cd_transport : bytes; cd_priority : N; cd_addr : bytes; cd_port : N;
  cd_typ : bytes; cd_raddr : option bytes; cd_rport : option N; cd_unknown : list (bytes * bytes) }.

(* many0(ws((take_while1(not_whitespace), take_while1(not_whitespace)))): pairs as long as two tokens follow *)
Fixpoint pairs (fuel : nat) (s : bytes) : list (bytes * bytes) :=
  match fuel with
  | O => []
  | S f =>
    let '(k, s1) := take_while nws (skip_ws s) in
    match k with
    | [] => []
    | _ :: _ =>
      let '(v, s2) := take_while nws (skip_ws s1) in
      match v with
      | [] => []
      | _ :: _ => (k, v) :: pairs f s2
      end
    end
  end.

Definition t_raddr : bytes := Eval vm_compute in B"raddr".
Definition t_rport : bytes := Eval vm_compute in B"rport".

(* the closure of map_res: raddr / rport are picked out (a later one replaces an earlier one), the rest is kept in order;
   an rport that is no u16 fails the whole candidate *)
Fixpoint classify (ps : list (bytes * bytes)) (ra : option bytes) (rp : option N) (unk : list (bytes * bytes))
  : option (option bytes * option N * list (bytes * bytes)) :=
  match ps with
  | [] => Some (ra, rp, unk)
  | (k, v) :: t =>
    if bytes_eqb k t_raddr then classify t (Some (fst (take_while host6_char v))) rp unk
    else if bytes_eqb k t_rport then
      match parse_uint u16max v with Some p => classify t ra (Some p) unk | None => None end
    else classify t ra rp (unk ++ [(k, v)])
  end.

Definition t_candidate_colon : bytes := Eval vm_compute in B"candidate:".
Definition t_typ : bytes := Eval vm_compute in B"typ".

Definition parse_cand (s : bytes) : option cand :=
  match strip_prefix t_candidate_colon s with
  | None => None
  | Some s0 =>
    let '(f, s1) := take_upto 32 ice_char s0 in
    match f with
    | [] => None
    | _ :: _ =>
      match number u32max (skip_ws s1) with
      | None => None
      | Some (comp, s2) =>
        let '(tr, s3) := take_while nws (skip_ws s2) in
        match number u64max (skip_ws s3) with
        | None => None
        | Some (prio, s4) =>
          let '(addr, s5) := take_while host6_char (skip_ws s4) in
          match number u16max (skip_ws s5) with
          | None => None
          | Some (port, s6) =>
            match strip_prefix t_typ (skip_ws s6) with
            | None => None
            | Some s7 =>
              let '(typ, s8) := take_while nws (skip_ws s7) in
              match typ with
              | [] => None
              | _ :: _ =>
                match classify (pairs (length s8) s8) None None [] with
                | None => None
                | Some (ra, rp, unk) => Some (mkcand f comp tr prio addr port typ ra rp unk)
                end
              end
            end
          end
        end
      end
    end
  end.

(* impl Display for IceCandidate, after "a=" *)
Definition print_pair (kv : bytes * bytes) : bytes := SPc :: fst kv ++ SPc :: snd kv.
Definition ext_pairs (c : cand) : list (bytes * bytes) :=
  (match cd_raddr c with Some a => [(t_raddr, a)] | None => [] end) ++
  (match cd_rport c with Some p => [(t_rport, print_dec p)] | None => [] end) ++ cd_unknown c.
Definition print_cand (c : cand) : bytes :=
  t_candidate_colon ++ cd_foundation c ++ SPc :: print_dec (cd_component c) ++ SPc :: cd_transport c ++ SPc ::
  print_dec (cd_priority c) ++ SPc :: cd_addr c ++ SPc :: print_dec (cd_port c) ++ SPc :: t_typ ++ SPc :: cd_typ c ++
  flat_map print_pair (ext_pairs c).

(* the candidates the API can hold and the line can carry *)
Definition nonempty (s : bytes) : bool := match s with [] => false | _ :: _ => true end.
Definition token (s : bytes) : bool := nonempty s && forallb nws s.
Definition wf_cand (c : cand) : bool :=
  nonempty (cd_foundation c) && (Nat.leb (length (cd_foundation c)) 32) && forallb ice_char (cd_foundation c) &&
  (cd_component c <=? u32max) && token (cd_transport c) && (cd_priority c <=? u64max) &&
  nonempty (cd_addr c) && forallb host6_char (cd_addr c) && (cd_port c <=? u16max) && token (cd_typ c) &&
  match cd_raddr c with Some a => nonempty a && forallb host6_char a | None => true end &&
  match cd_rport c with Some p => p <=? u16max | None => true end &&
  forallb (fun kv => token (fst kv) && token (snd kv) && negb (bytes_eqb (fst kv) t_raddr) && negb (bytes_eqb (fst kv) t_rport)) (cd_unknown c).
