(* Model/C15.v -- life-cycle of a connection-oriented transport:
   crates/sip-core/src/transport/{managed.rs, streaming/mod.rs::receive_task, mod.rs::{set_used,
   set_unused, drop_transport, find_matching_idling_transport}}.
   External events change what is pending; [quiesce] runs the receive task (and the short-lived
   message tasks) until nothing is ready, with the polling order of the biased select!.
   Time in ms.  Definitions only. *)
From Coq Require Import List NArith Bool.
From EZK Require Import Gen.Tables.
Import ListNotations.
Open Scope N_scope.

Definition idle_ms : N := 32000.

Inductive entry := EUsed | EUnused | EAbsent.
Inductive task := TInUse | TUnused (deadline : N) (rx_ready : bool) | TExited.

Record st := mkst {
  refs : nat;            (* live TpHandles of the current reference generation *)
  transient : nat;       (* handles held by in-flight message tasks, released at the next quiescent point *)
  ent : entry;           (* the Transports map entry *)
  tsk : task;            (* the receive task *)
  inbox : list bool;     (* what waits in the stream, in order: true = a complete message, false = bytes the decoder rejects *)
  eof : bool;            (* peer closed (after everything in the inbox) *)
  now : N;
  delivered : nat;       (* messages handed to Endpoint::receive *)
  extra : nat;           (* further connections opened by Select when this one could not be reused *)
  panicked : bool
}.

Definition upd_refs (s : st) (r : nat) := mkst r (transient s) (ent s) (tsk s) (inbox s) (eof s) (now s) (delivered s) (extra s) (panicked s).

Inductive event :=
| Clone            (* an existing handle is cloned *)
| DropH            (* one handle is dropped *)
| Select           (* find_matching_idling_transport for this remote; the caller keeps the handle *)
| Frame            (* a complete message arrives *)
| Close            (* the peer closes *)
| Garbage          (* bytes that make the decoder fail arrive *)
| Advance (dt : N).

(* external events only record what happened; the task has not run yet *)
Definition ext_step (s : st) (e : event) : st * option bool (* Select: reused? *) :=
  match e with
  | Clone => (match refs s with O => s | S _ => upd_refs s (S (refs s)) end, None)
  | DropH => (upd_refs s (pred (refs s)), None)
  | Select =>
    match ent s with
    | EUsed =>
      match refs s with
      | O => (mkst (refs s) (transient s) (ent s) (tsk s) (inbox s) (eof s) (now s) (delivered s) (S (extra s)) (panicked s), Some false)
      | S _ => (upd_refs s (S (refs s)), Some true)
      end
    | EUnused =>
      (mkst 1 (transient s) EUsed
            (match tsk s with TUnused d _ => TUnused d true | t => t end)
            (inbox s) (eof s) (now s) (delivered s) (extra s) (panicked s), Some true)
    | EAbsent =>
      (mkst (refs s) (transient s) (ent s) (tsk s) (inbox s) (eof s) (now s) (delivered s) (S (extra s)) (panicked s), Some false)
    end
  | Frame => (mkst (refs s) (transient s) (ent s) (tsk s) (inbox s ++ [true]) (eof s) (now s) (delivered s) (extra s) (panicked s), None)
  | Close => (mkst (refs s) (transient s) (ent s) (tsk s) (inbox s) true (now s) (delivered s) (extra s) (panicked s), None)
  | Garbage => (mkst (refs s) (transient s) (ent s) (tsk s) (inbox s ++ [false]) (eof s) (now s) (delivered s) (extra s) (panicked s), None)
  | Advance dt => (mkst (refs s) (transient s) (ent s) (tsk s) (inbox s) (eof s) (now s + dt) (delivered s) (extra s) (panicked s), None)
  end.

Definition item_ready (s : st) : bool := match inbox s with [] => eof s | _ :: _ => true end.

(* set_used + what the loop body does with the next item of the stream.  Returns None when set_used's expect would panic. *)
Definition handle_item (s : st) : option st :=
  let after_set_used :=
    match ent s with
    | EUsed => match (refs s + transient s)%nat with
               | O => None
               | _ => Some (S (transient s), EUsed, tsk s)
               end
    | EUnused => Some (S (transient s), EUsed, match tsk s with TUnused d _ => TUnused d true | t => t end)
    | EAbsent => None
    end in
  match after_set_used with
  | None => None
  | Some (tr, en, tk) =>
    match inbox s with
    | true :: r => Some (mkst (refs s) tr en tk r (eof s) (now s) (S (delivered s)) (extra s) (panicked s))
    | _ =>
      (* framing error or EOF: the task returns, its guard removes the entry *)
      Some (mkst (refs s) tr EAbsent TExited [] (eof s) (now s) (delivered s) (extra s) (panicked s))
    end
  end.

(* one scheduling decision of the runtime; None = nothing is ready *)
Definition task_step (s : st) : option st :=
  if panicked s then None else
  match tsk s with
  | TExited =>
    match transient s with
    | O => None
    | S _ => Some (mkst (refs s) 0 (ent s) (tsk s) (inbox s) (eof s) (now s) (delivered s) (extra s) (panicked s))
    end
  | TInUse =>
    if Nat.eqb (refs s + transient s)%nat 0%nat then
      (* notifier first: set_unused, fresh 32 s *)
      Some (mkst (refs s) (transient s) EUnused (TUnused (now s + idle_ms) false) (inbox s) (eof s) (now s) (delivered s) (extra s) (panicked s))
    else if item_ready s then
      match handle_item s with
      | Some s' => Some s'
      | None => Some (mkst (refs s) (transient s) (ent s) (tsk s) (inbox s) (eof s) (now s) (delivered s) (extra s) true)
      end
    else match transient s with
         | O => None
         | S _ => Some (mkst (refs s) 0 (ent s) (tsk s) (inbox s) (eof s) (now s) (delivered s) (extra s) (panicked s))
         end
  | TUnused d rxr =>
    if rxr then Some (mkst (refs s) (transient s) (ent s) TInUse (inbox s) (eof s) (now s) (delivered s) (extra s) (panicked s))
    else if (if stream_frame_before_idle_timer then true else negb (d <=? now s)) && item_ready s then
      (* the inbound frame is polled before the idle timer: a message that is readable when the timer fires still counts *)
      match handle_item s with
      | Some s' => Some s'
      | None => Some (mkst (refs s) (transient s) (ent s) (tsk s) (inbox s) (eof s) (now s) (delivered s) (extra s) true)
      end
    else if d <=? now s then
      Some (mkst (refs s) (transient s) EAbsent TExited (inbox s) (eof s) (now s) (delivered s) (extra s) (panicked s))
    else match transient s with
         | O => None
         | S _ => Some (mkst (refs s) 0 (ent s) (tsk s) (inbox s) (eof s) (now s) (delivered s) (extra s) (panicked s))
         end
  end.

Fixpoint quiesce (fuel : nat) (s : st) : st :=
  match fuel with
  | O => s
  | S f => match task_step s with Some s' => quiesce f s' | None => s end
  end.

Definition fuel_for (s : st) : nat := (4 * (length (inbox s) + transient s + 4))%nat.

(* a group of events happens without the task running in between *)
Definition run_group (s : st) (g : list event) : st * list (option bool) :=
  let '(s1, sel) := fold_left (fun '(s, acc) e => let '(s', r) := ext_step s e in (s', acc ++ [r])) g (s, []) in
  (quiesce (fuel_for s1) s1, sel).

Definition init_outgoing : st := mkst 1 0 EUsed TInUse [] false 0 0 0 false.
Definition init_incoming : st := mkst 0 0 EUnused (TUnused idle_ms false) [] false 0 0 0 false.

Definition present (s : st) : bool := match ent s with EAbsent => false | _ => true end.
