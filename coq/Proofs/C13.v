(* Proofs/C13.v *)
From Coq Require Import List NArith Lia Bool.
From EZK Require Import Lib.Bytes Lib.ListX Model.C13.
Import ListNotations.
Open Scope N_scope.

Lemma NoDup_snoc {A} (l : list A) (t : A) : NoDup l -> ~ In t l -> NoDup (l ++ [t]).
Proof.
  intros H Hn. apply NoDup_Add with (a := t) (l := l); [|split; assumption].
  rewrite <- (app_nil_r l) at 1. apply Add_app.
Qed.

Lemma mem_In t l : mem t l = true <-> In t l.
Proof.
  unfold mem. rewrite existsb_exists. split.
  - intros (x & Hx & E). apply bytes_eqb_eq in E. now subst.
  - intros H. exists t. split; [exact H|apply bytes_eqb_refl].
Qed.

Lemma find_early_In t es : find_early t es <> None <-> In t (map fst es).
Proof.
  induction es as [|[x a] r IH]; simpl; [split; [congruence|tauto]|].
  destruct (bytes_eqb x t) eqn:E.
  - apply bytes_eqb_eq in E. subst. split; [now left|discriminate].
  - rewrite IH. split; [now right|]. intros [H|H]; [|exact H]. subst. rewrite bytes_eqb_refl in E. discriminate.
Qed.

Lemma set_early_fst t a es : map fst (set_early t a es) = map fst es.
Proof.
  induction es as [|[x b] r IH]; simpl; [reflexivity|].
  destruct (bytes_eqb x t); simpl; [reflexivity|now rewrite IH].
Qed.

(* ---- classification table ---- *)
Lemma classify_100 s r : rs_code r <= 100 -> step s r = (s, ToCallerProvisional).
Proof. intros H. unfold step. destruct (N.leb_spec (rs_code r) 100); [reflexivity|lia]. Qed.

Lemma classify_new_early s c t : 101 <= c <= 199 -> find_early t (earlies s) = None -> mem t (sessions s) = false ->
  step s (mkresp c (Some t)) = (mkist (earlies s ++ [(t, true)]) (sessions s), ToCallerEarly t).
Proof.
  intros [H1 H2] He Hs. unfold step; cbn [rs_code rs_tag].
  destruct (N.leb_spec c 100); [lia|]. destruct (N.leb_spec c 299); [|lia]. rewrite He, Hs.
  destruct (N.leb_spec c 199); [reflexivity|lia].
Qed.

Lemma classify_known_early s c t : 101 <= c <= 199 -> find_early t (earlies s) = Some true ->
  step s (mkresp c (Some t)) = (s, ForwardToEarly t false).
Proof.
  intros [H1 H2] He. unfold step; cbn [rs_code rs_tag].
  destruct (N.leb_spec c 100); [lia|]. destruct (N.leb_spec c 299); [|lia]. rewrite He.
  destruct (N.leb_spec 200 c); [lia|reflexivity].
Qed.

Lemma classify_new_session s c t : 200 <= c <= 299 -> find_early t (earlies s) = None -> mem t (sessions s) = false ->
  step s (mkresp c (Some t)) = (mkist (earlies s) (sessions s ++ [t]), ToCallerSession t).
Proof.
  intros [H1 H2] He Hs. unfold step; cbn [rs_code rs_tag].
  destruct (N.leb_spec c 100); [lia|]. destruct (N.leb_spec c 299); [|lia]. rewrite He, Hs.
  destruct (N.leb_spec c 199); [lia|reflexivity].
Qed.

Lemma classify_early_becomes_session s c t : 200 <= c <= 299 -> find_early t (earlies s) = Some true ->
  step s (mkresp c (Some t)) = (mkist (set_early t false (earlies s)) (sessions s), ForwardToEarly t true).
Proof.
  intros [H1 H2] He. unfold step; cbn [rs_code rs_tag].
  destruct (N.leb_spec c 100); [lia|]. destruct (N.leb_spec c 299); [|lia]. rewrite He.
  destruct (N.leb_spec 200 c); [reflexivity|lia].
Qed.

Lemma classify_failure s c tg : 300 <= c ->
  step s (mkresp c tg) = (mkist [] (sessions s), ToCallerFailure (map fst (filter snd (earlies s)))).
Proof.
  intros H. unfold step; cbn [rs_code rs_tag].
  destruct (N.leb_spec c 100); [lia|]. destruct tg as [t|].
  - destruct (N.leb_spec c 299); [lia|reflexivity].
  - destruct (N.leb_spec 300 c); [reflexivity|lia].
Qed.

Lemma never_panics s r : snd (step s r) <> Panic.
Proof.
  unfold step. destruct (rs_code r <=? 100); [discriminate|].
  destruct (rs_tag r) as [t|].
  - destruct (rs_code r <=? 299); [|discriminate].
    destruct (find_early t (earlies s)) as [[|]|].
    + destruct (200 <=? rs_code r); discriminate.
    + discriminate.
    + destruct (mem t (sessions s)); [discriminate|]. destruct (rs_code r <=? 199); discriminate.
  - destruct (300 <=? rs_code r); discriminate.
Qed.

(* ---- at most one dialog per To-tag, ever ---- *)
Definition Inv (s : ist) : Prop := NoDup (dialog_tags s).

Lemma step_inv s r : Inv s -> Inv (fst (step s r)).
Proof.
  unfold Inv, dialog_tags. intros H. unfold step.
  destruct (rs_code r <=? 100); [exact H|].
  destruct (rs_tag r) as [t|].
  - destruct (rs_code r <=? 299).
    + destruct (find_early t (earlies s)) as [[|]|] eqn:Ef.
      * destruct (200 <=? rs_code r); cbn [fst earlies sessions]; [now rewrite set_early_fst|exact H].
      * exact H.
      * destruct (mem t (sessions s)) eqn:Em; [exact H|].
        assert (Hn1 : ~ In t (map fst (earlies s))).
        { intros Hin. apply find_early_In in Hin. congruence. }
        assert (Hn2 : ~ In t (sessions s)).
        { intros Hin. apply mem_In in Hin. congruence. }
        destruct (rs_code r <=? 199); cbn [fst earlies sessions].
        -- rewrite map_app. cbn [map fst]. rewrite <- app_assoc. cbn [app].
           apply NoDup_Add with (a := t) (l := map fst (earlies s) ++ sessions s).
           ++ apply Add_app.
           ++ split; [exact H|]. intros Hin. apply in_app_or in Hin. tauto.
        -- rewrite app_assoc. apply NoDup_snoc; [exact H|]. intros Hin. apply in_app_or in Hin. tauto.
    + cbn [fst earlies sessions map app]. now apply NoDup_app_remove_l in H.
  - destruct (300 <=? rs_code r); [|exact H].
    cbn [fst earlies sessions map app]. now apply NoDup_app_remove_l in H.
Qed.

Definition runf (s : ist) (out : list action) (rs : list resp) :=
  fold_left (fun '(s, out) r => let '(s', a) := step s r in (s', out ++ [a])) rs (s, out).

Lemma runf_inv rs : forall s out, Inv s -> Inv (fst (runf s out rs)).
Proof.
  induction rs as [|r rs IH]; intros s out H; cbn [runf fold_left]; [exact H|].
  destruct (step s r) as [s' a] eqn:E. apply IH. change s' with (fst (s', a)). rewrite <- E. now apply step_inv.
Qed.

Lemma run_one_dialog_per_tag rs : NoDup (dialog_tags (fst (run rs))).
Proof. apply (runf_inv rs). unfold Inv, dialog_tags. constructor. Qed.

(* ---- every response gets exactly one action ---- *)
Lemma runf_length rs : forall s out, length (snd (runf s out rs)) = (length out + length rs)%nat.
Proof.
  induction rs as [|r rs IH]; intros s out; cbn [runf fold_left length]; [cbn; lia|].
  destruct (step s r) as [s' a]. unfold runf in IH. rewrite IH, app_length. cbn. lia.
Qed.

Lemma run_one_action_each rs : length (snd (run rs)) = length rs.
Proof. unfold run. apply (runf_length rs (mkist [] []) []). Qed.

(* ---- a failure terminates every early dialog that is still listening and forgets them ---- *)
Lemma failure_terminates_all s c tg : 300 <= c ->
  earlies (fst (step s (mkresp c tg))) = [] /\
  snd (step s (mkresp c tg)) = ToCallerFailure (map fst (filter snd (earlies s))).
Proof. intros H. rewrite classify_failure by assumption. split; reflexivity. Qed.

(* ---- order independence for the dialogs that result: in a history of 101-299 responses with
   To-tags, the set of tags owning a dialog is exactly the set of tags seen, whatever the order ---- *)
Definition tagged_1xx_2xx (r : resp) : Prop := 101 <= rs_code r <= 299 /\ rs_tag r <> None.

Lemma step_tags s r : tagged_1xx_2xx r ->
  forall t, In t (dialog_tags (fst (step s r))) <-> In t (dialog_tags s) \/ rs_tag r = Some t.
Proof.
  intros [[H1 H2] Ht] t. unfold step, dialog_tags.
  destruct (N.leb_spec (rs_code r) 100); [lia|]. destruct (rs_tag r) as [x|]; [|congruence].
  destruct (N.leb_spec (rs_code r) 299); [|lia].
  assert (Known : In x (map fst (earlies s) ++ sessions s) ->
          (In t (map fst (earlies s) ++ sessions s) <-> In t (map fst (earlies s) ++ sessions s) \/ Some x = Some t)).
  { intros Hin. split; [tauto|]. intros [Hk|Hk]; [exact Hk|]. inversion Hk; subst. exact Hin. }
  destruct (find_early x (earlies s)) as [[|]|] eqn:Ef.
  - assert (Hin : In x (map fst (earlies s))) by (apply find_early_In; congruence).
    destruct (200 <=? rs_code r); cbn [fst earlies sessions]; rewrite ?set_early_fst;
      apply Known; apply in_or_app; now left.
  - assert (Hin : In x (map fst (earlies s))) by (apply find_early_In; congruence).
    apply Known; apply in_or_app; now left.
  - destruct (mem x (sessions s)) eqn:Em.
    + apply mem_In in Em. apply Known; apply in_or_app; now right.
    + destruct (rs_code r <=? 199); cbn [fst earlies sessions]; rewrite ?map_app; cbn [map fst];
        rewrite ?in_app_iff; cbn [In]; split; intros Hx.
      * destruct Hx as [[Hx|[Hx|[]]]|Hx]; auto. subst. now right.
      * destruct Hx as [[Hx|Hx]|Hx]; auto. inversion Hx; subst. left. right. now left.
      * destruct Hx as [Hx|[Hx|[Hx|[]]]]; auto. subst. now right.
      * destruct Hx as [[Hx|Hx]|Hx]; auto. inversion Hx; subst. right. right. now left.
Qed.

Lemma runf_tags rs : forall s out, Forall tagged_1xx_2xx rs ->
  forall t, In t (dialog_tags (fst (runf s out rs))) <-> In t (dialog_tags s) \/ In (Some t) (map rs_tag rs).
Proof.
  induction rs as [|r rs IH]; intros s out HF t; cbn [runf fold_left map In]; [tauto|].
  inversion HF as [|? ? Hr Hrs]; subst.
  destruct (step s r) as [s' a] eqn:E. unfold runf in IH. rewrite (IH s' (out ++ [a]) Hrs t).
  change s' with (fst (s', a)). rewrite <- E. rewrite (step_tags s r Hr t). intuition congruence.
Qed.

Lemma order_independent rs1 rs2 :
  Forall tagged_1xx_2xx rs1 -> (forall r, In r rs1 <-> In r rs2) ->
  forall t, In t (dialog_tags (fst (run rs1))) <-> In t (dialog_tags (fst (run rs2))).
Proof.
  intros H1 Hp t.
  assert (H2 : Forall tagged_1xx_2xx rs2).
  { apply Forall_forall. intros r Hr. rewrite Forall_forall in H1. apply H1. now apply Hp. }
  change (run rs1) with (runf (mkist [] []) [] rs1). change (run rs2) with (runf (mkist [] []) [] rs2).
  rewrite (runf_tags rs1 _ _ H1 t), (runf_tags rs2 _ _ H2 t). cbn [dialog_tags earlies sessions map app In].
  rewrite !in_map_iff. split; intros [[]|(r & Hr & Hin)]; right; exists r; (split; [exact Hr|]); now apply Hp.
Qed.
