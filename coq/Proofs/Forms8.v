(* Proofs/Forms8.v -- lemmas about Model/Forms8.v *)
From Coq Require Import List NArith Arith Bool Lia.
From EZK Require Import Lib.Bytes Gen.Tables Model.Forms8.
Import ListNotations.
Local Close Scope N_scope.

(* ---- C02 ---- *)
Lemma unwanted_from_line_ok : forall l c, unwanted_ok_form true l c = true.
Proof. intros [] []; reflexivity. Qed.

Lemma unwanted_ok_here : unwanted_kind_from_line = true -> forall l c, unwanted_ok l c = true.
Proof. intros H l c. unfold unwanted_ok. rewrite H. apply unwanted_from_line_ok. Qed.

Lemma unwanted_from_key_panics :
  unwanted_ok_form false ROther RInvite = false /\ unwanted_ok_form false ROther RAck = false /\ unwanted_ok_form false RInvite ROther = false.
Proof. repeat split; reflexivity. Qed.

(* whenever line and CSeq agree the two forms agree: the difference needs a hostile message *)
Lemma unwanted_forms_agree_on_wellformed : forall m b, unwanted_ok_form b m m = true.
Proof. intros [] []; reflexivity. Qed.

(* ---- C04 ---- *)
Lemma pick_top : forall v rest, pick_via_form true (v :: rest) = Some v.
Proof. reflexivity. Qed.

Lemma pick_via_here : key_from_top_via = true -> forall v rest rest', pick_via (v :: rest) = pick_via (v :: rest') /\ pick_via (v :: rest) = Some v.
Proof. intros H v r r'. unfold pick_via. rewrite H. split; reflexivity. Qed.

Lemma pick_bottom_merges : forall a b c : via, pick_via_form false [a; c] = pick_via_form false [b; c].
Proof. reflexivity. Qed.

Lemma pick_none : forall b, pick_via_form b [] = None.
Proof. intros []; reflexivity. Qed.

(* ---- C06 ---- *)
Lemma provisional_once : forall w, provisional_form true w = (1, w) /\ final_at_call (snd (provisional_form true w)) = 1 + w.
Proof. intros w. split; reflexivity. Qed.

Lemma provisional_here : provisional_ignores_queue = true -> forall w, fst (provisional w) = 1 /\ final_at_call (snd (provisional w)) = 1 + w.
Proof. intros H w. unfold provisional. rewrite H. split; reflexivity. Qed.

Lemma provisional_draining : forall w, 0 < w -> fst (provisional_form false w) <> 1 /\ final_at_call (snd (provisional_form false w)) <> 1 + w.
Proof. intros w Hw. cbn. split; lia. Qed.

(* ---- C09 ---- *)
Lemma resend_here : resend_keeps_destination = true -> forall (A : Type) (stored src : A), resend_dest stored src = stored.
Proof. intros H A s x. unfold resend_dest. rewrite H. reflexivity. Qed.

Lemma resend_to_source : forall (A : Type) (stored src : A), stored <> src -> resend_dest_form false stored src <> stored.
Proof. intros A s x Hne. cbn. congruence. Qed.

(* ---- C10 / C16 ---- *)
Lemma next_here : next_cseq_from_last_released = true -> forall a k, next_after_release a k = (a + N.of_nat k + 1)%N.
Proof. intros H a k. unfold next_after_release. rewrite H. reflexivity. Qed.

(* with the other form the number after the last released one compares Greater than the expected number: it is parked *)
Lemma next_from_arriving_parks : forall a k, 0 < k -> (next_after_release_form false a k < a + N.of_nat k + 1)%N.
Proof. intros a k Hk. cbn. lia. Qed.

Lemma sequences_here : sequenced_without_usages = true -> forall n, sequences n = true.
Proof. intros H n. unfold sequences. rewrite H. reflexivity. Qed.

Lemma not_sequenced_when_empty : sequences_form false 0 = false.
Proof. reflexivity. Qed.

(* ---- C12 ---- *)
Lemma strays_keep_slot : forall a strays, Forall (fun c => c <> a) strays ->
  acks_form true (Some a) strays = (Some a, map (fun _ => false) strays).
Proof.
  intros a strays. induction strays as [|c r IH]; intros HF; [reflexivity|].
  inversion HF as [|x l Hc Hr]; subst.
  cbn [acks_form ack_arm_form]. destruct (N.eqb_spec a c) as [E|E]; [congruence|].
  rewrite (IH Hr). reflexivity.
Qed.

Lemma acks_app : forall b s l1 l2,
  acks_form b s (l1 ++ l2) = (let '(s1, m1) := acks_form b s l1 in let '(s2, m2) := acks_form b s1 l2 in (s2, m1 ++ m2)).
Proof.
  intros b s l1. revert s. induction l1 as [|c r IH]; intros s l2; cbn [app acks_form].
  - destruct (acks_form b s l2); reflexivity.
  - destruct (ack_arm_form b s c) as [s1 m]. rewrite IH. destruct (acks_form b s1 r) as [s2 ms]. destruct (acks_form b s2 l2). reflexivity.
Qed.

Lemma right_ack_after_strays : forall a strays, Forall (fun c => c <> a) strays ->
  acks_form true (Some a) (strays ++ [a]) = (None, map (fun _ => false) strays ++ [true]).
Proof.
  intros a strays HF. rewrite acks_app, (strays_keep_slot a strays HF). cbn [acks_form ack_arm_form]. rewrite N.eqb_refl. reflexivity.
Qed.

Lemma acks_here : ack_mismatch_puts_back = true -> forall a strays, Forall (fun c => c <> a) strays ->
  acks (Some a) (strays ++ [a]) = (None, map (fun _ => false) strays ++ [true]).
Proof. intros H a s HF. unfold acks. rewrite H. apply right_ack_after_strays; exact HF. Qed.

Lemma stray_ack_loses_slot : forall a c, c <> a -> acks_form false (Some a) [c; a] = (None, [false; false]).
Proof. intros a c Hne. cbn. destruct (N.eqb_spec a c); [congruence|]. reflexivity. Qed.

(* ---- C13 ---- *)
Lemma timer_m_here : timer_m_any_transport = true -> forall rel, timer_m rel = (tsx_timeout_factor * T1_ms)%N.
Proof. intros H rel. unfold timer_m. rewrite H. reflexivity. Qed.

Lemma fork_inside_window : forall rel d, (d < tsx_timeout_factor * T1_ms)%N -> fork_2xx_delivered_form true rel d = true.
Proof. intros rel d Hd. unfold fork_2xx_delivered_form, timer_m_form. apply N.ltb_lt. exact Hd. Qed.

Lemma fork_lost_on_reliable : forall d, fork_2xx_delivered_form false true d = false.
Proof. intros d. unfold fork_2xx_delivered_form, timer_m_form. apply N.ltb_ge. lia. Qed.

(* ---- C14 ---- *)
Lemma literal_here : ip_literal_verbatim = true -> forall a, literal_dest a = a.
Proof. intros H a. unfold literal_dest. rewrite H. reflexivity. Qed.

Lemma mapped_literal_changes_family : literal_dest_form false (true, mapped_base + 3221225985)%N = (false, 3221225985%N).
Proof. vm_compute. reflexivity. Qed.

Lemma canonical_keeps_v4 : forall n, canonical (false, n) = (false, n).
Proof. reflexivity. Qed.

(* ---- C20 ---- *)
Lemma header_long_enough : stun_header_len_suffices = true -> long_enough stun_header_len = true.
Proof. intros H. unfold long_enough, long_enough_form. rewrite H. apply N.leb_refl. Qed.

Lemma long_enough_iff : stun_header_len_suffices = true -> forall n, long_enough n = true <-> (stun_header_len <= n)%N.
Proof. intros H n. unfold long_enough, long_enough_form. rewrite H. apply N.leb_le. Qed.

Lemma header_too_short_otherwise : long_enough_form false stun_header_len = false.
Proof. unfold long_enough_form. apply N.ltb_irrefl. Qed.
