(* Proofs/C13q.v -- nothing is lost in the early dialog's channel, whatever the interleaving of arrivals and reads *)
From Coq Require Import List Arith NArith Bool Lia.
From EZK Require Import Gen.Tables Model.C13q.
Import ListNotations.

(* the hand-over invariant of the blocking channel *)
Record cinv (cap : nat) (arr : list N) (c : chan) : Prop := mkcinv {
  ci_order : got c ++ queue c ++ waiting c = arr;
  ci_lost : lost c = [];
  ci_full : waiting c <> [] -> length (queue c) = cap;
  ci_cap : length (queue c) <= cap }.

Lemma cinv0 cap : cinv cap [] chan0.
Proof. split; cbn; auto; try lia. intros H; now elim H. Qed.

Lemma cstep_arrive cap arr c x : cinv cap arr c -> cinv cap (arr ++ [x]) (cstep true cap c (Arrive x)).
Proof.
  intros [Ho Hl Hf Hc]. cbn [cstep].
  destruct (waiting c) as [|w ws] eqn:W.
  - destruct (length (queue c) <? cap) eqn:L.
    + apply Nat.ltb_lt in L. split; cbn [got queue waiting lost]; auto.
      * rewrite <- Ho. now rewrite !app_nil_r, !app_assoc.
      * intros H; now elim H.
      * rewrite app_length; cbn; lia.
    + apply Nat.ltb_ge in L. split; cbn [got queue waiting lost]; auto.
      * rewrite <- Ho. now rewrite !app_nil_r, !app_assoc.
      * intros _. lia.
  - split; cbn [got queue waiting lost]; auto.
    + rewrite <- Ho. now rewrite !app_assoc.
    + intros _. apply Hf. discriminate.
Qed.

Lemma cstep_read cap arr c : 0 < cap -> cinv cap arr c -> cinv cap arr (cstep true cap c Read).
Proof.
  intros Hp [Ho Hl Hf Hc]. cbn [cstep].
  destruct (queue c) as [|q qs] eqn:Q; [split; rewrite ?Q; auto|].
  unfold refill; cbn [waiting queue got lost].
  destruct (waiting c) as [|w ws] eqn:W.
  - split; cbn [got queue waiting lost]; auto.
    + rewrite <- Ho. now rewrite <- !app_assoc.
    + intros H; now elim H.
    + cbn in Hc; lia.
  - assert (F : length (q :: qs) = cap) by (apply Hf; discriminate). cbn in F.
    replace (length qs <? cap) with true by (symmetry; apply Nat.ltb_lt; lia).
    split; cbn [got queue waiting lost]; auto.
    + rewrite <- Ho. rewrite <- !app_assoc. cbn. reflexivity.
    + intros _. rewrite app_length; cbn; lia.
    + rewrite app_length; cbn; lia.
Qed.

Lemma arrivals_app a b : arrivals (a ++ b) = arrivals a ++ arrivals b.
Proof. induction a as [|[x|] a IH]; cbn; now rewrite ?IH. Qed.

Lemma crun_app blocks cap a b : crun blocks cap (a ++ b) = fold_left (cstep blocks cap) b (crun blocks cap a).
Proof. unfold crun. now rewrite fold_left_app. Qed.

Lemma crun_inv cap evs : 0 < cap -> cinv cap (arrivals evs) (crun true cap evs).
Proof.
  intros Hp. induction evs as [|e evs IH] using rev_ind; [apply cinv0|].
  rewrite crun_app, arrivals_app. cbn [fold_left].
  destruct e as [x|]; cbn [arrivals].
  - now apply cstep_arrive.
  - rewrite app_nil_r. now apply cstep_read.
Qed.

(* whatever the interleaving: what was read, what is buffered and what still waits are, in this order, exactly what
   arrived; nothing is dropped *)
Lemma blocking_no_loss cap evs : 0 < cap ->
  let c := crun true cap evs in got c ++ queue c ++ waiting c = arrivals evs /\ lost c = [].
Proof. intros Hp. destruct (crun_inv cap evs Hp) as [Ho Hl _ _]. now split. Qed.

(* what was read so far is a prefix of what arrived: order is kept, nothing is duplicated *)
Lemma blocking_prefix cap evs : 0 < cap -> exists rest, arrivals evs = got (crun true cap evs) ++ rest.
Proof. intros Hp. destruct (crun_inv cap evs Hp) as [Ho _ _ _]. eexists. symmetry. exact Ho. Qed.

(* a reader that keeps reading gets everything *)
Lemma read_one cap arr c x p : 0 < cap -> cinv cap arr c -> queue c ++ waiting c = x :: p ->
  let c' := cstep true cap c Read in got c' = got c ++ [x] /\ queue c' ++ waiting c' = p.
Proof.
  intros Hp [Ho Hl Hf Hc] E. cbn [cstep].
  destruct (queue c) as [|q qs] eqn:Q.
  - cbn in E. assert (W : waiting c <> []) by (rewrite E; discriminate). apply Hf in W. cbn in W. lia.
  - cbn in E. injection E as -> E. unfold refill; cbn [waiting queue got lost].
    destruct (waiting c) as [|w ws] eqn:W.
    + cbn [got queue waiting]. split; [reflexivity|]. now rewrite app_nil_r in *.
    + assert (F : length (x :: qs) = cap) by (apply Hf; discriminate). cbn in F.
      replace (length qs <? cap) with true by (symmetry; apply Nat.ltb_lt; lia).
      cbn [got queue waiting]. split; [reflexivity|]. rewrite <- E. now rewrite <- app_assoc.
Qed.

Lemma reads_drain cap : 0 < cap -> forall n arr c, cinv cap arr c -> length (queue c ++ waiting c) <= n ->
  got (fold_left (cstep true cap) (repeat Read n) c) = arr.
Proof.
  intros Hp. induction n as [|n IH]; intros arr c I L.
  - cbn. destruct I as [Ho _ _ _]. rewrite <- Ho.
    destruct (queue c ++ waiting c); [now rewrite app_nil_r | cbn in L; lia].
  - cbn [repeat fold_left].
    destruct (queue c ++ waiting c) as [|x p] eqn:E.
    + (* nothing pending: a read changes nothing *)
      assert (Q : queue c = []) by (destruct (queue c); [reflexivity | discriminate]).
      assert (S : cstep true cap c Read = c) by (cbn [cstep]; now rewrite Q).
      rewrite S. apply IH; [exact I | rewrite E; cbn; lia].
    + pose proof (read_one cap arr c x p Hp I E) as [_ Hq].
      apply IH; [now apply cstep_read | rewrite Hq; cbn in L; lia].
Qed.

Lemma blocking_all_read cap evs : 0 < cap ->
  got (crun true cap (evs ++ repeat Read (length (arrivals evs)))) = arrivals evs.
Proof.
  intros Hp. rewrite crun_app. apply reads_drain; [exact Hp | now apply crun_inv |].
  destruct (crun_inv cap evs Hp) as [Ho _ _ _].
  rewrite <- Ho. rewrite !app_length. lia.
Qed.

(* the other form: giving up when the buffer is full loses the fifth response queued behind a late reader *)
Lemma try_send_loses : lost (crun false 4 (map Arrive [1; 2; 3; 4; 5]%N)) = [5%N].
Proof. reflexivity. Qed.

(* the code's channel *)
Lemma early_cap_pos : 0 < early_cap.
Proof. unfold early_cap. vm_compute. lia. Qed.

Lemma early_no_loss evs : early_forward_blocks = true ->
  let c := early_chan evs in got c ++ queue c ++ waiting c = arrivals evs /\ lost c = [].
Proof. intros G. unfold early_chan. rewrite G. apply blocking_no_loss, early_cap_pos. Qed.

Lemma early_prefix evs : early_forward_blocks = true -> exists rest, arrivals evs = got (early_chan evs) ++ rest.
Proof. intros G. unfold early_chan. rewrite G. apply blocking_prefix, early_cap_pos. Qed.

Lemma early_all_read evs : early_forward_blocks = true ->
  got (early_chan (evs ++ repeat Read (length (arrivals evs)))) = arrivals evs.
Proof. intros G. unfold early_chan. rewrite G. apply blocking_all_read, early_cap_pos. Qed.
