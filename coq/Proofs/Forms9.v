(* Proofs/Forms9.v -- lemmas about Model/Forms9.v *)
From Coq Require Import List NArith Arith Bool Lia.
From Coq.Strings Require Import Byte.
From EZK Require Import Lib.Bytes Gen.Tables Model.Forms9.
Import ListNotations.
Local Close Scope N_scope.

(* ---- C12 ---- *)
Lemma retransmit_here : accepted_retransmit_any_transport = true -> forall rel, retransmit_sends rel = true.
Proof. intros H rel. unfold retransmit_sends. rewrite H. reflexivity. Qed.

Lemma copies_any_transport : forall rel fired, copies_2xx_form true rel fired = 1 + fired.
Proof. reflexivity. Qed.

Lemma copies_reliable_skipped : forall fired, copies_2xx_form false true fired = 1.
Proof. reflexivity. Qed.

(* ---- C13 ---- *)
Lemma terminated_here : early_dialogs_drained = true -> forall (A : Type) (l : list A), terminated l = l.
Proof. intros H A l. unfold terminated. rewrite H. reflexivity. Qed.

Lemma every_other_skips_second : forall (A : Type) (a b : A) (r : list A), ~ In b (a :: r) -> ~ In b (terminated_form false (a :: b :: r)).
Proof.
  intros A a b r Hn. cbn [terminated_form every_other]. intros [E|Hin]; [apply Hn; left; exact E|].
  apply Hn. right.
  revert Hin. generalize r. clear. intros r.
  assert (G : forall l : list A, forall x, In x (every_other l) -> In x l).
  { fix IH 1. intros [|y [|z l']] x Hx; cbn in *; auto.
    destruct Hx as [E|Hx]; [left; exact E|]. right. right. apply IH. exact Hx. }
  apply G.
Qed.

Lemma every_other_le : forall (A : Type) (n : nat) (l : list A), length l <= n -> length (every_other l) <= length l.
Proof.
  intros A n. induction n as [|n IH]; intros l Hl.
  - destruct l; [cbn; lia | cbn in Hl; lia].
  - destruct l as [|x [|y r]]; cbn [every_other length] in *; try lia.
    assert (Hr : length r <= n) by lia. specialize (IH r Hr). lia.
Qed.

Lemma every_other_length : forall (A : Type) (l : list A), 2 <= length l -> length (every_other l) < length l.
Proof.
  intros A [|x [|y r]] H; cbn [every_other length] in *; try lia.
  pose proof (every_other_le A (length r) r (Nat.le_refl _)). lia.
Qed.

(* ---- C15 ---- *)
Lemma idle_deadline_here : idle_timer_armed_at_accept = true -> forall since at_, idle_deadline since at_ = (at_ + 32000)%N.
Proof. intros H s a. unfold idle_deadline, idle_deadline_form. rewrite H. reflexivity. Qed.

Lemma idle_deadline_early : forall since at_, (since < at_)%N -> (idle_deadline_form false since at_ < at_ + 32000)%N.
Proof. intros s a H. unfold idle_deadline_form. lia. Qed.

(* ---- C20 ---- *)
Lemma digest_whole : forall d v, digest_matches_form true d v = true <-> d = v.
Proof. intros d v. unfold digest_matches_form. apply bytes_eqb_eq. Qed.

Lemma digest_here : integrity_compares_whole_value = true -> forall d v, digest_matches d v = true <-> d = v.
Proof. intros H d v. unfold digest_matches. rewrite H. apply digest_whole. Qed.

Lemma zip_accepts_empty : forall d, digest_matches_form false d [] = true.
Proof. intros [|x r]; reflexivity. Qed.

Lemma zip_accepts_prefix : forall d k, digest_matches_form false d (firstn k d) = true.
Proof.
  intros d. unfold digest_matches_form. induction d as [|x r IH]; intros [|k]; cbn; try reflexivity.
  rewrite byte_eqb_refl. cbn. apply IH.
Qed.

(* ---- C03 ---- *)
Lemma head_here : head_limit_inclusive = true -> forall limit n, head_accepted limit n = true <-> n <= limit.
Proof. intros H limit n. unfold head_accepted, head_accepted_form. rewrite H. apply Nat.leb_le. Qed.

Lemma head_at_limit_refused_otherwise : forall limit, head_accepted_form false limit limit = false.
Proof. intros limit. unfold head_accepted_form. apply Nat.ltb_irrefl. Qed.

(* ---- C19 ---- *)
Lemma high_bytes_are_token_bytes : forall b : byte, 128 <= Byte.to_nat b -> ascii_ws b = false.
Proof. intros b. destruct b; cbn; intros H; try reflexivity; lia. Qed.

(* ---- C07 ---- *)
Lemma ack_via_here : ack_via_cloned = true -> forall (A : Type) (inv tp : A), ack_via inv tp = inv.
Proof. intros H A i t. unfold ack_via. rewrite H. reflexivity. Qed.

Lemma ack_via_rebuilt : forall (A : Type) (inv tp : A), inv <> tp -> ack_via_form false inv tp <> inv.
Proof. intros A i t Hne. cbn. congruence. Qed.

(* ---- C08 ---- *)
Lemma prack_here : prack_answered_unconditionally = true -> forall waiting, prack_finals waiting = 1.
Proof. intros H w. unfold prack_finals, prack_finals_form. rewrite H. reflexivity. Qed.

Lemma prack_unanswered_otherwise : prack_finals_form false false = 0.
Proof. reflexivity. Qed.

(* ---- C11 ---- *)
Lemma refresh_acks_here : refresh_ack_per_round = true -> forall rounds, refresh_acks rounds = rounds.
Proof. intros H r. unfold refresh_acks, refresh_acks_form. rewrite H. reflexivity. Qed.

Lemma refresh_ack_cached : forall a b r, a <> b -> nth 1 (refresh_acks_form false (a :: b :: r)) 0%N <> b.
Proof. intros a b r Hne. cbn. exact Hne. Qed.
