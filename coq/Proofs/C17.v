(* Proofs/C17.v *)
From Coq Require Import List NArith Lia Bool.
From EZK Require Import Gen.Tables Model.C17.
Import ListNotations.
Open Scope N_scope.

Lemma margin_pos : 0 < se_margin_s. Proof. reflexivity. Qed.

(* UAS side *)
Lemma uas_refresher_before interval min_se f delta real :
  uas_timer interval RUas min_se = (f, delta, real) -> 0 < delta -> f = RUas /\ real < delta.
Proof.
  unfold uas_timer, sat_sub. intros H Hd. inversion H; subst. split; [reflexivity|].
  pose proof margin_pos. lia.
Qed.

Lemma uas_nonrefresher_after interval cfg min_se f delta real :
  cfg <> RUas -> uas_timer interval cfg min_se = (f, delta, real) -> delta <= u32max ->
  f = RUac /\ delta <= real /\ real <= u32max.
Proof.
  unfold uas_timer, sat_add. intros Hc H Hd. destruct cfg; [congruence| |]; inversion H; subst; repeat split; lia.
Qed.

Lemma uas_delta interval cfg min_se f delta real :
  uas_timer interval cfg min_se = (f, delta, real) ->
  delta = match min_se with Some m => N.max m interval | None => interval end.
Proof. unfold uas_timer. destruct cfg; intros H; inversion H; reflexivity. Qed.

(* UAC side *)
Lemma uac_refresher_before d f' f real :
  f' <> RUas -> uac_timer (Some (d, f')) = Some (f, real) -> 0 < d -> f = RUac /\ we_refresh Uac f = true /\ real < d.
Proof.
  unfold uac_timer, sat_sub. intros Hf H Hd. pose proof margin_pos.
  destruct f'; [congruence| |]; inversion H; subst; repeat split; lia.
Qed.

Lemma uac_nonrefresher_after d f real :
  uac_timer (Some (d, RUas)) = Some (f, real) -> d <= u32max ->
  f = RUas /\ we_refresh Uac f = false /\ d <= real /\ real <= u32max.
Proof.
  unfold uac_timer, sat_add. intros H Hd. inversion H; subst. repeat split; lia.
Qed.

Lemma uac_never_disabled d f : uac_timer (Some (d, f)) <> None.
Proof. unfold uac_timer. destruct f; discriminate. Qed.

Lemma uac_unsupported : uac_timer None = None.
Proof. reflexivity. Qed.

(* ---------- the running timer ---------- *)
(* nothing fires before the deadline; the first thing that happens without a received refresh is at
   exactly the deadline *)
Lemma session_first_fire fuel mine real deadline horizon :
  deadline <= horizon ->
  session_run (S fuel) mine real deadline [] horizon =
  if mine then RefreshNeeded deadline :: session_run fuel mine real (deadline + real) [] horizon
  else [ByeSent deadline].
Proof.
  intros H. cbn [session_run]. destruct (N.ltb_spec horizon deadline); [lia|reflexivity].
Qed.

(* a refresh received before the deadline restarts the full interval from that instant *)
Lemma session_restart fuel mine real deadline e rest horizon :
  e < deadline ->
  session_run (S fuel) mine real deadline (e :: rest) horizon = session_run fuel mine real (e + real) rest horizon.
Proof. intros H. cbn [session_run]. destruct (N.ltb_spec e deadline); [reflexivity|lia]. Qed.

(* ---------- registration ---------- *)
Lemma reg_before_expiry lifetime : reg_margin_s < lifetime -> reg_interval lifetime < lifetime /\ 0 < reg_interval lifetime.
Proof.
  unfold reg_interval, reg_margin_s, reg_min_s. intros H. lia.
Qed.

Lemma reg_interval_never_zero lifetime : 0 < reg_interval lifetime.
Proof. unfold reg_interval, reg_margin_s, reg_min_s. lia. Qed.

Lemma registers_consecutive n : forall r,
  create_registers n r = map (fun i => (r_cseq r + 1 + N.of_nat i, r_call_id r)) (seq 0 n).
Proof.
  induction n as [|n IH]; intros r; cbn [create_registers]; [reflexivity|].
  cbn [create_register]. rewrite IH. cbn [r_cseq r_call_id seq map]. f_equal.
  - f_equal. lia.
  - rewrite <- seq_shift, map_map. apply map_ext. intros i. f_equal. lia.
Qed.
