(* Proofs/C12.v *)
From Coq Require Import List NArith Lia Bool.
From EZK Require Import Gen.Tables Model.Tsx Model.C12.
Import ListNotations.
Open Scope N_scope.

Lemma finals_app a b : finals (a ++ b) = (finals a + finals b)%nat.
Proof. unfold finals. now rewrite filter_app, app_length. Qed.

(* one step produces a final exactly when it moves the token out of Prov *)
Lemma ustep_finals s e :
  finals (snd (ustep s e)) = (if match state s, state (fst (ustep s e)) with Prov, Prov => false | Prov, _ => true | _, _ => false end then 1 else 0)%nat
  /\ (state s <> Prov -> state (fst (ustep s e)) <> Prov).
Proof.
  destruct s as [st c a]. destruct e as [[|]| | |code| | |]; destruct st, c, a; cbn; split; try reflexivity; try congruence; try discriminate.
Qed.

(* invariant: the number of finals sent so far is 0 while the token is in Prov and 1 afterwards *)
Definition count_ok (s : ust) (out : list uout) : Prop :=
  finals out = (match state s with Prov => 0 | _ => 1 end)%nat.

Lemma urun_gen evs : forall s out, count_ok s out ->
  count_ok (fst (fold_left (fun '(s, out) e => let '(s', o) := ustep s e in (s', out ++ o)) evs (s, out)))
           (snd (fold_left (fun '(s, out) e => let '(s', o) := ustep s e in (s', out ++ o)) evs (s, out))).
Proof.
  induction evs as [|e evs IH]; intros s out H; cbn [fold_left fst snd]; [exact H|].
  destruct (ustep s e) as [s' o] eqn:E. apply IH. unfold count_ok in *.
  rewrite finals_app, H. destruct (ustep_finals s e) as [Hf Hn]. rewrite E in Hf, Hn. cbn [fst snd] in *.
  rewrite Hf. destruct (state s) eqn:Es; destruct (state s') eqn:Es'; try reflexivity;
    exfalso; apply Hn; congruence.
Qed.

Lemma one_final evs :
  finals (snd (urun evs)) = (match state (fst (urun evs)) with Prov => 0 | _ => 1 end)%nat.
Proof. unfold urun. apply (urun_gen evs). reflexivity. Qed.

Lemma at_most_one_final evs : (finals (snd (urun evs)) <= 1)%nat.
Proof. rewrite one_final. destruct (state (fst (urun evs))); lia. Qed.

(* matching CANCEL / BYE on a pending INVITE: own answer 200 and the INVITE gets 487 *)
Lemma cancel_pending s : state s = Prov -> cancellable s = true ->
  snd (ustep s (EvCancel true)) = [InviteFinal 487; CancelAnswer 200] /\ state (fst (ustep s (EvCancel true))) = Cancelled.
Proof. destruct s as [st c a]; cbn. intros -> ->. split; reflexivity. Qed.

Lemma bye_pending s : state s = Prov ->
  snd (ustep s EvBye) = [InviteFinal 487; ByeAnswer 200] /\ state (fst (ustep s EvBye)) = Terminated.
Proof. destruct s as [st c a]; cbn. intros ->. split; reflexivity. Qed.

(* afterwards accept and reject report termination and send nothing *)
Lemma accept_after_take s : state s <> Prov -> acceptor_alive s = true ->
  snd (ustep s EvAccept) = [AcceptResult false] /\ state (fst (ustep s EvAccept)) = state s.
Proof. destruct s as [st c a]; cbn. intros H ->. destruct st; try congruence; split; reflexivity. Qed.

Lemma reject_after_take s code : state s <> Prov -> acceptor_alive s = true ->
  snd (ustep s (EvReject code)) = [RejectResult false] /\ state (fst (ustep s (EvReject code))) = state s.
Proof. destruct s as [st c a]; cbn. intros H ->. destruct st; try congruence; split; reflexivity. Qed.

(* a CANCEL that no longer matches a pending INVITE: 200 or 481, state unchanged, no final *)
Lemma stale_cancel s m : state s <> Prov \/ m = false \/ cancellable s = false ->
  state (fst (ustep s (EvCancel m))) = state s /\
  (snd (ustep s (EvCancel m)) = [CancelAnswer 200] \/ snd (ustep s (EvCancel m)) = [CancelAnswer 481]).
Proof.
  destruct s as [st c a]. destruct m; cbn.
  - intros [H|[H|H]]; try discriminate.
    + destruct c; [|split; [reflexivity|now right]]. destruct st; try congruence; split; try reflexivity; now left.
    + cbn in H. subst c. split; [reflexivity|now right].
  - intros _. split; [reflexivity|now right].
Qed.

(* ---------- retransmission schedules ---------- *)
Lemma schedule_2xx tie :
  retransmit_2xx tie 0 None =
  [Send 0; Send 500; Send 1500; Send 3500; Send 7500; Send 11500; Send 15500; Send 19500; Send 23500; Send 27500;
   Send 31500; TimedOut 32000].
Proof. destruct tie; vm_compute; reflexivity. Qed.

Lemma schedule_reliable_1xx tie :
  retransmit_reliable_1xx tie 0 None =
  [Send 0; Send 500; Send 1500; Send 3500; Send 7500; Send 15500; Send 31500; TimedOut 32000].
Proof. destruct tie; vm_compute; reflexivity. Qed.

(* nothing is sent after the matching event, which ends the loop *)
Lemma retrans_stops fuel : forall cap tie abandon next delta a,
  Forall (fun o => is_send o = true -> time_of o <= a) (retrans fuel cap tie abandon next delta (Some a)).
Proof.
  induction fuel as [|fuel IH]; intros cap tie abandon next delta a; cbn [retrans].
  - repeat constructor. discriminate.
  - destruct tie.
    + destruct (N.leb_spec a (N.min next abandon)); [repeat constructor; discriminate|].
      destruct (abandon <=? N.min next abandon); [repeat constructor; discriminate|].
      constructor; [cbn; intros _; lia|apply IH].
    + destruct (N.ltb_spec a (N.min next abandon)); [repeat constructor; discriminate|].
      destruct (abandon <=? N.min next abandon); [repeat constructor; discriminate|].
      constructor; [cbn; intros _; lia|apply IH].
Qed.

(* only the PRACK with the matching RAck completes the rendezvous; every other one leaves it intact *)
Lemma prack_only_matching rs cs ps :
  Forall (fun p => prack_matches rs cs p = false) ps ->
  prack_run (Some (rs, cs)) ps = (Some (rs, cs), map (fun _ => false) ps).
Proof.
  induction ps as [|p r IH]; intros H; cbn [prack_run map]; [reflexivity|].
  inversion H as [|? ? Hp Hr]; subst. rewrite Hp. now rewrite (IH Hr).
Qed.

Lemma prack_first_matching rs cs pre p post :
  Forall (fun p => prack_matches rs cs p = false) pre -> prack_matches rs cs p = true ->
  exists l, prack_run (Some (rs, cs)) (pre ++ p :: post) = (None, map (fun _ => false) pre ++ true :: l) /\
            Forall (fun b => b = false) l.
Proof.
  induction pre as [|q pre IH]; intros Hpre Hp; cbn [app prack_run map].
  - rewrite Hp. assert (G : forall l, exists r, prack_run None l = (None, r) /\ Forall (fun b => b = false) r).
    { induction l as [|x l [r [Hr Hf]]]; cbn [prack_run]; [eexists; split; [reflexivity|constructor]|].
      rewrite Hr. eexists; split; [reflexivity|]. constructor; auto. }
    destruct (G post) as (r & Hr & Hf). rewrite Hr. eauto.
  - inversion Hpre as [|? ? Hq Hr]; subst. rewrite Hq.
    destruct (IH Hr Hp) as (l & Hl & Hf). rewrite Hl. eauto.
Qed.
