(* Proofs/C11.v *)
From Coq Require Import List NArith Lia Bool.
From EZK Require Import Lib.Bytes Model.C11.
Import ListNotations.
Open Scope N_scope.

Lemma create_request_fields d m q d' : create_request d m = (q, d') ->
  o_method q = m /\ o_uri q = d_target d /\
  o_from_uri q = d_local_uri d /\ o_from_tag q = d_local_tag d /\
  o_to_uri q = d_peer_uri d /\ o_to_tag q = d_peer_tag d /\
  o_call_id q = d_call_id d /\ o_cseq q = d_cseq d /\ o_max_forwards q = 70 /\ o_route q = d_route d /\
  d_cseq d' = u32_wrap (d_cseq d + 1) /\
  d_call_id d' = d_call_id d /\ d_local_uri d' = d_local_uri d /\ d_local_tag d' = d_local_tag d /\
  d_peer_uri d' = d_peer_uri d /\ d_peer_tag d' = d_peer_tag d /\ d_target d' = d_target d /\
  d_route d' = d_route d.
Proof. unfold create_request. intros H; inversion H; subst; cbn. repeat split. Qed.

(* identifiers on the UAS side: From = the request's To with the local tag, To = the request's From *)
Lemma uas_identifiers rq tag c0 lc d m q d' :
  new_server rq tag c0 lc = Some d -> create_request d m = (q, d') ->
  o_call_id q = q_call_id rq /\
  o_from_uri q = q_to_uri rq /\ o_from_tag q = tag /\
  o_to_uri q = q_from_uri rq /\ o_to_tag q = q_from_tag rq /\
  Some (o_uri q) = q_contact rq /\
  o_route q = q_record_route rq /\ o_max_forwards q = 70 /\ o_cseq q = c0.
Proof.
  unfold new_server. destruct (q_from_tag rq) eqn:Ef; [|discriminate]. destruct (q_contact rq) eqn:Ec; [|discriminate].
  intros H; inversion H; subst; clear H. unfold create_request. intros H; inversion H; subst; cbn.
  repeat split; auto.
Qed.

(* UAC side: From = local, To = the response's To, route set reversed, first CSeq above the INVITE's *)
Lemma uac_identifiers b rp d m q d' :
  from_response b rp = Some d -> create_request d m = (q, d') ->
  o_call_id q = b_call_id b /\
  o_from_uri q = b_local_uri b /\ o_from_tag q = b_local_tag b /\
  o_to_uri q = p_to_uri rp /\ o_to_tag q = p_to_tag rp /\
  Some (o_uri q) = p_contact rp /\
  o_route q = rev (p_record_route rp) /\ o_max_forwards q = 70 /\
  o_cseq q = u32_wrap (b_cseq b + 1).
Proof.
  unfold from_response. destruct (p_to_tag rp) eqn:Et; [|discriminate]. destruct (p_contact rp) eqn:Ec; [|discriminate].
  intros H; inversion H; subst; clear H. unfold create_request. intros H; inversion H; subst; cbn.
  repeat split; auto.
Qed.

Lemma uac_first_cseq_greater b rp d m q d' :
  b_cseq b < 4294967295 ->
  from_response b rp = Some d -> create_request d m = (q, d') -> b_cseq b < o_cseq q.
Proof.
  intros Hb Hd Hq. destruct (uac_identifiers _ _ _ _ _ _ Hd Hq) as (_&_&_&_&_&_&_&_&Hc).
  rewrite Hc. unfold u32_wrap. rewrite N.mod_small by lia. lia.
Qed.

(* CSeq numbers of any sequence of created requests: consecutive from the counter, hence strictly
   increasing while the counter stays below 2^32 *)
Fixpoint consecutive_from (n : N) (qs : list outreq) : Prop :=
  match qs with
  | [] => True
  | q :: r => o_cseq q = n /\ consecutive_from (n + 1) r
  end.

Lemma create_requests_consecutive : forall ms d qs d',
  d_cseq d + N.of_nat (length ms) <= 4294967296 ->
  create_requests d ms = (qs, d') ->
  consecutive_from (d_cseq d) qs /\ length qs = length ms /\
  (d_cseq d + N.of_nat (length ms) < 4294967296 -> d_cseq d' = d_cseq d + N.of_nat (length ms)).
Proof.
  induction ms as [|m r IH]; intros d qs d' Hb H; cbn [create_requests] in H.
  - inversion H; subst. cbn. repeat split. intros _. lia.
  - destruct (create_request d m) as [q d1] eqn:E1. destruct (create_requests d1 r) as [qs' d2] eqn:E2.
    inversion H; subst; clear H.
    destruct (create_request_fields _ _ _ _ E1) as (_&_&_&_&_&_&_&Hc&_&_&Hn&_).
    cbn [length] in Hb. rewrite Nat2N.inj_succ in Hb.
    destruct r as [|m2 r2].
    + cbn [create_requests] in E2. inversion E2; subst. cbn. repeat split; auto.
      intros Hlt. rewrite Hn. unfold u32_wrap. rewrite N.mod_small by lia. lia.
    + assert (Hd1 : d_cseq d1 = d_cseq d + 1).
      { rewrite Hn. unfold u32_wrap. apply N.mod_small. cbn [length] in Hb. lia. }
      destruct (IH d1 qs' d') as (Hcons & Hlen & Hfin); [rewrite Hd1; lia|exact E2|].
      cbn [consecutive_from]. repeat split; auto.
      * now rewrite <- Hd1.
      * cbn [length] in *. lia.
      * intros Hlt. rewrite Hfin by (rewrite Hd1; cbn [length] in *; lia). rewrite Hd1. cbn [length] in *. lia.
Qed.

(* every created request carries the same dialog identifiers (they do not depend on the counter) *)
Lemma create_requests_identifiers : forall ms d qs d',
  create_requests d ms = (qs, d') ->
  Forall (fun q => o_call_id q = d_call_id d /\ o_from_uri q = d_local_uri d /\ o_from_tag q = d_local_tag d /\
                   o_to_uri q = d_peer_uri d /\ o_to_tag q = d_peer_tag d /\ o_uri q = d_target d /\
                   o_route q = d_route d /\ o_max_forwards q = 70) qs.
Proof.
  induction ms as [|m r IH]; intros d qs d' H; cbn [create_requests] in H.
  - inversion H; constructor.
  - destruct (create_request d m) as [q d1] eqn:E1. destruct (create_requests d1 r) as [qs' d2] eqn:E2.
    inversion H; subst; clear H.
    destruct (create_request_fields _ _ _ _ E1) as (_&Hu&Hfu&Hft&Htu&Htt&Hci&_&Hmf&Hr&_&Ci&Lu&Lt&Pu&Pt&Tg&Rt).
    constructor; [repeat split; auto|].
    specialize (IH d1 qs' d' E2). rewrite Ci, Lu, Lt, Pu, Pt, Tg, Rt in IH. exact IH.
Qed.

(* the ACK for a 2xx re-uses the INVITE's number and otherwise is an in-dialog request *)
Lemma ack_reuses_cseq d n q d' : create_ack d n = (q, d') ->
  o_cseq q = n /\ o_method q = ack_method /\ o_call_id q = d_call_id d /\ o_uri q = d_target d /\
  o_route q = d_route d /\ o_from_tag q = d_local_tag d /\ o_to_tag q = d_peer_tag d.
Proof. unfold create_ack, create_request. intros H; inversion H; subst; cbn. repeat split. Qed.

(* responses of the dialog to the request creating it *)
Lemma response_tags d rq code :
  creates_dialog (q_method rq) = true -> q_to_tag rq = None ->
  (100 < code -> r_to_tag (create_response d rq code) = Some (d_local_tag d)) /\
  (code <= 100 -> r_to_tag (create_response d rq code) = None) /\
  (101 <= code <= 299 -> r_contact (create_response d rq code) = Some (d_local_contact d)) /\
  r_record_route (create_response d rq code) = q_record_route rq.
Proof.
  intros Hc Ht. unfold create_response. rewrite Hc, Ht. cbn. repeat split.
  - intros H. destruct (N.ltb_spec 100 code); [reflexivity|lia].
  - intros H. destruct (N.ltb_spec 100 code); [lia|reflexivity].
  - intros [H1 H2]. destruct (N.leb_spec 101 code); [|lia]. destruct (N.leb_spec code 399); [reflexivity|lia].
Qed.

(* a forked INVITE: the builder is not changed by creating a dialog, every answer gets a dialog with its own peer tag *)
Lemma fork_own_tag b rp d : from_response b rp = Some d ->
  d_peer_tag d = p_to_tag rp /\ d_call_id d = b_call_id b /\ d_local_tag d = b_local_tag b.
Proof.
  unfold from_response. destruct (p_to_tag rp) as [t|]; [|discriminate]. destruct (p_contact rp) as [c|]; [|discriminate].
  intros H. injection H as <-. auto.
Qed.

Lemma forks_distinct b rp1 rp2 d1 d2 :
  from_response b rp1 = Some d1 -> from_response b rp2 = Some d2 -> p_to_tag rp1 <> p_to_tag rp2 ->
  (d_call_id d1, d_peer_tag d1, d_local_tag d1) <> (d_call_id d2, d_peer_tag d2, d_local_tag d2).
Proof.
  intros H1 H2 N. destruct (fork_own_tag _ _ _ H1) as (T1 & _ & _). destruct (fork_own_tag _ _ _ H2) as (T2 & _ & _).
  intros E. injection E as _ E _. congruence.
Qed.
