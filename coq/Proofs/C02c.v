(* Proofs/C02c.v -- the second pass of the stream decoder never slices outside the frame, for EVERY byte stream in
   every segmentation: the saved (offset, Content-Length) stays a sound summary of the buffer along any run, so the
   head end the first pass computed is the one the second pass finds, or the second pass rejects the frame *)
From Coq Require Import List Arith NArith Lia Bool.
From Coq.Strings Require Import Byte.
From EZK Require Import Lib.Bytes Lib.Num Lib.Utf8 Model.C03 Proofs.C03 Proofs.C03b Model.C02 Proofs.C02 Proofs.C02b.
Import ListNotations.
Close Scope N_scope.
Open Scope nat_scope.

(* the second pass over a longer buffer stops where it stopped over the shorter one *)
Lemma second_head_ext F : forall b q p e F', second_head F b q = Some p -> F <= F' -> second_head F' (b ++ e) q = Some p.
Proof.
  induction F as [|F IH]; intros b q p e F' H HF; [discriminate|]. destruct F' as [|F']; [lia|]. cbn [second_head] in *.
  destruct (pull_next b q) as [lo hi next| | |] eqn:Ep; try discriminate.
  - rewrite (pull_next_ext b q e _ Ep) by discriminate. apply IH; [exact H| lia].
  - rewrite (pull_next_ext b q e _ Ep) by discriminate. exact H.
Qed.

Lemma second_head_eoh F : forall b q p, second_head F b q = Some p -> pull_next b p = EndOfHead.
Proof.
  induction F as [|F IH]; intros b q p H; [discriminate|]. cbn [second_head] in H.
  destruct (pull_next b q) as [lo hi next| | |] eqn:Ep; try discriminate; [eapply IH; eauto| now injection H as <-].
Qed.

(* a frame cut at head end + Content-Length of a buffer whose scan from the start is complete *)
Lemma second_pass_of_frame src p cl :
  scanc src 0 0 = SComplete p cl -> head_end src p + N.to_nat cl <= length src ->
  second_pass true (firstn (head_end src p + N.to_nat cl) src) cl <> SpPanic.
Proof.
  intros Hs Hlen. set (he := head_end src p) in *. set (frame := firstn (he + N.to_nat cl) src).
  assert (Esrc : src = frame ++ skipn (he + N.to_nat cl) src) by (symmetry; apply firstn_skipn).
  assert (Hfl : length frame = he + N.to_nat cl) by (apply firstn_length_le; exact Hlen).
  unfold second_pass. destruct (second_head (S (length frame)) frame 0) as [p2|] eqn:E2; [|discriminate].
  assert (Hp : second_head (S (length src)) src 0 = Some p) by (unfold scanc in Hs; eapply second_head_of_scan; eauto).
  assert (Hp2 : second_head (S (length src)) src 0 = Some p2).
  { rewrite Esrc at 2. apply (second_head_ext _ _ _ _ _ _ E2). rewrite Esrc at 1. rewrite app_length. lia. }
  assert (p2 = p) by congruence. subst p2.
  pose proof (second_head_eoh _ _ _ _ E2) as Heoh.
  destruct (head_end_eoh frame p (skipn (he + N.to_nat cl) src) Heoh) as [Hhe _]. rewrite <- Esrc in Hhe. fold he in Hhe.
  rewrite <- Hhe. unfold slice.
  assert (Hb : ((N.of_nat he <=? N.of_nat he + cl) && (N.of_nat he + cl <=? N.of_nat (length frame)))%N = true).
  { apply andb_true_intro. split; apply N.leb_le; lia. }
  rewrite Hb. discriminate.
Qed.

(* ---------- the invariant of a decoder run, for arbitrary input ---------- *)
Definition starts_text (b : bytes) : Prop := match b with c :: _ => is_nl c = false | [] => False end.

Definition ginv (st : dstate) (b : bytes) : Prop :=
  sound st b /\ ((head_progress st = 0 /\ content_len st = 0%N) \/ starts_text b).

Lemma ginv_init : ginv (mkds 0 0) [].
Proof. split; [apply sound_init| left; auto]. Qed.

Lemma ginv_ext st b c : ginv st b -> ginv st (b ++ c).
Proof.
  intros [Hs Hd]. split; [now apply sound_ext|]. destruct Hd as [Hd|Hd]; [now left|]. right. destruct b; [destruct Hd| exact Hd].
Qed.

Section Stream.
  Variable start_ok : bytes -> bool.

  Lemma decode_ginv st src0 st' src' r :
    ginv st src0 -> decode start_ok st src0 = (st', src', r) ->
    match r with
    | DNone => ginv st' src'
    | DFrame f _ cl => ginv st' src' /\ second_pass true f cl <> SpPanic
    | _ => True
    end.
  Proof.
    intros [[Hhp Hsnd] Hd] H. unfold decode in H.
    set (src := if Nat.eqb (head_progress st) 0 then drop_crlf src0 else src0) in *.
    (* the buffer the scan runs over: sound for the saved state, and it starts with text unless it is empty *)
    assert (Hsrc_sound : head_progress st <= length src /\ forall e, scanc (src ++ e) (head_progress st) (content_len st) = scanc (src ++ e) 0 0).
    { subst src. destruct (Nat.eqb_spec (head_progress st) 0) as [Hz|Hnz]; [|split; assumption].
      destruct Hd as [[_ Hc]|Ht].
      - rewrite Hz, Hc. split; [apply Nat.le_0_l| reflexivity].
      - destruct src0 as [|c r0]; [destruct Ht|]. rewrite (drop_crlf_nonnl c r0 Ht). split; assumption. }
    assert (Hsrc_text : src <> [] -> starts_text src).
    { subst src. destruct (Nat.eqb_spec (head_progress st) 0) as [Hz|Hnz].
      - intros Hne. destruct (drop_crlf src0) as [|c r0] eqn:Edr; [congruence|]. cbn. eapply drop_crlf_head; eauto.
      - intros _. destruct Hd as [[Hz _]|Ht]; [contradiction| exact Ht]. }
    destruct Hsrc_sound as [Hhp' Hsnd'].
    destruct src as [|c0 r0] eqn:Esrc.
    { injection H as <- <- <-. cbn [length] in Hhp'. split.
      - split; [cbn; lia|]. intros e. cbn [app]. specialize (Hsnd' e). cbn [app] in Hsnd'.
        assert (Hz0 : head_progress st = 0) by lia. rewrite Hz0 in Hsnd'. rewrite Hz0. exact Hsnd'.
      - left. assert (Hz : head_progress st = 0) by lia. split; [exact Hz|].
        destruct Hd as [[_ Hc]|Ht]; [exact Hc|]. exfalso. subst src. rewrite Hz in Esrc. cbn [Nat.eqb] in Esrc.
        destruct src0 as [|c r1]; [destruct Ht|]. rewrite (drop_crlf_nonnl c r1 Ht) in Esrc. discriminate. }
    rewrite <- Esrc in *.
    assert (Htext : starts_text src) by (apply Hsrc_text; rewrite Esrc; discriminate).
    fold (scanc src (head_progress st) (content_len st)) in H.
    pose proof (Hsnd' []) as Hs0. rewrite app_nil_r in Hs0.
    destruct (scanc src (head_progress st) (content_len st)) as [p cl|p cl|e|] eqn:Es.
    - (* incomplete: the saved state summarises the buffer on every extension *)
      assert (Hg : ginv (mkds p cl) src).
      { split; [|now right]. split.
        - cbn [head_progress]. unfold scanc in Es. eapply scan_incomplete_bound; eauto.
        - intros e. cbn [head_progress content_len]. rewrite <- Hsnd'. symmetry. apply scanc_resume; assumption. }
      destruct (max_head <? N.of_nat (length src))%N; injection H as <- <- <-; [exact I| exact Hg].
    - (* complete head *)
      destruct (max_head <? N.of_nat (head_end src p))%N; [injection H as <- <- <-; exact I|].
      destruct (Nat.ltb_spec (length src) (head_end src p + N.to_nat cl)) as [Hlt|Hge].
      + injection H as <- <- <-. split; [|now right]. split; [exact Hhp'|].
        intros e. cbn [head_progress content_len].
        assert (Hst : scanc (src ++ e) (head_progress st) (content_len st) = SComplete p cl) by (apply scanc_stable; [exact Hhp'| exact Es| left; eauto]).
        rewrite <- Hsnd', Hst. unfold scanc in Hst |- *.
        destruct (scan_cl_irrelevant _ _ _ _ cl _ _ Hst) as [H1|H1]; exact H1.
      + assert (Hfr : second_pass true (firstn (head_end src p + N.to_nat cl) src) cl <> SpPanic).
        { apply second_pass_of_frame; [rewrite <- Hs0; reflexivity| exact Hge]. }
        destruct (_ && _); injection H as <- <- <-; [|exact I].
        split; [|exact Hfr]. split; [apply sound_init| left; auto].
    - injection H as <- <- <-. exact I.
    - exfalso. revert Es. apply scanc_no_panic. exact Hhp'.
  Qed.

  Definition frames_ok (is : list item) : Prop :=
    forall f h c, In (IFrame f h c) is -> second_pass true f c <> SpPanic.

  Lemma frames_ok_app a b : frames_ok a -> frames_ok b -> frames_ok (a ++ b).
  Proof. intros Ha Hb f h c Hin. apply in_app_or in Hin as [Hin|Hin]; eauto. Qed.

  Lemma drain_ginv fuel : forall st buf is k,
    ginv st buf -> drain start_ok fuel st buf = (is, k) ->
    frames_ok is /\ match k with Some (st', buf') => ginv st' buf' | None => True end.
  Proof.
    induction fuel as [|fuel IH]; intros st buf is k Hg H; cbn [drain] in H.
    - injection H as <- <-. split; [|exact I]. intros f h c [Hx|[]]. discriminate.
    - destruct (decode start_ok st buf) as [[st' buf'] r] eqn:Ed.
      pose proof (decode_ginv _ _ _ _ _ Hg Ed) as Hr.
      destruct r as [|f0 h0 c0|e|].
      + injection H as <- <-. split; [intros f h c []| exact Hr].
      + destruct (drain start_ok fuel st' buf') as [is' k'] eqn:Edr. injection H as <- <-.
        destruct Hr as [Hg' Hf0]. destruct (IH _ _ _ _ Hg' Edr) as [Hok Hk]. split; [|exact Hk].
        intros f h c [Hx|Hx]; [injection Hx as <- _ <-; exact Hf0| eapply Hok; eauto].
      + injection H as <- <-. split; [|exact I]. intros f h c [Hx|[]]. discriminate.
      + injection H as <- <-. split; [|exact I]. intros f h c [Hx|[]]. discriminate.
  Qed.

  Lemma run_chunks_ginv chunks : forall st buf, ginv st buf -> frames_ok (run_chunks start_ok st buf chunks).
  Proof.
    induction chunks as [|c rest IH]; intros st buf Hg; cbn [run_chunks].
    - destruct (drain start_ok (S (length buf)) st buf) as [is k] eqn:Ed.
      destruct (drain_ginv _ _ _ _ _ Hg Ed) as [Hok _].
      destruct k as [[st' [|x t]]|]; try exact Hok.
      apply frames_ok_app; [exact Hok|]. intros f h c0 [Hx|[]]. discriminate.
    - destruct c as [|x t]; [now apply IH|].
      pose proof (ginv_ext st buf (x :: t) Hg) as Hg'.
      destruct (drain start_ok (S (length (buf ++ x :: t))) st (buf ++ x :: t)) as [is k] eqn:Ed.
      destruct (drain_ginv _ _ _ _ _ Hg' Ed) as [Hok Hk].
      destruct k as [[st' buf']|]; [|exact Hok].
      apply frames_ok_app; [exact Hok| now apply IH].
  Qed.

  (* for every byte stream in every segmentation: no frame the decoder emits makes its second pass slice outside the frame *)
  Theorem run_framed_second_pass chunks : frames_ok (run_framed start_ok chunks).
  Proof. apply run_chunks_ginv. apply ginv_init. Qed.
End Stream.
