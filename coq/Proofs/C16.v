(* Proofs/C16.v -- the accounting invariants of Model/C16.v *)
From Coq Require Import List Arith NArith Lia Bool.
From EZK Require Import Model.C16.
Import ListNotations.
Open Scope N_scope.

Definition handles (t : table) : list N :=
  flat_map (fun e => match e_owner e with Held h => [h] | Timed _ => [] end) t.

(* one entry per key, one entry per live object, no task entry past its deadline *)
Definition inv (w : world) : Prop :=
  NoDup (map e_key (tbl w)) /\ NoDup (handles (tbl w)) /\
  (forall e u, In e (tbl w) -> e_owner e = Timed u -> now w < u).

Lemma has_key_spec k t : has_key k t = true <-> In k (map e_key t).
Proof.
  unfold has_key. rewrite existsb_exists, in_map_iff. split.
  - intros (e & He & Hk). apply N.eqb_eq in Hk. eauto.
  - intros (e & Hk & He). exists e. split; [exact He|]. now apply N.eqb_eq.
Qed.

Lemma held_spec h t : existsb (held_by h) t = true <-> In h (handles t).
Proof.
  unfold handles. rewrite existsb_exists, in_flat_map. split.
  - intros (e & He & Hh). exists e. split; [exact He|]. unfold held_by in Hh.
    destruct (e_owner e); [|discriminate]. apply N.eqb_eq in Hh. subst. now left.
  - intros (e & He & Hh). exists e. split; [exact He|]. unfold held_by.
    destruct (e_owner e); [|destruct Hh]. destruct Hh as [<-|[]]. apply N.eqb_refl.
Qed.

Lemma filter_keys_NoDup (f : entry -> bool) t : NoDup (map e_key t) -> NoDup (map e_key (filter f t)).
Proof.
  induction t as [|e r IH]; cbn [filter map]; intros H; [constructor|].
  inversion H as [|? ? Hni Hnd]; subst. destruct (f e); cbn [map]; [|auto].
  constructor; [|auto]. intros Hin. apply Hni. apply in_map_iff in Hin. destruct Hin as (x & Hx & Hf).
  apply filter_In in Hf. apply in_map_iff. exists x. tauto.
Qed.

Lemma handles_filter_incl (f : entry -> bool) t x : In x (handles (filter f t)) -> In x (handles t).
Proof.
  unfold handles. rewrite !in_flat_map. intros (e & He & Hx). apply filter_In in He. exists e. tauto.
Qed.

Lemma filter_handles_NoDup (f : entry -> bool) t : NoDup (handles t) -> NoDup (handles (filter f t)).
Proof.
  induction t as [|e r IH]; cbn [filter]; intros H; [constructor|].
  unfold handles in *. cbn [flat_map] in H.
  destruct (f e).
  - cbn [flat_map]. destruct (e_owner e) as [h|u]; cbn [app] in *; [|auto].
    inversion H as [|? ? Hni Hnd]; subst. constructor; [|auto].
    intros Hin. apply Hni. now apply (handles_filter_incl f r h).
  - apply IH. destruct (e_owner e); cbn [app] in H; [now inversion H|exact H].
Qed.

Definition retime (h u : N) (e : entry) : entry := if held_by h e then mke (e_key e) (Timed u) else e.

Lemma retime_key h u e : e_key (retime h u e) = e_key e.
Proof. unfold retime. now destruct (held_by h e). Qed.

Lemma handles_retime h u t x : In x (handles (map (retime h u) t)) -> In x (handles t) /\ x <> h.
Proof.
  unfold handles. rewrite !in_flat_map. intros (e' & He' & Hx). apply in_map_iff in He'. destruct He' as (e & <- & He).
  unfold retime in Hx. destruct (held_by h e) eqn:Eh; cbn [e_owner] in Hx; [destruct Hx|].
  destruct (e_owner e) as [h'|] eqn:Eo; [|destruct Hx]. destruct Hx as [<-|[]].
  split; [exists e; rewrite Eo; split; [exact He|now left]|].
  intros ->. unfold held_by in Eh. rewrite Eo, N.eqb_refl in Eh. discriminate.
Qed.

Lemma retime_handles_NoDup h u t : NoDup (handles t) -> NoDup (handles (map (retime h u) t)).
Proof.
  induction t as [|e r IH]; cbn [map]; intros H; [constructor|].
  unfold handles in *. cbn [flat_map] in *.
  unfold retime at 1. destruct (held_by h e) eqn:Eh; cbn [e_owner].
  - cbn [app]. apply IH. destruct (e_owner e); cbn [app] in H; [now inversion H|exact H].
  - destruct (e_owner e) as [h'|] eqn:Eo; cbn [app] in *; [|auto].
    inversion H as [|? ? Hni Hnd]; subst. constructor; [|auto].
    intros Hin. apply Hni. now apply (handles_retime h u r h').
Qed.

(* every operation preserves the invariant *)
Lemma step_inv w o : inv w -> inv (step w o).
Proof.
  intros (Hk & Hh & Ht). destruct o as [k h|h u|h|t|k|k]; cbn [step].
  - destruct (has_key k (tbl w) || existsb (held_by h) (tbl w)) eqn:E; [now repeat split|].
    apply orb_false_iff in E. destruct E as [E1 E2].
    repeat split; cbn [tbl now map].
    + constructor; [|exact Hk]. intros Hin. cbn [e_key] in Hin. apply (proj2 (has_key_spec _ _)) in Hin. congruence.
    + unfold handles. cbn [flat_map e_owner app]. constructor; [|exact Hh].
      intros Hin. apply (proj2 (held_spec _ _)) in Hin. congruence.
    + intros e u [<-|Hin] Ho; [discriminate|]. eauto.
  - repeat split; cbn [tbl now].
    + apply filter_keys_NoDup. rewrite map_map. erewrite map_ext; [exact Hk|]. intros e. apply (retime_key h u).
    + apply filter_handles_NoDup. now apply (retime_handles_NoDup h u).
    + intros e u' Hin Ho. apply filter_In in Hin. destruct Hin as [_ Ha]. unfold alive in Ha. rewrite Ho in Ha.
      now apply N.ltb_lt in Ha.
  - repeat split; cbn [tbl now].
    + now apply filter_keys_NoDup.
    + now apply filter_handles_NoDup.
    + intros e u Hin Ho. apply filter_In in Hin. destruct Hin as [Hin _]. eauto.
  - repeat split; cbn [tbl now].
    + now apply filter_keys_NoDup.
    + now apply filter_handles_NoDup.
    + intros e u Hin Ho. apply filter_In in Hin. destruct Hin as [_ Ha]. unfold alive in Ha. rewrite Ho in Ha.
      now apply N.ltb_lt in Ha.
  - now repeat split.
  - repeat split; cbn [tbl now].
    + now apply filter_keys_NoDup.
    + now apply filter_handles_NoDup.
    + intros e u Hin Ho. apply filter_In in Hin. destruct Hin as [Hin _]. eauto.
Qed.

Lemma run_inv_gen ops : forall w, inv w -> inv (fold_left step ops w).
Proof. induction ops as [|o r IH]; intros w H; cbn [fold_left]; [exact H|]. apply IH. now apply step_inv. Qed.

Lemma run_inv ops : inv (run ops).
Proof. apply run_inv_gen. repeat split; cbn; try constructor. intros e u []. Qed.

(* accounting: the table is the disjoint union of object-held and task-held entries *)
Lemma accounting t : length t = (held_count t + timed_count t)%nat.
Proof.
  unfold held_count, timed_count. induction t as [|e r IH]; [reflexivity|]. cbn [filter length].
  destruct (e_owner e); cbn [length]; lia.
Qed.

Lemma held_count_handles t : held_count t = length (handles t).
Proof.
  unfold held_count, handles. induction t as [|e r IH]; [reflexivity|]. cbn [filter flat_map].
  destruct (e_owner e); cbn [length app]; lia.
Qed.

Lemma filter_length_le {A} (f : A -> bool) l : (length (filter f l) <= length l)%nat.
Proof. induction l as [|a r IH]; cbn [filter length]; [lia|]. destruct (f a); cbn [length]; lia. Qed.

(* floods: a message that matches nothing, or matches an existing entry, leaves the table as it is *)
Lemma noise_no_growth w k : step w (Noise k) = w.
Proof. reflexivity. Qed.

Lemma create_existing_no_growth w k h : has_key k (tbl w) = true -> step w (Create k h) = w.
Proof. intros H. cbn [step]. now rewrite H. Qed.

Lemma step_growth w o : (length (tbl (step w o)) <= S (length (tbl w)))%nat.
Proof.
  destruct o as [k h|h u|h|t|k|k]; cbn [step].
  - destruct (_ || _); cbn [tbl length]; lia.
  - cbn [tbl]. eapply Nat.le_trans; [apply filter_length_le|]. rewrite map_length. lia.
  - cbn [tbl]. eapply Nat.le_trans; [apply filter_length_le|]. lia.
  - cbn [tbl]. eapply Nat.le_trans; [apply filter_length_le|]. lia.
  - lia.
  - cbn [tbl]. eapply Nat.le_trans; [apply filter_length_le|]. lia.
Qed.

Lemma only_create_grows w o : (length (tbl w) < length (tbl (step w o)))%nat -> exists k h, o = Create k h /\ has_key k (tbl w) = false.
Proof.
  destruct o as [k h|h u|h|t|k|k]; cbn [step].
  - destruct (has_key k (tbl w)) eqn:E; cbn [orb]; [lia|]. intros _. eauto.
  - cbn [tbl]. pose proof (filter_length_le (alive (now w)) (map (fun e => if held_by h e then mke (e_key e) (Timed u) else e) (tbl w))) as H.
    rewrite map_length in H. lia.
  - cbn [tbl]. pose proof (filter_length_le (fun e => negb (held_by h e)) (tbl w)). lia.
  - cbn [tbl]. pose proof (filter_length_le (alive (N.max t (now w))) (tbl w)). lia.
  - lia.
  - cbn [tbl]. match goal with |- context [filter ?f (tbl w)] => pose proof (filter_length_le f (tbl w)) end. lia.
Qed.

(* dropping an object removes its entry at once *)
Lemma drop_removes w h : ~ In h (handles (tbl (step w (Drop h)))).
Proof.
  cbn [step tbl]. unfold handles. rewrite in_flat_map. intros (e & He & Hh). apply filter_In in He.
  destruct He as [_ Hn]. unfold held_by in Hn. destruct (e_owner e); [|destruct Hh].
  destruct Hh as [<-|[]]. rewrite N.eqb_refl in Hn. discriminate.
Qed.

Lemma filter_all_false {A} (f : A -> bool) l : (forall x, In x l -> f x = false) -> filter f l = [].
Proof.
  induction l as [|a r IH]; intros H; [reflexivity|]. cbn [filter]. rewrite (H a (or_introl eq_refl)).
  apply IH. intros x Hx. apply H. now right.
Qed.

(* quiescence: no object left and the clock past every deadline => the table is empty *)
Lemma quiescent_empty w t :
  handles (tbl w) = [] -> (forall e u, In e (tbl w) -> e_owner e = Timed u -> u <= t) ->
  tbl (step w (Advance t)) = [].
Proof.
  intros Hh Hd. cbn [step tbl]. apply filter_all_false.
  intros e He. unfold alive. destruct (e_owner e) as [h|u] eqn:Eo.
  - exfalso. assert (Hin : In h (handles (tbl w))) by (unfold handles; apply in_flat_map; exists e; rewrite Eo; split; [exact He|now left]).
    rewrite Hh in Hin. destruct Hin.
  - apply N.ltb_ge. specialize (Hd e u He Eo). lia.
Qed.

(* bound at any time: entries <= live objects + tasks still inside their timers *)
Lemma size_bound ops :
  let w := run ops in
  length (tbl w) = (length (handles (tbl w)) + timed_count (tbl w))%nat /\
  (forall e u, In e (tbl w) -> e_owner e = Timed u -> now w < u).
Proof.
  intros w. split.
  - rewrite accounting. now rewrite held_count_handles.
  - apply (run_inv ops).
Qed.
