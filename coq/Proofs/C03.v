(* Proofs/C03.v -- lemmas about the line splitter and the decoder scan of Model/C03.v *)
From Coq Require Import List Arith NArith Lia Bool.
From Coq.Strings Require Import Byte.
From EZK Require Import Lib.Bytes Lib.Num Lib.Utf8 Model.C03.
Import ListNotations.
Close Scope N_scope.
Open Scope nat_scope.

(* ---------- find_nl ---------- *)
Lemma find_nl_bound s off : find_nl s = Some off -> off < length s.
Proof.
  revert off; induction s as [|c r IH]; simpl; intros off H; [discriminate|].
  destruct (is_nl c); [injection H as <-; lia|].
  destruct (find_nl r) eqn:E; simpl in H; [|discriminate]. injection H as <-. specialize (IH _ eq_refl). lia.
Qed.

Lemma find_nl_app s e off : find_nl s = Some off -> find_nl (s ++ e) = Some off.
Proof.
  revert off; induction s as [|c r IH]; simpl; intros off H; [discriminate|].
  destruct (is_nl c); [exact H|].
  destruct (find_nl r) eqn:E; simpl in H; [|discriminate]. injection H as <-. now rewrite (IH _ eq_refl).
Qed.

(* ---------- classify looks at most 4 bytes ahead; a decision is stable under extension ---------- *)
Lemma classify_app l e : classify l <> Undecided -> classify (l ++ e) = classify l.
Proof.
  destruct l as [|a [|b t]]; simpl; try congruence.
  destruct (Byte.eqb a LF); [reflexivity|].
  destruct (Byte.eqb b LF); [|congruence].
  destruct t as [|c [|d t']]; simpl; try congruence;
    try (destruct (is_lws c); [reflexivity|congruence]); reflexivity.
Qed.

Lemma skipn_app_le {A} (l e : list A) k : k <= length l -> skipn k (l ++ e) = skipn k l ++ e.
Proof.
  revert l; induction k as [|k IH]; intros l H; [reflexivity|].
  destruct l as [|x l]; simpl in *; [lia|]. apply IH. lia.
Qed.

(* ---------- the splitter never indexes out of bounds and never runs out of fuel ---------- *)
Lemma pull_loop_no_panic fuel input lb skip :
  lb + skip <= length input -> length input - (lb + skip) < fuel -> pull_loop fuel input lb skip <> PPanic.
Proof.
  revert skip; induction fuel as [|fuel IH]; intros skip Hle Hf; [lia|]. cbn [pull_loop].
  destruct (Nat.ltb_spec (length input) (lb + skip)); [lia|].
  destruct (find_nl (skipn (lb + skip) input)) eqn:E; [|discriminate].
  apply find_nl_bound in E. rewrite skipn_length in E.
  destruct (classify _) as [|w dbl|].
  - apply IH; lia.
  - destruct (Nat.eqb _ _); discriminate.
  - discriminate.
Qed.

Lemma pull_next_no_panic input p : p <= length input -> pull_next input p <> PPanic.
Proof. intros H. apply pull_loop_no_panic; lia. Qed.

(* a line or the end of the head found in a buffer is found identically in every extension of it,
   with any larger fuel *)
Lemma pull_loop_ext fuel : forall input lb skip e fuel' r,
  pull_loop fuel input lb skip = r -> (r <> Incomplete /\ r <> PPanic) -> fuel <= fuel' ->
  pull_loop fuel' (input ++ e) lb skip = r.
Proof.
  induction fuel as [|fuel IH]; intros input lb skip e fuel' r H [Hi Hp] Hf.
  - cbn in H. congruence.
  - destruct fuel' as [|fuel']; [lia|]. cbn [pull_loop] in *.
    destruct (Nat.ltb_spec (length input) (lb + skip)) as [Hlt|Hge]; [congruence|].
    destruct (Nat.ltb_spec (length (input ++ e)) (lb + skip)) as [Hlt2|_]; [rewrite app_length in Hlt2; lia|].
    rewrite skipn_app_le by lia.
    destruct (find_nl (skipn (lb + skip) input)) as [off|] eqn:E; [|congruence].
    rewrite (find_nl_app _ e _ E).
    pose proof (find_nl_bound _ _ E) as Hb. rewrite skipn_length in Hb.
    rewrite skipn_app_le by lia.
    destruct (classify (skipn (off + lb + skip) input)) as [|w dbl|] eqn:Ec.
    + rewrite classify_app by congruence. rewrite Ec. apply IH; auto. lia.
    + rewrite classify_app by congruence. rewrite Ec. exact H.
    + congruence.
Qed.

Lemma pull_next_ext input p e r :
  pull_next input p = r -> r <> Incomplete -> r <> PPanic -> pull_next (input ++ e) p = r.
Proof.
  intros H Hi Hp. unfold pull_next in *. eapply pull_loop_ext; eauto.
  rewrite app_length. lia.
Qed.

(* lines advance: the next progress is beyond the line's start and inside the buffer *)
Lemma pull_loop_line_bounds fuel : forall input lb skip lo hi next,
  pull_loop fuel input lb skip = Line lo hi next -> lo = lb /\ lb < hi /\ hi <= next /\ next <= length input.
Proof.
  induction fuel as [|fuel IH]; intros input lb skip lo hi next H; cbn [pull_loop] in H; [discriminate|].
  destruct (Nat.ltb_spec (length input) (lb + skip)); [discriminate|].
  destruct (find_nl (skipn (lb + skip) input)) as [off|] eqn:E; [|discriminate].
  pose proof (find_nl_bound _ _ E) as Hb. rewrite skipn_length in Hb.
  destruct (classify (skipn (off + lb + skip) input)) as [|w dbl|] eqn:Ec.
  - destruct (IH _ _ _ _ _ _ H) as (? & ? & ? & ?). auto.
  - destruct (Nat.eqb_spec (off + lb + skip) lb); [discriminate|]. injection H as E1 E2 E3. subst lo hi next.
    assert (Hw : w <= length (skipn (off + lb + skip) input)).
    { unfold classify in Ec. destruct (skipn (off + lb + skip) input) as [|a [|b t]]; try discriminate.
      destruct (Byte.eqb a LF).
      - destruct (is_lws b); inversion Ec; subst; simpl; lia.
      - destruct (Byte.eqb b LF); [|discriminate]. destruct t as [|c [|d t']]; try discriminate.
        + destruct (is_lws c); discriminate.
        + destruct (is_lws c); inversion Ec; subst; simpl; lia. }
    rewrite skipn_length in Hw. repeat split; try lia; destruct dbl; lia.
  - discriminate.
Qed.

Lemma pull_next_line_bounds input p lo hi next :
  pull_next input p = Line lo hi next -> lo = p /\ p < hi /\ hi <= next /\ next <= length input.
Proof. apply pull_loop_line_bounds. Qed.

(* ---------- the scan over the head lines ---------- *)
Lemma sub_app s e lo hi : hi <= length s -> sub (s ++ e) lo hi = sub s lo hi.
Proof.
  intros H. unfold sub. destruct (Nat.le_gt_cases lo (length s)) as [Hl|Hl].
  - rewrite skipn_app_le by lia. rewrite firstn_app. rewrite skipn_length.
    replace (hi - lo - (length s - lo)) with 0 by lia. simpl. now rewrite app_nil_r.
  - replace (hi - lo) with 0 by lia. reflexivity.
Qed.

(* scan never panics / runs out of fuel when it starts inside the buffer *)
Lemma scan_lines_no_panic fuel : forall src p cl,
  p <= length src -> length src - p < fuel -> scan_lines fuel src p cl <> SPanic.
Proof.
  induction fuel as [|fuel IH]; intros src p cl Hp Hf; [lia|]. cbn [scan_lines].
  destruct (pull_next src p) as [lo hi next| | |] eqn:E; try discriminate.
  - destruct (pull_next_line_bounds _ _ _ _ _ E) as (-> & H1 & H2 & H3).
    destruct (sniff_line _ cl); [|discriminate]. apply IH; lia.
  - exfalso. revert E. now apply pull_next_no_panic.
Qed.

(* fuel does not matter once it is enough *)
Lemma scan_lines_fuel fuel : forall fuel' src p cl,
  scan_lines fuel src p cl <> SPanic -> fuel <= fuel' -> scan_lines fuel' src p cl = scan_lines fuel src p cl.
Proof.
  induction fuel as [|fuel IH]; intros fuel' src p cl H Hf; [cbn in H; congruence|].
  destruct fuel' as [|fuel']; [lia|]. cbn [scan_lines] in *.
  destruct (pull_next src p) as [lo hi next| | |]; try reflexivity.
  destruct (sniff_line (sub src lo hi) cl); [|reflexivity]. apply IH; [exact H|lia].
Qed.

(* C03_resume: the saved (progress, content length) is a sound summary of the scanned prefix:
   scanning the extended buffer from the start passes through it *)
Lemma scan_lines_resume fuel : forall src p cl p' cl' e,
  scan_lines fuel src p cl = SIncomplete p' cl' ->
  scan_lines fuel (src ++ e) p cl = scan_lines fuel (src ++ e) p' cl' \/
  exists f2, f2 <= fuel /\ scan_lines fuel (src ++ e) p cl = scan_lines f2 (src ++ e) p' cl'.
Proof.
  induction fuel as [|fuel IH]; intros src p cl p' cl' e H; [cbn in H; discriminate|].
  cbn [scan_lines] in H.
  destruct (pull_next src p) as [lo hi next| | |] eqn:E; try discriminate.
  - destruct (pull_next_line_bounds _ _ _ _ _ E) as (-> & H1 & H2 & H3).
    destruct (sniff_line (sub src p hi) cl) as [cl1|] eqn:Es; [|discriminate].
    right. destruct (IH _ _ _ _ _ e H) as [Heq|(f2 & Hf2 & Heq)].
    + exists fuel. split; [lia|]. cbn [scan_lines].
      rewrite (pull_next_ext _ _ e _ E) by discriminate. rewrite sub_app by lia. rewrite Es. exact Heq.
    + exists f2. split; [lia|]. cbn [scan_lines].
      rewrite (pull_next_ext _ _ e _ E) by discriminate. rewrite sub_app by lia. rewrite Es. exact Heq.
  - inversion H; subst. left. reflexivity.
Qed.

(* a completed head, or an error found in it, is stable under extension *)
Lemma scan_lines_complete_ext fuel : forall src p cl e r,
  scan_lines fuel src p cl = r -> (exists q c, r = SComplete q c) \/ (exists x, r = SErr x) ->
  scan_lines fuel (src ++ e) p cl = r.
Proof.
  induction fuel as [|fuel IH]; intros src p cl e r H Hr; [cbn in H; destruct Hr as [(q & c & ->)|(x & ->)]; discriminate|].
  cbn [scan_lines] in *.
  destruct (pull_next src p) as [lo hi next| | |] eqn:E.
  - destruct (pull_next_line_bounds _ _ _ _ _ E) as (-> & H1 & H2 & H3).
    rewrite (pull_next_ext _ _ e _ E) by discriminate. rewrite sub_app by lia.
    destruct (sniff_line (sub src p hi) cl); [|exact H]. now apply IH.
  - rewrite (pull_next_ext _ _ e _ E) by discriminate. exact H.
  - subst r. destruct Hr as [(q & c & Hx)|(x & Hx)]; discriminate.
  - subst r. destruct Hr as [(q & c & Hx)|(x & Hx)]; discriminate.
Qed.

(* the head end is decided by at most 4 bytes after the progress *)
Lemma head_end_bound src p : p <= head_end src p <= p + 4.
Proof.
  unfold head_end. destruct (skipn p src) as [|a [|b [|c [|d t]]]]; try lia;
    repeat match goal with |- context [if ?x then _ else _] => destruct x end; lia.
Qed.
