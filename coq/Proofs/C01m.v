(* Proofs/C01m.v -- lemmas for the whole-message round trip (Model/C01m.v) *)
From Coq Require Import List Arith NArith Bool Lia.
From Coq.Strings Require Import Byte.
From EZK Require Import Gen.Tables Lib.Bytes Lib.Num Lib.Utf8 Model.C03 Proofs.C03 Model.C01m.
Import ListNotations.
Close Scope N_scope.
Open Scope nat_scope.

Definition no_nl (s : bytes) : Prop := forallb (fun b => negb (is_nl b)) s = true.

Lemma find_nl_line line x : no_nl line -> find_nl (line ++ CR :: x) = Some (length line).
Proof.
  unfold no_nl. induction line as [|c l IH]; simpl; intros H; [reflexivity|].
  apply andb_prop in H as [Hc Hl]. destruct (is_nl c); [discriminate|]. now rewrite (IH Hl).
Qed.

Lemma skipn_pre_app {A} (pre r : list A) : skipn (length pre) (pre ++ r) = r.
Proof. induction pre; simpl; auto. Qed.

Lemma skipn_pre_app2 {A} (pre l r : list A) : skipn (length l + length pre) (pre ++ l ++ r) = r.
Proof. rewrite app_assoc, <- (app_length pre l) || idtac. replace (length l + length pre) with (length (pre ++ l)) by (rewrite app_length; lia). rewrite app_assoc. apply skipn_pre_app. Qed.

Lemma pull_line pre line c d rest :
  no_nl line -> line <> [] -> is_lws c = false ->
  pull_next (pre ++ line ++ CR :: LF :: c :: d :: rest) (length pre) =
  Line (length pre) (length line + length pre)
       (if Byte.eqb c CR && Byte.eqb d LF then length line + length pre else length line + length pre + 2).
Proof.
  intros Hnl Hne Hc. unfold pull_next. cbn [pull_loop].
  rewrite !app_length. cbn [length].
  destruct (Nat.ltb_spec (length pre + (length line + S (S (S (S (length rest)))))) (length pre + 0)) as [Hlt|_]; [lia|].
  rewrite Nat.add_0_r. rewrite skipn_pre_app. rewrite (find_nl_line _ _ Hnl).
  rewrite Nat.add_0_r. rewrite skipn_pre_app2.
  cbn [classify]. change (Byte.eqb CR LF) with false. change (Byte.eqb LF LF) with true. cbn iota.
  rewrite Hc.
  destruct (Nat.eqb_spec (length line + length pre) (length pre)) as [E|_].
  - destruct line; [congruence| simpl in E; lia].
  - destruct (Byte.eqb c CR && Byte.eqb d LF); reflexivity.
Qed.

(* at the blank line that ends the head *)
Lemma pull_end pre body : pull_next (pre ++ CR :: LF :: CR :: LF :: body) (length pre) = EndOfHead.
Proof.
  unfold pull_next. cbn [pull_loop]. rewrite !app_length. cbn [length].
  destruct (Nat.ltb_spec (length pre + S (S (S (S (length body))))) (length pre + 0)) as [Hlt|_]; [lia|].
  rewrite Nat.add_0_r, skipn_pre_app. cbn [find_nl]. change (is_nl CR) with true. cbn iota.
  rewrite !Nat.add_0_l, Nat.add_0_r, skipn_pre_app.
  cbn [classify]. change (Byte.eqb CR LF) with false. change (Byte.eqb LF LF) with true. change (is_lws CR) with false. cbn iota.
  now rewrite Nat.eqb_refl.
Qed.

Lemma head_end_blank pre body : head_end (pre ++ CR :: LF :: CR :: LF :: body) (length pre) = length pre + 4.
Proof. unfold head_end. rewrite skipn_pre_app. reflexivity. Qed.

Lemma token_not_ws : forall b, token_class b = true -> is_ascii_ws b = false.
Proof.
  assert (H : forall b, (negb (token_class b) || negb (is_ascii_ws b)) = true) by (apply byte_forallb; vm_compute; reflexivity).
  intros b Hb. specialize (H b). rewrite Hb in H. simpl in H. now apply negb_true_iff in H.
Qed.

Definition value_ok (v : bytes) : Prop := no_nl v /\ stops is_ascii_ws v.

Lemma parse_print_header_line name v :
  forallb token_class name = true -> stops is_ascii_ws v ->
  parse_header_line (name ++ colon_sp ++ v) = Some (name, v).
Proof.
  intros Hn Hv. unfold parse_header_line, colon_sp.
  assert (E1 : take_while is_ascii_ws (name ++ [":"%byte; SP] ++ v) = ([], name ++ [":"%byte; SP] ++ v)).
  { apply (take_while_app is_ascii_ws [] _ eq_refl).
    destruct name as [|c n]; simpl; [reflexivity|]. simpl in Hn. apply andb_prop in Hn as [Hc _]. now apply token_not_ws. }
  rewrite E1. cbn [snd].
  rewrite (take_while_app token_class name ([":"%byte; SP] ++ v) Hn) by reflexivity.
  change ([":"%byte; SP] ++ v) with (":"%byte :: SP :: v).
  assert (E2 : take_while is_ascii_ws (":"%byte :: SP :: v) = ([], ":"%byte :: SP :: v)) by reflexivity.
  rewrite E2. cbn [snd]. change (Byte.eqb ":" ":") with true. cbn iota.
  change (SP :: v) with ([SP] ++ v). rewrite (take_while_app is_ascii_ws [SP] v eq_refl Hv). reflexivity.
Qed.

Lemma sub_mid pre l r : sub (pre ++ l ++ r) (length pre) (length l + length pre) = l.
Proof.
  unfold sub. rewrite skipn_pre_app. replace (length l + length pre - length pre) with (length l) by lia.
  induction l; simpl; [reflexivity | now f_equal].
Qed.

Lemma token_facts : forall b, token_class b = true -> is_lws b = false /\ Byte.eqb b CR = false /\ is_nl b = false.
Proof.
  assert (H : forall b, (negb (token_class b) || (negb (is_lws b) && negb (Byte.eqb b CR) && negb (is_nl b))) = true)
    by (apply byte_forallb; vm_compute; reflexivity).
  intros b Hb. specialize (H b). rewrite Hb in H. simpl in H.
  apply andb_prop in H as [H H3]. apply andb_prop in H as [H1 H2].
  repeat split; now apply negb_true_iff.
Qed.

Definition raw_line (nv : bytes * bytes) : bytes := fst nv ++ colon_sp ++ snd nv.

Definition hline_ok (nv : bytes * bytes) : Prop :=
  forallb token_class (fst nv) = true /\ no_nl (snd nv) /\ stops is_ascii_ws (snd nv) /\ utf8_valid (raw_line nv) = true.

Fixpoint tail_text (hs : list (bytes * bytes)) (body : bytes) : bytes :=
  match hs with
  | [] => crlf ++ body
  | nv :: r => raw_line nv ++ crlf ++ tail_text r body
  end.

Lemma no_nl_app a b : no_nl a -> no_nl b -> no_nl (a ++ b).
Proof. unfold no_nl. intros Ha Hb. rewrite forallb_app, Ha, Hb. reflexivity. Qed.

Lemma raw_line_no_nl nv : hline_ok nv -> no_nl (raw_line nv).
Proof.
  intros (Hn & Hv & _ & _). unfold raw_line. apply no_nl_app; [|apply no_nl_app; [reflexivity|exact Hv]].
  unfold no_nl. apply forallb_forall. intros b Hb. rewrite forallb_forall in Hn.
  destruct (token_facts b (Hn b Hb)) as (_ & _ & H). now rewrite H.
Qed.

Lemma raw_line_shape nv x : hline_ok nv ->
  exists c d r, raw_line nv ++ x = c :: d :: r /\ is_lws c = false /\ Byte.eqb c CR = false.
Proof.
  intros (Hn & _). unfold raw_line, colon_sp. destruct nv as [[|a [|b n]] v]; cbn [fst snd app] in *.
  - exists ":"%byte, SP, (v ++ x). repeat split; reflexivity.
  - apply andb_prop in Hn as [Ha _]. destruct (token_facts a Ha) as (H1 & H2 & _).
    exists a, ":"%byte, (SP :: v ++ x). repeat split; assumption.
  - apply andb_prop in Hn as [Ha _]. destruct (token_facts a Ha) as (H1 & H2 & _).
    exists a, b, ((n ++ ":"%byte :: SP :: v) ++ x). repeat split; try assumption.
Qed.

Lemma raw_line_nonempty nv : raw_line nv <> [].
Proof. unfold raw_line, colon_sp. destruct (fst nv); discriminate. Qed.

Lemma collect_lines body : forall hs pre cur (first : bool) add acc F,
  no_nl cur -> cur <> [] -> utf8_valid cur = true ->
  (if first then add = [] else exists nv, parse_header_line cur = Some nv /\ add = [nv]) ->
  Forall hline_ok hs -> length hs + 2 <= F ->
  exists p, collect_headers F (pre ++ cur ++ crlf ++ tail_text hs body) (length pre) first acc = Some (p, acc ++ add ++ hs)
         /\ skipn p (pre ++ cur ++ crlf ++ tail_text hs body) = CR :: LF :: CR :: LF :: body
         /\ p <= length (pre ++ cur ++ crlf ++ tail_text hs body).
Proof.
  induction hs as [|nv hs IH]; intros pre cur first add acc F Hnl Hne Hu Hadd Hok HF.
  - cbn [tail_text crlf app]. destruct F as [|[|F]]; [simpl in HF; lia | simpl in HF; lia|].
    exists (length cur + length pre).
    assert (Hsk : skipn (length cur + length pre) (pre ++ cur ++ CR :: LF :: CR :: LF :: body) = CR :: LF :: CR :: LF :: body)
      by apply skipn_pre_app2.
    split; [|split; [exact Hsk| rewrite !app_length; simpl; lia]].
    cbn [collect_headers].
    rewrite (pull_line pre cur CR LF body Hnl Hne eq_refl).
    change (Byte.eqb CR CR && Byte.eqb LF LF) with true. cbn iota.
    rewrite sub_mid, Hu. cbn [negb].
    assert (Hend : pull_next (pre ++ cur ++ CR :: LF :: CR :: LF :: body) (length cur + length pre) = EndOfHead).
    { replace (length cur + length pre) with (length (pre ++ cur)) by (rewrite app_length; lia).
      rewrite app_assoc. apply pull_end. }
    destruct first.
    + subst add. rewrite Hend. rewrite !app_nil_r. reflexivity.
    + destruct Hadd as (nv & Hp & ->). rewrite Hp, Hend. rewrite app_nil_r. reflexivity.
  - inversion Hok as [|? ? Hnv Hok']; subst. cbn [tail_text length] in *.
    destruct F as [|F]; [lia|].
    destruct (raw_line_shape nv (CR :: LF :: tail_text hs body) Hnv) as (c & d & r & Eshape & Hc & HcCR).
    assert (Esrc : pre ++ cur ++ crlf ++ raw_line nv ++ crlf ++ tail_text hs body
                   = pre ++ cur ++ CR :: LF :: c :: d :: r) by (unfold crlf; cbn [app]; now rewrite Eshape).
    destruct (IH (pre ++ cur ++ crlf) (raw_line nv) false [nv] (acc ++ add) F (raw_line_no_nl _ Hnv) (raw_line_nonempty nv))
      as (p & Hcol & Hsk & Hle).
    { destruct Hnv as (_ & _ & _ & H); exact H. }
    { exists nv. split; [|reflexivity]. destruct nv as [n v]. destruct Hnv as (Hn & _ & Hv & _). now apply parse_print_header_line. }
    { exact Hok'. } { lia. }
    assert (Eassoc : (pre ++ cur ++ crlf) ++ raw_line nv ++ crlf ++ tail_text hs body
                     = pre ++ cur ++ crlf ++ raw_line nv ++ crlf ++ tail_text hs body) by now rewrite <- !app_assoc.
    rewrite Eassoc in Hcol, Hsk, Hle.
    exists p. split; [|split; assumption].
    cbn [collect_headers]. rewrite Esrc at 1. rewrite (pull_line pre cur c d r Hnl Hne Hc). rewrite HcCR. cbn [andb].
    rewrite sub_mid, Hu. cbn [negb].
    replace (length cur + length pre + 2) with (length (pre ++ cur ++ crlf)) by (rewrite !app_length; simpl; lia).
    destruct first.
    + subst add. rewrite app_nil_r in Hcol. rewrite Hcol. cbn [app]. reflexivity.
    + destruct Hadd as (nv0 & Hp & ->). rewrite Hp. rewrite Hcol. rewrite <- !app_assoc. reflexivity.
Qed.

(* ---------- names: equality is equality of a canonical key ---------- *)
Definition lower (s : bytes) : bytes := map to_lower s.

Lemma nocase_lower a : forall b, bytes_eqb_nocase a b = bytes_eqb (lower a) (lower b).
Proof. induction a as [|x a IH]; intros [|y b]; simpl; try reflexivity. unfold eqb_nocase. now rewrite IH. Qed.

Lemma nocase_iff a b : bytes_eqb_nocase a b = true <-> lower a = lower b.
Proof. rewrite nocase_lower. apply bytes_eqb_eq. Qed.

Lemma nocase_refl a : bytes_eqb_nocase a a = true.
Proof. now apply nocase_iff. Qed.

Lemma nocase_sym a b : bytes_eqb_nocase a b = bytes_eqb_nocase b a.
Proof.
  destruct (bytes_eqb_nocase a b) eqn:E1, (bytes_eqb_nocase b a) eqn:E2; try reflexivity.
  - apply nocase_iff in E1. symmetry in E1. apply nocase_iff in E1. congruence.
  - apply nocase_iff in E2. symmetry in E2. apply nocase_iff in E2. congruence.
Qed.

Inductive hkey := KKnown (i : nat) | KUnknown (l : bytes).
Definition key (n : hname) : hkey := match n with HKnown i => KKnown i | HUnknown b => KUnknown (lower b) end.

(* a name is well formed when it is what Name::from_bytes makes of its own print string: known names are
   table rows, unknown names are not spellings of a known one *)
Definition name_wf (n : hname) : Prop := hname_of (hname_print n) = n.

Definition n_names : nat := Eval vm_compute in length sip_header_names.

Lemma find_entry_bound s : forall l i j, find_entry s l i = Some j -> i <= j < i + length l.
Proof.
  induction l as [|e l IH]; simpl; intros i j H; [discriminate|].
  destruct (existsb _ (snd e)); [injection H as <-; lia|]. apply IH in H. lia.
Qed.

Lemma find_entry_none s : forall l i, find_entry s l i = None ->
  forall e, In e l -> existsb (fun p => bytes_eqb_nocase p s) (snd e) = false.
Proof.
  induction l as [|e l IH]; simpl; intros i H e0 Hin; [contradiction|].
  destruct (existsb _ (snd e)) eqn:E; [discriminate|]. destruct Hin as [<-|Hin]; [exact E| eapply IH; eauto].
Qed.

Lemma known_wf_bound i : name_wf (HKnown i) -> i < n_names.
Proof.
  unfold name_wf, hname_of. cbn [hname_print]. destruct (find_entry _ _ 0) eqn:E; [|discriminate].
  intros H. injection H as ->. apply find_entry_bound in E. exact (proj2 E).
Qed.

(* table facts, by evaluation over the generated table *)
Lemma table_known_known :
  forallb (fun i => forallb (fun j => Bool.eqb (hname_eqb (HKnown i) (HKnown j)) (Nat.eqb i j)) (seq 0 n_names)) (seq 0 n_names) = true.
Proof. vm_compute. reflexivity. Qed.

(* every print string is, ignoring case, one of its own parse strings *)
Lemma table_print_in_parse :
  forallb (fun e => existsb (fun p => bytes_eqb_nocase p (fst e)) (snd e)) sip_header_names = true.
Proof. vm_compute. reflexivity. Qed.

Lemma known_known i j : i < n_names -> j < n_names -> hname_eqb (HKnown i) (HKnown j) = Nat.eqb i j.
Proof.
  intros Hi Hj. pose proof table_known_known as T. rewrite forallb_forall in T.
  specialize (T i (proj2 (in_seq _ _ _) (conj (Nat.le_0_l _) Hi))). rewrite forallb_forall in T.
  specialize (T j (proj2 (in_seq _ _ _) (conj (Nat.le_0_l _) Hj))). now apply eqb_prop in T.
Qed.

Lemma existsb_false {A} (f : A -> bool) l : (forall x, In x l -> f x = false) -> existsb f l = false.
Proof. induction l; simpl; intros H; [reflexivity|]. rewrite (H a (or_introl eq_refl)). apply IHl. auto. Qed.

(* an unknown well-formed name equals no table row *)
Lemma unknown_vs_row b i : name_wf (HUnknown b) -> i < n_names ->
  bytes_eqb_nocase (fst (hn_entry i)) b = false /\ existsb (fun p => bytes_eqb_nocase p b) (snd (hn_entry i)) = false.
Proof.
  unfold name_wf, hname_of. cbn [hname_print]. destruct (find_entry b sip_header_names 0) eqn:E; [discriminate|]. intros _ Hi.
  assert (Hin : In (hn_entry i) sip_header_names) by (apply nth_In; exact Hi).
  pose proof (find_entry_none _ _ _ E _ Hin) as Hn. split; [|exact Hn].
  pose proof table_print_in_parse as T. rewrite forallb_forall in T. specialize (T _ Hin).
  apply existsb_exists in T as (p & Hp & Hpe).
  destruct (bytes_eqb_nocase (fst (hn_entry i)) b) eqn:Eb; [|reflexivity].
  (* p ~ print ~ b contradicts Hn *)
  assert (bytes_eqb_nocase p b = true).
  { apply nocase_iff. apply nocase_iff in Hpe, Eb. congruence. }
  assert (Hf : existsb (fun p => bytes_eqb_nocase p b) (snd (hn_entry i)) = true) by (apply existsb_exists; eauto).
  congruence.
Qed.

Lemma eqb_key a b : name_wf a -> name_wf b -> (hname_eqb a b = true <-> key a = key b).
Proof.
  intros Ha Hb. destruct a as [i|x], b as [j|y]; cbn [key].
  - rewrite (known_known i j (known_wf_bound _ Ha) (known_wf_bound _ Hb)). rewrite Nat.eqb_eq. split; [now intros ->| now intros [= ->]].
  - destruct (unknown_vs_row y i Hb (known_wf_bound _ Ha)) as (H1 & H2).
    unfold hname_eqb, hname_eq_str. cbn [hname_print hname_parse existsb]. rewrite H1, H2. cbn. split; discriminate.
  - destruct (unknown_vs_row x j Ha (known_wf_bound _ Hb)) as (H1 & H2).
    unfold hname_eqb, hname_eq_str. cbn [hname_print hname_parse existsb]. rewrite nocase_sym, H1. cbn [orb].
    rewrite existsb_false; [split; discriminate|].
    intros p Hp. rewrite orb_false_r. rewrite nocase_sym.
    destruct (bytes_eqb_nocase p x) eqn:E; [|reflexivity].
    assert (existsb (fun p => bytes_eqb_nocase p x) (snd (hn_entry j)) = true) by (apply existsb_exists; eauto). congruence.
  - unfold hname_eqb, hname_eq_str. cbn [hname_print hname_parse existsb]. rewrite !orb_false_r.
    rewrite nocase_iff. split; [now intros ->| now intros [= ->]].
Qed.

Lemma eqb_refl_wf n : name_wf n -> hname_eqb n n = true.
Proof. intros H. now apply (eqb_key n n H H). Qed.

Lemma eqb_false_key a b : name_wf a -> name_wf b -> (hname_eqb a b = false <-> key a <> key b).
Proof.
  intros Ha Hb. pose proof (eqb_key a b Ha Hb) as K. destruct (hname_eqb a b); split; intros H.
  - discriminate.
  - exfalso. apply H. now apply K.
  - intros E. apply K in E. discriminate.
  - reflexivity.
Qed.

Lemma known_wf : forallb (fun i => match hname_of (fst (hn_entry i)) with HKnown j => Nat.eqb i j | _ => false end) (seq 0 n_names) = true.
Proof. vm_compute. reflexivity. Qed.

Lemma known_name_wf i : i < n_names -> name_wf (HKnown i).
Proof.
  intros Hi. pose proof known_wf as T. rewrite forallb_forall in T.
  specialize (T i (proj2 (in_seq _ _ _) (conj (Nat.le_0_l _) Hi))). unfold name_wf. cbn [hname_print].
  destruct (hname_of (fst (hn_entry i))) as [j|]; [|discriminate]. apply Nat.eqb_eq in T. now subst.
Qed.

Lemma cl_name_wf : name_wf cl_name.
Proof. apply known_name_wf. vm_compute. lia. Qed.

(* ---------- the Headers multimap ---------- *)
Definition keys (es : list entry) : list hkey := map (fun e => key (fst e)) es.
Definition entry_wf (e : entry) : Prop := name_wf (fst e) /\ snd e <> [].

Lemma not_in_keys_eqb n es : name_wf n -> Forall entry_wf es -> ~ In (key n) (keys es) ->
  forall m vs, In (m, vs) es -> hname_eqb m n = false /\ hname_eqb n m = false.
Proof.
  intros Hn Hes Hnot m vs Hin. rewrite Forall_forall in Hes. destruct (Hes _ Hin) as [Hm _]. cbn [fst] in Hm.
  assert (key m <> key n).
  { intros E. apply Hnot. rewrite <- E. unfold keys. apply in_map_iff. exists (m, vs). auto. }
  split; apply eqb_false_key; auto.
Qed.

Lemma insert_at n v es1 vs es2 : name_wf n -> Forall entry_wf es1 -> ~ In (key n) (keys es1) ->
  h_insert n v (es1 ++ (n, vs) :: es2) = es1 ++ (n, vs ++ [v]) :: es2.
Proof.
  intros Hn. induction es1 as [|[m ws] es1 IH]; intros Hes Hnot; cbn [app h_insert].
  - now rewrite (eqb_refl_wf n Hn).
  - destruct (not_in_keys_eqb n _ Hn Hes Hnot m ws (or_introl eq_refl)) as [E _]. rewrite E.
    f_equal. apply IH; [now inversion Hes| intros H; apply Hnot; right; exact H].
Qed.

Lemma insert_fresh n v es : name_wf n -> Forall entry_wf es -> ~ In (key n) (keys es) ->
  h_insert n v es = es ++ [(n, [v])].
Proof.
  intros Hn. induction es as [|[m ws] es IH]; intros Hes Hnot; cbn [app h_insert]; [reflexivity|].
  destruct (not_in_keys_eqb n _ Hn Hes Hnot m ws (or_introl eq_refl)) as [E _]. rewrite E.
  f_equal. apply IH; [now inversion Hes| intros H; apply Hnot; right; exact H].
Qed.

Definition raw_of (nv : hname * bytes) : bytes * bytes := (hname_print (fst nv), snd nv).
Definition ins (acc : list entry) (nv : bytes * bytes) : list entry := h_insert (hname_of (fst nv)) (snd nv) acc.

Lemma fold_values n : name_wf n -> forall vs es1 ws, Forall entry_wf es1 -> ~ In (key n) (keys es1) ->
  fold_left ins (map raw_of (map (pair n) vs)) (es1 ++ [(n, ws)]) = es1 ++ [(n, ws ++ vs)].
Proof.
  intros Hn. induction vs as [|v vs IH]; intros es1 ws Hes Hnot; cbn [map fold_left].
  - now rewrite app_nil_r.
  - replace (ins (es1 ++ [(n, ws)]) (raw_of (n, v))) with (es1 ++ [(n, ws ++ [v])]).
    + rewrite IH by assumption. now rewrite <- app_assoc.
    + unfold ins, raw_of. cbn [fst snd]. unfold name_wf in Hn. rewrite Hn. symmetry. exact (insert_at n v es1 ws [] Hn Hes Hnot).
Qed.

Lemma headers_of_iter : forall es2 es1, Forall entry_wf (es1 ++ es2) -> NoDup (keys (es1 ++ es2)) ->
  fold_left ins (map raw_of (h_iter es2)) es1 = es1 ++ es2.
Proof.
  induction es2 as [|[n vs] es2 IH]; intros es1 Hwf Hnd.
  - cbn. now rewrite app_nil_r.
  - change (h_iter ((n, vs) :: es2)) with (map (pair n) vs ++ h_iter es2). rewrite map_app, fold_left_app.
    assert (Hes1 : Forall entry_wf es1) by (apply Forall_app in Hwf; tauto).
    assert (Hn : entry_wf (n, vs)) by (apply Forall_app in Hwf as [_ H]; now inversion H).
    destruct Hn as [Hn Hvs]. cbn [fst snd] in Hn, Hvs.
    assert (Hnot : ~ In (key n) (keys es1)).
    { unfold keys in *. rewrite map_app in Hnd. cbn [map fst] in Hnd. apply NoDup_remove_2 in Hnd.
      intros H. apply Hnd. apply in_or_app. now left. }
    destruct vs as [|v vs]; [congruence|]. cbn [map fold_left].
    replace (ins es1 (raw_of (n, v))) with (es1 ++ [(n, [v])])
      by (unfold ins, raw_of; cbn [fst snd]; unfold name_wf in Hn; rewrite Hn; symmetry; exact (insert_fresh n v es1 Hn Hes1 Hnot)).
    rewrite (fold_values n Hn vs es1 [v] Hes1 Hnot). cbn [app].
    rewrite (IH (es1 ++ [(n, v :: vs)])); rewrite <- ?app_assoc; cbn [app]; auto.
Qed.

Lemma headers_of_print es : Forall entry_wf es -> NoDup (keys es) -> headers_of (map raw_of (h_iter es)) = es.
Proof. intros Hw Hn. unfold headers_of. exact (headers_of_iter es [] Hw Hn). Qed.

Lemma remove_spec n es : name_wf n -> Forall entry_wf es -> NoDup (keys es) ->
  Forall entry_wf (h_remove n es) /\ NoDup (keys (h_remove n es)) /\ ~ In (key n) (keys (h_remove n es)) /\
  (forall k, In k (keys (h_remove n es)) -> In k (keys es)) /\
  (forall m, name_wf m -> key m <> key n -> h_values m (h_remove n es) = h_values m es).
Proof.
  intros Hn. induction es as [|[m ws] es IH]; intros Hes Hnd; cbn [h_remove].
  - repeat split; auto; try constructor.
  - inversion Hes as [|? ? Hm Hes']; subst. cbn [keys map fst] in Hnd. inversion Hnd as [|? ? Hnotin Hnd']; subst.
    destruct Hm as [Hm Hws]. cbn [fst snd] in Hm, Hws.
    destruct (hname_eqb n m) eqn:E.
    + apply (eqb_key n m Hn Hm) in E. repeat split; auto.
      * rewrite E. exact Hnotin.
      * intros k Hk. right. exact Hk.
      * intros x Hx Hne. cbn [h_values]. rewrite (proj2 (eqb_false_key m x Hm Hx)); [reflexivity|]. congruence.
    + apply (eqb_false_key n m Hn Hm) in E.
      destruct (IH Hes' Hnd') as (I1 & I2 & I3 & I4 & I5).
      repeat split.
      * constructor; [split; assumption| exact I1].
      * cbn [keys map fst]. constructor; [|exact I2]. intros H. apply Hnotin. now apply I4.
      * cbn [keys map fst]. intros [H|H]; [congruence| now apply I3].
      * cbn [keys map fst]. intros k [H|H]; [now left| right; now apply I4].
      * intros x Hx Hne. cbn [h_values]. destruct (hname_eqb m x); [reflexivity| now apply I5].
Qed.

Lemma values_insert_other n v m es : name_wf n -> name_wf m -> Forall entry_wf es -> key m <> key n ->
  h_values m (h_insert n v es) = h_values m es.
Proof.
  intros Hn Hm. induction es as [|[x ws] es IH]; intros Hes Hne; cbn [h_insert h_values].
  - rewrite (proj2 (eqb_false_key n m Hn Hm)); [reflexivity| congruence].
  - inversion Hes as [|? ? [Hx _] Hes']; subst. cbn [fst] in Hx.
    destruct (hname_eqb x n) eqn:E; cbn [h_values].
    + apply (eqb_key x n Hx Hn) in E. rewrite (proj2 (eqb_false_key x m Hx Hm)); [reflexivity| congruence].
    + destruct (hname_eqb x m); [reflexivity| now apply IH].
Qed.

(* ---------- str::trim leaves a decimal number alone ---------- *)
Definition heads_differ (c : byte) (seqs : list bytes) : bool :=
  forallb (fun q => match q with q0 :: _ => negb (Byte.eqb q0 c) | [] => false end) seqs.

Lemma strip_any_none seqs c r : heads_differ c seqs = true -> strip_any seqs (c :: r) = None.
Proof.
  unfold heads_differ. induction seqs as [|q seqs IH]; cbn [forallb strip_any]; intros H; [reflexivity|].
  apply andb_prop in H as [Hq Hs]. destruct q as [|q0 q']; [discriminate|]. cbn [strip_prefix].
  apply negb_true_iff in Hq. rewrite Hq. now apply IH.
Qed.

Lemma digit_heads : forall c, is_digit c = true -> heads_differ c ws_seqs = true /\ heads_differ c ws_seqs_rev = true.
Proof.
  assert (H : forall c, (negb (is_digit c) || (heads_differ c ws_seqs && heads_differ c ws_seqs_rev)) = true)
    by (apply byte_forallb; vm_compute; reflexivity).
  intros c Hc. specialize (H c). rewrite Hc in H. cbn in H. now apply andb_prop in H.
Qed.

Lemma trim_digits s : s <> [] -> forallb is_digit s = true -> trim s = s.
Proof.
  intros Hne Hd. unfold trim.
  assert (E1 : trim_start s = s).
  { unfold trim_start. destruct s as [|c r]; [congruence|]. cbn [length trim_start_fuel].
    cbn [forallb] in Hd. apply andb_prop in Hd as [Hc _]. now rewrite (strip_any_none _ c r (proj1 (digit_heads c Hc))). }
  rewrite E1. unfold trim_end.
  assert (Hr : forallb is_digit (rev s) = true).
  { apply forallb_forall. intros x Hx. apply in_rev in Hx. rewrite forallb_forall in Hd. now apply Hd. }
  destruct (rev s) as [|c r] eqn:Er.
  - apply (f_equal (@rev byte)) in Er. rewrite rev_involutive in Er. now subst.
  - rewrite <- (rev_length s), Er. cbn [length trim_start_rev_fuel].
    cbn [forallb] in Hr. apply andb_prop in Hr as [Hc _]. rewrite (strip_any_none _ c r (proj2 (digit_heads c Hc))).
    rewrite <- Er. apply rev_involutive.
Qed.

Lemma trim_print_dec n : trim (print_dec n) = print_dec n.
Proof. apply trim_digits; [exact (proj2 (print_dec_value n)) | apply print_dec_digits]. Qed.

(* ---------- ASCII text is UTF-8 ---------- *)
Definition is_ascii (b : byte) : bool := (b2n b <=? 127)%N.

Lemma utf8_ascii_fuel : forall s f, length s <= f -> forallb is_ascii s = true -> utf8_valid_fuel f s = true.
Proof.
  induction s as [|a r IH]; intros f Hf Ha; [destruct f; reflexivity|].
  destruct f as [|f]; [simpl in Hf; lia|]. cbn [forallb] in Ha. apply andb_prop in Ha as [Ha Hr].
  cbn [utf8_valid_fuel utf8_step]. unfold is_ascii in Ha. rewrite Ha. apply IH; [simpl in Hf; lia| exact Hr].
Qed.

Lemma utf8_ascii s : forallb is_ascii s = true -> utf8_valid s = true.
Proof. intros H. unfold utf8_valid. now apply utf8_ascii_fuel. Qed.

Lemma digit_ascii : forall b, is_digit b = true -> is_ascii b = true.
Proof.
  assert (H : forall b, (negb (is_digit b) || is_ascii b) = true) by (apply byte_forallb; vm_compute; reflexivity).
  intros b Hb. specialize (H b). now rewrite Hb in H.
Qed.

(* ---------- assembling the round trip ---------- *)
Definition entry_ok (e : entry) : Prop :=
  name_wf (fst e) /\ snd e <> [] /\ Forall (fun v => hline_ok (hname_print (fst e), v)) (snd e).
Definition headers_ok (es : list entry) : Prop := Forall entry_ok es /\ NoDup (keys es).
Definition line_ok (l : bytes) : Prop := no_nl l /\ l <> [] /\ utf8_valid l = true.

Lemma entry_ok_wf es : Forall entry_ok es -> Forall entry_wf es.
Proof. apply Forall_impl. intros e (H1 & H2 & _). now split. Qed.

Lemma iter_ok es : Forall entry_ok es -> Forall hline_ok (map raw_of (h_iter es)).
Proof.
  induction es as [|[n vs] es IH]; intros H; [constructor|].
  inversion H as [|? ? (_ & _ & Hv) H']; subst. cbn [fst snd] in Hv.
  change (h_iter ((n, vs) :: es)) with (map (pair n) vs ++ h_iter es). rewrite map_app. apply Forall_app. split; [|now apply IH].
  clear -Hv. induction Hv; cbn [map]; constructor; auto.
Qed.

Lemma print_headers_tail l body :
  flat_map (fun nv => print_header_line nv ++ crlf) l ++ crlf ++ body = tail_text (map raw_of l) body.
Proof.
  induction l as [|nv l IH]; cbn [flat_map map tail_text app]; [reflexivity|].
  rewrite <- !app_assoc. rewrite IH. reflexivity.
Qed.

Lemma tail_text_length hs body : length hs <= length (tail_text hs body).
Proof. induction hs as [|nv hs IH]; cbn [tail_text length]; [lia|]. rewrite !app_length. pose proof (raw_line_nonempty nv). destruct (raw_line nv); [congruence| simpl; lia]. Qed.

Lemma remove_subset n es : forall e, In e (h_remove n es) -> In e es.
Proof.
  induction es as [|[m ws] es IH]; cbn [h_remove]; intros e H; [contradiction|].
  destruct (hname_eqb n m); [now right|]. destruct H as [H|H]; [now left| right; now apply IH].
Qed.

Lemma not_cl n : name_wf n -> key n <> key cl_name -> is_cl_name (hname_print n) = false.
Proof.
  intros Hn Hk. assert (E : hname_eqb cl_name n = false) by (apply eqb_false_key; [apply cl_name_wf| exact Hn| congruence]).
  unfold hname_eqb in E. apply orb_false_elim in E as [E _]. unfold hname_eq_str in E. apply orb_false_elim in E as [_ E].
  change (hname_parse cl_name) with [s_content_length; s_l] in E. cbn [existsb] in E.
  apply orb_false_elim in E as [E1 E]. apply orb_false_elim in E as [E2 _].
  unfold is_cl_name. rewrite nocase_sym, E1, nocase_sym, E2. reflexivity.
Qed.

Lemma find_cl_last l d : (forall nv, In nv l -> is_cl_name (fst nv) = false) ->
  find (fun nv : bytes * bytes => is_cl_name (fst nv)) (l ++ [(hname_print cl_name, d)]) = Some (hname_print cl_name, d).
Proof.
  induction l as [|nv l IH]; intros H; cbn [app find].
  - reflexivity.
  - rewrite (H nv (or_introl eq_refl)). apply IH. intros x Hx. apply H. now right.
Qed.

Lemma skipn_add {A} b : forall (l : list A) a, skipn (b + a) l = skipn a (skipn b l).
Proof. induction b as [|b IH]; intros l a; [reflexivity|]. destruct l as [|x l]; cbn [Nat.add skipn]; [now rewrite skipn_nil| apply IH]. Qed.

Lemma length_skipn_eq {A} p (l r : list A) : p <= length l -> skipn p l = r -> length l = p + length r.
Proof. intros Hp <-. rewrite skipn_length. lia. Qed.

Lemma cl_line_ok k : hline_ok (hname_print cl_name, print_dec k).
Proof.
  pose proof (print_dec_digits k) as Hd. pose proof (proj2 (print_dec_value k)) as Hne.
  unfold hline_ok, raw_line. cbn [fst snd]. split; [|split; [|split]].
  - vm_compute. reflexivity.
  - unfold no_nl. apply forallb_forall. intros b Hb. rewrite forallb_forall in Hd. specialize (Hd b Hb).
    assert (H : forall b, (negb (is_digit b) || negb (is_nl b)) = true) by (apply byte_forallb; vm_compute; reflexivity).
    specialize (H b). now rewrite Hd in H.
  - destruct (print_dec k) as [|c r]; [congruence|]. cbn [forallb] in Hd. apply andb_prop in Hd as [Hc _]. cbn [stops].
    assert (H : forall b, (negb (is_digit b) || negb (is_ascii_ws b)) = true) by (apply byte_forallb; vm_compute; reflexivity).
    specialize (H c). rewrite Hc in H. now apply negb_true_iff in H.
  - apply utf8_ascii. rewrite !forallb_app. apply andb_true_intro. split; [vm_compute; reflexivity|].
    apply andb_true_intro. split; [vm_compute; reflexivity|].
    apply forallb_forall. intros b Hb. rewrite forallb_forall in Hd. apply digit_ascii. now apply Hd.
Qed.

Lemma NoDup_snoc {A} (l : list A) x : NoDup l -> ~ In x l -> NoDup (l ++ [x]).
Proof.
  induction l as [|a l IH]; intros Hn Hx; cbn [app]; [constructor; [intros []| constructor]|].
  inversion Hn as [|? ? Ha Hl]; subst. constructor.
  - intros H. apply in_app_or in H as [H|[H|[]]]; [contradiction| subst; apply Hx; now left].
  - apply IH; [exact Hl| intros H; apply Hx; now right].
Qed.

Lemma tail_text_shape hs body : hs <> [] -> Forall hline_ok hs ->
  exists c d r, tail_text hs body = c :: d :: r /\ is_lws c = false.
Proof.
  intros Hne Hok. destruct hs as [|nv hs']; [congruence|]. pose proof (Forall_inv Hok) as Hnv.
  destruct (raw_line_shape nv (crlf ++ tail_text hs' body) Hnv) as (c & d & r & E & Hc & _). exists c, d, r. cbn [tail_text]. auto.
Qed.

Theorem message_roundtrip line es body :
  sip_send_replaces_content_length = true ->
  line_ok line -> headers_ok es -> (N.of_nat (length body) <= usize_max)%N ->
  parse_message (encode_message line es body) = Some (line, sent_headers es body, body).
Proof.
  intros Hflag (Lnl & Lne & Lu) (Hok & Hnd) Hlen.
  set (dec := print_dec (N.of_nat (length body))).
  set (R := h_remove cl_name es).
  destruct (remove_spec cl_name es cl_name_wf (entry_ok_wf _ Hok) Hnd) as (R1 & R2 & R3 & R4 & _). fold R in R1, R2, R3, R4.
  assert (Esent : sent_headers es body = R ++ [(cl_name, [dec])]).
  { unfold sent_headers. rewrite Hflag. fold dec R. apply insert_fresh; [apply cl_name_wf| exact R1| exact R3]. }
  assert (RokF : Forall entry_ok R).
  { apply Forall_forall. intros e He. rewrite Forall_forall in Hok. apply Hok. now apply (remove_subset cl_name es). }
  assert (Sok : Forall entry_ok (R ++ [(cl_name, [dec])])).
  { apply Forall_app. split; [exact RokF|]. constructor; [|constructor]. split; [apply cl_name_wf|]. split; [discriminate|].
    cbn [fst snd]. constructor; [apply cl_line_ok| constructor]. }
  assert (Snd : NoDup (keys (R ++ [(cl_name, [dec])]))).
  { unfold keys. rewrite map_app. cbn [map fst]. apply NoDup_snoc; [exact R2| exact R3]. }
  set (S := R ++ [(cl_name, [dec])]) in *.
  set (hs := map raw_of (h_iter S)).
  assert (Esrc : encode_message line es body = [] ++ line ++ crlf ++ tail_text hs body).
  { unfold encode_message. rewrite Esent. fold S. unfold print_headers. cbn [app]. now rewrite print_headers_tail. }
  assert (Hhs : Forall hline_ok hs) by (apply iter_ok; exact Sok).
  assert (Ehs : hs = map raw_of (h_iter R) ++ [(hname_print cl_name, dec)]).
  { unfold hs, S, h_iter. rewrite flat_map_app, map_app. reflexivity. }
  set (src := encode_message line es body) in *.
  assert (HF : length hs + 2 <= Datatypes.S (length src)).
  { rewrite Esrc. rewrite !app_length. cbn [length app]. pose proof (tail_text_length hs body). destruct line; [congruence|]. simpl. lia. }
  destruct (collect_lines body hs [] line true [] [] (Datatypes.S (length src)) Lnl Lne Lu eq_refl Hhs HF) as (p & Hcol & Hsk & Hle).
  rewrite <- Esrc in Hcol, Hsk, Hle. cbn [length app] in Hcol.
  unfold parse_message. rewrite Hcol.
  (* framing *)
  assert (Hhe : head_end src p = p + 4) by (unfold head_end; now rewrite Hsk).
  assert (Hfind : find (fun nv : bytes * bytes => is_cl_name (fst nv)) hs = Some (hname_print cl_name, dec)).
  { rewrite Ehs. apply find_cl_last. intros nv Hin. apply in_map_iff in Hin as ((n & v) & <- & Hin). cbn [raw_of fst].
    unfold h_iter in Hin. apply in_flat_map in Hin as ((m & vs) & HinR & Hv). cbn [fst snd] in Hv. apply in_map_iff in Hv as (v' & [= <- <-] & _).
    rewrite Forall_forall in R1. destruct (R1 _ HinR) as [Hm _]. cbn [fst] in Hm.
    apply not_cl; [exact Hm|]. intros E. apply R3. rewrite <- E. unfold keys. apply in_map_iff. exists (m, vs). auto. }
  assert (Hlsrc : length src = p + (4 + length body)).
  { rewrite (length_skipn_eq p src _ Hle Hsk). reflexivity. }
  assert (Hbody : skipn (p + 4) src = body) by (rewrite skipn_add, Hsk; reflexivity).
  assert (Hdg : datagram_parse src = DgOk (p + 4) body).
  { unfold datagram_parse. rewrite Hcol. rewrite Hhe, Hfind. unfold dec. rewrite trim_print_dec, (parse_print_dec usize_max _ Hlen).
    destruct (N.eqb_spec (N.of_nat (length body)) 0) as [E0|E0].
    - destruct body; [reflexivity| simpl in E0; lia].
    - destruct (N.leb_spec (N.of_nat (p + 4) + N.of_nat (length body)) (N.of_nat (length src))) as [_|Hbad]; [|lia].
      f_equal. unfold sub. rewrite Hbody. rewrite Nnat.Nat2N.id. replace (p + 4 + length body - (p + 4)) with (length body) by lia.
      apply firstn_all. }
  rewrite Hdg.
  assert (Hfirst : first_line src = line).
  { (* start line *)
    unfold first_line.
    assert (Hshape : exists c d r, tail_text hs body = c :: d :: r /\ is_lws c = false).
    { apply tail_text_shape; [|exact Hhs]. intros E. rewrite Ehs in E. destruct (map raw_of (h_iter R)); discriminate. }
    destruct Hshape as (c & d & r & Et & Hc).
    pose proof (pull_line [] line c d r Lnl Lne Hc) as Hp. cbn [app length] in Hp. rewrite !Nat.add_0_r in Hp.
    pose proof (sub_mid [] line (CR :: LF :: c :: d :: r)) as Hs. cbn [app length] in Hs. rewrite Nat.add_0_r in Hs.
    rewrite Esrc, Et. cbn [crlf app]. rewrite Hp. exact Hs. }
  assert (Hheaders : headers_of hs = sent_headers es body).
  { rewrite Esent. fold S. apply headers_of_print; [apply entry_ok_wf; exact Sok| exact Snd]. }
  now rewrite Hfirst, Hheaders.
Qed.

(* per header name, the ordered list of values is what was put in *)
Lemma values_in n vs es : name_wf n -> Forall entry_wf es -> NoDup (keys es) -> In (n, vs) es -> h_values n es = vs.
Proof.
  intros Hn. induction es as [|[m ws] es IH]; intros Hes Hnd Hin; [contradiction|].
  inversion Hes as [|? ? [Hm _] Hes']; subst. cbn [fst] in Hm. cbn [keys map fst] in Hnd. inversion Hnd as [|? ? Hnot Hnd']; subst.
  cbn [h_values]. destruct Hin as [[= -> ->]|Hin].
  - now rewrite (eqb_refl_wf n Hn).
  - rewrite (proj2 (eqb_false_key m n Hm Hn)); [now apply IH|].
    intros E. apply Hnot. rewrite E. unfold keys. apply in_map_iff. exists (n, vs). auto.
Qed.

Theorem sent_values es body n :
  sip_send_replaces_content_length = true -> headers_ok es -> name_wf n -> key n <> key cl_name ->
  h_values n (sent_headers es body) = h_values n es.
Proof.
  intros Hflag (Hok & Hnd) Hn Hk. unfold sent_headers. rewrite Hflag.
  destruct (remove_spec cl_name es cl_name_wf (entry_ok_wf _ Hok) Hnd) as (R1 & _ & _ & _ & R5).
  rewrite (values_insert_other cl_name _ n _ cl_name_wf Hn R1 Hk). now apply R5.
Qed.

Theorem sent_content_length es body :
  sip_send_replaces_content_length = true -> headers_ok es ->
  h_values cl_name (sent_headers es body) = [print_dec (N.of_nat (length body))].
Proof.
  intros Hflag (Hok & Hnd). unfold sent_headers. rewrite Hflag.
  destruct (remove_spec cl_name es cl_name_wf (entry_ok_wf _ Hok) Hnd) as (R1 & R2 & R3 & _ & _).
  rewrite (insert_fresh cl_name _ _ cl_name_wf R1 R3).
  apply values_in; [apply cl_name_wf| | | apply in_or_app; right; now left].
  - apply Forall_app. split; [exact R1|]. constructor; [|constructor]. split; [apply cl_name_wf| discriminate].
  - unfold keys. rewrite map_app. apply NoDup_snoc; [exact R2| exact R3].
Qed.
