(* Proofs/C01m.v -- lemmas for the whole-message round trip (Model/C01m.v) *)
From Coq Require Import List Arith NArith Bool Lia.
From Coq.Strings Require Import Byte.
From EZK Require Import Gen.Tables Lib.Bytes Lib.Num Lib.Utf8 Model.C03 Proofs.C03 Model.C01m.
Import ListNotations.
Close Scope N_scope.
Open Scope nat_scope.

Definition no_nl (s : bytes) : Prop := forallb (fun b => negb (is_nl b)) s = true.

Lemma find_nl_line line x : no_nl line -> find_nl (line ++ CR :: x) = Some (length line).
Proof.
  unfold no_nl. induction line as [|c l IH]; simpl; intros H; [reflexivity|].
  apply andb_prop in H as [Hc Hl]. destruct (is_nl c); [discriminate|]. now rewrite (IH Hl).
Qed.

Lemma skipn_pre_app {A} (pre r : list A) : skipn (length pre) (pre ++ r) = r.
Proof. induction pre; simpl; auto. Qed.

Lemma skipn_pre_app2 {A} (pre l r : list A) : skipn (length l + length pre) (pre ++ l ++ r) = r.
Proof. rewrite app_assoc, <- (app_length pre l) || idtac. replace (length l + length pre) with (length (pre ++ l)) by (rewrite app_length; lia). rewrite app_assoc. apply skipn_pre_app. Qed.

Lemma pull_line pre line c d rest :
  no_nl line -> line <> [] -> is_lws c = false ->
  pull_next (pre ++ line ++ CR :: LF :: c :: d :: rest) (length pre) =
  Line (length pre) (length line + length pre)
       (if Byte.eqb c CR && Byte.eqb d LF then length line + length pre else length line + length pre + 2).
Proof.
  intros Hnl Hne Hc. unfold pull_next. cbn [pull_loop].
  rewrite !app_length. cbn [length].
  destruct (Nat.ltb_spec (length pre + (length line + S (S (S (S (length rest)))))) (length pre + 0)) as [Hlt|_]; [lia|].
  rewrite Nat.add_0_r. rewrite skipn_pre_app. rewrite (find_nl_line _ _ Hnl).
  rewrite Nat.add_0_r. rewrite skipn_pre_app2.
  cbn [classify]. change (Byte.eqb CR LF) with false. change (Byte.eqb LF LF) with true. cbn iota.
  rewrite Hc.
  destruct (Nat.eqb_spec (length line + length pre) (length pre)) as [E|_].
  - destruct line; [congruence| simpl in E; lia].
  - destruct (Byte.eqb c CR && Byte.eqb d LF); reflexivity.
Qed.

(* at the blank line that ends the head *)
Lemma pull_end pre body : pull_next (pre ++ CR :: LF :: CR :: LF :: body) (length pre) = EndOfHead.
Proof.
  unfold pull_next. cbn [pull_loop]. rewrite !app_length. cbn [length].
  destruct (Nat.ltb_spec (length pre + S (S (S (S (length body))))) (length pre + 0)) as [Hlt|_]; [lia|].
  rewrite Nat.add_0_r, skipn_pre_app. cbn [find_nl]. change (is_nl CR) with true. cbn iota.
  rewrite !Nat.add_0_l, Nat.add_0_r, skipn_pre_app.
  cbn [classify]. change (Byte.eqb CR LF) with false. change (Byte.eqb LF LF) with true. change (is_lws CR) with false. cbn iota.
  now rewrite Nat.eqb_refl.
Qed.

Lemma head_end_blank pre body : head_end (pre ++ CR :: LF :: CR :: LF :: body) (length pre) = length pre + 4.
Proof. unfold head_end. rewrite skipn_pre_app. reflexivity. Qed.

Lemma token_not_ws : forall b, token_class b = true -> is_ascii_ws b = false.
Proof.
  assert (H : forall b, (negb (token_class b) || negb (is_ascii_ws b)) = true) by (apply byte_forallb; vm_compute; reflexivity).
  intros b Hb. specialize (H b). rewrite Hb in H. simpl in H. now apply negb_true_iff in H.
Qed.

Definition value_ok (v : bytes) : Prop := no_nl v /\ stops is_ascii_ws v.

Lemma parse_print_header_line name v :
  forallb token_class name = true -> stops is_ascii_ws v ->
  parse_header_line (name ++ colon_sp ++ v) = Some (name, v).
Proof.
  intros Hn Hv. unfold parse_header_line, colon_sp.
  assert (E1 : take_while is_ascii_ws (name ++ [":"%byte; SP] ++ v) = ([], name ++ [":"%byte; SP] ++ v)).
  { apply (take_while_app is_ascii_ws [] _ eq_refl).
    destruct name as [|c n]; simpl; [reflexivity|]. simpl in Hn. apply andb_prop in Hn as [Hc _]. now apply token_not_ws. }
  rewrite E1. cbn [snd].
  rewrite (take_while_app token_class name ([":"%byte; SP] ++ v) Hn) by reflexivity.
  change ([":"%byte; SP] ++ v) with (":"%byte :: SP :: v).
  assert (E2 : take_while is_ascii_ws (":"%byte :: SP :: v) = ([], ":"%byte :: SP :: v)) by reflexivity.
  rewrite E2. cbn [snd]. change (Byte.eqb ":" ":") with true. cbn iota.
  change (SP :: v) with ([SP] ++ v). rewrite (take_while_app is_ascii_ws [SP] v eq_refl Hv). reflexivity.
Qed.

Lemma sub_mid pre l r : sub (pre ++ l ++ r) (length pre) (length l + length pre) = l.
Proof.
  unfold sub. rewrite skipn_pre_app. replace (length l + length pre - length pre) with (length l) by lia.
  induction l; simpl; [reflexivity | now f_equal].
Qed.

Lemma token_facts : forall b, token_class b = true -> is_lws b = false /\ Byte.eqb b CR = false /\ is_nl b = false.
Proof.
  assert (H : forall b, (negb (token_class b) || (negb (is_lws b) && negb (Byte.eqb b CR) && negb (is_nl b))) = true)
    by (apply byte_forallb; vm_compute; reflexivity).
  intros b Hb. specialize (H b). rewrite Hb in H. simpl in H.
  apply andb_prop in H as [H H3]. apply andb_prop in H as [H1 H2].
  repeat split; now apply negb_true_iff.
Qed.

Definition raw_line (nv : bytes * bytes) : bytes := fst nv ++ colon_sp ++ snd nv.

Definition hline_ok (nv : bytes * bytes) : Prop :=
  forallb token_class (fst nv) = true /\ no_nl (snd nv) /\ stops is_ascii_ws (snd nv) /\ utf8_valid (raw_line nv) = true.

Fixpoint tail_text (hs : list (bytes * bytes)) (body : bytes) : bytes :=
  match hs with
  | [] => crlf ++ body
  | nv :: r => raw_line nv ++ crlf ++ tail_text r body
  end.

Lemma no_nl_app a b : no_nl a -> no_nl b -> no_nl (a ++ b).
Proof. unfold no_nl. intros Ha Hb. rewrite forallb_app, Ha, Hb. reflexivity. Qed.

Lemma raw_line_no_nl nv : hline_ok nv -> no_nl (raw_line nv).
Proof.
  intros (Hn & Hv & _ & _). unfold raw_line. apply no_nl_app; [|apply no_nl_app; [reflexivity|exact Hv]].
  unfold no_nl. apply forallb_forall. intros b Hb. rewrite forallb_forall in Hn.
  destruct (token_facts b (Hn b Hb)) as (_ & _ & H). now rewrite H.
Qed.

Lemma raw_line_shape nv x : hline_ok nv ->
  exists c d r, raw_line nv ++ x = c :: d :: r /\ is_lws c = false /\ Byte.eqb c CR = false.
Proof.
  intros (Hn & _). unfold raw_line, colon_sp. destruct nv as [[|a [|b n]] v]; cbn [fst snd app] in *.
  - exists ":"%byte, SP, (v ++ x). repeat split; reflexivity.
  - apply andb_prop in Hn as [Ha _]. destruct (token_facts a Ha) as (H1 & H2 & _).
    exists a, ":"%byte, (SP :: v ++ x). repeat split; assumption.
  - apply andb_prop in Hn as [Ha _]. destruct (token_facts a Ha) as (H1 & H2 & _).
    exists a, b, ((n ++ ":"%byte :: SP :: v) ++ x). repeat split; try assumption.
Qed.

Lemma raw_line_nonempty nv : raw_line nv <> [].
Proof. unfold raw_line, colon_sp. destruct (fst nv); discriminate. Qed.

Lemma collect_lines body : forall hs pre cur (first : bool) add acc F,
  no_nl cur -> cur <> [] -> utf8_valid cur = true ->
  (if first then add = [] else exists nv, parse_header_line cur = Some nv /\ add = [nv]) ->
  Forall hline_ok hs -> length hs + 2 <= F ->
  exists p, collect_headers F (pre ++ cur ++ crlf ++ tail_text hs body) (length pre) first acc = Some (p, acc ++ add ++ hs)
         /\ skipn p (pre ++ cur ++ crlf ++ tail_text hs body) = CR :: LF :: CR :: LF :: body
         /\ p <= length (pre ++ cur ++ crlf ++ tail_text hs body).
Proof.
  induction hs as [|nv hs IH]; intros pre cur first add acc F Hnl Hne Hu Hadd Hok HF.
  - cbn [tail_text crlf app]. destruct F as [|[|F]]; [simpl in HF; lia | simpl in HF; lia|].
    exists (length cur + length pre).
    assert (Hsk : skipn (length cur + length pre) (pre ++ cur ++ CR :: LF :: CR :: LF :: body) = CR :: LF :: CR :: LF :: body)
      by apply skipn_pre_app2.
    split; [|split; [exact Hsk| rewrite !app_length; simpl; lia]].
    cbn [collect_headers].
    rewrite (pull_line pre cur CR LF body Hnl Hne eq_refl).
    change (Byte.eqb CR CR && Byte.eqb LF LF) with true. cbn iota.
    rewrite sub_mid, Hu. cbn [negb].
    assert (Hend : pull_next (pre ++ cur ++ CR :: LF :: CR :: LF :: body) (length cur + length pre) = EndOfHead).
    { replace (length cur + length pre) with (length (pre ++ cur)) by (rewrite app_length; lia).
      rewrite app_assoc. apply pull_end. }
    destruct first.
    + subst add. rewrite Hend. rewrite !app_nil_r. reflexivity.
    + destruct Hadd as (nv & Hp & ->). rewrite Hp, Hend. rewrite app_nil_r. reflexivity.
  - inversion Hok as [|? ? Hnv Hok']; subst. cbn [tail_text length] in *.
    destruct F as [|F]; [lia|].
    destruct (raw_line_shape nv (CR :: LF :: tail_text hs body) Hnv) as (c & d & r & Eshape & Hc & HcCR).
    assert (Esrc : pre ++ cur ++ crlf ++ raw_line nv ++ crlf ++ tail_text hs body
                   = pre ++ cur ++ CR :: LF :: c :: d :: r) by (unfold crlf; cbn [app]; now rewrite Eshape).
    destruct (IH (pre ++ cur ++ crlf) (raw_line nv) false [nv] (acc ++ add) F (raw_line_no_nl _ Hnv) (raw_line_nonempty nv))
      as (p & Hcol & Hsk & Hle).
    { destruct Hnv as (_ & _ & _ & H); exact H. }
    { exists nv. split; [|reflexivity]. destruct nv as [n v]. destruct Hnv as (Hn & _ & Hv & _). now apply parse_print_header_line. }
    { exact Hok'. } { lia. }
    assert (Eassoc : (pre ++ cur ++ crlf) ++ raw_line nv ++ crlf ++ tail_text hs body
                     = pre ++ cur ++ crlf ++ raw_line nv ++ crlf ++ tail_text hs body) by now rewrite <- !app_assoc.
    rewrite Eassoc in Hcol, Hsk, Hle.
    exists p. split; [|split; assumption].
    cbn [collect_headers]. rewrite Esrc at 1. rewrite (pull_line pre cur c d r Hnl Hne Hc). rewrite HcCR. cbn [andb].
    rewrite sub_mid, Hu. cbn [negb].
    replace (length cur + length pre + 2) with (length (pre ++ cur ++ crlf)) by (rewrite !app_length; simpl; lia).
    destruct first.
    + subst add. rewrite app_nil_r in Hcol. rewrite Hcol. cbn [app]. reflexivity.
    + destruct Hadd as (nv0 & Hp & ->). rewrite Hp. rewrite Hcol. rewrite <- !app_assoc. reflexivity.
Qed.
