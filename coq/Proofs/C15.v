(* Proofs/C15.v *)
From Coq Require Import List Arith NArith Lia Bool.
From EZK Require Import Gen.Tables Model.C15.
Import ListNotations.
Open Scope N_scope.

(* the map entry and the receive task always agree, handles of the current generation exist only
   for a Used entry (or are stale after the task ended), and nothing has panicked *)
Definition Inv (s : st) : Prop :=
  panicked s = false /\
  match tsk s with
  | TInUse => ent s = EUsed
  | TUnused _ rxr => ent s = (if rxr then EUsed else EUnused)
  | TExited => ent s = EAbsent
  end /\
  ((0 < refs s + transient s)%nat -> ent s = EUsed \/ tsk s = TExited).

Lemma inv_init_out : Inv init_outgoing.
Proof. repeat split; cbn; auto. Qed.
Lemma inv_init_in : Inv init_incoming.
Proof. repeat split; cbn; auto. intros H; lia. Qed.

Ltac inv_tac :=
  repeat match goal with
  | H : Inv _ |- _ => destruct H as (?Hp & ?Hc & ?Hr)
  | |- Inv _ => unfold Inv; cbn [panicked tsk ent refs transient]
  | |- _ /\ _ => split
  end.

Ltac fin := unfold Inv in *; cbn in *; intuition (try congruence; try lia; auto).

Lemma ext_step_inv s e : Inv s -> Inv (fst (ext_step s e)).
Proof.
  intros HI. destruct e; cbn [ext_step fst].
  - destruct (refs s) eqn:E; [exact HI|]. destruct HI as (Hp & Hc & Hr). unfold Inv; cbn.
    repeat split; auto. intros _. apply Hr. lia.
  - destruct HI as (Hp & Hc & Hr). unfold Inv; cbn. repeat split; auto. intros H. apply Hr. lia.
  - destruct HI as (Hp & Hc & Hr). destruct (ent s) eqn:He.
    + destruct (refs s) eqn:E; unfold Inv; cbn; rewrite ?He; repeat split; auto.
    + unfold Inv; cbn. repeat split; auto;
      destruct (tsk s) as [|d rxr|]; cbn in *; try congruence; try reflexivity.
    + unfold Inv; cbn; rewrite ?He; repeat split; auto.
  - destruct HI as (Hp & Hc & Hr). unfold Inv; cbn; repeat split; auto.
  - destruct HI as (Hp & Hc & Hr). unfold Inv; cbn; repeat split; auto.
  - destruct HI as (Hp & Hc & Hr). unfold Inv; cbn; repeat split; auto.
  - destruct HI as (Hp & Hc & Hr). unfold Inv; cbn; repeat split; auto.
Qed.

Lemma task_step_inv s s' : Inv s -> task_step s = Some s' -> Inv s'.
Proof.
  intros (Hp & Hc & Hr) H. unfold task_step in H. rewrite Hp in H.
  destruct (tsk s) as [|d rxr|] eqn:Ht.
  - (* InUse *)
    destruct (Nat.eqb_spec (refs s + transient s) 0) as [Ez|Enz].
    + inversion H; subst. unfold Inv; cbn. repeat split; auto. intros Hpos. lia.
    + destruct (item_ready s).
      * unfold handle_item in H. rewrite Hc in H.
        destruct (refs s + transient s)%nat eqn:En; [congruence|].
        destruct (inbox s) as [|[|] ?]; inversion H; subst; unfold Inv; cbn; rewrite ?Ht; repeat split; auto.
      * destruct (transient s) eqn:Etr; [discriminate|]. inversion H; subst.
        unfold Inv; cbn; rewrite ?Ht; repeat split; auto.
  - destruct rxr.
    + inversion H; subst. unfold Inv; cbn. repeat split; auto.
    + destruct (item_ready s).
      * unfold handle_item in H. rewrite Hc in H.
        destruct (inbox s) as [|[|] ?]; inversion H; subst; unfold Inv; cbn; rewrite ?Ht; repeat split; auto.
      * destruct (d <=? now s).
        -- inversion H; subst. unfold Inv; cbn. repeat split; auto.
        -- destruct (transient s) eqn:Etr; [discriminate|]. inversion H; subst.
           unfold Inv; cbn; rewrite ?Ht; repeat split; auto.
           intros Hpos. destruct Hr as [Hr|Hr]; [lia| |]; congruence.
  - destruct (transient s) eqn:Etr; [discriminate|]. inversion H; subst.
    unfold Inv; cbn; rewrite ?Ht; repeat split; auto.
Qed.

Lemma quiesce_inv fuel : forall s, Inv s -> Inv (quiesce fuel s).
Proof.
  induction fuel as [|f IH]; intros s HI; cbn [quiesce]; [exact HI|].
  destruct (task_step s) as [s'|] eqn:E; [|exact HI]. apply IH. eapply task_step_inv; eauto.
Qed.

Lemma group_inv s g : Inv s -> Inv (fst (run_group s g)).
Proof.
  intros HI. unfold run_group.
  assert (G : forall g s acc, Inv s ->
     Inv (fst (fold_left (fun '(s, acc) e => let '(s', r) := ext_step s e in (s', acc ++ [r])) g (s, acc)))).
  { induction g0 as [|e r IH]; intros s0 acc H0; cbn [fold_left]; [exact H0|].
    destruct (ext_step s0 e) as [s1 r1] eqn:E. apply IH.
    change s1 with (fst (s1, r1)). rewrite <- E. now apply ext_step_inv. }
  specialize (G g s [] HI).
  destruct (fold_left _ g (s, [])) as [s1 sel]. cbn [fst] in *. now apply quiesce_inv.
Qed.

Definition run_groups (s : st) (gs : list (list event)) : st := fold_left (fun s g => fst (run_group s g)) gs s.

Lemma groups_inv gs : forall s, Inv s -> Inv (run_groups s gs).
Proof.
  induction gs as [|g r IH]; intros s HI; cbn [run_groups fold_left]; [exact HI|].
  apply IH. now apply group_inv.
Qed.

(* no history of event groups ever reaches the set_used panic *)
Lemma no_panic gs s : Inv s -> panicked (run_groups s gs) = false.
Proof. intros HI. apply (groups_inv gs s HI). Qed.

(* ---- alive while referenced (and the peer has not closed / garbled the stream) ---- *)
Definition referenced (s : st) : Prop :=
  (0 < refs s)%nat /\ eof s = false /\ forallb (fun b => b) (inbox s) = true /\ tsk s <> TExited.

Lemma task_step_referenced s s' : Inv s -> referenced s -> task_step s = Some s' ->
  referenced s' /\ ent s' = EUsed.
Proof.
  intros (Hp & Hc & Hr) (Hpos & He & Hb & Hx) H. unfold task_step in H. rewrite Hp in H.
  assert (Hu : ent s = EUsed) by (destruct Hr as [Hr|Hr]; [lia|exact Hr|congruence]).
  unfold item_ready in H. rewrite He in H.
  destruct (tsk s) as [|d rxr|] eqn:Ht; [| |congruence].
  - destruct (Nat.eqb_spec (refs s + transient s) 0); [lia|].
    destruct (inbox s) as [|b r] eqn:Ef.
    + destruct (transient s); [discriminate|]. inversion H; subst.
      unfold referenced; cbn; rewrite ?Ht, ?Ef; repeat split; auto; congruence.
    + cbn in Hb. apply andb_prop in Hb as [Hb1 Hb2]. subst b.
      unfold handle_item in H. rewrite Hu, Ef in H.
      destruct (refs s + transient s)%nat; [lia|]. inversion H; subst.
      unfold referenced; cbn; rewrite ?Ht; repeat split; auto; congruence.
  - destruct rxr.
    + inversion H; subst. unfold referenced; cbn; repeat split; auto; congruence.
    + rewrite Hu in Hc. discriminate.
Qed.

Lemma quiesce_referenced fuel : forall s, Inv s -> referenced s ->
  referenced (quiesce fuel s) /\ ent (quiesce fuel s) = EUsed.
Proof.
  induction fuel as [|f IH]; intros s HI HR; cbn [quiesce].
  - split; [exact HR|]. destruct HI as (_ & _ & Hr). destruct HR as (Hpos & _ & _ & Hx).
    destruct Hr as [Hr|Hr]; [lia|exact Hr|congruence].
  - destruct (task_step s) as [s'|] eqn:E.
    + destruct (task_step_referenced s s' HI HR E) as [HR' _]. apply IH; [eapply task_step_inv; eauto|exact HR'].
    + split; [exact HR|]. destruct HI as (_ & _ & Hr). destruct HR as (Hpos & _ & _ & Hx).
      destruct Hr as [Hr|Hr]; [lia|exact Hr|congruence].
Qed.

(* time passing never removes a referenced connection *)
Lemma alive_while_referenced s dt : Inv s -> referenced s ->
  let s' := fst (run_group s [Advance dt]) in
  referenced s' /\ ent s' = EUsed /\ present s' = true.
Proof.
  intros HI HR. cbn [run_group fold_left ext_step app fst].
  set (s1 := mkst (refs s) (transient s) (ent s) (tsk s) (inbox s) (eof s) (now s + dt) (delivered s) (extra s) (panicked s)).
  assert (HI1 : Inv s1) by (destruct HI as (? & ? & ?); unfold Inv; cbn; auto).
  assert (HR1 : referenced s1) by (destruct HR as (? & ? & ? & ?); unfold referenced; cbn; auto).
  destruct (quiesce_referenced (fuel_for s1) s1 HI1 HR1) as [HR' Hu].
  repeat split; try apply HR'; auto. unfold present. now rewrite Hu.
Qed.

(* ---- expiry of an unreferenced connection ---- *)
Lemma unused_expires s d : Inv s -> tsk s = TUnused d false -> item_ready s = false -> transient s = 0%nat ->
  d <= now s -> exists s', task_step s = Some s' /\ tsk s' = TExited /\ ent s' = EAbsent.
Proof.
  intros (Hp & _ & _) Ht Hi Htr Hd. unfold task_step. rewrite Hp, Ht, Hi.
  destruct (N.leb_spec d (now s)); [|lia]. eexists. repeat split.
Qed.

Lemma unused_waits s d : Inv s -> tsk s = TUnused d false -> item_ready s = false -> transient s = 0%nat ->
  now s < d -> task_step s = None.
Proof.
  intros (Hp & _ & _) Ht Hi Htr Hd. unfold task_step. rewrite Hp, Ht, Hi, Htr.
  destruct (N.leb_spec d (now s)); [lia|reflexivity].
Qed.

(* the idle period starts when the last handle is released: a fresh 32 s *)
Lemma last_drop_starts_timer s : Inv s -> tsk s = TInUse -> (refs s + transient s = 0)%nat ->
  exists s', task_step s = Some s' /\ tsk s' = TUnused (now s + idle_ms) false /\ ent s' = EUnused /\
             inbox s' = inbox s /\ delivered s' = delivered s.
Proof.
  intros (Hp & _ & _) Ht Hz. unfold task_step. rewrite Hp, Ht, Hz. cbn. eexists. repeat split.
Qed.

(* closed by the peer or a framing error: the task ends and the entry is removed at once *)
Lemma close_removes s : Inv s -> tsk s <> TExited -> (forall d, tsk s <> TUnused d true) ->
  (tsk s = TInUse -> (0 < refs s + transient s)%nat) ->
  ((inbox s = [] /\ eof s = true) \/ exists r, inbox s = false :: r) ->
  exists s', task_step s = Some s' /\ tsk s' = TExited /\ ent s' = EAbsent.
Proof.
  intros (Hp & Hc & _) Hx Hrx Hin Hcl. unfold task_step. rewrite Hp.
  assert (Hi : item_ready s = true).
  { unfold item_ready. destruct Hcl as [[-> ->]|[r ->]]; reflexivity. }
  assert (Hh : forall tr en tk, match inbox s with
            | true :: r => Some (mkst (refs s) tr en tk r (eof s) (now s) (S (delivered s)) (extra s) (panicked s))
            | _ => Some (mkst (refs s) tr EAbsent TExited [] (eof s) (now s) (delivered s) (extra s) (panicked s)) end
            = Some (mkst (refs s) tr EAbsent TExited [] (eof s) (now s) (delivered s) (extra s) (panicked s))).
  { intros. destruct Hcl as [[-> _]|[r ->]]; reflexivity. }
  destruct (tsk s) as [|d rxr|] eqn:Ht; [| |congruence].
  - specialize (Hin eq_refl). destruct (Nat.eqb_spec (refs s + transient s) 0); [lia|].
    rewrite Hi. unfold handle_item. rewrite Hc. destruct (refs s + transient s)%nat; [lia|].
    rewrite Hh. eexists. repeat split.
  - destruct rxr; [exfalso; apply (Hrx d); reflexivity|].
    rewrite Hi. unfold handle_item. rewrite Hc, Hh. eexists. repeat split.
Qed.

(* ---- never reused once gone; reuse keeps it referenced ---- *)
Lemma select_absent s : ent s = EAbsent -> snd (ext_step s Select) = Some false.
Proof. intros H. cbn. now rewrite H. Qed.

Lemma select_reuses s : Inv s -> ent s = EUnused ->
  snd (ext_step s Select) = Some true /\ refs (fst (ext_step s Select)) = 1%nat /\ ent (fst (ext_step s Select)) = EUsed.
Proof. intros _ H. cbn. rewrite H. cbn. auto. Qed.

(* ---- a message on an unreferenced connection revives it and is delivered exactly once ---- *)
Lemma revive_delivers s d r : Inv s -> tsk s = TUnused d false -> inbox s = true :: r ->
  exists s', task_step s = Some s' /\ delivered s' = S (delivered s) /\ inbox s' = r /\
             ent s' = EUsed /\ tsk s' = TUnused d true.
Proof.
  intros (Hp & Hc & _) Ht Hf. unfold task_step. rewrite Hp, Ht.
  assert (Hi : item_ready s = true) by (unfold item_ready; rewrite Hf; reflexivity).
  rewrite Hi. rewrite Ht in Hc. unfold handle_item. rewrite Hc, Hf, Ht. eexists. repeat split.
Qed.

(* ... even when the last handle was dropped in the same instant: the notifier is handled first *)
Lemma drop_and_frame_same_instant s r : Inv s -> tsk s = TInUse -> (refs s + transient s = 0)%nat -> inbox s = true :: r ->
  exists s1 s2, task_step s = Some s1 /\ task_step s1 = Some s2 /\
    delivered s2 = S (delivered s) /\ ent s2 = EUsed /\ panicked s2 = false.
Proof.
  intros HI Ht Hz Hf.
  destruct (last_drop_starts_timer s HI Ht Hz) as (s1 & H1 & Ht1 & He1 & Hf1 & Hd1).
  assert (HI1 : Inv s1) by (eapply task_step_inv; eauto).
  rewrite Hf in Hf1.
  destruct (revive_delivers s1 _ r HI1 Ht1 Hf1) as (s2 & H2 & Hd2 & _ & He2 & _).
  assert (HI2 : Inv s2) by (eapply task_step_inv; eauto).
  exists s1, s2. repeat split; auto; [congruence|apply HI2].
Qed.

(* a message that is readable when the task of an unreferenced connection is polled is handed over, whatever the idle timer says *)
Lemma frame_beats_idle_timer s d r :
  stream_frame_before_idle_timer = true -> panicked s = false -> tsk s = TUnused d false -> ent s = EUnused -> inbox s = true :: r ->
  exists s', task_step s = Some s' /\ delivered s' = S (delivered s) /\ ent s' = EUsed /\ inbox s' = r.
Proof.
  intros G Hp Ht He Hi. unfold task_step. rewrite Hp, Ht, G. unfold item_ready. rewrite Hi. cbn [andb].
  unfold handle_item. rewrite He, Hi. eexists. split; [reflexivity|]. cbn. auto.
Qed.
