(* Proofs/C12o.v *)
From Coq Require Import List Arith Bool Lia.
From EZK Require Import Gen.Tables Model.C12o.
Import ListNotations.

Lemma ack_during_send_matched : ack_rendezvous_before_send = true -> ack_matched false accept_steps = true.
Proof. intros G. unfold accept_steps. rewrite G. reflexivity. Qed.

Lemma ack_late_registration_dropped : ack_matched false [AckArrives; SendReturns; RegisterRendezvous] = false.
Proof. reflexivity. Qed.

Lemma unbounded_refuses_nothing n : tsx_queue_unbounded = true -> refused_of tsx_queue_capacity n = 0.
Proof. intros G. unfold tsx_queue_capacity. rewrite G. reflexivity. Qed.

Lemma bounded_refuses c n : c < n -> 0 < refused_of (Some c) n.
Proof. intros H. cbn. lia. Qed.
