(* Proofs/C08.v -- counting final responses per request over the layer / usage loops *)
From Coq Require Import List Arith NArith Lia Bool Sorted.
From EZK Require Import Lib.Bytes Model.C10 Model.C08.
Import ListNotations.
Close Scope N_scope.
Open Scope nat_scope.

Definition answered_as (x : N) (r : req) : bool := N.eqb (q_id r) x && negb (is_ack r).

Lemma filter_none {A} (f : A -> bool) l : (forall x, In x l -> f x = false) -> filter f l = [].
Proof.
  induction l as [|a t IH]; intros H; [reflexivity|]. cbn [filter]. rewrite (H a (or_introl eq_refl)).
  apply IH. intros x Hx. apply H. now right.
Qed.

Lemma finals_app x a b : finals x (a ++ b) = finals x a + finals x b.
Proof. unfold finals. now rewrite filter_app, app_length. Qed.

Lemma finals_answer x r code : finals x (answer r code) = if answered_as x r then 1 else 0.
Proof.
  unfold answer, answered_as. destruct (is_ack r); cbn; [now rewrite andb_false_r|].
  rewrite andb_true_r. unfold finals. cbn. now destruct (N.eqb (q_id r) x).
Qed.

Lemma finals_offer_usages x d us : forall i r,
  finals x (offer_usages d us i r) = if answered_as x r then 1 else 0.
Proof.
  induction us as [|u rest IH]; intros i r; cbn [offer_usages]; [apply finals_answer|].
  change (UOffer d i (q_id r) :: ?l) with ([UOffer d i (q_id r)] ++ l). rewrite finals_app.
  replace (finals x [UOffer d i (q_id r)]) with 0 by reflexivity. cbn [Nat.add].
  destruct (takes u (q_meth r)); [apply finals_answer|apply IH].
Qed.

Lemma finals_flat_usages x d us reqs :
  finals x (flat_map (fun r' => offer_usages d us 0 r') reqs) = length (filter (answered_as x) reqs).
Proof.
  induction reqs as [|r rest IH]; [reflexivity|]. cbn [flat_map filter]. rewrite finals_app, finals_offer_usages, IH.
  destruct (answered_as x r); reflexivity.
Qed.

(* parked: the dialog layer put the request into a backlog *)
Fixpoint parked (ls : list layer) (ds : list dentry) (env : list req) (r : req) : bool :=
  match ls with
  | [] => false
  | LRec mask :: rest => if takes mask (q_meth r) then false else parked rest ds env r
  | LDialog :: rest =>
    match q_dlg r with
    | None => parked rest ds env r
    | Some d =>
      match nth_error ds d with
      | None => parked rest ds env r
      | Some e => if C10.refused (d_st e) (C10.mkreq (q_cseq r) (q_id r) (is_ack r)) then parked rest ds env r
                  else snd (deliver d e env r)
      end
    end
  end.

Lemma finals_walk x ls : forall i ds env r,
  finals x (snd (walk ls i ds env r)) = length (filter (answered_as x) (handled ls ds env r)).
Proof.
  induction ls as [|l rest IH]; intros i ds env r; cbn [walk handled snd].
  - rewrite finals_answer. cbn [filter]. destruct (answered_as x r); reflexivity.
  - destruct l as [mask|].
    + destruct (takes mask (q_meth r)).
      * cbn [snd]. change (Offer i (q_id r) :: ?l) with ([Offer i (q_id r)] ++ l). rewrite finals_app, finals_answer.
        cbn [filter]. destruct (answered_as x r); reflexivity.
      * specialize (IH (S i) ds env r). destruct (walk rest (S i) ds env r) as [ds' evs]. cbn [snd] in *.
        change (Offer i (q_id r) :: evs) with ([Offer i (q_id r)] ++ evs). rewrite finals_app. exact IH.
    + destruct (q_dlg r) as [d|]; [|apply IH].
      destruct (nth_error ds d) as [e|]; [|apply IH].
      destruct (C10.refused (d_st e) (C10.mkreq (q_cseq r) (q_id r) (is_ack r))); [apply IH|].
      destruct (deliver d e env r) as [[e' reqs] pk] eqn:Ed. cbn [snd].
      destruct pk.
      * (* parked: no request is handed on *)
        unfold deliver in Ed. destruct (step (d_st e) _) as [st' del]. injection Ed as _ <- Hp.
        destruct del; [reflexivity|discriminate].
      * apply finals_flat_usages.
Qed.

(* ---------- what the dialog's CSeq machine hands on ---------- *)
Lemma bl_lookup_in k bl id : bl_lookup k bl = Some id -> In id (map snd bl).
Proof.
  induction bl as [|[k' v] t IH]; cbn; [discriminate|].
  destruct (N.eqb k' k); [intros H; injection H as ->; now left|]. intros H. right. now apply IH.
Qed.

Lemma bl_remove_snd_incl k bl : incl (map snd (bl_remove k bl)) (map snd bl).
Proof.
  induction bl as [|[k' v] t IH]; cbn; [apply incl_refl|].
  destruct (N.eqb k' k); cbn.
  - now apply incl_tl.
  - apply incl_cons; [now left|]. now apply incl_tl.
Qed.

Lemma drain_ids fuel : forall last bl d l bl',
  drain fuel last bl = (d, l, bl') -> incl (map snd d) (map snd bl).
Proof.
  induction fuel as [|f IH]; intros last bl d l bl' H; cbn [drain] in H.
  - injection H as <- _ _. intros x [].
  - destruct (N.ltb last u32max).
    + destruct (bl_lookup (last + 1) bl) as [id|] eqn:El.
      * destruct (drain f (last + 1)%N (bl_remove (last + 1) bl)) as [[d1 l1] bl1] eqn:Ed.
        injection H as <- _ _. cbn [map]. apply incl_cons; [eapply bl_lookup_in; eauto|].
        eapply incl_tran; [eapply IH; eauto|apply bl_remove_snd_incl].
      * injection H as <- _ _. intros x [].
    + injection H as <- _ _. intros x [].
Qed.

(* a step either parks the request (nothing handed on) or hands on the request itself, first, followed
   only by requests taken out of the backlog *)
Lemma step_shape st r st' del :
  step st r = (st', del) ->
  del = [] \/ exists d, del = (r_cseq r, r_id r) :: d /\ incl (map snd d) (map snd (backlog st)).
Proof.
  unfold step. destruct (r_cseq r ?= _)%N.
  - destruct (drain _ _ _) as [[d last] bl] eqn:Ed. intros H; injection H as _ <-.
    right. exists d. split; [reflexivity|]. eapply drain_ids; eauto.
  - intros H; injection H as _ <-. right. exists []. split; [reflexivity|]. intros x [].
  - intros H; injection H as _ <-. now left.
Qed.

Lemma lookup_id id env r : lookup id env = Some r -> q_id r = id.
Proof.
  unfold lookup. intros H. apply find_some in H. destruct H as [_ H]. now apply N.eqb_eq in H.
Qed.

Lemma lookup_head r env : lookup (q_id r) (r :: env) = Some r.
Proof. unfold lookup. cbn [find]. now rewrite N.eqb_refl. Qed.

(* the requests handed on by a dialog: empty exactly when parked; otherwise the request itself and then
   requests whose identities were in the backlog *)
Local Opaque lookup.
Lemma deliver_shape d e env r e' reqs pk :
  deliver d e env r = (e', reqs, pk) ->
  (pk = true /\ reqs = []) \/
  (pk = false /\ exists rel, reqs = r :: rel /\ forall r', In r' rel -> In (q_id r') (map snd (backlog (d_st e)))).
Proof.
  unfold deliver. destruct (step (d_st e) _) as [st' del] eqn:Es. intros H; injection H as _ <- <-.
  destruct (step_shape _ _ _ _ Es) as [->|(dd & -> & Hincl)]; [now left|]. right. split; [reflexivity|].
  cbn [flat_map snd r_id]. rewrite lookup_head. cbn [app]. eexists; split; [reflexivity|].
  intros r' Hin. apply in_flat_map in Hin. destruct Hin as (ci & Hci & Hr').
  destruct (lookup (snd ci) (r :: env)) as [r2|] eqn:El; [|destruct Hr'].
  destruct Hr' as [<-|[]]. apply lookup_id in El. rewrite El. apply Hincl. now apply in_map.
Qed.

Local Transparent lookup.

Definition backlog_ids (ds : list dentry) : list N := flat_map (fun e => map snd (backlog (d_st e))) ds.

Lemma nth_backlog_ids ds d e x : nth_error ds d = Some e -> In x (map snd (backlog (d_st e))) -> In x (backlog_ids ds).
Proof.
  intros Hn Hx. unfold backlog_ids. apply in_flat_map. exists e. split; [|exact Hx]. eapply nth_error_In; eauto.
Qed.

(* handled: the request itself exactly once unless parked; everything else was parked before *)
Lemma handled_shape ls : forall ds env r,
  (parked ls ds env r = true /\ handled ls ds env r = []) \/
  (parked ls ds env r = false /\ exists rel, handled ls ds env r = r :: rel /\
                                             forall r', In r' rel -> In (q_id r') (backlog_ids ds)).
Proof.
  induction ls as [|l rest IH]; intros ds env r; cbn [parked handled].
  - right. split; [reflexivity|]. exists []. split; [reflexivity|]. intros r' [].
  - destruct l as [mask|].
    + destruct (takes mask (q_meth r)); [|apply IH].
      right. split; [reflexivity|]. exists []. split; [reflexivity|]. intros r' [].
    + destruct (q_dlg r) as [d|]; [|apply IH].
      destruct (nth_error ds d) as [e|] eqn:En; [|apply IH].
      destruct (C10.refused (d_st e) (C10.mkreq (q_cseq r) (q_id r) (is_ack r))); [apply IH|].
      destruct (deliver d e env r) as [[e' reqs] pk] eqn:Ed. cbn [snd].
      destruct (deliver_shape _ _ _ _ _ _ _ Ed) as [[-> ->]|(-> & rel & -> & Hrel)]; [now left|].
      right. split; [reflexivity|]. exists rel. split; [reflexivity|].
      intros r' Hin. eapply nth_backlog_ids; eauto.
Qed.

(* exactly one: a non-ACK request whose identity is not already parked somewhere gets one final
   response in this dispatch, or it is parked and gets none yet *)
Lemma dispatch_exactly_one ls i ds env r :
  is_ack r = false -> ~ In (q_id r) (backlog_ids ds) ->
  let evs := snd (walk ls i ds env r) in
  (parked ls ds env r = false /\ finals (q_id r) evs = 1) \/ (parked ls ds env r = true /\ finals (q_id r) evs = 0).
Proof.
  intros Hack Hfresh evs. subst evs. rewrite finals_walk.
  destruct (handled_shape ls ds env r) as [[Hp ->]|(Hp & rel & -> & Hrel)].
  - right. split; [exact Hp|reflexivity].
  - left. split; [exact Hp|]. cbn [filter]. unfold answered_as at 1. rewrite N.eqb_refl, Hack. cbn [negb andb length]. f_equal.
    rewrite filter_none; [reflexivity|].
    intros r' Hin. unfold answered_as. destruct (N.eqb_spec (q_id r') (q_id r)) as [Heq|]; [|reflexivity].
    exfalso. apply Hfresh. rewrite <- Heq. now apply Hrel.
Qed.

(* ACKs are never answered, whoever takes or ignores them *)
Lemma ack_silent ls i ds env r x :
  (forall r', In r' (handled ls ds env r) -> q_id r' = x -> is_ack r' = true) ->
  finals x (snd (walk ls i ds env r)) = 0.
Proof.
  intros H. rewrite finals_walk. rewrite filter_none; [reflexivity|].
  intros r' Hin. unfold answered_as. destruct (N.eqb_spec (q_id r') x) as [Heq|]; [|reflexivity].
  now rewrite (H r' Hin Heq).
Qed.

(* who answers, with which code, through which kind of transaction *)
Lemma answer_events r code e : In e (answer r code) -> e = Final (q_id r) code (is_invite r) /\ is_ack r = false.
Proof. unfold answer. destruct (is_ack r); [intros []|]. intros [<-|[]]. auto. Qed.

Lemma offer_usages_final d us : forall i r id code inv,
  In (Final id code inv) (offer_usages d us i r) ->
  id = q_id r /\ inv = is_invite r /\ is_ack r = false /\
  ((code = taker_code r /\ exists u, In u us /\ takes u (q_meth r) = true) \/
   (code = 404%N /\ forall u, In u us -> takes u (q_meth r) = false)).
Proof.
  induction us as [|u rest IH]; intros i r id code inv H; cbn [offer_usages] in H.
  - apply answer_events in H. destruct H as [H Ha]. injection H as -> -> ->. repeat split; auto. right. split; [reflexivity|]. intros u [].
  - destruct H as [H|H]; [discriminate|]. destruct (takes u (q_meth r)) eqn:Et.
    + apply answer_events in H. destruct H as [H Ha]. injection H as -> -> ->. repeat split; auto.
      left. split; [reflexivity|]. exists u. split; [now left|exact Et].
    + apply IH in H. destruct H as (-> & -> & Ha & [[-> (u' & Hu & Ht)]|[-> Hn]]); repeat split; auto.
      * left. split; [reflexivity|]. exists u'. split; [now right|exact Ht].
      * right. split; [reflexivity|]. intros u' [<-|Hu]; auto.
Qed.

(* a request no layer takes and no dialog intercepts is answered 481 by the endpoint *)
Lemma nobody_takes ls : forall i ds env r,
  (forall m, In (LRec m) ls -> takes m (q_meth r) = false) -> q_dlg r = None ->
  exists offers, snd (walk ls i ds env r) = offers ++ answer r 481%N /\ forall e, In e offers -> exists j, e = Offer j (q_id r).
Proof.
  induction ls as [|l rest IH]; intros i ds env r Hm Hd; cbn [walk].
  - exists []. split; [reflexivity|]. intros e [].
  - destruct l as [mask|].
    + rewrite (Hm mask (or_introl eq_refl)).
      destruct (IH (S i) ds env r (fun m Hin => Hm m (or_intror Hin)) Hd) as (offers & He & Ho).
      destruct (walk rest (S i) ds env r) as [ds' evs]. cbn [snd] in *. subst evs.
      exists (Offer i (q_id r) :: offers). split; [reflexivity|]. intros e [<-|Hin]; eauto.
    + rewrite Hd. apply IH; auto. intros m Hin. apply Hm. now right.
Qed.

(* visibility and order: a layer that looks without taking passes the request on to the next layer;
   a taking layer ends the loop *)
Lemma inspect_passes_on mask rest i ds env r :
  takes mask (q_meth r) = false ->
  snd (walk (LRec mask :: rest) i ds env r) = Offer i (q_id r) :: snd (walk rest (S i) ds env r).
Proof. intros H. cbn [walk]. rewrite H. now destruct (walk rest (S i) ds env r). Qed.

Lemma taker_ends_loop mask rest i ds env r :
  takes mask (q_meth r) = true ->
  walk (LRec mask :: rest) i ds env r = (ds, Offer i (q_id r) :: answer r (taker_code r)).
Proof. intros H. cbn [walk]. now rewrite H. Qed.

Fixpoint offer_indices (evs : list ev) : list nat :=
  match evs with
  | Offer j _ :: t => j :: offer_indices t
  | _ :: t => offer_indices t
  | [] => []
  end.

Lemma offer_indices_app a b : offer_indices (a ++ b) = offer_indices a ++ offer_indices b.
Proof. induction a as [|e t IH]; [reflexivity|]. destruct e; cbn [app offer_indices]; now rewrite IH. Qed.

Lemma offer_indices_answer r code : offer_indices (answer r code) = [].
Proof. unfold answer. now destruct (is_ack r). Qed.

Lemma offer_indices_usages d us : forall i r, offer_indices (offer_usages d us i r) = [].
Proof.
  induction us as [|u t IH]; intros i r; cbn [offer_usages]; [apply offer_indices_answer|].
  cbn [offer_indices]. destruct (takes u (q_meth r)); [apply offer_indices_answer|apply IH].
Qed.

Lemma offer_indices_flat d us reqs : offer_indices (flat_map (fun r' => offer_usages d us 0 r') reqs) = [].
Proof.
  induction reqs as [|r t IH]; [reflexivity|]. cbn [flat_map]. now rewrite offer_indices_app, offer_indices_usages, IH.
Qed.

Lemma offers_bounded ls : forall i ds env r j,
  In j (offer_indices (snd (walk ls i ds env r))) -> i <= j.
Proof.
  induction ls as [|l rest IH]; intros i ds env r j; cbn [walk].
  - cbn [snd]. rewrite offer_indices_answer. intros [].
  - destruct l as [mask|].
    + destruct (takes mask (q_meth r)).
      * cbn [snd offer_indices]. rewrite offer_indices_answer. intros [<-|[]]. lia.
      * specialize (IH (S i) ds env r j). destruct (walk rest (S i) ds env r) as [ds' evs]. cbn [snd offer_indices] in *.
        intros [<-|H]; [lia|]. apply IH in H. lia.
    + assert (Hrest : In j (offer_indices (snd (walk rest (S i) ds env r))) -> i <= j).
      { intros H. apply IH in H. lia. }
      destruct (q_dlg r) as [d|]; [|exact Hrest].
      destruct (nth_error ds d) as [e|]; [|exact Hrest].
      destruct (C10.refused (d_st e) (C10.mkreq (q_cseq r) (q_id r) (is_ack r))); [exact Hrest|].
      destruct (deliver d e env r) as [[e' reqs] pk]. cbn [snd]. destruct pk; [cbn; tauto|].
      rewrite offer_indices_flat. intros [].
Qed.

(* layers are consulted in registration order: the offer indices are strictly increasing *)
Lemma offers_increasing ls : forall i ds env r,
  StronglySorted lt (offer_indices (snd (walk ls i ds env r))).
Proof.
  induction ls as [|l rest IH]; intros i ds env r; cbn [walk].
  - cbn [snd]. rewrite offer_indices_answer. constructor.
  - destruct l as [mask|].
    + destruct (takes mask (q_meth r)).
      * cbn [snd offer_indices]. rewrite offer_indices_answer. repeat constructor.
      * pose proof (IH (S i) ds env r) as Hs. pose proof (offers_bounded rest (S i) ds env r) as Hb.
        destruct (walk rest (S i) ds env r) as [ds' evs]. cbn [snd offer_indices] in *.
        constructor; [exact Hs|]. apply Forall_forall. intros j Hj. apply Hb in Hj. lia.
    + destruct (q_dlg r) as [d|]; [|apply IH].
      destruct (nth_error ds d) as [e|]; [|apply IH].
      destruct (C10.refused (d_st e) (C10.mkreq (q_cseq r) (q_id r) (is_ack r))); [apply IH|].
      destruct (deliver d e env r) as [[e' reqs] pk]. cbn [snd]. destruct pk; [constructor|].
      rewrite offer_indices_flat. constructor.
Qed.
