(* Proofs/Forms10.v -- lemmas about Model/Forms10.v *)
From Coq Require Import List NArith Arith Bool Lia.
From Coq.Strings Require Import Byte.
From EZK Require Import Lib.Bytes Gen.Tables Model.Forms10.
Import ListNotations.
Local Close Scope N_scope.

(* ---- C02 ---- *)
Lemma lookup_guarded_total : forall table c, lookup_form true table c <> None.
Proof.
  intros table c. unfold lookup_form. destruct (Nat.ltb_spec c (length table)) as [H|H]; [|discriminate].
  apply nth_error_Some. exact H.
Qed.

Lemma lookup_here : lookup_index_guarded = true -> forall table c, lookup table c <> None.
Proof. intros H t c. unfold lookup. rewrite H. apply lookup_guarded_total. Qed.

Lemma lookup_unguarded_panics : forall table, lookup_form false table (length table) = None.
Proof.
  intros table. unfold lookup_form. rewrite Nat.leb_refl. apply nth_error_None. apply Nat.le_refl.
Qed.

(* ---- C05 ---- *)
Lemma receive_final_here : receive_final_loops = true -> forall provs, receive_final provs = true.
Proof. intros H p. unfold receive_final, receive_final_form. rewrite H. reflexivity. Qed.

Lemma receive_final_once_refuted : forall provs, 2 <= provs -> receive_final_form false provs = false.
Proof. intros p H. unfold receive_final_form. cbn. apply Nat.leb_gt. lia. Qed.

(* ---- C06 ---- *)
Lemma reliable_once_here : nonink_reliable_returns_at_once = true -> forall waiting, reliable_extra_sends waiting = 0.
Proof. intros H w. unfold reliable_extra_sends, reliable_extra_sends_form. rewrite H. reflexivity. Qed.

Lemma reliable_answers_waiting : forall waiting, reliable_extra_sends_form false waiting = waiting.
Proof. reflexivity. Qed.

(* ---- C07 ---- *)
Lemma acked_here : non2xx_arm_catches_all = true -> forall c, c <> F2 -> acked c = true.
Proof. intros H c Hc. unfold acked. rewrite H. destruct c; try reflexivity. congruence. Qed.

Lemma acked_listed_misses_6xx : acked_form false F6 = false /\ acked_form false FExt = false.
Proof. split; reflexivity. Qed.

(* ---- C10 ---- *)
Lemma key_part_bytewise : forall a b, key_part_eq_form true a b = true <-> a = b.
Proof. intros a b. unfold key_part_eq_form. apply bytes_eqb_eq. Qed.

Lemma key_part_here : dialog_key_bytewise = true -> forall a b, key_part_eq a b = true <-> a = b.
Proof. intros H a b. unfold key_part_eq. rewrite H. apply key_part_bytewise. Qed.

Lemma key_part_folded_merges : key_part_eq_form false [x41; x62] [x61; x42] = true.
Proof. vm_compute. reflexivity. Qed.

(* ---- C11 ---- *)
Lemma callee_target_here : callee_target_from_invite = true -> forall (A : Type) (inv : A) ack, callee_target inv ack = inv.
Proof. intros H A i a. unfold callee_target, callee_target_form. rewrite H. reflexivity. Qed.

Lemma callee_target_moved : forall (A : Type) (inv c : A), inv <> c -> callee_target_form false inv (Some c) <> inv.
Proof. intros A i c Hne. cbn. congruence. Qed.

(* ---- C14 ---- *)
Lemma connects_here : connect_only_when_none_found = true -> connects true = false /\ connects false = true.
Proof. intros H. unfold connects, connects_form. rewrite H. split; reflexivity. Qed.

Lemma connects_eagerly : connects_form false true = true.
Proof. reflexivity. Qed.

(* ---- C17 ---- *)
Lemma reg_step_inv : forall st g, fst st = snd st -> let st' := reg_step_form true st g in fst st' = snd st' /\ snd st' = g.
Proof.
  intros [s b] g H. cbn in H. subst b. unfold reg_step_form. destruct (N.eqb_spec s g) as [E|E]; cbn; [subst; split; reflexivity|split; reflexivity].
Qed.

Lemma last_default_irrelevant : forall (A : Type) (l : list A) (d d' : A), l <> [] -> last l d = last l d'.
Proof.
  intros A l. induction l as [|x r IH]; intros d d' H; [congruence|].
  destruct r as [|y r']; [reflexivity|]. cbn [last]. apply IH. discriminate.
Qed.

Lemma reg_run_last : forall (grants : list N) (st : N * N), fst st = snd st ->
  snd (fold_left (reg_step_form true) grants st) = last grants (snd st) /\
  fst (fold_left (reg_step_form true) grants st) = snd (fold_left (reg_step_form true) grants st).
Proof.
  intros grants. induction grants as [|g r IH]; intros st H; cbn [fold_left last].
  - split; [reflexivity | exact H].
  - destruct (reg_step_inv st g H) as [H1 H2]. specialize (IH _ H1). destruct IH as [IH1 IH2]. split; [|exact IH2].
    rewrite IH1, H2. destruct r as [|n r']; [reflexivity|]. change (last (n :: r') g = last (n :: r') (snd st)). apply last_default_irrelevant. discriminate.
Qed.

Lemma reg_run_here : granted_lifetime_stored = true -> forall requested grants, snd (reg_run requested grants) = last grants requested.
Proof.
  intros H requested grants. unfold reg_run, reg_run_form. rewrite H.
  exact (proj1 (reg_run_last grants (requested, requested) eq_refl)).
Qed.

Lemma reg_not_stored_refuted : forall r g, r <> g -> snd (reg_run_form false r [g; r]) = g.
Proof.
  intros r g Hne. unfold reg_run_form. cbn [fold_left].
  assert (E1 : reg_step_form false (r, r) g = (r, g)).
  { unfold reg_step_form. destruct (N.eqb_spec r g) as [E|E]; [contradiction|reflexivity]. }
  rewrite E1. unfold reg_step_form. rewrite N.eqb_refl. reflexivity.
Qed.

(* ---- C20 ---- *)
Lemma visible_here : sha256_visible_after_integrity = true ->
  visible_after_integrity TIntegritySha256 = true /\ visible_after_integrity TFingerprint = true /\ visible_after_integrity TOtherAttr = false.
Proof. intros H. unfold visible_after_integrity. rewrite H. repeat split; reflexivity. Qed.

Lemma sha256_hidden_otherwise : visible_after_integrity_form false TIntegritySha256 = false.
Proof. reflexivity. Qed.

(* ---- C19 ---- *)
Lemma line_text_here : sdp_lines_verbatim = true -> forall s, line_text s = s.
Proof. intros H s. unfold line_text, line_text_form. rewrite H. reflexivity. Qed.

Lemma trimmed_blank_name : line_text_form false [x20] = [] /\ line_text_form false ["a"%byte; x20] = ["a"%byte].
Proof. split; vm_compute; reflexivity. Qed.

(* ---- C16 ---- *)
Lemma drop_removes_here : acceptor_drop_always_removes = true -> forall cancelled, drop_removes cancelled = true.
Proof. intros H c. unfold drop_removes, drop_removes_form. rewrite H. reflexivity. Qed.

Lemma drop_skips_cancelled : drop_removes_form false true = false.
Proof. reflexivity. Qed.

(* ---- C13 ---- *)
Lemma session_timer_here : session_timer_from_header = true -> forall se sup, session_has_timer se sup = se.
Proof. intros H se sup. unfold session_has_timer, session_has_timer_form. rewrite H. destruct se; reflexivity. Qed.

Lemma session_timer_needs_supported : session_has_timer_form false true false = false.
Proof. reflexivity. Qed.

(* ---- C10 (guards) ---- *)
Lemma guard_drop_here : usage_guard_drop_waits = true -> forall held, guard_drop_removes held = true.
Proof. intros H held. unfold guard_drop_removes, guard_drop_removes_form. rewrite H. reflexivity. Qed.

Lemma guard_drop_try_lock_refuted : guard_drop_removes_form false true = false.
Proof. reflexivity. Qed.

(* ---- C20 (registration instant) ---- *)
Lemma response_matched_here : stun_tsx_registered_before_send = true -> forall first_send_done resp_at, response_matched first_send_done resp_at = true.
Proof. intros H d r. unfold response_matched, response_matched_form, registered_from_form. rewrite H. apply N.leb_le. apply N.le_0_l. Qed.

Lemma response_during_send_unmatched : forall d r, (r < d)%N -> response_matched_form false d r = false.
Proof. intros d r H. unfold response_matched_form, registered_from_form. apply N.leb_gt. exact H. Qed.
