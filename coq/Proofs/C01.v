(* Proofs/C01.v -- percent escaping, method classification, parameters *)
From Coq Require Import List Arith NArith Lia Bool.
From Coq.Strings Require Import Byte.
From EZK Require Import Gen.Tables Lib.Bytes Lib.Num Model.C01.
Import ListNotations.
Close Scope N_scope.
Open Scope nat_scope.

(* ---------- hex digits ---------- *)
Lemma hexv_hexd x : (x < 16)%N -> hexv (hexd x) = Some x.
Proof.
  intros H. unfold hexd, hexv. destruct (N.ltb_spec x 10).
  - rewrite b2n_n2b by lia. destruct (N.leb_spec 48 (48 + x)); [|lia]. destruct (N.leb_spec (48 + x) 57); [|lia].
    cbn [andb]. f_equal. lia.
  - rewrite b2n_n2b by lia. destruct (N.leb_spec 48 (55 + x)); [|lia]. destruct (N.leb_spec (55 + x) 57); [lia|].
    cbn [andb]. destruct (N.leb_spec 65 (55 + x)); [|lia]. destruct (N.leb_spec (55 + x) 70); [|lia].
    cbn [andb]. f_equal. lia.
Qed.

Lemma byte_split c : n2b (b2n c / 16 * 16 + b2n c mod 16) = c.
Proof. rewrite N.mul_comm, <- N.div_mod by lia. apply n2b_b2n. Qed.

(* ---------- decode (encode s) = s, for every byte string, as soon as '%' itself is escaped ---------- *)
Lemma decode_encode keep s : keep pct = false -> pct_decode (pct_encode keep s) = s.
Proof.
  intros Hk. induction s as [|c r IH]; [reflexivity|]. cbn [pct_encode].
  destruct (keep c) eqn:Ec.
  - cbn [pct_decode]. destruct (Byte.eqb c pct) eqn:E; [apply byte_eqb_eq in E; congruence|]. now rewrite IH.
  - cbn [pct_decode]. rewrite byte_eqb_refl.
    pose proof (b2n_bound c) as Hb.
    rewrite !hexv_hexd by (try (apply N.mod_lt; lia); apply N.div_lt_upper_bound; lia).
    rewrite byte_split. now rewrite IH.
Qed.

(* without that, the round trip fails: the string a%41b *)
Definition a_pct_41_b : bytes := [ "a"; "%"; "4"; "1"; "b" ]%byte.

Lemma decode_encode_refuted keep :
  keep pct = true -> keep "a"%byte = true -> keep "4"%byte = true -> keep "1"%byte = true -> keep "b"%byte = true ->
  pct_decode (pct_encode keep a_pct_41_b) <> a_pct_41_b.
Proof.
  intros H1 H2 H3 H4 H5. unfold a_pct_41_b. cbn [pct_encode]. unfold pct in H1. rewrite H1, H2, H3, H4, H5.
  vm_compute. discriminate.
Qed.

(* every byte the encoder writes is accepted by the parser's class *)
Lemma encode_in_class keep (class : byte -> bool) s :
  (forall c, keep c = true -> class c = true) -> class pct = true -> (forall x, (x < 16)%N -> class (hexd x) = true) ->
  forallb class (pct_encode keep s) = true.
Proof.
  intros Hk Hp Hh. induction s as [|c r IH]; [reflexivity|]. cbn [pct_encode]. pose proof (b2n_bound c) as Hb.
  destruct (keep c) eqn:Ec; cbn [forallb].
  - now rewrite (Hk c Ec), IH.
  - rewrite Hp, !Hh by (try (apply N.mod_lt; lia); apply N.div_lt_upper_bound; lia). exact IH.
Qed.

(* the sets in the source: '%' is escaped, and the three classes accept '%' and the hex digits *)
Lemma keep_of_pct class : sip_encode_set_has_percent = true -> keep_of class pct = false.
Proof. intros H. unfold keep_of. rewrite H, byte_eqb_refl. cbn [andb negb]. now rewrite andb_false_r. Qed.

Lemma keep_of_in_class class c : keep_of class c = true -> mem c class = true.
Proof. unfold keep_of. intros H. repeat (apply andb_prop in H; destruct H as [H ?]). assumption. Qed.

Lemma hexd_cases x : (x < 16)%N -> In (hexd x) [ "0"; "1"; "2"; "3"; "4"; "5"; "6"; "7"; "8"; "9"; "A"; "B"; "C"; "D"; "E"; "F" ]%byte.
Proof.
  intros H. assert (Hx : In x [0;1;2;3;4;5;6;7;8;9;10;11;12;13;14;15]%N).
  { destruct x as [|p]; [now left|]. do 16 (destruct p as [p|p|]; try lia; cbn; try tauto). }
  cbn [In] in Hx. repeat (destruct Hx as [<-|Hx]; [vm_compute; tauto|]). destruct Hx.
Qed.

(* ---------- methods: exact, whole-token matching ---------- *)
Lemma index_of_spec s l : forall i j, index_of s l i = Some j -> i <= j /\ nth (j - i) l [] = s.
Proof.
  induction l as [|x r IH]; intros i j H; cbn [index_of] in H; [discriminate|].
  destruct (bytes_eqb s x) eqn:E.
  - injection H as <-. apply bytes_eqb_eq in E. subst. rewrite Nat.sub_diag. split; [lia|reflexivity].
  - apply IH in H. destruct H as [Hle Hn]. split; [lia|]. replace (j - i) with (S (j - S i)) by lia. exact Hn.
Qed.

Lemma method_known_exact tok i : method_of tok = MKnown i -> tok = nth i sip_method_names [].
Proof.
  unfold method_of. destruct (index_of tok sip_method_names 0) as [j|] eqn:E; [|discriminate].
  intros H; injection H as <-. apply index_of_spec in E. destruct E as [_ E]. now rewrite Nat.sub_0_r in E.
Qed.

Lemma method_name_of tok : method_name (method_of tok) = tok.
Proof.
  unfold method_of. destruct (index_of tok sip_method_names 0) as [j|] eqn:E; [|reflexivity].
  cbn [method_name]. apply index_of_spec in E. destruct E as [_ E]. now rewrite Nat.sub_0_r in E.
Qed.

(* parsing the printed token gives the method back, whatever follows that is not a token character *)
Lemma method_parse_print tok rest :
  tok <> [] -> forallb is_token_char tok = true -> stops is_token_char rest ->
  method_parse (method_name (method_of tok) ++ rest) = Some (method_of tok, rest).
Proof.
  intros Hn Ht Hr. rewrite method_name_of. unfold method_parse.
  rewrite (take_while_app _ _ _ Ht Hr). destruct tok; [now elim Hn | reflexivity].
Qed.

(* a token is never cut: whatever is parsed is the longest run of token characters, classified as a whole *)
Lemma method_parse_whole s m rest :
  method_parse s = Some (m, rest) ->
  exists tok, s = tok ++ rest /\ tok <> [] /\ forallb is_token_char tok = true /\ stops is_token_char rest /\ m = method_of tok.
Proof.
  unfold method_parse. destruct (take_while is_token_char s) as [a b] eqn:E. intros H.
  destruct a as [|c a]; [discriminate|]. injection H as <- <-.
  apply take_while_spec in E. destruct E as (-> & Ha & Hb). exists (c :: a). repeat split; auto. discriminate.
Qed.

Lemma index_of_nth l : NoDup l -> forall i k, i < length l -> index_of (nth i l []) l k = Some (k + i).
Proof.
  induction l as [|x r IH]; intros Hnd i k Hi; [cbn in Hi; lia|]. inversion Hnd as [|? ? Hni Hr]; subst.
  destruct i as [|i]; cbn [nth index_of].
  - rewrite bytes_eqb_refl. f_equal. lia.
  - destruct (bytes_eqb (nth i r []) x) eqn:E.
    + apply bytes_eqb_eq in E. exfalso. apply Hni. rewrite <- E. apply nth_In. cbn in Hi. lia.
    + rewrite IH; [f_equal; lia|exact Hr|cbn in Hi; lia].
Qed.

(* ---------- parameters ---------- *)
Definition cls (l : list byte) (c : byte) : bool := mem c l.

Definition quote : byte := """"%byte.

(* what the printer needs from a (class, keep) pair: facts checked on the generated tables *)
Record class_ok (class : list byte) (keep : byte -> bool) (first delim : byte) : Prop := mk_class_ok {
  ok_keep : forall c, keep c = true -> cls class c = true;
  ok_pct : keep pct = false;
  ok_enc : forall s, forallb (cls class) (pct_encode keep s) = true;
  ok_nows : forall c, cls class c = true -> is_ws c = false;
  ok_eq : cls class eqs = false;
  ok_quote : cls class quote = false;
  ok_first : cls class first = false /\ is_ws first = false /\ first <> eqs /\ first <> quote;
  ok_delim : cls class delim = false /\ is_ws delim = false /\ delim <> eqs /\ delim <> quote }.

Definition rest_ok (class : list byte) (delim : byte) (rest : bytes) : Prop :=
  match rest with
  | [] => True
  | c :: _ => cls class c = false /\ is_ws c = false /\ c <> eqs /\ c <> quote /\ c <> delim
  end.

Lemma skip_ws_nows s : match s with c :: _ => is_ws c = false | [] => True end -> skip_ws s = s.
Proof. unfold skip_ws. destruct s as [|c r]; [reflexivity|]. cbn [take_while]. now intros ->. Qed.

Lemma head_class_or_rest class (e rest : bytes) (P : byte -> Prop) :
  forallb (cls class) e = true -> (forall c, cls class c = true -> P c) ->
  match rest with c :: _ => P c | [] => True end ->
  match e ++ rest with c :: _ => P c | [] => True end.
Proof.
  intros He Hc Hr. destruct e as [|c e']; [exact Hr|]. cbn [app]. cbn [forallb] in He. apply andb_prop in He as [H _]. now apply Hc.
Qed.

Lemma encode_nil keep v : pct_encode keep v = [] -> v = [].
Proof. destruct v as [|c r]; [reflexivity|]. cbn [pct_encode]. destruct (keep c); discriminate. Qed.

Lemma byte_neq_eqb a b : a <> b -> Byte.eqb a b = false.
Proof. intros H. destruct (Byte.eqb a b) eqn:E; [apply byte_eqb_eq in E; congruence|reflexivity]. Qed.

Lemma parse_print_param class keep first delim p rest :
  class_ok class keep first delim -> rest_ok class delim rest ->
  parse_param class (print_param keep p ++ rest) = Some (p, rest).
Proof.
  intros Hok Hrest. destruct Hok as [Hkeep Hpct Henc Hnows Heq Hq Hfirst Hdelim].
  destruct p as [name value]. unfold print_param, parse_param. cbn [pm_name pm_value].
  set (en := pct_encode keep name).
  assert (Hen : forallb (cls class) en = true) by apply Henc.
  assert (Hrest_ws : match rest with c :: _ => is_ws c = false | [] => True end) by (destruct rest; [exact I|apply Hrest]).
  destruct value as [v|].
  - set (ev := pct_encode keep v). assert (Hev : forallb (cls class) ev = true) by apply Henc.
    rewrite <- app_assoc. cbn [app].
    rewrite skip_ws_nows by (apply (head_class_or_rest class en _ (fun c => is_ws c = false)); [exact Hen|exact Hnows|reflexivity]).
    change (fun c => mem c class) with (cls class).
    rewrite take_while_app; [|exact Hen|cbn [stops]; exact Heq].
    rewrite skip_ws_nows by reflexivity. rewrite byte_eqb_refl.
    rewrite skip_ws_nows by (apply (head_class_or_rest class ev _ (fun c => is_ws c = false)); [exact Hev|exact Hnows|exact Hrest_ws]).
    destruct (ev ++ rest) as [|q t] eqn:E.
    + apply app_eq_nil in E. destruct E as [E1 ->]. subst ev. apply encode_nil in E1. subst v.
      subst en. rewrite decode_encode by exact Hpct. reflexivity.
    + assert (Hqq : Byte.eqb q quote = false).
      { assert (Hh : match ev ++ rest with c :: _ => c <> quote | [] => True end).
        { apply (head_class_or_rest class ev rest (fun c => c <> quote)); [exact Hev| |destruct rest; [exact I|apply Hrest]].
          intros c Hc Heqc. subst c. congruence. }
        rewrite E in Hh. now apply byte_neq_eqb. }
      unfold quote in Hqq. rewrite Hqq. rewrite <- E.
      rewrite take_while_app; [|exact Hev|destruct rest; [exact I|apply Hrest]].
      subst en ev. now rewrite !decode_encode by exact Hpct.
  - rewrite app_nil_r.
    rewrite skip_ws_nows by (apply (head_class_or_rest class en _ (fun c => is_ws c = false)); [exact Hen|exact Hnows|exact Hrest_ws]).
    change (fun c => mem c class) with (cls class).
    rewrite take_while_app; [|exact Hen|destruct rest; [exact I|apply Hrest]].
    rewrite skip_ws_nows by exact Hrest_ws.
    subst en. rewrite decode_encode by exact Hpct.
    destruct rest as [|c r]; [reflexivity|]. destruct Hrest as (_ & _ & Hne & _). now rewrite (byte_neq_eqb _ _ Hne).
Qed.

(* the tail of a parameter list is a good "rest" for the parameter in front of it *)
Lemma rest_ok_tail class keep first delim ps rest :
  class_ok class keep first delim -> rest_ok class delim rest -> ps <> [] ->
  match print_params_from keep first delim false ps ++ rest with
  | c :: _ => cls class c = false /\ is_ws c = false /\ c <> eqs /\ c <> quote
  | [] => True
  end.
Proof.
  intros Hok _ Hne. destruct ps as [|p r]; [congruence|]. cbn [print_params_from app].
  destruct Hok. tauto.
Qed.

Lemma parse_params_rest_print class keep first delim ps : forall fuel rest,
  class_ok class keep first delim -> rest_ok class delim rest -> length ps < fuel ->
  parse_params_rest fuel class delim (print_params_from keep first delim false ps ++ rest) = (ps, rest).
Proof.
  induction ps as [|p r IH]; intros fuel rest Hok Hrest Hf.
  - destruct fuel as [|f]; [cbn in Hf; lia|]. cbn [print_params_from app parse_params_rest].
    destruct rest as [|c t]; [reflexivity|]. destruct Hrest as (_ & Hws & _ & _ & Hd).
    rewrite skip_ws_nows by exact Hws. now rewrite (byte_neq_eqb _ _ Hd).
  - destruct fuel as [|f]; [cbn in Hf; lia|]. cbn [print_params_from parse_params_rest]. cbn [app].
    pose proof (ok_delim _ _ _ _ Hok) as (Hdc & Hdw & Hde & Hdq).
    rewrite skip_ws_nows by exact Hdw. rewrite byte_eqb_refl. rewrite <- app_assoc.
    assert (Htail : rest_ok class delim (print_params_from keep first delim false r ++ rest) \/
                    (r <> [] /\ exists t, print_params_from keep first delim false r ++ rest = delim :: t)).
    { destruct r as [|p2 r2]; [left; exact Hrest|]. right. split; [discriminate|]. cbn [print_params_from app]. eauto. }
    destruct Htail as [Ht|(Hrne & t & Ht)].
    + rewrite (parse_print_param class keep first delim p _ Hok Ht). rewrite IH; [reflexivity|exact Hok|exact Hrest|cbn in Hf; lia].
    + (* the next parameter starts with the delimiter: parse_param stops in front of it *)
      assert (Hpp : parse_param class (print_param keep p ++ print_params_from keep first delim false r ++ rest) =
                    Some (p, print_params_from keep first delim false r ++ rest)).
      { rewrite Ht. destruct Hok as [Hkeep Hpct Henc Hnows Heq Hq Hfirst Hdelim].
        destruct p as [name value]. unfold print_param, parse_param. cbn [pm_name pm_value].
        set (en := pct_encode keep name). assert (Hen : forallb (cls class) en = true) by apply Henc.
        change (fun c => mem c class) with (cls class).
        destruct value as [v|].
        - set (ev := pct_encode keep v). assert (Hev : forallb (cls class) ev = true) by apply Henc.
          rewrite <- app_assoc. cbn [app].
          rewrite skip_ws_nows by (apply (head_class_or_rest class en _ (fun c => is_ws c = false)); [exact Hen|exact Hnows|reflexivity]).
          rewrite take_while_app; [|exact Hen|cbn [stops]; exact Heq].
          rewrite skip_ws_nows by reflexivity. rewrite byte_eqb_refl.
          rewrite skip_ws_nows by (apply (head_class_or_rest class ev _ (fun c => is_ws c = false)); [exact Hev|exact Hnows|exact Hdw]).
          destruct (ev ++ delim :: t) as [|q t'] eqn:E; [destruct ev; discriminate|].
          assert (Hqq : Byte.eqb q quote = false).
          { assert (Hh : match ev ++ delim :: t with c :: _ => c <> quote | [] => True end).
            { apply (head_class_or_rest class ev (delim :: t) (fun c => c <> quote)); [exact Hev| |exact Hdq].
              intros c Hc Heqc. subst c. congruence. }
            rewrite E in Hh. now apply byte_neq_eqb. }
          unfold quote in Hqq. rewrite Hqq. rewrite <- E.
          rewrite take_while_app; [|exact Hev|exact Hdc].
          subst en ev. now rewrite !decode_encode by exact Hpct.
        - rewrite app_nil_r.
          rewrite skip_ws_nows by (apply (head_class_or_rest class en _ (fun c => is_ws c = false)); [exact Hen|exact Hnows|exact Hdw]).
          rewrite take_while_app; [|exact Hen|exact Hdc].
          rewrite skip_ws_nows by exact Hdw.
          subst en. rewrite decode_encode by exact Hpct. now rewrite (byte_neq_eqb _ _ Hde). }
      rewrite Hpp. rewrite IH; [reflexivity|exact Hok|exact Hrest|cbn in Hf; lia].
Qed.

Lemma parse_print_param_delim class keep first delim p t :
  class_ok class keep first delim -> parse_param class (print_param keep p ++ delim :: t) = Some (p, delim :: t).
Proof.
  intros Hok. pose proof (ok_delim _ _ _ _ Hok) as (Hdc & Hdw & Hde & Hdq).
  destruct Hok as [Hkeep Hpct Henc Hnows Heq Hq Hfirst Hdelim].
  destruct p as [name value]. unfold print_param, parse_param. cbn [pm_name pm_value].
  set (en := pct_encode keep name). assert (Hen : forallb (cls class) en = true) by apply Henc.
  change (fun c => mem c class) with (cls class).
  destruct value as [v|].
  - set (ev := pct_encode keep v). assert (Hev : forallb (cls class) ev = true) by apply Henc.
    rewrite <- app_assoc. cbn [app].
    rewrite skip_ws_nows by (apply (head_class_or_rest class en _ (fun c => is_ws c = false)); [exact Hen|exact Hnows|reflexivity]).
    rewrite take_while_app; [|exact Hen|cbn [stops]; exact Heq].
    rewrite skip_ws_nows by reflexivity. rewrite byte_eqb_refl.
    rewrite skip_ws_nows by (apply (head_class_or_rest class ev _ (fun c => is_ws c = false)); [exact Hev|exact Hnows|exact Hdw]).
    destruct (ev ++ delim :: t) as [|q t'] eqn:E; [destruct ev; discriminate|].
    assert (Hqq : Byte.eqb q quote = false).
    { assert (Hh : match ev ++ delim :: t with c :: _ => c <> quote | [] => True end).
      { apply (head_class_or_rest class ev (delim :: t) (fun c => c <> quote)); [exact Hev| |exact Hdq].
        intros c Hc Heqc. subst c. congruence. }
      rewrite E in Hh. now apply byte_neq_eqb. }
    unfold quote in Hqq. rewrite Hqq. rewrite <- E.
    rewrite take_while_app; [|exact Hev|exact Hdc].
    subst en ev. now rewrite !decode_encode by exact Hpct.
  - rewrite app_nil_r.
    rewrite skip_ws_nows by (apply (head_class_or_rest class en _ (fun c => is_ws c = false)); [exact Hen|exact Hnows|exact Hdw]).
    rewrite take_while_app; [|exact Hen|exact Hdc].
    rewrite skip_ws_nows by exact Hdw.
    subst en. rewrite decode_encode by exact Hpct. now rewrite (byte_neq_eqb _ _ Hde).
Qed.

(* Params::parse (Display for Params) = the list, for every list of names and values *)
Lemma parse_print_params class keep first delim ps rest :
  class_ok class keep first delim -> rest_ok class delim rest ->
  match rest with c :: _ => c <> first | [] => True end ->
  parse_params class first delim (print_params keep first delim ps ++ rest) = (ps, rest).
Proof.
  intros Hok Hrest Hrf. pose proof (ok_first _ _ _ _ Hok) as (Hfc & Hfw & Hfe & Hfq).
  unfold parse_params, print_params. destruct ps as [|p r]; cbn [print_params_from app].
  - destruct rest as [|c t]; [reflexivity|]. destruct Hrest as (_ & Hws & _). rewrite skip_ws_nows by exact Hws.
    now rewrite (byte_neq_eqb _ _ Hrf).
  - rewrite skip_ws_nows by exact Hfw. rewrite byte_eqb_refl. rewrite <- app_assoc.
    destruct r as [|p2 r2].
    + cbn [print_params_from app]. rewrite (parse_print_param class keep first delim p rest Hok Hrest).
      rewrite (parse_params_rest_print class keep first delim [] _ rest Hok Hrest) by (cbn; lia). reflexivity.
    + cbn [print_params_from]. cbn [app].
      rewrite (parse_print_param_delim class keep first delim p _ Hok).
      change (delim :: (print_param keep p2 ++ print_params_from keep first delim false r2) ++ rest)
        with (print_params_from keep first delim false (p2 :: r2) ++ rest).
      rewrite (parse_params_rest_print class keep first delim (p2 :: r2)); [reflexivity|exact Hok|exact Hrest|].
      cbn [length print_params_from]. rewrite !app_length. cbn [length]. 
      assert (Hl : forall l, length l <= length (print_params_from keep first delim false l)).
      { induction l as [|x l IHl]; [cbn; lia|]. cbn [print_params_from]. cbn [length]. rewrite app_length. lia. }
      specialize (Hl r2). rewrite app_length. lia.
Qed.

(* ---------- the generated classes satisfy what the printer needs ---------- *)
Lemma forallb_mem_spec (P : byte -> bool) l : forallb P l = true -> forall c, mem c l = true -> P c = true.
Proof.
  intros H c Hc. unfold mem in Hc. apply existsb_exists in Hc. destruct Hc as (x & Hx & Hcx). apply byte_eqb_eq in Hcx. subst x.
  rewrite forallb_forall in H. now apply H.
Qed.

Lemma class_ok_of class first delim :
  sip_encode_set_has_percent = true ->
  mem pct class = true -> forallb (fun h => mem h class) [ "0"; "1"; "2"; "3"; "4"; "5"; "6"; "7"; "8"; "9"; "A"; "B"; "C"; "D"; "E"; "F" ]%byte = true ->
  forallb (fun c => negb (is_ws c)) class = true ->
  mem eqs class = false -> mem quote class = false ->
  mem first class = false -> is_ws first = false -> first <> eqs -> first <> quote ->
  mem delim class = false -> is_ws delim = false -> delim <> eqs -> delim <> quote ->
  class_ok class (keep_of class) first delim.
Proof.
  intros Hp Hpc Hhex Hws He Hq Hf1 Hf2 Hf3 Hf4 Hd1 Hd2 Hd3 Hd4.
  refine (mk_class_ok class (keep_of class) first delim _ _ _ _ He Hq (conj Hf1 (conj Hf2 (conj Hf3 Hf4))) (conj Hd1 (conj Hd2 (conj Hd3 Hd4)))).
  - apply keep_of_in_class.
  - now apply keep_of_pct.
  - intros s. apply encode_in_class; [apply keep_of_in_class|exact Hpc|].
    intros x Hx. pose proof (hexd_cases x Hx) as Hin. rewrite forallb_forall in Hhex. now apply Hhex.
  - intros c Hc. pose proof (forallb_mem_spec _ _ Hws c Hc) as H. cbv beta in H. destruct (is_ws c); [cbn in H; discriminate H|reflexivity].
Qed.

Lemma param_class_ok : class_ok sip_param_class param_keep semi semi.
Proof. apply class_ok_of; try reflexivity; try discriminate. Qed.

Lemma header_class_ok : class_ok sip_header_class header_keep qmark amp.
Proof. apply class_ok_of; try reflexivity; try discriminate. Qed.

Lemma user_keep_facts :
  user_keep pct = false /\ (forall s, forallb (cls sip_user_class) (pct_encode user_keep s) = true) /\
  cls sip_user_class at_ = false /\ cls sip_user_class colon = false /\ cls sip_password_class at_ = false.
Proof.
  split; [apply keep_of_pct; reflexivity|]. split; [|repeat split; reflexivity].
  intros s. apply encode_in_class; [apply keep_of_in_class|reflexivity|].
  intros x Hx. pose proof (hexd_cases x Hx) as Hin.
  assert (Hhex : forallb (fun h => mem h sip_user_class) [ "0"; "1"; "2"; "3"; "4"; "5"; "6"; "7"; "8"; "9"; "A"; "B"; "C"; "D"; "E"; "F" ]%byte = true) by reflexivity.
  rewrite forallb_forall in Hhex. now apply Hhex.
Qed.

(* ---------- the SIP URI, default print context ---------- *)
Lemma strip_prefix_nocase_app pre r : strip_prefix_nocase pre (pre ++ r) = Some r.
Proof.
  induction pre as [|p pre IH]; [reflexivity|]. cbn [app strip_prefix_nocase].
  unfold eqb_nocase. now rewrite byte_eqb_refl.
Qed.

Lemma parse_scheme_print (sips : bool) (r : bytes) : parse_scheme ((if sips then t_sips else t_sip) ++ r) = Some (sips, r).
Proof.
  unfold parse_scheme. destruct sips.
  - replace (strip_prefix_nocase t_sip (t_sips ++ r)) with (@None bytes) by reflexivity. now rewrite strip_prefix_nocase_app.
  - now rewrite strip_prefix_nocase_app.
Qed.

Definition no_at (s : bytes) : Prop := forallb (fun c => negb (Byte.eqb c at_)) s = true.

Lemma no_at_app a b : no_at a -> no_at b -> no_at (a ++ b).
Proof. unfold no_at. intros Ha Hb. now rewrite forallb_app, Ha, Hb. Qed.

Lemma no_at_suffix a b : no_at (a ++ b) -> no_at b.
Proof. unfold no_at. rewrite forallb_app. intros H. now apply andb_prop in H as [_ H]. Qed.

(* without '@' anywhere there is no user part *)
Lemma parse_user_pw_none t : no_at t -> parse_user_pw t = (None, t).
Proof.
  intros Hno. unfold parse_user_pw.
  destruct (take_while (fun c => mem c sip_user_class) t) as [usr r1] eqn:E1.
  apply take_while_spec in E1. destruct E1 as (Ht & _ & _).
  assert (Hr1 : no_at r1) by (rewrite Ht in Hno; now apply no_at_suffix in Hno).
  assert (Hend : forall r2, no_at r2 -> match r2 with c :: r3 => if Byte.eqb c at_ then (Some (usr, @None bytes), r3) else (None, t) | [] => (None, t) end = (None, t)).
  { intros r2 H2. destruct r2 as [|c r3]; [reflexivity|]. unfold no_at in H2. cbn [forallb] in H2. apply andb_prop in H2 as [Hc _].
    now destruct (Byte.eqb c at_). }
  destruct r1 as [|c r].
  - reflexivity.
  - destruct (Byte.eqb c colon) eqn:Ec.
    + destruct (take_while (fun c0 => mem c0 sip_password_class) r) as [p r'] eqn:E2.
      apply take_while_spec in E2. destruct E2 as (Hr & _ & _).
      assert (Hr' : no_at r').
      { unfold no_at in Hr1. cbn [forallb] in Hr1. apply andb_prop in Hr1 as [_ Hr1]. rewrite Hr in Hr1. now apply no_at_suffix in Hr1. }
      destruct r' as [|c' r3]; [reflexivity|]. unfold no_at in Hr'. cbn [forallb] in Hr'. apply andb_prop in Hr' as [Hc' _].
      now destruct (Byte.eqb c' at_).
    + unfold no_at in Hr1. cbn [forallb] in Hr1. apply andb_prop in Hr1 as [Hc _]. now destruct (Byte.eqb c at_).
Qed.

(* with a user part: the escaped user, an optional password from the password class, then '@' *)
Lemma parse_user_pw_some usr pw rest :
  (match pw with Some p => forallb (cls sip_password_class) p = true | None => True end) ->
  parse_user_pw (pct_encode user_keep usr ++ (match pw with Some p => colon :: p | None => [] end) ++ at_ :: rest) =
  (Some (pct_encode user_keep usr, pw), rest).
Proof.
  intros Hpw. destruct user_keep_facts as (_ & Henc & Hat & Hcol & Hpat).
  unfold parse_user_pw. change (fun c => mem c sip_user_class) with (cls sip_user_class).
  change (fun c => mem c sip_password_class) with (cls sip_password_class).
  destruct pw as [p|].
  - cbn [app]. rewrite take_while_app; [|apply Henc|exact Hcol]. rewrite byte_eqb_refl.
    rewrite take_while_app; [|exact Hpw|exact Hpat]. now rewrite byte_eqb_refl.
  - cbn [app]. rewrite take_while_app; [|apply Henc|exact Hat].
    replace (Byte.eqb at_ colon) with false by reflexivity. now rewrite byte_eqb_refl.
Qed.

(* every byte of a printed parameter list is a class byte, a delimiter or '=' : in particular never '@' *)
Lemma print_param_no_at class keep first delim p :
  class_ok class keep first delim -> cls class at_ = false -> no_at (print_param keep p).
Proof.
  intros Hok Hat. unfold print_param.
  assert (Henc : forall s, no_at (pct_encode keep s)).
  { intros s. pose proof (ok_enc _ _ _ _ Hok s) as H. unfold no_at. induction (pct_encode keep s) as [|c r IH]; [reflexivity|].
    cbn [forallb] in *. apply andb_prop in H as [Hc Hr]. rewrite IH by exact Hr.
    destruct (Byte.eqb c at_) eqn:E; [apply byte_eqb_eq in E; subst; congruence|reflexivity]. }
  apply no_at_app; [apply Henc|]. destruct (pm_value p); [|reflexivity].
  unfold no_at. cbn [forallb]. replace (Byte.eqb eqs at_) with false by reflexivity. apply Henc.
Qed.

Lemma print_params_no_at class keep first delim ps : forall b,
  class_ok class keep first delim -> cls class at_ = false -> first <> at_ -> delim <> at_ ->
  no_at (print_params_from keep first delim b ps).
Proof.
  induction ps as [|p r IH]; intros b Hok Hat Hf Hd; [reflexivity|]. cbn [print_params_from].
  unfold no_at. cbn [forallb]. replace (Byte.eqb (if b then first else delim) at_) with false by (destruct b; symmetry; now apply byte_neq_eqb).
  cbn [negb andb]. apply no_at_app; [now apply (print_param_no_at class keep first delim)|now apply IH].
Qed.

Lemma firstn_app_exact_c01 {A} (l r : list A) : firstn (length l) (l ++ r) = l.
Proof. rewrite firstn_app, Nat.sub_diag, firstn_all. cbn. now rewrite app_nil_r. Qed.

Lemma skipn_app_exact_c01 {A} (l r : list A) : skipn (length l) (l ++ r) = r.
Proof. rewrite skipn_app, Nat.sub_diag, skipn_all. reflexivity. Qed.

Definition uri_wf (u : uri) : Prop :=
  (match u_port u with Some p => (p <= u16max)%N | None => True end) /\
  (match u_pw u with Some p => u_user u <> None /\ forallb (cls sip_password_class) p = true | None => True end) /\
  no_at (u_host u).

Section Uri.
  Variable host_len : bytes -> option nat.

  (* Host::parse recognises the printed host in front of a port, a parameter list, a header list or the end *)
  Definition host_ok (u : uri) : Prop :=
    forall tail, (match tail with c :: _ => c = colon \/ c = semi \/ c = qmark | [] => True end) ->
    host_len (u_host u ++ tail) = Some (length (u_host u)).

  Lemma print_dec_no_at n : no_at (print_dec n).
  Proof.
    pose proof (print_dec_digits n) as H. unfold no_at. induction (print_dec n) as [|c r IH]; [reflexivity|].
    cbn [forallb] in *. apply andb_prop in H as [Hc Hr]. rewrite IH by exact Hr.
    destruct (Byte.eqb c at_) eqn:E; [apply byte_eqb_eq in E; subst; discriminate|reflexivity].
  Qed.

  (* SipUri::parse (print u) = u : user names, parameter and header names and values over ALL byte strings *)
  Lemma parse_print_uri u : uri_wf u -> host_ok u -> parse_uri host_len (print_uri_all u) = Some (u, []).
  Proof.
    intros (Hport & Hpw & Hhost) Hh. unfold print_uri_all, parse_uri. rewrite parse_scheme_print.
    set (ptxt := match u_port u with Some p => colon :: print_dec p | None => [] end).
    set (pstxt := print_params param_keep semi semi (u_params u)).
    set (hstxt := print_params header_keep qmark amp (u_headers u)).
    assert (Hps_no : no_at pstxt) by (apply (print_params_no_at sip_param_class param_keep semi semi); [apply param_class_ok|reflexivity|discriminate|discriminate]).
    assert (Hhs_no : no_at hstxt) by (apply (print_params_no_at sip_header_class header_keep qmark amp); [apply header_class_ok|reflexivity|discriminate|discriminate]).
    assert (Hpt_no : no_at ptxt).
    { subst ptxt. destruct (u_port u); [|reflexivity]. unfold no_at. cbn [forallb]. replace (Byte.eqb colon at_) with false by reflexivity. apply print_dec_no_at. }
    set (tail := ptxt ++ pstxt ++ hstxt).
    assert (Htail_head : match tail with c :: _ => c = colon \/ c = semi \/ c = qmark | [] => True end).
    { subst tail ptxt pstxt hstxt. destruct (u_port u); [now left|]. cbn [app]. unfold print_params.
      destruct (u_params u); cbn [print_params_from app]; [|now right; left].
      destruct (u_headers u); cbn [print_params_from]; [exact I|now right; right]. }
    (* the part after the user *)
    assert (Hafter : forall up,
      (let '(up', r1) := (up, u_host u ++ tail) in
       match host_len r1 with
       | None => None
       | Some n =>
         let host := firstn n r1 in
         let r2 := skipn n r1 in
         let port_res := match r2 with
                         | c :: r => if Byte.eqb c colon then let '(d, r') := take_while is_digit r in
                                       match parse_uint u16max d with Some p => Some (Some p, r') | None => None end
                                     else Some (None, r2)
                         | [] => Some (None, r2)
                         end in
         match port_res with
         | None => None
         | Some (port, r3) =>
           let '(ps, r4) := parse_params sip_param_class semi semi r3 in
           let '(hs, r5) := parse_params sip_header_class qmark amp r4 in
           Some (mkuri (u_sips u) (match up' with Some (x, _) => Some (pct_decode x) | None => None end)
                       (match up' with Some (_, pw) => pw | None => None end) host port ps hs, r5)
         end
       end) =
      Some (mkuri (u_sips u) (match up with Some (x, _) => Some (pct_decode x) | None => None end)
                  (match up with Some (_, pw) => pw | None => None end) (u_host u) (u_port u) (u_params u) (u_headers u), [])).
    { intros up. cbv zeta. rewrite (Hh tail Htail_head). rewrite firstn_app_exact_c01, skipn_app_exact_c01.
      assert (Hport_parse : match tail with
                            | c :: r => if Byte.eqb c colon then let '(d, r') := take_while is_digit r in
                                          match parse_uint u16max d with Some p => Some (Some p, r') | None => None end
                                        else Some (None, tail)
                            | [] => Some (None, tail)
                            end = Some (u_port u, pstxt ++ hstxt)).
      { subst tail ptxt. destruct (u_port u) as [p|].
        - cbn [app]. rewrite byte_eqb_refl.
          assert (Hstop : stops is_digit (pstxt ++ hstxt)).
          { subst pstxt hstxt. unfold print_params. destruct (u_params u); cbn [print_params_from app]; [|reflexivity].
            destruct (u_headers u); cbn [print_params_from]; [exact I|reflexivity]. }
          rewrite take_while_app; [|apply print_dec_digits|exact Hstop]. now rewrite parse_print_dec.
        - cbn [app]. subst pstxt hstxt. unfold print_params.
          destruct (u_params u); cbn [print_params_from app]; [|reflexivity].
          destruct (u_headers u); cbn [print_params_from]; reflexivity. }
      rewrite Hport_parse.
      assert (Hrest_h : rest_ok sip_param_class semi hstxt /\ match hstxt with c :: _ => c <> semi | [] => True end).
      { subst hstxt. unfold print_params. destruct (u_headers u); cbn [print_params_from]; [split; exact I|].
        split; [repeat split; try reflexivity; discriminate|discriminate]. }
      destruct Hrest_h as [Hr1 Hr2]. subst pstxt.
      rewrite (parse_print_params sip_param_class param_keep semi semi (u_params u) hstxt param_class_ok Hr1 Hr2).
      subst hstxt. rewrite <- (app_nil_r (print_params header_keep qmark amp (u_headers u))).
      rewrite (parse_print_params sip_header_class header_keep qmark amp (u_headers u) [] header_class_ok I I).
      reflexivity. }
    destruct (u_user u) as [usr|] eqn:Eu.
    - rewrite <- !app_assoc. cbn [app].
      assert (Hpwok : match u_pw u with Some p => forallb (cls sip_password_class) p = true | None => True end).
      { destruct (u_pw u); [apply Hpw|exact I]. }
      change (ptxt ++ pstxt ++ hstxt) with tail.
      pose proof (parse_user_pw_some usr (u_pw u) (u_host u ++ tail) Hpwok) as Hup.
      destruct user_keep_facts as (Hk & _).
      destruct (u_pw u) as [pw|] eqn:Epw.
      + cbn [app] in Hup |- *. rewrite Hup.
        specialize (Hafter (Some (pct_encode user_keep usr, Some pw))). cbv zeta in Hafter. cbv zeta. rewrite Hafter.
        rewrite decode_encode by exact Hk. destruct u. cbn in *. now subst.
      + cbn [app] in Hup |- *. rewrite Hup.
        specialize (Hafter (Some (pct_encode user_keep usr, None))). cbv zeta in Hafter. cbv zeta. rewrite Hafter.
        rewrite decode_encode by exact Hk. destruct u. cbn in *. now subst.
    - cbn [app].
      change (u_host u ++ ptxt ++ pstxt ++ hstxt) with (u_host u ++ tail).
      rewrite parse_user_pw_none by (apply no_at_app; [exact Hhost|subst tail; repeat apply no_at_app; assumption]).
      specialize (Hafter None). cbv zeta in Hafter. cbv zeta. rewrite Hafter.
      assert (Hnopw : u_pw u = None). { destruct (u_pw u) eqn:E; [|reflexivity]. destruct Hpw as [Hne _]. congruence. }
      destruct u. cbn in *. now subst.
  Qed.
End Uri.
