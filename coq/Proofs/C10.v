(* Proofs/C10.v -- lemmas about Model/C10.v *)
From Coq Require Import List Arith NArith Lia Bool Permutation.
From EZK Require Import Gen.Tables Lib.Bytes Lib.ListX Model.C10.
Import ListNotations.
Open Scope N_scope.
Arguments N.add : simpl never.
Arguments N.ltb : simpl never.
Arguments N.eqb : simpl never.
Arguments N.compare : simpl never.

(* [Nseq s k] = [s; s+1; ...; s+k-1] *)
Fixpoint Nseq (s : N) (k : nat) : list N :=
  match k with O => [] | S k' => s :: Nseq (s + 1) k' end.

Lemma Nseq_length s k : length (Nseq s k) = k.
Proof. revert s; induction k; simpl; auto. Qed.

Lemma in_Nseq s k x : In x (Nseq s k) <-> s <= x < s + N.of_nat k.
Proof.
  revert s; induction k as [|k IH]; intros s; simpl.
  - lia.
  - rewrite IH. lia.
Qed.

Lemma Nseq_NoDup s k : NoDup (Nseq s k).
Proof.
  revert s; induction k as [|k IH]; intros s; simpl; constructor.
  - rewrite in_Nseq. lia.
  - apply IH.
Qed.

Lemma Nseq_app s a b : Nseq s (a + b) = Nseq s a ++ Nseq (s + N.of_nat a) b.
Proof.
  revert s; induction a as [|a IH]; intros s; simpl.
  - f_equal. lia.
  - f_equal. rewrite IH. f_equal. f_equal. lia.
Qed.

(* ---------- backlog map ---------- *)
Definition keys (bl : blog) := map fst bl.

Lemma bl_lookup_None k bl : bl_lookup k bl = None <-> ~ In k (keys bl).
Proof.
  induction bl as [|[k' v] r IH]; simpl; [tauto|].
  destruct (N.eqb_spec k' k); subst.
  - split; [discriminate|]. intros H. exfalso. apply H. now left.
  - rewrite IH. tauto.
Qed.

Lemma bl_remove_notin k bl : ~ In k (keys bl) -> bl_remove k bl = bl.
Proof.
  induction bl as [|[k' v] r IH]; simpl; intros H; [reflexivity|].
  destruct (N.eqb_spec k' k); subst; [tauto|]. f_equal. apply IH. tauto.
Qed.

Lemma bl_remove_perm k v bl :
  NoDup (keys bl) -> bl_lookup k bl = Some v -> Permutation bl ((k, v) :: bl_remove k bl).
Proof.
  induction bl as [|[k' v'] r IH]; simpl; intros Hnd H; [discriminate|].
  inversion Hnd as [|? ? Hni Hnd']; subst.
  destruct (N.eqb_spec k' k); subst.
  - inversion H; subst. rewrite bl_remove_notin by assumption. reflexivity.
  - rewrite perm_swap. constructor. now apply IH.
Qed.

Lemma bl_remove_length k v bl :
  NoDup (keys bl) -> bl_lookup k bl = Some v -> length bl = S (length (bl_remove k bl)).
Proof. intros Hnd H. apply (Permutation_length (bl_remove_perm k v bl Hnd H)). Qed.

Lemma bl_remove_keys_incl k bl x : In x (keys (bl_remove k bl)) -> In x (keys bl) /\ x <> k.
Proof.
  induction bl as [|[k' v'] r IH]; simpl; [tauto|].
  destruct (N.eqb_spec k' k); subst; simpl.
  - intros H. apply IH in H. tauto.
  - intros [->|H]; [tauto|]. apply IH in H. tauto.
Qed.

Lemma bl_remove_NoDup k bl : NoDup (keys bl) -> NoDup (keys (bl_remove k bl)).
Proof.
  induction bl as [|[k' v'] r IH]; simpl; intros Hnd; [constructor|].
  inversion Hnd; subst.
  destruct (N.eqb_spec k' k); subst; simpl; [auto|].
  constructor; [|auto]. intros Hin. apply bl_remove_keys_incl in Hin. tauto.
Qed.

Lemma bl_insert_NoDup k v bl : NoDup (keys bl) -> NoDup (keys (bl_insert k v bl)).
Proof.
  intros H. unfold bl_insert. simpl. constructor.
  - intros Hin. apply bl_remove_keys_incl in Hin. tauto.
  - now apply bl_remove_NoDup.
Qed.

(* ---------- drain ---------- *)
(* With fuel exceeding the backlog length the loop stops because a key is missing or the
   u32 limit is reached -- never because the fuel ran out -- and it removes exactly a run of
   consecutive keys. *)
Lemma drain_spec fuel : forall last bl,
  NoDup (keys bl) -> (length bl < fuel)%nat ->
  exists r d bl',
    drain fuel last bl = (d, last + N.of_nat r, bl') /\
    map fst d = Nseq (last + 1) r /\
    Permutation bl (d ++ bl') /\
    last + N.of_nat r <= N.max last u32max /\
    (last + N.of_nat r < u32max -> ~ In (last + N.of_nat r + 1) (keys bl')).
Proof.
  induction fuel as [|f IH]; intros last bl Hnd Hlen; [lia|].
  simpl. destruct (N.ltb_spec last u32max) as [Hlt|Hge].
  - destruct (bl_lookup (last + 1) bl) as [id|] eqn:Hl.
    + pose proof (bl_remove_length _ _ _ Hnd Hl) as Hlen'.
      destruct (IH (last + 1) (bl_remove (last + 1) bl)) as (r & d & bl' & Hd & Hk & Hp & Hb & Hn);
        [now apply bl_remove_NoDup | lia |].
      exists (S r), ((last + 1, id) :: d), bl'. rewrite Hd.
      replace (last + 1 + N.of_nat r) with (last + N.of_nat (S r)) in * by lia.
      repeat split.
      * simpl. now rewrite Hk.
      * rewrite (bl_remove_perm _ _ _ Hnd Hl). simpl. now constructor.
      * lia.
      * exact Hn.
    + exists 0%nat, [], bl. replace (last + N.of_nat 0) with last by lia.
      repeat split; auto; [lia|]. intros _. now apply bl_lookup_None.
  - exists 0%nat, [], bl. replace (last + N.of_nat 0) with last by lia.
    repeat split; auto; lia.
Qed.

(* ---------- run ---------- *)
Definition pair_of (r : req) : N * N := (r_cseq r, r_id r).

Definition runf (st : dstate) (out : list (N * N)) (rs : list req) :=
  fold_left (fun '(s, o) r => let '(s', d) := step s r in (s', o ++ d)) rs (st, out).

Lemma runf_cons st out r rs :
  runf st out (r :: rs) = runf (fst (step st r)) (out ++ snd (step st r)) rs.
Proof. unfold runf. simpl. now destruct (step st r). Qed.

Lemma run_runf st rs : run st rs = runf st [] rs.
Proof. reflexivity. Qed.

Lemma step_gt m bl r : m < r_cseq r ->
  step (mkd (Some m) bl) r = (mkd (Some m) (bl_insert (r_cseq r) (r_id r) bl), []).
Proof.
  intros H. unfold step; cbn [next backlog].
  destruct (N.compare_spec (r_cseq r) m); try lia. reflexivity.
Qed.

Lemma step_lt m bl r : r_cseq r < m ->
  step (mkd (Some m) bl) r = (mkd (Some m) bl, [pair_of r]).
Proof.
  intros H. unfold step; cbn [next backlog].
  destruct (N.compare_spec (r_cseq r) m); try lia. reflexivity.
Qed.

Lemma step_eq m bl r d last bl' : r_cseq r = m ->
  drain (S (length bl)) m bl = (d, last, bl') ->
  step (mkd (Some m) bl) r = (mkd (Some (sat_succ last)) bl', pair_of r :: d).
Proof.
  intros Hc Hd. unfold step; cbn [next backlog]. rewrite Hc, N.compare_refl, Hd. unfold pair_of. now rewrite Hc.
Qed.

(* the expected number after having delivered everything up to and including [last] *)
Definition next_after (m : N) (j : nat) : N :=
  match j with O => m | S _ => sat_succ (m + N.of_nat j - 1) end.

(* Invariant: the CSeq numbers still to arrive together with those parked in the backlog are
   exactly m, m+1, ..., m+j-1 (each once), and m itself is not parked. *)
Lemma runf_inv : forall rs m bl out j,
  Permutation (map r_cseq rs ++ keys bl) (Nseq m j) ->
  ~ In m (keys bl) ->
  m + N.of_nat j <= u32max + 1 ->
  exists d,
    runf (mkd (Some m) bl) out rs = (mkd (Some (next_after m j)) [], out ++ d) /\
    map fst d = Nseq m j /\
    Permutation d (map pair_of rs ++ bl).
Proof.
  induction rs as [|r rs IH]; intros m bl out j Hp Hm Hb.
  - simpl in Hp. destruct j as [|j].
    + simpl in Hp. assert (bl = []) as ->.
      { destruct bl; [reflexivity|]. symmetry in Hp. apply Permutation_nil in Hp. discriminate. }
      exists []. unfold runf; simpl. rewrite app_nil_r. auto.
    + exfalso. apply Hm. eapply Permutation_in; [symmetry; exact Hp|]. simpl. now left.
  - assert (Hnd : NoDup (map r_cseq (r :: rs) ++ keys bl)).
    { eapply Permutation_NoDup; [symmetry; exact Hp|apply Nseq_NoDup]. }
    assert (Hc : In (r_cseq r) (Nseq m j)) by (eapply Permutation_in; [exact Hp|]; simpl; now left).
    apply in_Nseq in Hc.
    assert (Hndbl : NoDup (keys bl)) by (apply NoDup_app_remove_l in Hnd; exact Hnd).
    rewrite runf_cons.
    destruct (N.eq_dec (r_cseq r) m) as [Heq|Hne].
    + (* the expected number: deliver it and drain the backlog *)
      destruct (drain_spec (S (length bl)) m bl Hndbl (Nat.lt_succ_diag_r _))
        as (q & d & bl' & Hd & Hk & Hpb & Hbound & Hn).
      rewrite (step_eq _ _ _ _ _ _ Heq Hd). cbn [fst snd].
      destruct j as [|j]; [lia|].
      (* the drained run is inside m+1 .. m+j *)
      assert (Hpool : Permutation (Nseq (m + 1) q ++ (map r_cseq rs ++ keys bl')) (Nseq (m + 1) j)).
      { simpl in Hp. rewrite Heq in Hp. apply Permutation_cons_inv in Hp.
        rewrite <- Hp. unfold keys at 2. rewrite Hpb. rewrite map_app, Hk.
        rewrite !app_assoc. apply Permutation_app_tail. apply Permutation_app_comm. }
      assert (Hqj : (q <= j)%nat).
      { destruct q as [|q]; [lia|].
        assert (Hin : In (m + 1 + N.of_nat q) (Nseq (m + 1) j)).
        { eapply Permutation_in; [exact Hpool|]. apply in_or_app. left. apply in_Nseq. lia. }
        apply in_Nseq in Hin. lia. }
      assert (Hrem : Permutation (map r_cseq rs ++ keys bl') (Nseq (m + 1 + N.of_nat q) (j - q))).
      { replace (Nseq (m + 1) j) with (Nseq (m + 1) (q + (j - q))) in Hpool by (f_equal; lia). rewrite Nseq_app in Hpool.
        now apply Permutation_app_inv_l in Hpool. }
      assert (Hltmax : m + N.of_nat q < u32max \/ j = q).
      { destruct (Nat.eq_dec j q); [now right|left]. lia. }
      assert (Hnext : sat_succ (m + N.of_nat q) = m + 1 + N.of_nat q \/ j = q).
      { destruct Hltmax as [H|H]; [left|now right]. unfold sat_succ.
        destruct (N.ltb_spec (m + N.of_nat q) u32max); lia. }
      destruct (Nat.eq_dec j q) as [->|Hjq].
      * (* everything was delivered by this step *)
        rewrite Nat.sub_diag in Hrem. simpl in Hrem.
        assert (rs = []) as ->.
        { destruct rs; [reflexivity|]. symmetry in Hrem. apply Permutation_nil in Hrem. discriminate. }
        assert (bl' = []) as ->.
        { destruct bl'; [reflexivity|]. symmetry in Hrem. apply Permutation_nil in Hrem. discriminate. }
        exists (pair_of r :: d). unfold runf; cbn [fold_left]. repeat split.
        -- unfold next_after. do 4 f_equal. lia.
        -- unfold pair_of at 1. simpl. rewrite Heq, Hk. reflexivity.
        -- rewrite app_nil_r in Hpb. now rewrite Hpb.
      * destruct Hnext as [Hnext|]; [|lia].
        rewrite Hnext.
        destruct (IH (m + 1 + N.of_nat q) bl' (out ++ pair_of r :: d) (j - q)%nat Hrem) as (d' & Hrun & Hk' & Hp').
        -- replace (m + 1 + N.of_nat q) with (m + N.of_nat q + 1) by lia. apply Hn. lia.
        -- lia.
        -- exists ((pair_of r :: d) ++ d'). rewrite Hrun. repeat split.
           ++ f_equal; [|now rewrite <- app_assoc]. do 2 f_equal.
              unfold next_after. destruct (j - q)%nat eqn:E; [lia|]. f_equal. lia.
           ++ rewrite map_app, Hk'. unfold pair_of at 1. simpl. rewrite Heq, Hk.
              simpl. f_equal.
              replace (Nseq (m + 1) j) with (Nseq (m + 1) (q + (j - q))) by (f_equal; lia).
              now rewrite Nseq_app.
           ++ simpl. rewrite Hp'. rewrite Hpb.
              constructor. rewrite !app_assoc. apply Permutation_app_tail. apply Permutation_app_comm.
    + (* ahead of a gap: park it *)
      rewrite step_gt by lia. cbn [fst snd]. rewrite app_nil_r.
      assert (Hnotin : ~ In (r_cseq r) (keys bl)).
      { simpl in Hnd. inversion Hnd as [|? ? Hni _]; subst. intros Hin. apply Hni. apply in_or_app. now right. }
      destruct (IH m (bl_insert (r_cseq r) (r_id r) bl) out j) as (d & Hrun & Hk & Hpd).
      * unfold bl_insert. rewrite bl_remove_notin by assumption. simpl.
        rewrite <- Hp. simpl. symmetry. apply Permutation_middle.
      * unfold bl_insert. rewrite bl_remove_notin by assumption. simpl. intros [E|Hin]; [lia|tauto].
      * exact Hb.
      * exists d. rewrite Hrun. repeat split; auto.
        rewrite Hpd. unfold bl_insert. rewrite bl_remove_notin by assumption.
        simpl. symmetry. apply Permutation_middle.
Qed.

(* ---------- the property's ordering clause ---------- *)
Lemma in_order_once n k rs :
  n + N.of_nat k <= u32max ->
  Permutation (map r_cseq rs) (Nseq (n + 1) k) ->
  exists d,
    run (entry_new (Some n)) rs = (mkd (Some (sat_succ (n + N.of_nat k))) [], d) /\
    map fst d = Nseq (n + 1) k /\
    Permutation d (map pair_of rs).
Proof.
  intros Hb Hp. rewrite run_runf. unfold entry_new. simpl option_map.
  destruct k as [|k].
  - simpl in Hp. symmetry in Hp. apply Permutation_nil in Hp. apply map_eq_nil in Hp. subst.
    exists []. unfold runf. simpl. rewrite N.add_0_r. repeat split; auto.
  - assert (Hs : sat_succ n = n + 1).
    { unfold sat_succ. destruct (N.ltb_spec n u32max); lia. }
    rewrite Hs.
    destruct (runf_inv rs (n + 1) [] [] (S k)) as (d & Hrun & Hk & Hpd).
    + simpl keys. now rewrite app_nil_r.
    + simpl. tauto.
    + lia.
    + exists d. rewrite Hrun. simpl app. rewrite app_nil_r in Hpd. repeat split; auto.
      do 3 f_equal. unfold next_after. f_equal. lia.
Qed.

(* UAC-created dialog: no peer CSeq is known, the first request defines the base *)
Lemma uac_first_defines_base b k r rs :
  r_cseq r = b ->
  b + N.of_nat k <= u32max ->
  Permutation (map r_cseq rs) (Nseq (b + 1) k) ->
  exists d,
    run (entry_new None) (r :: rs) = (mkd (Some (sat_succ (b + N.of_nat k))) [], pair_of r :: d) /\
    map fst d = Nseq (b + 1) k /\
    Permutation d (map pair_of rs).
Proof.
  intros Hc Hb Hp. rewrite run_runf, runf_cons. unfold entry_new. simpl option_map.
  assert (Hstep : step (mkd None []) r = (mkd (Some (sat_succ b)) [], [pair_of r])).
  { unfold step; cbn [next backlog]. rewrite N.compare_refl. cbn [drain length bl_lookup].
    destruct (r_cseq r <? u32max); unfold pair_of; now rewrite Hc. }
  rewrite Hstep. cbn [fst snd app].
  destruct k as [|k].
  - simpl in Hp. symmetry in Hp. apply Permutation_nil in Hp. apply map_eq_nil in Hp. subst rs.
    exists []. unfold runf. simpl. rewrite N.add_0_r. repeat split; auto.
  - assert (Hs : sat_succ b = b + 1).
    { unfold sat_succ. destruct (N.ltb_spec b u32max); lia. }
    rewrite Hs.
    destruct (runf_inv rs (b + 1) [] [pair_of r] (S k)) as (d & Hrun & Hk & Hpd).
    + simpl keys. now rewrite app_nil_r.
    + simpl. tauto.
    + lia.
    + exists d. rewrite Hrun. rewrite app_nil_r in Hpd. repeat split; auto.
      do 3 f_equal. unfold next_after. f_equal. lia.
Qed.

(* a request ahead of a gap is held: nothing is delivered until the gap is filled *)
Lemma gap_held m bl r : m < r_cseq r ->
  snd (step (mkd (Some m) bl) r) = [] /\
  bl_lookup (r_cseq r) (backlog (fst (step (mkd (Some m) bl) r))) = Some (r_id r).
Proof.
  intros H. rewrite step_gt by assumption. cbn [fst snd backlog]. split; [reflexivity|].
  unfold bl_insert. simpl. now rewrite N.eqb_refl.
Qed.

(* no step panics or wraps: the expected number never exceeds u32::MAX *)
Definition st_ok (st : dstate) : Prop :=
  (match next st with Some n => n <= u32max | None => True end) /\
  (forall k, In k (keys (backlog st)) -> k <= u32max) /\ NoDup (keys (backlog st)).

Lemma step_limit st r : st_ok st -> r_cseq r <= u32max -> st_ok (fst (step st r)).
Proof.
  intros (Hn & Hk & Hnd) Hr. unfold step.
  set (nx := match next st with Some n => n | None => r_cseq r end).
  assert (Hnx : nx <= u32max) by (unfold nx; destruct (next st); auto).
  destruct (N.compare_spec (r_cseq r) nx) as [E|L|G]; cbn [fst].
  - destruct (drain_spec (S (length (backlog st))) (r_cseq r) (backlog st) Hnd (Nat.lt_succ_diag_r _))
      as (q & d & bl' & Hd & Hkk & Hp & Hb & _).
    rewrite Hd. cbn [fst]. unfold st_ok; cbn [next backlog]. repeat split.
    + unfold sat_succ. destruct (N.ltb_spec (r_cseq r + N.of_nat q) u32max); lia.
    + intros k Hin. apply Hk. unfold keys. eapply Permutation_in.
      * symmetry. apply Permutation_map. exact Hp.
      * rewrite map_app. apply in_or_app. now right.
    + assert (Hnd2 : NoDup (keys (d ++ bl'))).
      { unfold keys. eapply Permutation_NoDup; [apply Permutation_map; exact Hp|exact Hnd]. }
      unfold keys in Hnd2. rewrite map_app in Hnd2. now apply NoDup_app_remove_l in Hnd2.
  - unfold st_ok; cbn [next backlog]. auto.
  - unfold st_ok; cbn [next backlog]. repeat split; auto.
    + intros k. unfold bl_insert. simpl. intros [<-|Hin]; [assumption|].
      apply bl_remove_keys_incl in Hin. apply Hk. tauto.
    + now apply bl_insert_NoDup.
Qed.

(* ---------- dialog key ---------- *)
Lemma obytes_eqb_eq a b : obytes_eqb a b = true <-> a = b.
Proof.
  destruct a, b; simpl; try (split; [discriminate|discriminate]); try tauto.
  rewrite bytes_eqb_eq. split; [intros ->; reflexivity|intros H; now inversion H].
Qed.

Lemma dkey_eqb_eq a b : dkey_eqb a b = true <-> a = b.
Proof.
  destruct a as [c1 p1 l1], b as [c2 p2 l2]. unfold dkey_eqb; simpl.
  rewrite !andb_true_iff, !bytes_eqb_eq, obytes_eqb_eq.
  split; [intros [[-> ->] ->]; reflexivity | intros H; inversion H; auto].
Qed.

Lemma key_match cid ft totag k :
  key_of_request cid ft totag = Some k <->
  (exists t, totag = Some t /\ k = mkkey cid ft t).
Proof.
  unfold key_of_request. destruct totag as [t|].
  - split; [intros H; inversion H; eauto | intros (t' & Ht & ->); now inversion Ht].
  - split; [discriminate | intros (t' & Ht & _); discriminate].
Qed.

(* ---------- layer ---------- *)

(* requests without To-tag, or whose key matches no entry, leave the layer untouched *)
Lemma not_intercepted_no_totag es cid ft r :
  layer_step es (Recv cid ft None r) = (es, NotIntercepted).
Proof. reflexivity. Qed.

Lemma not_intercepted_unknown es cid ft t r :
  entries_find (mkkey cid ft t) es = None ->
  layer_step es (Recv cid ft (Some t) r) = (es, NotIntercepted).
Proof. intros H. simpl. now rewrite H. Qed.

Lemma entries_update_other k k' f es :
  (forall e, e_key (f e) = e_key e) ->
  k' <> k -> entries_find k' (entries_update k f es) = entries_find k' es.
Proof.
  intros Hf Hne. induction es as [|e r IH]; simpl; [reflexivity|].
  destruct (dkey_eqb (e_key e) k) eqn:Ek; simpl.
  - rewrite Hf. apply dkey_eqb_eq in Ek. rewrite Ek.
    destruct (dkey_eqb k k') eqn:E; [apply dkey_eqb_eq in E; congruence|reflexivity].
  - destruct (dkey_eqb (e_key e) k'); [reflexivity|exact IH].
Qed.

(* a request for one dialog never changes another dialog's entry *)
Lemma other_dialogs_untouched es cid ft totag r k' :
  key_of_request cid ft totag <> Some k' ->
  entries_find k' (fst (layer_step es (Recv cid ft totag r))) = entries_find k' es.
Proof.
  intros Hne. simpl. destruct (key_of_request cid ft totag) as [k|] eqn:Hk; [|reflexivity].
  destruct (entries_find k es) as [e|] eqn:He; [|reflexivity].
  destruct (refused (e_st e) r); [reflexivity|].
  destruct (step (e_st e) r) as [st' d]. cbn [fst].
  apply entries_update_other; [reflexivity|]. intros ->. now apply Hne.
Qed.

(* after the guard of usage [u] in dialog [k] is dropped, [u] is not in the usage list of [k] *)
Lemma entries_find_update_same k f es e :
  (forall e, e_key (f e) = e_key e) ->
  entries_find k es = Some e -> entries_find k (entries_update k f es) = Some (f e).
Proof.
  intros Hf. induction es as [|e0 r IH]; simpl; [discriminate|].
  destruct (dkey_eqb (e_key e0) k) eqn:Ek; simpl.
  - intros H; inversion H; subst. now rewrite Hf, Ek.
  - rewrite Ek. exact IH.
Qed.

Lemma drop_removes_usage es k u e :
  entries_find k es = Some e ->
  exists e', entries_find k (fst (layer_step es (DropUsage k u))) = Some e' /\ ~ In u (e_usages e').
Proof.
  intros He. simpl. eexists. split.
  - apply entries_find_update_same; [reflexivity|exact He].
  - simpl. rewrite filter_In. intros [_ H]. rewrite N.eqb_refl in H. discriminate.
Qed.

(* a Recv delivers exactly to the usages registered at that moment; Recv never changes usage lists *)
Lemma recv_uses_current_usages es cid ft totag r k us d :
  snd (layer_step es (Recv cid ft totag r)) = Delivered k us d ->
  exists e, entries_find k es = Some e /\ us = e_usages e /\ key_of_request cid ft totag = Some k.
Proof.
  simpl. destruct (key_of_request cid ft totag) as [k0|] eqn:Hk; [|discriminate].
  destruct (entries_find k0 es) as [e|] eqn:He; [|discriminate].
  destruct (refused (e_st e) r); [discriminate|].
  destruct (step (e_st e) r) as [st' dd]. cbn [snd].
  destruct dd; [discriminate|]. intros H; inversion H; subst.
  assert (Hke : e_key e = k0).
  { clear -He. induction es as [|e0 rr IH]; simpl in He; [discriminate|].
    destruct (dkey_eqb (e_key e0) k0) eqn:E; [inversion He; subst; now apply dkey_eqb_eq|auto]. }
  exists e. rewrite Hke. repeat split; auto.
Qed.

Lemma recv_keeps_usages es cid ft totag r k e :
  entries_find k es = Some e ->
  exists e', entries_find k (fst (layer_step es (Recv cid ft totag r))) = Some e' /\ e_usages e' = e_usages e.
Proof.
  intros He. simpl. destruct (key_of_request cid ft totag) as [k0|] eqn:Hk; [|eauto].
  destruct (entries_find k0 es) as [e0|] eqn:He0; [|eauto].
  destruct (refused (e_st e0) r); [eauto|].
  destruct (step (e_st e0) r) as [st' dd]. cbn [fst].
  destruct (dkey_eqb k0 k) eqn:E.
  - apply dkey_eqb_eq in E. subst k0. rewrite He in He0. inversion He0; subst e0.
    eexists. split; [apply entries_find_update_same; [reflexivity|exact He]|reflexivity].
  - exists e. split; [|reflexivity]. rewrite entries_update_other; auto.
    intros ->. assert (dkey_eqb k0 k0 = true) by now apply dkey_eqb_eq. congruence.
Qed.

(* ---------- the guard of the backlog: a parked number is not given away ---------- *)
Lemma parked_number_refused st r n x :
  dlg_backlog_no_overwrite = true -> next st = Some n -> n < r_cseq r -> bl_lookup (r_cseq r) (backlog st) = Some x ->
  refused st r = true.
Proof.
  intros Hf Hn Hlt Hl. unfold refused. rewrite Hf, Hn, Hl. cbn [andb]. apply N.ltb_lt in Hlt. now rewrite Hlt.
Qed.

Lemma parked_not_displaced es cid ft t r k e n x :
  dlg_backlog_no_overwrite = true ->
  key_of_request cid ft (Some t) = Some k -> entries_find k es = Some e ->
  next (e_st e) = Some n -> n < r_cseq r -> bl_lookup (r_cseq r) (backlog (e_st e)) = Some x ->
  layer_step es (Recv cid ft (Some t) r) = (es, NotIntercepted).
Proof.
  intros Hf Hk He Hn Hlt Hl. cbn [layer_step]. rewrite Hk, He. now rewrite (parked_number_refused _ _ n x Hf Hn Hlt Hl).
Qed.

(* registering a further usage adds it behind the ones that are there and touches nothing else *)
Lemma add_appends_usage es k u e :
  entries_find k es = Some e ->
  exists e', entries_find k (fst (layer_step es (AddUsage k u))) = Some e' /\ e_usages e' = e_usages e ++ [u] /\ e_st e' = e_st e.
Proof.
  intros He. simpl. eexists. split; [apply entries_find_update_same; [reflexivity | exact He]|]. simpl. auto.
Qed.

(* register_usage for a dialog that does not exist changes nothing *)
Lemma add_usage_missing es k u : entries_find k es = None -> fst (layer_step es (AddUsage k u)) = es.
Proof.
  intros H. cbn [layer_step fst]. induction es as [|e r IH]; [reflexivity|]. cbn [entries_update entries_find] in *.
  destruct (dkey_eqb (e_key e) k); [discriminate|]. now rewrite IH.
Qed.
