(* Proofs/C01h.v -- every IPv4 address, printed, is read as an IPv4 literal again *)
From Coq Require Import List Arith NArith Bool Lia.
From Coq.Strings Require Import Byte.
From EZK Require Import Lib.Bytes Lib.Num Model.C01h.
Import ListNotations.
Open Scope N_scope.

(* the 256 octet values, by computation *)
Definition octets : list N := map N.of_nat (seq 0 256).

Lemma octets_complete n : n <= 255 -> In n octets.
Proof.
  intros H. unfold octets. apply in_map_iff. exists (N.to_nat n). split; [apply N2Nat.id|]. apply in_seq. lia.
Qed.

Lemma octet_sweep : forallb (fun n => match strict_octet (print_dec n) with Some m => N.eqb m n | None => false end) octets = true.
Proof. vm_compute. reflexivity. Qed.

Lemma strict_print n : n <= 255 -> strict_octet (print_dec n) = Some n.
Proof.
  intros H. pose proof octet_sweep as S. rewrite forallb_forall in S. specialize (S n (octets_complete n H)).
  destruct (strict_octet (print_dec n)) as [m|]; [|discriminate]. apply N.eqb_eq in S. now subst.
Qed.

Lemma dot_not_digit : is_digit dot = false. Proof. reflexivity. Qed.

Lemma nom_u8_print n rest : n <= 255 -> stops is_digit rest -> nom_u8 (print_dec n ++ rest) = Some (print_dec n, rest).
Proof.
  intros H Hs. unfold nom_u8. rewrite (take_while_app _ _ _ (print_dec_digits n) Hs).
  destruct (print_dec_value n) as [_ Hne]. destruct (print_dec n) eqn:E; [congruence|]. rewrite <- E.
  now rewrite parse_print_dec.
Qed.

Theorem ip4_literal_roundtrip a b c d rest :
  a <= 255 -> b <= 255 -> c <= 255 -> d <= 255 -> stops is_digit rest ->
  parse_host4 (print_ip4 a b c d ++ rest) = IsIP4 a b c d rest.
Proof.
  intros Ha Hb Hc Hd Hr. unfold parse_host4, ip4_address, print_ip4.
  repeat rewrite <- app_assoc. cbn [app].
  rewrite nom_u8_print; auto; [|exact dot_not_digit]. cbn [expect_dot]. rewrite byte_eqb_refl.
  repeat rewrite <- app_assoc. cbn [app].
  rewrite nom_u8_print; auto; [|exact dot_not_digit]. cbn [expect_dot]. rewrite byte_eqb_refl.
  repeat rewrite <- app_assoc. cbn [app].
  rewrite nom_u8_print; auto; [|exact dot_not_digit]. cbn [expect_dot]. rewrite byte_eqb_refl.
  rewrite nom_u8_print; auto.
  now rewrite !strict_print.
Qed.

Example ip4_top_of_range :
  parse_host4 (B"192.168.1.255:5070") = IsIP4 192 168 1 255 (B":5070") /\ parse_host4 (B"255.255.255.255") = IsIP4 255 255 255 255 [] /\
  parse_host4 (B"256.1.1.1") = NotIP4 /\ parse_host4 (B"1.2.3.04") = NotIP4 /\ parse_host4 (B"example.org") = NotIP4.
Proof. vm_compute. repeat split. Qed.
