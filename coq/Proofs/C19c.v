(* Proofs/C19c.v -- a candidate the API can hold and the line can carry survives print -> parse *)
From Coq Require Import List Arith NArith Bool Lia.
From Coq.Strings Require Import Byte.
From EZK Require Import Lib.Bytes Lib.Num Model.C19c.
Import ListNotations.
Open Scope N_scope.

(* ---------- character classes (finite sweeps over the 256 bytes) ---------- *)
Lemma digit_nws b : is_digit b = true -> nws b = true.
Proof.
  intros H. assert (E : implb (is_digit b) (nws b) = true) by (revert b H; intros b _; revert b; apply (byte_forallb (fun b => implb (is_digit b) (nws b))); vm_compute; reflexivity).
  rewrite H in E. exact E.
Qed.
Lemma host6_nws b : host6_char b = true -> nws b = true.
Proof.
  intros H. assert (E : implb (host6_char b) (nws b) = true) by (revert b H; intros b _; revert b; apply (byte_forallb (fun b => implb (host6_char b) (nws b))); vm_compute; reflexivity).
  rewrite H in E. exact E.
Qed.
Lemma ice_nws b : ice_char b = true -> nws b = true.
Proof.
  intros H. assert (E : implb (ice_char b) (nws b) = true) by (revert b H; intros b _; revert b; apply (byte_forallb (fun b => implb (ice_char b) (nws b))); vm_compute; reflexivity).
  rewrite H in E. exact E.
Qed.
Lemma nws_not_ws b : nws b = true -> is_ws b = false.
Proof. unfold nws. now destruct (is_ws b). Qed.

Lemma sp_ws : is_ws SPc = true. Proof. reflexivity. Qed.
Lemma sp_not_nws : nws SPc = false. Proof. reflexivity. Qed.
Lemma sp_not_digit : is_digit SPc = false. Proof. reflexivity. Qed.
Lemma sp_not_host6 : host6_char SPc = false. Proof. reflexivity. Qed.
Lemma sp_not_ice : ice_char SPc = false. Proof. reflexivity. Qed.

(* ---------- scanners ---------- *)
Lemma skip_ws_sp c r : nws c = true -> skip_ws (SPc :: c :: r) = c :: r.
Proof. intros H. unfold skip_ws. cbn [take_while]. rewrite sp_ws. cbn [take_while]. now rewrite (nws_not_ws _ H). Qed.

Lemma skip_ws_sp_app tok rest : token tok = true -> skip_ws (SPc :: tok ++ rest) = tok ++ rest.
Proof.
  unfold token. destruct tok as [|c t]; [discriminate|]. cbn [nonempty andb forallb app]. intros H.
  apply andb_prop in H as [H _]. now apply skip_ws_sp.
Qed.

Lemma skip_ws_nws c r : nws c = true -> skip_ws (c :: r) = c :: r.
Proof. intros H. unfold skip_ws. cbn [take_while]. now rewrite (nws_not_ws _ H). Qed.

Lemma take_tok tok rest : forallb nws tok = true -> stops nws rest -> take_while nws (tok ++ rest) = (tok, rest).
Proof. apply take_while_app. Qed.

Lemma forallb_impl {A} (p q : A -> bool) l : (forall x, p x = true -> q x = true) -> forallb p l = true -> forallb q l = true.
Proof. intros H. induction l as [|x l IH]; cbn; [auto|]. intros E. apply andb_prop in E as [E1 E2]. now rewrite (H _ E1), IH. Qed.

Lemma print_dec_token n : token (print_dec n) = true.
Proof.
  unfold token. destruct (print_dec_value n) as [_ Hne]. destruct (print_dec n) eqn:E; [congruence|].
  cbn [nonempty andb]. rewrite <- E. apply (forallb_impl is_digit); [apply digit_nws | apply print_dec_digits].
Qed.

Lemma number_print bound n rest : n <= bound -> stops is_digit rest -> number bound (print_dec n ++ rest) = Some (n, rest).
Proof.
  intros Hb Hs. unfold number. rewrite (take_while_app _ _ _ (print_dec_digits n) Hs).
  destruct (print_dec_value n) as [_ Hne]. destruct (print_dec n) eqn:E; [congruence|]. rewrite <- E.
  now rewrite parse_print_dec.
Qed.

Lemma take_upto_app n p s r : (length s <= n)%nat -> forallb p s = true -> stops p r -> take_upto n p (s ++ r) = (s, r).
Proof.
  revert s. induction n as [|n IH]; intros s Hl Hp Hr.
  - destruct s; [|cbn in Hl; lia]. reflexivity.
  - destruct s as [|c s]; cbn [app take_upto].
    + destruct r as [|d r]; [reflexivity|]. cbn in Hr. now rewrite Hr.
    + cbn [forallb] in Hp. apply andb_prop in Hp as [Hc Hp]. rewrite Hc, IH; auto. cbn in Hl. lia.
Qed.

Lemma take_while_all p s : forallb p s = true -> take_while p s = (s, []).
Proof. intros H. rewrite <- (app_nil_r s) at 1. apply take_while_app; [exact H | exact I]. Qed.

(* ---------- the extension pairs ---------- *)
Definition tok_pair (kv : bytes * bytes) : bool := token (fst kv) && token (snd kv).

Lemma stops_pairs ps : stops nws (flat_map print_pair ps).
Proof. destruct ps as [|kv ps]; [exact I|]. cbn. exact sp_not_nws. Qed.

Lemma token_nws s : token s = true -> forallb nws s = true.
Proof. unfold token. intros H. now apply andb_prop in H as [_ H]. Qed.

Lemma token_cons s : token s = true -> exists c t, s = c :: t.
Proof. unfold token. destruct s as [|c t]; [discriminate|]. eauto. Qed.

Lemma flat_cons k v ps : flat_map print_pair ((k, v) :: ps) = SPc :: k ++ (SPc :: v ++ flat_map print_pair ps).
Proof. cbn [flat_map]. unfold print_pair at 1. cbn [fst snd app]. now rewrite <- app_assoc. Qed.

Lemma pairs_print ps : forallb tok_pair ps = true ->
  forall fuel, (length (flat_map print_pair ps) <= fuel)%nat -> pairs fuel (flat_map print_pair ps) = ps.
Proof.
  induction ps as [|[k v] ps IH]; intros Hp fuel Hl.
  - destruct fuel; reflexivity.
  - cbn [forallb] in Hp. apply andb_prop in Hp as [Hkv Hp]. unfold tok_pair in Hkv. cbn [fst snd] in Hkv.
    apply andb_prop in Hkv as [Hk Hv].
    rewrite flat_cons in *.
    destruct fuel as [|f]; [cbn in Hl; lia|]. cbn [pairs].
    rewrite (skip_ws_sp_app _ _ Hk).
    rewrite (take_tok _ _ (token_nws _ Hk)) by exact sp_not_nws.
    destruct (token_cons _ Hk) as (kc & kt & ->).
    rewrite (skip_ws_sp_app _ _ Hv).
    rewrite (take_tok _ _ (token_nws _ Hv)) by apply stops_pairs.
    destruct (token_cons _ Hv) as (vc & vt & ->).
    f_equal. apply IH; [exact Hp|].
    cbn [length app] in Hl. rewrite !app_length in Hl. cbn [length] in Hl. rewrite !app_length in Hl. lia.
Qed.

Definition plain_key (kv : bytes * bytes) : bool := negb (bytes_eqb (fst kv) t_raddr) && negb (bytes_eqb (fst kv) t_rport).

Lemma classify_plain unk : forallb plain_key unk = true ->
  forall ra rp acc, classify unk ra rp acc = Some (ra, rp, acc ++ unk).
Proof.
  induction unk as [|[k v] unk IH]; intros Hp ra rp acc.
  - cbn. now rewrite app_nil_r.
  - cbn [forallb] in Hp. apply andb_prop in Hp as [Hk Hp]. unfold plain_key in Hk. cbn [fst] in Hk.
    apply andb_prop in Hk as [H1 H2]. cbn [classify].
    destruct (bytes_eqb k t_raddr); [discriminate|]. destruct (bytes_eqb k t_rport); [discriminate|].
    rewrite IH by exact Hp. now rewrite <- app_assoc.
Qed.

Lemma classify_ext c : wf_cand c = true -> classify (ext_pairs c) None None [] = Some (cd_raddr c, cd_rport c, cd_unknown c).
Proof.
  unfold wf_cand. intros W. repeat (apply andb_prop in W as [W ?]).
  assert (Hu : forallb plain_key (cd_unknown c) = true).
  { match goal with H : forallb _ (cd_unknown c) = true |- _ => revert H end.
    apply forallb_impl. intros [k v] E. unfold plain_key. cbn [fst snd] in *.
    apply andb_prop in E as [E E2]. apply andb_prop in E as [E E1]. now rewrite E1, E2. }
  unfold ext_pairs.
  destruct (cd_raddr c) as [a|] eqn:Ra; destruct (cd_rport c) as [p|] eqn:Rp; cbn [app classify].
  - change (bytes_eqb t_raddr t_raddr) with true. cbn iota.
    match goal with H : (nonempty a && forallb host6_char a) = true |- _ => apply andb_prop in H as [_ Ha] end.
    rewrite (take_while_all _ _ Ha). cbn [fst].
    change (bytes_eqb t_rport t_raddr) with false. change (bytes_eqb t_rport t_rport) with true. cbn iota.
    match goal with H : (p <=? u16max) = true |- _ => apply N.leb_le in H; rewrite (parse_print_dec _ _ H) end.
    now rewrite classify_plain.
  - change (bytes_eqb t_raddr t_raddr) with true. cbn iota.
    match goal with H : (nonempty a && forallb host6_char a) = true |- _ => apply andb_prop in H as [_ Ha] end.
    rewrite (take_while_all _ _ Ha). cbn [fst]. now rewrite classify_plain.
  - change (bytes_eqb t_rport t_raddr) with false. change (bytes_eqb t_rport t_rport) with true. cbn iota.
    match goal with H : (p <=? u16max) = true |- _ => apply N.leb_le in H; rewrite (parse_print_dec _ _ H) end.
    now rewrite classify_plain.
  - now rewrite classify_plain.
Qed.

Lemma ext_pairs_tok c : wf_cand c = true -> forallb tok_pair (ext_pairs c) = true.
Proof.
  unfold wf_cand. intros W. repeat (apply andb_prop in W as [W ?]).
  unfold ext_pairs. rewrite !forallb_app. repeat (apply andb_true_intro; split).
  - destruct (cd_raddr c) as [a|]; [|reflexivity]. cbn [forallb]. rewrite andb_true_r. unfold tok_pair. cbn [fst snd].
    change (token t_raddr) with true. cbn [andb].
    match goal with H : (nonempty a && forallb host6_char a) = true |- _ => apply andb_prop in H as [Hn Ha] end.
    unfold token. rewrite Hn. cbn [andb]. apply (forallb_impl host6_char); [apply host6_nws | exact Ha].
  - destruct (cd_rport c) as [p|]; [|reflexivity]. cbn [forallb]. rewrite andb_true_r. unfold tok_pair. cbn [fst snd].
    change (token t_rport) with true. cbn [andb]. apply print_dec_token.
  - match goal with H : forallb _ (cd_unknown c) = true |- _ => revert H end.
    apply forallb_impl. intros [k v] E. unfold tok_pair. cbn [fst snd] in *.
    apply andb_prop in E as [E _]. apply andb_prop in E as [E _]. exact E.
Qed.

(* ---------- the round trip ---------- *)
Theorem cand_roundtrip c : wf_cand c = true -> parse_cand (print_cand c) = Some c.
Proof.
  intros W. pose proof (classify_ext c W) as Hcl. pose proof (ext_pairs_tok c W) as Hpt.
  unfold wf_cand in W. repeat (apply andb_prop in W as [W ?]).
  destruct c as [f comp tr prio addr port typ ra rp unk]. cbn [cd_foundation cd_component cd_transport cd_priority cd_addr cd_port cd_typ cd_raddr cd_rport cd_unknown] in *.
  repeat match goal with H : (_ <=? _) = true |- _ => apply N.leb_le in H end.
  match goal with H : Nat.leb (length f) 32 = true |- _ => apply Nat.leb_le in H end.
  unfold print_cand, parse_cand.
  cbn [cd_foundation cd_component cd_transport cd_priority cd_addr cd_port cd_typ].
  rewrite strip_prefix_app.
  rewrite take_upto_app; auto; [|exact sp_not_ice].
  destruct f as [|fc ft]; [discriminate|].
  rewrite (skip_ws_sp_app _ _ (print_dec_token comp)).
  rewrite number_print; auto; [|exact sp_not_digit].
  assert (Ttr : token tr = true) by assumption.
  rewrite (skip_ws_sp_app _ _ Ttr).
  rewrite (take_tok _ _ (token_nws _ Ttr)) by exact sp_not_nws.
  rewrite (skip_ws_sp_app _ _ (print_dec_token prio)).
  rewrite number_print; auto; [|exact sp_not_digit].
  assert (Taddr : token addr = true).
  { unfold token. match goal with H : nonempty addr = true |- _ => rewrite H end.
    cbn [andb]. apply (forallb_impl host6_char); [apply host6_nws | assumption]. }
  rewrite (skip_ws_sp_app _ _ Taddr).
  rewrite (take_while_app host6_char addr) by (auto; exact sp_not_host6).
  rewrite (skip_ws_sp_app _ _ (print_dec_token port)).
  rewrite number_print; auto; [|exact sp_not_digit].
  rewrite (skip_ws_sp_app t_typ) by reflexivity.
  rewrite strip_prefix_app.
  assert (Ttyp : token typ = true) by assumption.
  rewrite (skip_ws_sp_app _ _ Ttyp).
  rewrite (take_tok _ _ (token_nws _ Ttyp)) by apply stops_pairs.
  destruct (token_cons _ Ttyp) as (tc & tt & ->).
  rewrite pairs_print; [| exact Hpt | apply Nat.le_refl].
  cbn [cd_raddr cd_rport cd_unknown] in Hcl. rewrite Hcl. reflexivity.
Qed.

(* a candidate the parser accepts has its related address and related port independent of each other *)
Example cand_example :
  parse_cand (B"candidate:12 2 TCP 2105458942 192.168.56.1 9 typ host raddr 192.168.1.22 rport 123 tcptype active") =
  Some (mkcand (B"12") 2 (B"TCP") 2105458942 (B"192.168.56.1") 9 (B"host") (Some (B"192.168.1.22")) (Some 123) [(B"tcptype", B"active")]).
Proof. vm_compute. reflexivity. Qed.

Example cand_rport_only :
  parse_cand (print_cand (mkcand (B"5") 1 (B"UDP") 1694498815 (B"203.0.113.7") 40000 (B"srflx") None (Some 50000) [(B"generation", B"0")])) =
  Some (mkcand (B"5") 1 (B"UDP") 1694498815 (B"203.0.113.7") 40000 (B"srflx") None (Some 50000) [(B"generation", B"0")]).
Proof. vm_compute. reflexivity. Qed.
