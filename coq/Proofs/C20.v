(* Proofs/C20.v -- STUN codec: integer codec, address XOR, builder = one-pass RFC encoder, parser positions *)
From Coq Require Import List Arith NArith Lia Bool.
From Coq.Strings Require Import Byte.
From EZK Require Import Lib.Bytes Model.C20.
Import ListNotations.
Close Scope N_scope.
Open Scope nat_scope.

(* ---------- big-endian integers ---------- *)
Lemma be_length k : forall n, length (be k n) = k.
Proof. induction k as [|k IH]; intros n; cbn [be]; [reflexivity|]. rewrite app_length, IH. cbn. lia. Qed.

Lemma of_be_app l b : of_be (l ++ [b]) = (of_be l * 256 + b2n b)%N.
Proof. unfold of_be. now rewrite fold_left_app. Qed.

Lemma of_be_be k : forall n, (n < 256 ^ N.of_nat k)%N -> of_be (be k n) = n.
Proof.
  induction k as [|k IH]; intros n Hn.
  - cbn in *. unfold of_be. cbn. lia.
  - cbn [be]. rewrite of_be_app. rewrite IH.
    + rewrite b2n_n2b by (apply N.mod_lt; lia). rewrite N.mul_comm. symmetry. apply N.div_mod. lia.
    + rewrite Nat2N.inj_succ, N.pow_succ_r' in Hn. apply N.div_lt_upper_bound; lia.
Qed.

Lemma of_be_bound l : (of_be l < 256 ^ N.of_nat (length l))%N.
Proof.
  induction l as [|b t IH] using rev_ind; [cbn; lia|].
  rewrite of_be_app, app_length. cbn [length]. rewrite Nat.add_1_r, Nat2N.inj_succ, N.pow_succ_r'.
  pose proof (b2n_bound b). lia.
Qed.

(* ---------- xor ---------- *)
Lemma lxor_lt a b k : (a < 2 ^ k)%N -> (b < 2 ^ k)%N -> (N.lxor a b < 2 ^ k)%N.
Proof.
  intros Ha Hb.
  assert (Hpos : (0 < 2 ^ k)%N) by (apply N.neq_0_lt_0, N.pow_nonzero; discriminate).
  destruct (N.eq_dec (N.lxor a b) 0) as [E|Hz]; [rewrite E; exact Hpos|].
  destruct (N.eq_dec k 0) as [->|Hk].
  { exfalso. apply Hz. replace a with 0%N by (cbn in Ha; lia). replace b with 0%N by (cbn in Hb; lia). reflexivity. }
  assert (Hlog : forall x, (x < 2 ^ k)%N -> (N.log2 x < k)%N).
  { intros x Hx. destruct (N.eq_dec x 0) as [->|Hx0]; [cbn; lia|]. apply N.log2_lt_pow2; lia. }
  apply N.log2_lt_pow2; [lia|].
  eapply N.le_lt_trans; [apply N.log2_lxor|].
  apply N.max_lub_lt; apply Hlog; assumption.
Qed.

Lemma lxor_invol a b : N.lxor (N.lxor a b) b = a.
Proof. now rewrite N.lxor_assoc, N.lxor_nilpotent, N.lxor_0_r. Qed.

Lemma be2_shape n : exists a b : byte, be 2 n = [a; b].
Proof. cbn [be app]. eauto. Qed.

(* ---------- address attributes: decode (encode a) = a, plain and XORed, IPv4 and IPv6 ---------- *)
Lemma firstn_app_exact {A} (l r : list A) : firstn (length l) (l ++ r) = l.
Proof. rewrite firstn_app, Nat.sub_diag, firstn_all. cbn. now rewrite app_nil_r. Qed.

Lemma addr_roundtrip (xor : bool) (tsx : N) (v4 : bool) (ip port : N) :
  (port < 65536)%N -> (tsx < 2 ^ 96)%N -> (ip < (if v4 then 2 ^ 32 else 2 ^ 128))%N ->
  dec_addr xor tsx (enc_addr xor tsx v4 ip port) = Some (v4, ip, port).
Proof.
  intros Hp Ht Hi.
  assert (Hx16 : (N.lxor port xor16 < 65536)%N) by (apply (lxor_lt port xor16 16); [exact Hp|reflexivity]).
  set (p := if xor then N.lxor port xor16 else port).
  assert (Hpb : (p < 256 ^ N.of_nat 2)%N) by (subst p; destruct xor; assumption).
  assert (Hport : (if xor then N.lxor (of_be (be 2 p)) xor16 else of_be (be 2 p)) = port).
  { rewrite of_be_be by exact Hpb. subst p. destruct xor; [apply lxor_invol|reflexivity]. }
  unfold enc_addr. fold p. destruct (be2_shape p) as (p1 & p2 & Ep). rewrite Ep in *.
  destruct v4.
  - set (ipx := if xor then N.lxor ip cookie else ip).
    assert (Hipx : (ipx < 256 ^ N.of_nat 4)%N).
    { subst ipx. destruct xor; [|exact Hi]. apply (lxor_lt ip cookie 32); [exact Hi|reflexivity]. }
    assert (E4 : exists a b c d : byte, be 4 ipx = [a; b; c; d]) by (cbn [be app]; eauto 10).
    destruct E4 as (a & b & c & d & E4). pose proof (of_be_be 4 ipx Hipx) as Hr. rewrite E4 in *.
    cbn [app dec_addr]. cbn [Byte.eqb negb]. rewrite !byte_eqb_refl. cbn [negb].
    rewrite Hr, Hport. subst ipx. destruct xor; [now rewrite lxor_invol|reflexivity].
  - set (k := (cookie * 79228162514264337593543950336 + tsx)%N).
    set (ipx := if xor then N.lxor ip k else ip).
    assert (Hk : (k < 2 ^ 128)%N) by (subst k; unfold cookie; lia).
    assert (Hipx : (ipx < 256 ^ N.of_nat 16)%N).
    { subst ipx. destruct xor; [|exact Hi]. apply (lxor_lt ip k 128); assumption. }
    pose proof (of_be_be 16 ipx Hipx) as Hr. pose proof (be_length 16 ipx) as Hl.
    cbn [app dec_addr]. rewrite byte_eqb_refl. cbn [negb].
    replace (Byte.eqb x02 x01) with false by reflexivity. rewrite byte_eqb_refl.
    rewrite Hl. cbn [Nat.ltb Nat.leb].
    replace (firstn 16 (be 16 ipx)) with (be 16 ipx) by (symmetry; apply firstn_all2; lia).
    rewrite Hr, Hport. fold k. subst ipx. destruct xor; [now rewrite lxor_invol|reflexivity].
Qed.

Lemma ctz_le l : count_trailing_zeros l <= length l.
Proof.
  induction l as [|b r IH]; cbn [count_trailing_zeros length]; [lia|].
  destruct (Nat.eqb _ _); [destruct (Byte.eqb b x00)|]; lia.
Qed.

Lemma slice_length buf lo hi : length (slice buf lo hi) <= hi - lo.
Proof. unfold slice. rewrite firstn_length. lia. Qed.

(* ---------- the builder in RFC length mode is the one-pass RFC encoder ---------- *)
Section Codec.
  Variable hmac : N -> bytes -> bytes -> bytes.
  Hypothesis hmac_length : forall alg key m, length (hmac alg key m) = hmac_len alg.

  Lemma head_length typ len tsx : length (head typ len tsx) = 20.
  Proof. unfold head. rewrite !app_length, !be_length. reflexivity. Qed.

  Lemma attr_value_length a prefix : length (attr_value hmac a prefix) = attr_len a.
  Proof. destruct a; cbn [attr_value attr_len]; [reflexivity|apply hmac_length|apply be_length]. Qed.

  Lemma tlv_length typ v : length (tlv typ v) = 4 + length v + pad4 (length v).
  Proof. unfold tlv. rewrite !app_length, !be_length, repeat_length. lia. Qed.

  Lemma rfc_body_grows typ tsx attrs : forall done, length done <= length (rfc_body hmac typ tsx done attrs).
  Proof.
    induction attrs as [|a rest IH]; intros done; cbn [rfc_body]; [lia|].
    eapply Nat.le_trans; [|apply IH]. rewrite app_length. lia.
  Qed.

  Lemma skipn_head typ len tsx rest :
    skipn 4 (head typ len tsx ++ rest) = be 4 cookie ++ be 12 tsx ++ rest.
  Proof.
    unfold head. rewrite <- !app_assoc.
    destruct (be2_shape typ) as (a & b & ->). destruct (be2_shape len) as (c & d & ->). reflexivity.
  Qed.

  Lemma add_attr_rfc typ tsx done a :
    length done + 4 + attr_len a + pad4 (attr_len a) <= 65535 ->
    add_attr hmac false typ (head typ (N.of_nat (length done)) tsx ++ done) a =
    let n := attr_len a in
    let prefix := head typ (N.of_nat (length done + 4 + n + pad4 n)) tsx ++ done in
    let done' := done ++ tlv (attr_typ a) (attr_value hmac a prefix) in
    Some (head typ (N.of_nat (length done')) tsx ++ done').
  Proof.
    intros Hfit. unfold add_attr. rewrite app_length, head_length.
    replace (20 + length done - 20) with (length done) by lia.
    destruct (Nat.ltb_spec 65535 (length done + 4 + attr_len a + pad4 (attr_len a))) as [Hgt|_]; [lia|].
    set (n := attr_len a). set (L := length done + 4 + n + pad4 n).
    set (hdr := be 2 (attr_typ a) ++ be 2 (N.of_nat n)).
    assert (Hbuf2 : set_len typ ((head typ (N.of_nat (length done)) tsx ++ done) ++ hdr) (N.of_nat L)
                    = (head typ (N.of_nat L) tsx ++ done) ++ hdr).
    { unfold set_len. rewrite <- app_assoc. rewrite skipn_head. unfold head. now rewrite <- !app_assoc. }
    rewrite Hbuf2.
    assert (Hpre : firstn (length ((head typ (N.of_nat L) tsx ++ done) ++ hdr) - 4) ((head typ (N.of_nat L) tsx ++ done) ++ hdr)
                   = head typ (N.of_nat L) tsx ++ done).
    { replace (length ((head typ (N.of_nat L) tsx ++ done) ++ hdr) - 4) with (length (head typ (N.of_nat L) tsx ++ done)).
      - apply firstn_app_exact.
      - assert (Hh : length hdr = 4) by (subst hdr; rewrite app_length, !be_length; reflexivity).
        rewrite (app_length _ hdr), Hh. lia. }
    rewrite Hpre. cbv zeta. fold n. fold L.
    set (v := attr_value hmac a (head typ (N.of_nat L) tsx ++ done)).
    assert (Hv : length v = n) by apply attr_value_length.
    f_equal. unfold tlv. rewrite Hv. rewrite !app_length, !be_length, repeat_length, Hv.
    replace (length done + (2 + (2 + (n + pad4 n)))) with L by (subst L; lia).
    subst hdr. now rewrite <- !app_assoc.
  Qed.

  Lemma add_attrs_rfc typ tsx attrs : forall done,
    length (rfc_body hmac typ tsx done attrs) <= 65535 ->
    add_attrs hmac false typ (head typ (N.of_nat (length done)) tsx ++ done) attrs =
    Some (head typ (N.of_nat (length (rfc_body hmac typ tsx done attrs))) tsx ++ rfc_body hmac typ tsx done attrs).
  Proof.
    induction attrs as [|a rest IH]; intros done Hfit; cbn [add_attrs rfc_body]; [reflexivity|].
    cbn [rfc_body] in Hfit.
    set (n := attr_len a) in *.
    set (prefix := head typ (N.of_nat (length done + 4 + n + pad4 n)) tsx ++ done) in *.
    set (done' := done ++ tlv (attr_typ a) (attr_value hmac a prefix)) in *.
    assert (Hlen : length done' = length done + 4 + n + pad4 n).
    { subst done'. rewrite app_length, tlv_length, attr_value_length. fold n. lia. }
    rewrite add_attr_rfc.
    - cbv zeta. fold n. fold prefix. fold done'. apply IH. exact Hfit.
    - fold n. rewrite <- Hlen. eapply Nat.le_trans; [apply rfc_body_grows|exact Hfit].
  Qed.

  Lemma build_is_rfc c tsx attrs :
    length (rfc_body hmac (msg_type c) tsx [] attrs) <= 65535 ->
    build hmac false c tsx attrs = Some (rfc_encode hmac c tsx attrs).
  Proof. intros H. unfold build, rfc_encode. apply (add_attrs_rfc (msg_type c) tsx attrs []). exact H. Qed.

  (* ---------- the attribute walk stays inside the buffer: get_value never slices out of range ---------- *)
  Lemma parse_attrs_bounds fuel buf : forall pos attrs a,
    parse_attrs fuel buf pos = Some attrs -> In a attrs ->
    p_begin a <= p_trim a /\ p_trim a <= p_end a /\ p_end a <= p_padend a /\ p_padend a <= length buf.
  Proof.
    induction fuel as [|fuel IH]; intros pos attrs a H Hin; cbn [parse_attrs] in H; [discriminate|].
    destruct (Nat.leb (length buf) pos); [injection H as <-; destruct Hin|].
    destruct (Nat.ltb (length buf) (pos + 4)); [discriminate|].
    set (len := N.to_nat (of_be (slice buf (pos + 2) (pos + 4)))) in *.
    destruct (Nat.ltb_spec (length buf) (pos + 4 + len + pad4 len)) as [|Hle]; [discriminate|].
    destruct (parse_attrs fuel buf (pos + 4 + len + pad4 len)) as [rest|] eqn:Er; [|discriminate].
    injection H as <-. destruct Hin as [<-|Hin]; [|eapply IH; eauto].
    cbn [p_begin p_end p_trim p_padend].
    pose proof (ctz_le (slice buf (pos + 4) (pos + 4 + len))) as Hc.
    pose proof (slice_length buf (pos + 4) (pos + 4 + len)) as Hs.
    destruct (Nat.eqb (pad4 len) 0); lia.
  Qed.

End Codec.

(* ---------- parsing what the RFC encoder wrote ---------- *)
Fixpoint positions (pos : nat) (vals : list (N * bytes)) : list pattr :=
  match vals with
  | [] => []
  | (t, v) :: r =>
    let vb := pos + 4 in
    let ve := vb + length v in
    let pe := ve + pad4 (length v) in
    mkpa t vb ve (if Nat.eqb (pad4 (length v)) 0 then ve - count_trailing_zeros v else ve) pe :: positions pe r
  end.

Definition encode_vals (vals : list (N * bytes)) : bytes := flat_map (fun tv => tlv (fst tv) (snd tv)) vals.

Lemma slice_at (pre mid post : bytes) lo hi :
  lo = length pre -> hi = lo + length mid -> slice (pre ++ mid ++ post) lo hi = mid.
Proof.
  intros -> ->. unfold slice. rewrite skipn_app, Nat.sub_diag, skipn_all. cbn [app skipn].
  replace (length pre + length mid - length pre) with (length mid) by lia. apply firstn_app_exact.
Qed.

Lemma parse_attrs_tlvs vals : forall pre fuel,
  (forall tv, In tv vals -> (fst tv < 65536)%N /\ (N.of_nat (length (snd tv)) < 65536)%N) -> length vals < fuel ->
  parse_attrs fuel (pre ++ encode_vals vals) (length pre) = Some (positions (length pre) vals).
Proof.
  induction vals as [|[t v] rest IH]; intros pre fuel Hb Hf.
  - destruct fuel; [cbn in Hf; lia|]. cbn [encode_vals flat_map parse_attrs positions]. rewrite app_nil_r, Nat.leb_refl. reflexivity.
  - destruct fuel as [|fuel]; [cbn in Hf; lia|].
    destruct (Hb (t, v) (or_introl eq_refl)) as [Ht Hv]. cbn [fst snd] in Ht, Hv.
    cbn [encode_vals flat_map fst snd]. fold (encode_vals rest).
    set (L := N.of_nat (length v)).
    set (z := repeat x00 (pad4 (length v))).
    assert (Etlv : tlv t v = be 2 t ++ be 2 L ++ v ++ z) by reflexivity.
    set (buf := pre ++ tlv t v ++ encode_vals rest).
    assert (Hlen : length buf = length pre + (4 + length v + pad4 (length v)) + length (encode_vals rest)).
    { subst buf. rewrite !app_length, tlv_length. lia. }
    cbn [parse_attrs].
    destruct (Nat.leb_spec (length buf) (length pre)); [lia|].
    destruct (Nat.ltb_spec (length buf) (length pre + 4)); [lia|].
    assert (Htyp : slice buf (length pre) (length pre + 2) = be 2 t).
    { subst buf. rewrite Etlv, <- !app_assoc. apply slice_at; [reflexivity|now rewrite be_length]. }
    assert (Hl : slice buf (length pre + 2) (length pre + 4) = be 2 L).
    { subst buf. rewrite Etlv, <- !app_assoc. rewrite (app_assoc pre (be 2 t)).
      apply slice_at; [now rewrite app_length, be_length|rewrite be_length; lia]. }
    rewrite Htyp, Hl. rewrite (of_be_be 2 t) by exact Ht.
    rewrite (of_be_be 2 L) by (subst L; exact Hv). subst L. rewrite Nat2N.id.
    destruct (Nat.ltb_spec (length buf) (length pre + 4 + length v + pad4 (length v))); [lia|].
    assert (Hval : slice buf (length pre + 4) (length pre + 4 + length v) = v).
    { subst buf. rewrite Etlv, <- !app_assoc. rewrite (app_assoc (be 2 t)), (app_assoc pre).
      apply slice_at; [rewrite !app_length, !be_length; lia|reflexivity]. }
    rewrite Hval.
    replace buf with ((pre ++ tlv t v) ++ encode_vals rest) by (subst buf; now rewrite <- app_assoc).
    replace (length pre + 4 + length v + pad4 (length v)) with (length (pre ++ tlv t v)) by (rewrite app_length, tlv_length; lia).
    rewrite IH; [|intros tv Hin; apply Hb; now right|cbn in Hf; lia].
    cbn [positions]. rewrite app_length, tlv_length.
    replace (length pre + (4 + length v + pad4 (length v))) with (length pre + 4 + length v + pad4 (length v)) by lia.
    reflexivity.
Qed.

(* the positions point at the values *)
Lemma positions_values vals : forall pre post,
  map (fun p => (p_typ p, slice (pre ++ encode_vals vals ++ post) (p_begin p) (p_end p))) (positions (length pre) vals) = vals.
Proof.
  induction vals as [|[t v] rest IH]; intros pre post; [reflexivity|].
  cbn [positions map p_typ p_begin p_end encode_vals flat_map fst snd]. fold (encode_vals rest). f_equal.
  - f_equal. unfold tlv. rewrite <- !app_assoc. rewrite (app_assoc (be 2 t)), (app_assoc pre).
    apply slice_at; [rewrite !app_length, !be_length; lia|reflexivity].
  - specialize (IH (pre ++ tlv t v) post). rewrite app_length, tlv_length in IH.
    replace (length pre + 4 + length v + pad4 (length v)) with (length pre + (4 + length v + pad4 (length v))) by lia.
    rewrite <- IH at 2. apply map_ext. intros p. now rewrite <- !app_assoc.
Qed.

Section Codec2.
  Variable hmac : N -> bytes -> bytes -> bytes.
  Hypothesis hmac_length : forall alg key m, length (hmac alg key m) = hmac_len alg.

  (* the (type, value) pairs the RFC encoder writes *)
  Fixpoint rfc_vals (typ tsx : N) (done : bytes) (attrs : list battr) : list (N * bytes) :=
    match attrs with
    | [] => []
    | a :: rest =>
      let n := attr_len a in
      let prefix := head typ (N.of_nat (length done + 4 + n + pad4 n)) tsx ++ done in
      let v := attr_value hmac a prefix in
      (attr_typ a, v) :: rfc_vals typ tsx (done ++ tlv (attr_typ a) v) rest
    end.

  Lemma rfc_body_vals typ tsx attrs : forall done,
    rfc_body hmac typ tsx done attrs = done ++ encode_vals (rfc_vals typ tsx done attrs).
  Proof.
    induction attrs as [|a rest IH]; intros done; cbn [rfc_body rfc_vals encode_vals flat_map]; [now rewrite app_nil_r|].
    rewrite IH. cbn [fst snd]. now rewrite <- app_assoc.
  Qed.

  Lemma rfc_vals_bounds typ tsx attrs : forall done tv,
    (forall a, In a attrs -> (attr_typ a < 65536)%N /\ (N.of_nat (attr_len a) < 65536)%N) ->
    In tv (rfc_vals typ tsx done attrs) -> (fst tv < 65536)%N /\ (N.of_nat (length (snd tv)) < 65536)%N.
  Proof.
    induction attrs as [|a rest IH]; intros done tv Hb Hin; cbn [rfc_vals] in Hin; [destruct Hin|].
    destruct Hin as [<-|Hin].
    - cbn [fst snd]. rewrite (attr_value_length hmac hmac_length). apply Hb. now left.
    - eapply IH; [|exact Hin]. intros a' Ha'. apply Hb. now right.
  Qed.

  Lemma rfc_vals_length typ tsx attrs : forall done, length (rfc_vals typ tsx done attrs) = length attrs.
  Proof. induction attrs as [|a rest IH]; intros done; cbn [rfc_vals length]; [reflexivity|]. now rewrite IH. Qed.

  Lemma msg_type_facts c :
    (msg_type c < 256 ^ N.of_nat 2)%N /\ (msg_type c / 16384 = 0)%N /\ method_ok (msg_type c) = true /\ class_of (msg_type c) = c.
  Proof. destruct c; vm_compute; repeat split; reflexivity. Qed.

  (* every message the RFC encoder produces parses back to its class, transaction id and attribute
     sequence, each attribute at the position of its value *)
  Lemma parse_rfc_encode c tsx attrs :
    (tsx < 2 ^ 96)%N ->
    (forall a, In a attrs -> (attr_typ a < 65536)%N /\ (N.of_nat (attr_len a) < 65536)%N) ->
    parse (rfc_encode hmac c tsx attrs) =
    Some (mkparsed c tsx (positions 20 (rfc_vals (msg_type c) tsx [] attrs))).
  Proof.
    intros Ht Hb. unfold rfc_encode. rewrite rfc_body_vals. cbn [app].
    set (vals := rfc_vals (msg_type c) tsx [] attrs).
    set (typ := msg_type c). set (L := N.of_nat (length (encode_vals vals))).
    destruct (msg_type_facts c) as (Htb & Hz & Hm & Hc). fold typ in Htb, Hz, Hm, Hc.
    unfold parse. set (buf := head typ L tsx ++ encode_vals vals).
    assert (Hlen : length buf = 20 + length (encode_vals vals)) by (subst buf; now rewrite app_length, head_length).
    destruct (Nat.ltb_spec (length buf) 20); [lia|].
    assert (H02 : slice buf 0 2 = be 2 typ).
    { subst buf. unfold head. rewrite <- !app_assoc. apply (slice_at [] (be 2 typ)); [reflexivity|now rewrite be_length]. }
    assert (H48 : slice buf 4 8 = be 4 cookie).
    { subst buf. unfold head. rewrite <- !app_assoc. rewrite (app_assoc (be 2 typ)).
      apply slice_at; [now rewrite app_length, !be_length|now rewrite be_length]. }
    assert (H820 : slice buf 8 20 = be 12 tsx).
    { subst buf. unfold head. rewrite <- !app_assoc. rewrite (app_assoc (be 2 L)), (app_assoc (be 2 typ)).
      apply slice_at; [now rewrite !app_length, !be_length|now rewrite be_length]. }
    rewrite H02, H48, H820. rewrite (of_be_be 2 typ Htb). rewrite Hz. cbn [N.eqb negb].
    rewrite (of_be_be 4 cookie) by (vm_compute; reflexivity). rewrite N.eqb_refl. cbn [negb].
    rewrite Hm. cbn [negb]. rewrite Hc.
    rewrite (of_be_be 12 tsx) by (replace (256 ^ N.of_nat 12)%N with (2 ^ 96)%N by reflexivity; exact Ht).
    subst buf. replace 20 with (length (head typ L tsx)) at 2 3 by apply head_length.
    rewrite parse_attrs_tlvs.
    - rewrite head_length. reflexivity.
    - intros tv Hin. eapply rfc_vals_bounds; eauto.
    - rewrite app_length, !head_length. subst vals. rewrite rfc_vals_length.
      assert (Hle : length attrs <= length (encode_vals (rfc_vals typ tsx [] attrs))); [|unfold typ in Hle; clear -Hle; lia].
      clear. generalize (@nil byte). induction attrs as [|a rest IH]; intros done; cbn [rfc_vals encode_vals flat_map length]; [lia|].
      rewrite app_length, tlv_length. specialize (IH (done ++ tlv (attr_typ a) (attr_value hmac a (head typ (N.of_nat (length done + 4 + attr_len a + pad4 (attr_len a))) tsx ++ done)))).
      unfold encode_vals in IH. cbn [fst snd]. lia.
  Qed.

  Lemma rfc_body_app typ tsx l1 : forall done l2,
    rfc_body hmac typ tsx done (l1 ++ l2) = rfc_body hmac typ tsx (rfc_body hmac typ tsx done l1) l2.
  Proof. induction l1 as [|a r IH]; intros done l2; cbn [app rfc_body]; [reflexivity|apply IH]. Qed.

  Lemma firstn_app_le {A} (l r : list A) n : n = length l -> firstn n (l ++ r) = l.
  Proof. intros ->. apply firstn_app_exact. Qed.

  (* an integrity attribute written by the encoder verifies under the same key: the parser recomputes the
     HMAC over exactly the bytes the encoder covered (header with the length patched to the end of the
     attribute, then everything before the attribute), whatever follows it *)
  Lemma integrity_verifies c tsx before alg key after :
    let typ := msg_type c in
    let done := rfc_body hmac typ tsx [] before in
    let buf := rfc_encode hmac c tsx (before ++ BInteg alg key :: after) in
    let vb := 20 + length done + 4 in
    (N.of_nat (length done + 4 + hmac_len alg + pad4 (hmac_len alg)) < 65536)%N ->
    verify_integrity hmac alg key buf
      (mkpa (integ_type alg) vb (vb + hmac_len alg) (vb + hmac_len alg) (vb + hmac_len alg + pad4 (hmac_len alg))) = true.
  Proof.
    intros typ done buf vb Hfit. subst buf. unfold rfc_encode. fold typ.
    rewrite rfc_body_app. fold done. cbn [rfc_body]. cbn [attr_len attr_typ attr_value].
    set (n := hmac_len alg) in *.
    set (prefix := head typ (N.of_nat (length done + 4 + n + pad4 n)) tsx ++ done).
    set (v := hmac alg key prefix).
    rewrite rfc_body_vals.
    set (rest := encode_vals _). set (Ltot := N.of_nat _).
    assert (Hv : length v = n) by apply hmac_length.
    destruct (msg_type_facts c) as (Htb & _). fold typ in Htb.
    unfold verify_integrity. cbn [p_begin p_end p_padend].
    set (buf := head typ Ltot tsx ++ (done ++ tlv (integ_type alg) v) ++ rest).
    assert (H02 : slice buf 0 2 = be 2 typ).
    { subst buf. unfold head. rewrite <- !app_assoc. apply (slice_at [] (be 2 typ)); [reflexivity|now rewrite be_length]. }
    rewrite H02, (of_be_be 2 typ Htb).
    assert (Hpatched : be 2 typ ++ be 2 (N.of_nat (vb + n + pad4 n - 20)) ++ skipn 4 buf
                       = prefix ++ tlv (integ_type alg) v ++ rest).
    { subst buf. rewrite skipn_head. subst prefix. unfold head.
      replace (vb + n + pad4 n - 20) with (length done + 4 + n + pad4 n) by (subst vb; lia).
      now rewrite <- !app_assoc. }
    rewrite Hpatched.
    rewrite firstn_app_le by (subst prefix vb; rewrite app_length, head_length; lia).
    assert (Hval : slice buf vb (vb + n) = v).
    { subst buf. unfold tlv. rewrite <- !app_assoc.
      rewrite (app_assoc (be 2 (integ_type alg))), (app_assoc done), (app_assoc (head typ Ltot tsx)).
      apply slice_at; [subst vb; rewrite !app_length, head_length, !be_length; lia|now rewrite Hv]. }
    rewrite Hval. apply bytes_eqb_refl.
  Qed.

  Lemma integrity_functional alg key buf a :
    verify_integrity hmac alg key buf a = true <->
    hmac alg key (firstn (p_begin a - 4) (be 2 (of_be (slice buf 0 2)) ++ be 2 (N.of_nat (p_padend a - 20)) ++ skipn 4 buf))
    = slice buf (p_begin a) (p_end a).
  Proof. unfold verify_integrity. apply bytes_eqb_eq. Qed.
End Codec2.

(* ---------- fingerprint ---------- *)
Lemma crc_bit_bound c : (c < 2 ^ 32)%N -> (crc_bit c < 2 ^ 32)%N.
Proof.
  intros H. unfold crc_bit. assert (Hh : (c / 2 < 2 ^ 32)%N) by (apply N.div_lt_upper_bound; lia).
  destruct (N.odd c); [|exact Hh]. apply lxor_lt; [reflexivity|exact Hh].
Qed.

Lemma crc_byte_bound c b : (c < 2 ^ 32)%N -> (crc_byte c b < 2 ^ 32)%N.
Proof.
  intros H. unfold crc_byte. do 8 apply crc_bit_bound.
  apply lxor_lt; [exact H|]. pose proof (b2n_bound b). eapply N.lt_trans; [eassumption|reflexivity].
Qed.

Lemma crc32_bound l : (crc32 l < 2 ^ 32)%N.
Proof.
  unfold crc32. apply lxor_lt; [|reflexivity].
  assert (forall c, (c < 2 ^ 32)%N -> (fold_left crc_byte l c < 2 ^ 32)%N) as Hf.
  { induction l as [|b t IH]; intros c Hc; cbn [fold_left]; [exact Hc|]. apply IH. now apply crc_byte_bound. }
  apply Hf. reflexivity.
Qed.

Section Codec3.
  Variable hmac : N -> bytes -> bytes -> bytes.
  Hypothesis hmac_length : forall alg key m, length (hmac alg key m) = hmac_len alg.

  (* a FINGERPRINT written last by the encoder verifies *)
  Lemma fingerprint_verifies c tsx before :
    let typ := msg_type c in
    let done := rfc_body hmac typ tsx [] before in
    let buf := rfc_encode hmac c tsx (before ++ [BFinger]) in
    let vb := 20 + length done + 4 in
    verify_fingerprint buf (mkpa finger_type vb (vb + 4) (vb + 4) (vb + 4)) = true.
  Proof.
    intros typ done buf vb. subst buf. unfold rfc_encode. fold typ.
    rewrite rfc_body_app. fold done. cbn [rfc_body attr_len attr_typ attr_value]. change (pad4 4) with 0.
    set (prefix := head typ (N.of_nat (length done + 4 + 4 + 0)) tsx ++ done).
    set (v := be 4 (N.lxor (crc32 prefix) fp_xor)).
    assert (Hv : length v = 4) by apply be_length.
    assert (Htl : length (done ++ tlv finger_type v) = length done + 4 + 4 + 0).
    { rewrite app_length, tlv_length, Hv. change (pad4 4) with 0. lia. }
    rewrite Htl. fold prefix.
    unfold verify_fingerprint. cbn [p_begin p_end].
    replace (vb + 4 - vb) with 4 by lia. cbn [Nat.eqb andb].
    set (buf := head typ (N.of_nat (length done + 4 + 4 + 0)) tsx ++ done ++ tlv finger_type v).
    replace (firstn (vb - 4) buf) with prefix.
    2:{ subst buf prefix. rewrite app_assoc. symmetry. apply firstn_app_le. subst vb. rewrite app_length, head_length. lia. }
    assert (Hval : slice buf vb (vb + 4) = v).
    { subst buf. unfold tlv. rewrite Hv. change (repeat x00 (pad4 4)) with (@nil byte).
      rewrite (app_assoc (be 2 finger_type)), (app_assoc done), (app_assoc (head _ _ _)).
      apply slice_at; [subst vb; rewrite !app_length, head_length, !be_length; lia|now rewrite Hv]. }
    rewrite Hval. subst v. rewrite of_be_be; [apply N.eqb_refl|].
    change (256 ^ N.of_nat 4)%N with (2 ^ 32)%N. apply lxor_lt; [apply crc32_bound|reflexivity].
  Qed.
End Codec3.


(* ---------- is_stun_message ---------- *)
Lemma is_stun_yes_cookie b r : is_stun b = YesStun r ->
  20 <= length b /\ (of_be (firstn 1 b) < 64)%N /\ of_be (firstn 4 (skipn 4 b)) = cookie /\
  length b = N.to_nat (of_be (firstn 2 (skipn 2 b))) + 20 + r.
Proof.
  unfold is_stun. destruct (Nat.ltb_spec (length b) 20); [discriminate|].
  destruct (N.eqb_spec (of_be (firstn 1 b) / 64) 0) as [Hz|]; cbn [negb]; [|discriminate].
  destruct (N.eqb_spec (of_be (firstn 4 (skipn 4 b))) cookie) as [Hc|]; cbn [negb]; [|discriminate].
  destruct (Nat.ltb_spec (length b) (N.to_nat (of_be (firstn 2 (skipn 2 b))) + 20)); [discriminate|].
  intros Hy; injection Hy as <-. split; [assumption|]. split; [|split; [assumption|]].
  - apply N.div_small_iff in Hz; lia.
  - change (match match b with _ :: _ :: l0 => l0 | _ => [] end with [] => [] | a :: l => a :: match l with [] => [] | a0 :: _ => [a0] end end)
      with (firstn 2 (skipn 2 b)). lia.
Qed.

(* ---------- client schedule ---------- *)
Lemma client_no_response : client_run None = ([0; 500; 1500; 3500; 7500; 15500; 31500]%N, false, 63500%N).
Proof. vm_compute. reflexivity. Qed.

(* a response at instant r (not on a timeout edge) ends the loop: the request was sent at exactly the
   schedule instants before r, and the call returns at r *)
Lemma client_response r : (r < 63500)%N ->
  client_run (Some r) = (filter (fun t => (t <=? r)%N) [0; 500; 1500; 3500; 7500; 15500; 31500]%N, true, r).
Proof.
  intros Hr. unfold client_run. cbn [attempts].
  repeat match goal with
         | |- context [(r <? ?x)%N] => destruct (N.ltb_spec r x)
         end; cbn [filter];
  repeat match goal with
         | |- context [(?x <=? r)%N] => destruct (N.leb_spec x r); try lia
         end; try (repeat f_equal; lia); try lia.
Qed.
