(* Proofs/C03b.v -- C03_main: a stream of well-formed messages and keep-alives is framed into exactly those
   messages, whatever the segmentation *)
From Coq Require Import List Arith NArith Lia Bool.
From Coq.Strings Require Import Byte.
From EZK Require Import Lib.Bytes Lib.Num Lib.Utf8 Model.C03 Proofs.C03 Proofs.C02.
Import ListNotations.
Close Scope N_scope.
Open Scope nat_scope.

(* ---------- the scan with its canonical fuel ---------- *)
Definition scanc (b : bytes) (p : nat) (cl : N) : scan := scan_lines (S (length b)) b p cl.

Lemma scan_norm F b p cl : p <= length b -> length b - p < F -> scan_lines F b p cl = scanc b p cl.
Proof.
  intros Hp Hf. unfold scanc. destruct (Nat.le_gt_cases F (S (length b))) as [Hle|Hgt].
  - symmetry. apply scan_lines_fuel; [apply scan_lines_no_panic; lia|exact Hle].
  - apply scan_lines_fuel; [apply scan_lines_no_panic; lia|lia].
Qed.

Lemma scanc_no_panic b p cl : p <= length b -> scanc b p cl <> SPanic.
Proof. intros. unfold scanc. apply scan_lines_no_panic; lia. Qed.

(* a complete head, or an error in it, is stable under extension *)
Lemma scanc_stable b p cl e r :
  p <= length b -> scanc b p cl = r -> (exists q c, r = SComplete q c) \/ (exists x, r = SErr x) ->
  scanc (b ++ e) p cl = r.
Proof.
  intros Hp H Hr. unfold scanc in H. pose proof (scan_lines_complete_ext _ _ _ _ e _ H Hr) as H2.
  unfold scanc. rewrite (scan_lines_fuel (S (length b)) (S (length (b ++ e)))); [exact H2| |rewrite app_length; lia].
  rewrite H2. destruct Hr as [(q & c & ->)|(x & ->)]; discriminate.
Qed.

(* the state saved at an incomplete head is a sound summary on every extension *)
Lemma resume_aux F : forall src p cl p' cl' e F',
  scan_lines F src p cl = SIncomplete p' cl' -> p <= length src -> length (src ++ e) - p < F' ->
  scan_lines F' (src ++ e) p cl = scanc (src ++ e) p' cl'.
Proof.
  induction F as [|F IH]; intros src p cl p' cl' e F' H Hp Hf; cbn [scan_lines] in H; [discriminate|].
  assert (Hlen : length (src ++ e) = length src + length e) by apply app_length.
  destruct (pull_next src p) as [lo hi next| | |] eqn:E; try discriminate.
  - destruct (pull_next_line_bounds _ _ _ _ _ E) as (-> & H1 & H2 & H3).
    destruct (sniff_line (sub src p hi) cl) as [cl1|] eqn:Es; [|discriminate].
    destruct F' as [|F']; [lia|]. cbn [scan_lines].
    rewrite (pull_next_ext _ _ e _ E) by discriminate. rewrite sub_app by lia. rewrite Es.
    apply (IH src next cl1 p' cl' e F' H); lia.
  - injection H as <- <-. apply scan_norm; lia.
Qed.

Lemma scanc_resume b p cl p' cl' e :
  p <= length b -> scanc b p cl = SIncomplete p' cl' -> scanc (b ++ e) p cl = scanc (b ++ e) p' cl'.
Proof.
  intros Hp H. unfold scanc at 1. eapply resume_aux; [exact H|exact Hp|lia].
Qed.

(* once the head is complete the Content-Length seen so far no longer matters *)
Lemma scan_cl_irrelevant F : forall b p c0 c q cl,
  scan_lines F b p c0 = SComplete q cl -> scan_lines F b p c = SComplete q cl \/ scan_lines F b p c = SComplete q c.
Proof.
  induction F as [|F IH]; intros b p c0 c q cl H; cbn [scan_lines] in *; [discriminate|].
  destruct (pull_next b p) as [lo hi next| | |]; try discriminate.
  - unfold sniff_line in *. destruct (split_colon (sub b lo hi)) as [name rest].
    destruct (is_content_length name).
    + (* a Content-Length line: the value replaces whatever was there *)
      left. exact H.
    + apply (IH b next c0 c q cl H).
  - injection H as <- <-. now right.
Qed.

(* ---------- where the head ends ---------- *)
Lemma scan_complete_eoh F : forall b p c q cl, scan_lines F b p c = SComplete q cl -> pull_next b q = EndOfHead.
Proof.
  induction F as [|F IH]; intros b p c q cl H; cbn [scan_lines] in H; [discriminate|].
  destruct (pull_next b p) as [lo hi next| | |] eqn:E; try discriminate.
  - destruct (sniff_line (sub b lo hi) c); [|discriminate]. eapply IH; eauto.
  - injection H as <- _. exact E.
Qed.

Lemma pull_next_eoh_classify b q : pull_next b q = EndOfHead ->
  q <= length b /\ exists w dbl, classify (skipn q b) = Break w dbl.
Proof.
  unfold pull_next. cbn [pull_loop]. rewrite Nat.add_0_r.
  destruct (Nat.ltb_spec (length b) q) as [|Hq]; [discriminate|].
  destruct (find_nl (skipn q b)) as [off|] eqn:Ef; [|discriminate].
  destruct (classify (skipn (off + q + 0) b)) as [|w dbl|] eqn:Ec; [| |discriminate].
  - intros H. apply pull_loop_eoh in H. lia.
  - destruct (Nat.eqb_spec (off + q + 0) q) as [Heq|]; [|discriminate]. intros _.
    assert (off = 0) by lia. subst off. rewrite Nat.add_0_l, Nat.add_0_r in Ec. split; [exact Hq|eauto].
Qed.

Lemma head_end_eoh b q e : pull_next b q = EndOfHead ->
  head_end (b ++ e) q = head_end b q /\ head_end b q <= length b.
Proof.
  intros H. apply pull_next_eoh_classify in H. destruct H as (Hq & w & dbl & Hc).
  unfold head_end. rewrite skipn_app_le by exact Hq.
  assert (Hlen : length (skipn q b) = length b - q) by apply skipn_length.
  destruct (skipn q b) as [|a [|b' t]] eqn:Es; cbn [classify] in Hc; try discriminate.
  destruct (Byte.eqb a LF) eqn:Ea.
  - (* LF ... : two bytes decide *)
    assert (Hcr : Byte.eqb a CR = false).
    { apply byte_eqb_eq in Ea. subst a. reflexivity. }
    assert (Hb : q + 2 <= length b) by (cbn [length] in Hlen; lia).
    split.
    + destruct t as [|c [|d t']]; destruct e as [|e1 [|e2 e']]; cbn [app]; rewrite ?Hcr, ?Ea; cbn [andb]; reflexivity.
    + destruct t as [|c [|d t']]; rewrite ?Hcr, ?Ea; cbn [andb]; destruct (Byte.eqb b' LF); lia.
  - destruct (Byte.eqb b' LF) eqn:Eb; [|discriminate].
    destruct t as [|c [|d t']]; try discriminate.
    + destruct (is_lws c); discriminate.
    + cbn [app]. cbn [length] in Hlen. rewrite ?Ea, ?Eb. cbn [andb]. split; [reflexivity|].
      destruct (Byte.eqb a CR && true && Byte.eqb c CR && Byte.eqb d LF); lia.
Qed.

Lemma firstn_app_exact {A} (l r : list A) : firstn (length l) (l ++ r) = l.
Proof. rewrite firstn_app, Nat.sub_diag, firstn_all. cbn. now rewrite app_nil_r. Qed.

Lemma skipn_app_exact {A} (l r : list A) : skipn (length l) (l ++ r) = r.
Proof. rewrite skipn_app, Nat.sub_diag, skipn_all. reflexivity. Qed.

(* ---------- well-formed messages, sound decoder states ---------- *)
Definition all_nl (s : bytes) : Prop := forallb is_nl s = true.

Record wfm (start_ok : bytes -> bool) (m : bytes) (he : nat) (cl : N) : Prop := mk_wfm {
  wf_start : match m with c :: _ => is_nl c = false | [] => False end;
  wf_he : he <= length m /\ (N.of_nat he <= max_head)%N;
  wf_scan : exists p, scanc (firstn he m) 0 0 = SComplete p cl /\ head_end (firstn he m) p = he;
  wf_len : length m = he + N.to_nat cl;
  wf_ok : lines_utf8 (S (length m)) m 0 = true /\ start_ok (first_line m) = true }.

Definition sound (st : dstate) (b : bytes) : Prop :=
  head_progress st <= length b /\ forall e, scanc (b ++ e) (head_progress st) (content_len st) = scanc (b ++ e) 0 0.

Lemma sound_init b : sound (mkds 0 0) b.
Proof. split; [cbn; lia|reflexivity]. Qed.

Lemma sound_ext st b c : sound st b -> sound st (b ++ c).
Proof.
  intros [Hp Hs]. split; [rewrite app_length; lia|]. intros e. rewrite <- app_assoc. apply Hs.
Qed.

Lemma drop_crlf_all s : all_nl s -> drop_crlf s = [].
Proof.
  unfold all_nl. induction s as [|c r IH]; cbn [drop_crlf forallb]; [reflexivity|].
  intros H. apply andb_prop in H as [Hc Hr]. rewrite Hc. now apply IH.
Qed.

Lemma drop_crlf_app_nl ka x : all_nl ka -> drop_crlf (ka ++ x) = drop_crlf x.
Proof.
  unfold all_nl. induction ka as [|c r IH]; cbn [app drop_crlf forallb]; [reflexivity|].
  intros H. apply andb_prop in H as [Hc Hr]. rewrite Hc. now apply IH.
Qed.

Lemma drop_crlf_nonnl c r : is_nl c = false -> drop_crlf (c :: r) = c :: r.
Proof. intros H. cbn [drop_crlf]. now rewrite H. Qed.

Section Decode.
  Variable start_ok : bytes -> bool.

  (* the head of a well-formed message, alone or followed by anything, scans complete with the message's
     own values *)
  Lemma wf_scan_ext m he cl x : wfm start_ok m he cl ->
    exists p, scanc (firstn he m ++ x) 0 0 = SComplete p cl /\ head_end (firstn he m ++ x) p = he /\ pull_next (firstn he m) p = EndOfHead.
  Proof.
    intros Hw. destruct (wf_scan _ _ _ _ Hw) as (p & Hs & Hh). exists p.
    assert (He : pull_next (firstn he m) p = EndOfHead) by (unfold scanc in Hs; eapply scan_complete_eoh; eauto).
    split; [apply scanc_stable; [lia|exact Hs|left; eauto]|]. split; [|exact He].
    destruct (head_end_eoh _ _ x He) as [H1 _]. now rewrite H1.
  Qed.

  (* D1: a non-empty proper prefix of a well-formed message: nothing yet, and the saved state stays sound *)
  Lemma decode_prefix st m he cl b y :
    wfm start_ok m he cl -> m = b ++ y -> b <> [] -> y <> [] -> sound st b ->
    exists st1, decode start_ok st b = (st1, b, DNone) /\ sound st1 b.
  Proof.
    intros Hw Hm Hb Hy [Hp Hs].
    assert (Hstart : exists c r, b = c :: r /\ is_nl c = false).
    { pose proof (wf_start _ _ _ _ Hw) as H. destruct b as [|c r]; [congruence|]. subst m. cbn [app] in H. eauto. }
    destruct Hstart as (c0 & r0 & Eb & Hc0).
    assert (Hsrc : (if Nat.eqb (head_progress st) 0 then drop_crlf b else b) = b).
    { destruct (Nat.eqb _ _); [|reflexivity]. rewrite Eb. now apply drop_crlf_nonnl. }
    unfold decode. rewrite Hsrc. rewrite Eb. rewrite <- Eb.
    fold (scanc b (head_progress st) (content_len st)).
    specialize (Hs []) as Hs0. rewrite app_nil_r in Hs0. rewrite Hs0.
    destruct (wf_he _ _ _ _ Hw) as [Hhe Hmax].
    set (head := firstn he m).
    assert (Hhead_len : length head = he) by (subst head; apply firstn_length_le; exact Hhe).
    assert (Hlenm : length m = length b + length y) by (subst m; apply app_length).
    assert (Hylen : 0 < length y) by (destruct y; [congruence|cbn; lia]).
    destruct (Nat.lt_ge_cases (length b) he) as [Hshort|Hlong].
    - (* the buffer ends inside the head *)
      assert (Hpre : exists z, head = b ++ z).
      { exists (firstn (he - length b) y). subst head m. rewrite firstn_app. f_equal. apply firstn_all2. lia. }
      destruct Hpre as (z & Hz).
      destruct (wf_scan _ _ _ _ Hw) as (p & Hsc & Hhe2). fold head in Hsc, Hhe2.
      destruct (scanc b 0 0) as [p' cl'|q c|x|] eqn:Er.
      + (* incomplete: wait *)
        assert (Hsmall : (max_head <? N.of_nat (length b))%N = false).
        { apply N.ltb_ge. unfold max_head in *. lia. }
        rewrite Hsmall. exists (mkds p' cl'). split; [reflexivity|].
        split; [cbn [head_progress]; unfold scanc in Er; eapply scan_incomplete_bound; [exact Er|lia]|].
        intros e. cbn [head_progress content_len]. symmetry. apply scanc_resume; [lia|exact Er].
      + (* a complete head inside a proper prefix of the head: impossible *)
        exfalso. assert (Hst : scanc (b ++ z) 0 0 = SComplete q c) by (apply scanc_stable; [lia|exact Er|left; eauto]).
        rewrite <- Hz, Hsc in Hst. injection Hst as <- <-.
        assert (He : pull_next b p = EndOfHead) by (unfold scanc in Er; eapply scan_complete_eoh; eauto).
        destruct (head_end_eoh _ _ z He) as [H1 H2]. rewrite <- Hz, Hhe2 in H1. lia.
      + exfalso. assert (Hst : scanc (b ++ z) 0 0 = SErr x) by (apply scanc_stable; [lia|exact Er|right; eauto]).
        rewrite <- Hz, Hsc in Hst. discriminate.
      + exfalso. revert Er. apply scanc_no_panic. lia.
    - (* the whole head is there, part of the body is missing *)
      assert (Hpre : exists x, b = head ++ x).
      { exists (skipn he b). subst head m. rewrite firstn_app. replace (he - length b) with 0 by lia.
        cbn [firstn]. rewrite app_nil_r. symmetry. apply firstn_skipn. }
      destruct Hpre as (x & Hx).
      destruct (wf_scan_ext m he cl x Hw) as (p & Hsc & Hhe2 & Heoh). fold head in Hsc, Hhe2, Heoh. rewrite <- Hx in Hsc, Hhe2.
      rewrite Hsc. rewrite Hhe2.
      assert (Hsmall : (max_head <? N.of_nat he)%N = false) by (apply N.ltb_ge; exact Hmax).
      rewrite Hsmall.
      pose proof (wf_len _ _ _ _ Hw) as Hl.
      destruct (Nat.ltb_spec (length b) (he + N.to_nat cl)) as [_|Hge]; [|lia].
      exists (mkds (head_progress st) cl). split; [reflexivity|].
      split; [exact Hp|]. intros e. cbn [head_progress content_len].
      assert (Hfull : scanc (b ++ e) 0 0 = SComplete p cl).
      { rewrite Hx, <- app_assoc. destruct (wf_scan_ext m he cl (x ++ e) Hw) as (p2 & Hsc2 & _ & _). fold head in Hsc2.
        assert (Hsame : scanc (head ++ x ++ e) 0 0 = scanc ((head ++ x) ++ e) 0 0) by now rewrite app_assoc.
        rewrite Hsc2. f_equal.
        (* the same head: the same end *)
        assert (Hst : scanc ((head ++ x) ++ e) 0 0 = SComplete p cl).
        { apply scanc_stable; [lia| |left; eauto]. rewrite <- Hx. exact Hsc. }
        rewrite <- app_assoc in Hst. rewrite Hsc2 in Hst. now injection Hst. }
      rewrite Hfull. specialize (Hs e). rewrite Hfull in Hs.
      unfold scanc in Hs |- *.
      destruct (scan_cl_irrelevant _ _ _ _ cl _ _ Hs) as [H1|H1]; exact H1.
  Qed.

  (* D2: the whole message (and maybe more) is in the buffer: exactly that message is framed *)
  Lemma decode_complete st m he cl b2 :
    wfm start_ok m he cl -> sound st (m ++ b2) ->
    decode start_ok st (m ++ b2) = (mkds 0 0, b2, DFrame m he cl).
  Proof.
    intros Hw [Hp Hs].
    pose proof (wf_start _ _ _ _ Hw) as Hst. destruct m as [|c0 r0] eqn:Em; [destruct Hst|]. rewrite <- Em in *.
    assert (Hsrc : (if Nat.eqb (head_progress st) 0 then drop_crlf (m ++ b2) else m ++ b2) = m ++ b2).
    { destruct (Nat.eqb _ _); [|reflexivity]. rewrite Em. cbn [app]. now apply drop_crlf_nonnl. }
    unfold decode. rewrite Hsrc.
    destruct (m ++ b2) as [|x0 xs] eqn:Emb; [rewrite Em in Emb; discriminate|]. rewrite <- Emb in *.
    fold (scanc (m ++ b2) (head_progress st) (content_len st)).
    specialize (Hs []) as Hs0. rewrite app_nil_r in Hs0. rewrite Hs0.
    destruct (wf_he _ _ _ _ Hw) as [Hhe Hmax]. pose proof (wf_len _ _ _ _ Hw) as Hl.
    set (head := firstn he m).
    assert (Hsplit : m ++ b2 = head ++ (skipn he m ++ b2)).
    { subst head. now rewrite app_assoc, firstn_skipn. }
    destruct (wf_scan_ext m he cl (skipn he m ++ b2) Hw) as (p & Hsc & Hhe2 & _). fold head in Hsc, Hhe2.
    rewrite <- Hsplit in Hsc, Hhe2. rewrite Hsc, Hhe2.
    assert (Hsmall : (max_head <? N.of_nat he)%N = false) by (apply N.ltb_ge; exact Hmax).
    rewrite Hsmall.
    destruct (Nat.ltb_spec (length (m ++ b2)) (he + N.to_nat cl)) as [Hlt|_]; [rewrite app_length in Hlt; lia|].
    rewrite <- Hl. rewrite firstn_app_exact, skipn_app_exact.
    destruct (wf_ok _ _ _ _ Hw) as [H1 H2]. rewrite H1, H2. reflexivity.
  Qed.
End Decode.

(* ---------- streams of messages ---------- *)
Definition msg := (bytes * nat * N * bytes)%type.     (* message, head length, body length, keep-alive CR/LFs after it *)

Fixpoint stream (ka : bytes) (ms : list msg) : bytes :=
  match ms with
  | [] => ka
  | (m, _, _, ka') :: r => ka ++ m ++ stream ka' r
  end.

Definition frame_of (x : msg) : item := let '(m, he, cl, _) := x in IFrame m he cl.

Lemma all_nl_app a b : all_nl (a ++ b) <-> all_nl a /\ all_nl b.
Proof. unfold all_nl. rewrite forallb_app. apply andb_true_iff. Qed.

Section Stream.
  Variable start_ok : bytes -> bool.

  Definition wf_all (ms : list msg) : Prop :=
    Forall (fun x => let '(m, he, cl, ka') := x in wfm start_ok m he cl /\ all_nl ka') ms.

  Inductive inv (st : dstate) (buf : bytes) (ms : list msg) (future : bytes) : Prop :=
  | InvIdle (ka : bytes) : st = mkds 0 0 -> buf = [] -> all_nl ka -> future = stream ka ms -> inv st buf ms future
  | InvMid (m : bytes) (he : nat) (cl : N) (ka' : bytes) (rest : list msg) (y : bytes) :
      ms = (m, he, cl, ka') :: rest -> buf <> [] -> m = buf ++ y -> y <> [] -> sound st buf ->
      future = y ++ stream ka' rest -> inv st buf ms future.

  Lemma decode_drop c ka x : all_nl ka -> decode start_ok (mkds 0 c) (ka ++ x) = decode start_ok (mkds 0 c) x.
  Proof. intros H. unfold decode. cbn [head_progress Nat.eqb]. now rewrite drop_crlf_app_nl. Qed.

  Lemma decode_all_nl c b : all_nl b -> decode start_ok (mkds 0 c) b = (mkds 0 c, [], DNone).
  Proof. intros H. unfold decode. cbn [head_progress Nat.eqb]. now rewrite drop_crlf_all. Qed.

  Lemma wfm_nonempty m he cl : wfm start_ok m he cl -> m <> [].
  Proof. intros Hw. pose proof (wf_start _ _ _ _ Hw) as H. destruct m; [destruct H|discriminate]. Qed.

  (* draining a buffer that starts between two messages *)
  Lemma drain_idle ms : forall ka Bf F fuel,
    wf_all ms -> all_nl ka -> stream ka ms = Bf ++ F -> length Bf < fuel ->
    exists ms1 ms2 st' buf',
      ms = ms1 ++ ms2 /\ drain start_ok fuel (mkds 0 0) Bf = (map frame_of ms1, Some (st', buf')) /\ inv st' buf' ms2 F.
  Proof.
    induction ms as [|[[[m he] cl] ka1] r IH]; intros ka Bf F fuel Hwf Hka Hs Hf.
    - cbn [stream] in Hs. subst ka. apply all_nl_app in Hka. destruct Hka as [HBf HF].
      destruct fuel as [|f]; [lia|]. exists [], [], (mkds 0 0), []. split; [reflexivity|].
      cbn [drain]. rewrite decode_all_nl by exact HBf. split; [reflexivity|]. now apply (InvIdle _ _ _ _ F).
    - inversion Hwf as [|? ? Hhd Hwr]; subst. cbn beta iota in Hhd. destruct Hhd as [Hw Hka1]. cbn [stream] in Hs.
      destruct fuel as [|f]; [lia|].
      apply app_eq_app in Hs. destruct Hs as (l & [[Hk HF]|[HBf Hm]]).
      + (* the buffer ends inside the keep-alives *)
        subst ka. apply all_nl_app in Hka. destruct Hka as [HBfn Hl].
        exists [], ((m, he, cl, ka1) :: r), (mkds 0 0), []. split; [reflexivity|].
        cbn [drain]. rewrite decode_all_nl by exact HBfn. split; [reflexivity|].
        apply (InvIdle _ _ _ _ l); auto.
      + subst Bf. apply app_eq_app in Hm. destruct Hm as (l2 & [[Hm HF]|[Hl HS]]).
        * (* the buffer ends inside the message (or exactly at one of its ends) *)
          destruct l as [|x0 xs].
          { (* only keep-alives so far *)
            cbn [app] in Hm. subst l2. rewrite app_nil_r.
            exists [], ((m, he, cl, ka1) :: r), (mkds 0 0), []. split; [reflexivity|].
            cbn [drain]. rewrite decode_all_nl by exact Hka. split; [reflexivity|].
            apply (InvIdle _ _ _ _ []); auto. reflexivity. }
          destruct l2 as [|y0 ys].
          { (* exactly the message *)
            rewrite app_nil_r in Hm. subst m. cbn [app] in HF. subst F.
            cbn [drain]. rewrite decode_drop by exact Hka.
            pose proof (decode_complete start_ok (mkds 0 0) (x0 :: xs) he cl [] Hw (sound_init _)) as Hdc.
            rewrite app_nil_r in Hdc. rewrite Hdc.
            destruct (IH ka1 [] (stream ka1 r) f Hwr Hka1 eq_refl) as (ms1 & ms2 & st' & buf' & E & Hd & Hi); [rewrite app_length in Hf; cbn [length] in *; lia|].
            exists ((x0 :: xs, he, cl, ka1) :: ms1), ms2, st', buf'. split; [now rewrite E|].
            rewrite Hd. split; [reflexivity|exact Hi]. }
          (* a proper prefix *)
          cbn [drain]. rewrite decode_drop by exact Hka.
          destruct (decode_prefix start_ok (mkds 0 0) m he cl (x0 :: xs) (y0 :: ys) Hw Hm) as (st1 & Hd & Hsd);
            [discriminate|discriminate|apply sound_init|].
          rewrite Hd. exists [], ((m, he, cl, ka1) :: r), st1, (x0 :: xs). split; [reflexivity|]. split; [reflexivity|].
          apply (InvMid _ _ _ _ m he cl ka1 r (y0 :: ys)); auto; discriminate.
        * (* the whole message and more *)
          subst l. cbn [drain]. rewrite decode_drop by exact Hka.
          rewrite (decode_complete start_ok (mkds 0 0) m he cl l2 Hw (sound_init _)).
          destruct (IH ka1 l2 F f Hwr Hka1 HS) as (ms1 & ms2 & st' & buf' & E & Hd & Hi).
          { rewrite !app_length in Hf. pose proof (wfm_nonempty _ _ _ Hw). destruct m; [congruence|]. cbn [length] in Hf. lia. }
          exists ((m, he, cl, ka1) :: ms1), ms2, st', buf'. split; [now rewrite E|].
          rewrite Hd. split; [reflexivity|exact Hi].
  Qed.

  (* draining a buffer that starts inside a message *)
  Lemma drain_mid st b0 m he cl ka1 r y c F fuel :
    wfm start_ok m he cl -> all_nl ka1 -> wf_all r -> m = b0 ++ y -> b0 <> [] -> y <> [] -> sound st b0 ->
    y ++ stream ka1 r = c ++ F -> length (b0 ++ c) < fuel ->
    exists ms1 ms2 st' buf',
      (m, he, cl, ka1) :: r = ms1 ++ ms2 /\ drain start_ok fuel st (b0 ++ c) = (map frame_of ms1, Some (st', buf')) /\ inv st' buf' ms2 F.
  Proof.
    intros Hw Hka1 Hwr Hm Hb0 Hy Hsd Hs Hf. destruct fuel as [|f]; [lia|].
    apply app_eq_app in Hs. destruct Hs as (l & [[Hyl HF]|[Hc HS]]).
    - destruct l as [|l0 ls].
      + (* the chunk completes the message exactly *)
        rewrite app_nil_r in Hyl. subst y. cbn [app] in HF. subst F.
        cbn [drain]. rewrite <- Hm.
        assert (Hsm : sound st (m ++ [])) by (rewrite app_nil_r, Hm; now apply sound_ext).
        pose proof (decode_complete start_ok st m he cl [] Hw Hsm) as Hdc. rewrite app_nil_r in Hdc. rewrite Hdc.
        destruct (drain_idle r ka1 [] (stream ka1 r) f Hwr Hka1 eq_refl) as (ms1 & ms2 & st' & buf' & E & Hd & Hi);
          [rewrite app_length in Hf; destruct b0; [congruence|cbn [length] in *; lia]|].
        exists ((m, he, cl, ka1) :: ms1), ms2, st', buf'. split; [now rewrite E|]. rewrite Hd. split; [reflexivity|exact Hi].
      + (* still inside the message *)
        subst y. rewrite app_assoc in Hm.
        cbn [drain].
        destruct (decode_prefix start_ok st m he cl (b0 ++ c) (l0 :: ls) Hw Hm) as (st1 & Hd & Hs1);
          [destruct b0; [congruence|discriminate]|discriminate|now apply sound_ext|].
        rewrite Hd. exists [], ((m, he, cl, ka1) :: r), st1, (b0 ++ c). split; [reflexivity|]. split; [reflexivity|].
        apply (InvMid _ _ _ _ m he cl ka1 r (l0 :: ls)); auto; [destruct b0; [congruence|discriminate]|discriminate].
    - (* the chunk reaches beyond the message *)
      subst c. rewrite app_assoc, <- Hm. cbn [drain].
      assert (Hsm : sound st (m ++ l)) by (rewrite Hm, <- app_assoc; now apply sound_ext).
      rewrite (decode_complete start_ok st m he cl l Hw Hsm).
      destruct (drain_idle r ka1 l F f Hwr Hka1 HS) as (ms1 & ms2 & st' & buf' & E & Hd & Hi).
      { rewrite app_assoc, <- Hm, app_length in Hf. pose proof (wfm_nonempty _ _ _ Hw). destruct m; [congruence|]. cbn [length] in Hf. lia. }
      exists ((m, he, cl, ka1) :: ms1), ms2, st', buf'. split; [now rewrite E|]. rewrite Hd. split; [reflexivity|exact Hi].
  Qed.

  Lemma stream_nil ka ms : wf_all ms -> stream ka ms = [] -> ms = [] /\ ka = [].
  Proof.
    intros Hwf H. destruct ms as [|[[[m he] cl] ka1] r]; [cbn in H; auto|].
    inversion Hwf as [|? ? Hhd _]; subst. cbn beta iota in Hhd. destruct Hhd as [Hw _]. cbn [stream] in H. apply app_eq_nil in H. destruct H as [_ H].
    apply app_eq_nil in H. destruct H as [H _]. now apply wfm_nonempty in Hw.
  Qed.

  Lemma wf_all_app_r ms1 ms2 : wf_all (ms1 ++ ms2) -> wf_all ms2.
  Proof. unfold wf_all. rewrite Forall_app. tauto. Qed.

  (* the FramedRead loop over any segmentation *)
  Lemma run_chunks_frames chunks : forall st buf ms,
    wf_all ms -> inv st buf ms (concat chunks) -> run_chunks start_ok st buf chunks = map frame_of ms.
  Proof.
    induction chunks as [|c rest IH]; intros st buf ms Hwf Hinv; cbn [run_chunks concat] in *.
    - destruct Hinv as [ka -> -> Hka Hs|m he cl ka' r y _ _ _ Hy _ Hs].
      + symmetry in Hs. apply stream_nil in Hs; [|exact Hwf]. destruct Hs as [-> ->]. reflexivity.
      + symmetry in Hs. apply app_eq_nil in Hs. destruct Hs as [Hs _]. congruence.
    - destruct c as [|c0 cs]; [cbn [app] in Hinv; now apply IH|].
      destruct Hinv as [ka -> -> Hka Hs|m he cl ka' r y Hms Hb Hm Hy Hsd Hs].
      + cbn [app].
        destruct (drain_idle ms ka (c0 :: cs) (concat rest) (S (length (c0 :: cs))) Hwf Hka) as (ms1 & ms2 & st' & buf' & E & Hd & Hi);
          [symmetry; exact Hs|lia|].
        rewrite Hd. rewrite E, map_app. f_equal. apply IH; [rewrite E in Hwf; now apply wf_all_app_r in Hwf|exact Hi].
      + subst ms. inversion Hwf as [|? ? Hhd Hwr]; subst. cbn beta iota in Hhd. destruct Hhd as [Hw Hka1].
        destruct (drain_mid st buf (buf ++ y) he cl ka' r y (c0 :: cs) (concat rest) (S (length (buf ++ c0 :: cs))) Hw Hka1 Hwr eq_refl Hb Hy Hsd)
          as (ms1 & ms2 & st' & buf' & E & Hd & Hi); [symmetry; exact Hs|lia|].
        rewrite Hd. rewrite E, map_app. f_equal. apply IH; [rewrite E in Hwf; now apply wf_all_app_r in Hwf|exact Hi].
  Qed.

  (* C03_main *)
  Theorem framing_independent_of_segmentation ka0 ms chunks :
    wf_all ms -> all_nl ka0 -> concat chunks = stream ka0 ms ->
    run_framed start_ok chunks = map frame_of ms.
  Proof.
    intros Hwf Hka Hs. unfold run_framed. apply run_chunks_frames; [exact Hwf|].
    apply (InvIdle _ _ _ _ ka0); auto.
  Qed.
End Stream.
