(* Proofs/C02.v -- no panic, no hang: datagram body slicing, Via indexing, the receive loops, the
   stream decoder behind the FramedRead loop *)
From Coq Require Import List Arith NArith Lia Bool.
From Coq.Strings Require Import Byte.
From EZK Require Import Lib.Bytes Lib.Num Lib.Utf8 Model.C03 Proofs.C03 Model.C02.
Import ListNotations.
Close Scope N_scope.
Open Scope nat_scope.

(* ---------- the head end lies inside the buffer ---------- *)
Lemma skipn_cons_length {A} (l : list A) p x t : skipn p l = x :: t -> p + S (length t) = length l \/ p + S (length t) <= length l.
Proof.
  intros H. assert (E : length (skipn p l) = S (length t)) by now rewrite H.
  rewrite skipn_length in E. lia.
Qed.

Lemma head_end_le src p : p <= length src -> head_end src p <= length src.
Proof.
  intros Hp. unfold head_end.
  destruct (skipn p src) as [|a [|b [|c [|d t]]]] eqn:E; try lia;
    assert (El : length (skipn p src) = length src - p) by apply skipn_length;
    rewrite E in El; cbn [length] in El;
    repeat match goal with |- context [if ?x then _ else _] => destruct x end; lia.
Qed.

Lemma collect_headers_bound fuel : forall src p first acc q hs,
  collect_headers fuel src p first acc = Some (q, hs) -> p <= length src -> q <= length src.
Proof.
  induction fuel as [|fuel IH]; intros src p first acc q hs H Hp; cbn [collect_headers] in H; [discriminate|].
  destruct (pull_next src p) as [lo hi next| | |] eqn:E; try discriminate.
  - destruct (pull_next_line_bounds _ _ _ _ _ E) as (-> & H1 & H2 & H3).
    destruct (negb (utf8_valid (sub src p hi))); [discriminate|].
    destruct first.
    + eapply IH; eauto.
    + destruct (parse_header_line (sub src p hi)); [|discriminate]. eapply IH; eauto.
  - injection H as <- _. exact Hp.
Qed.

(* ---------- datagram: the checked form never panics and equals the reference framing ---------- *)
Lemma slice_some s lo hi : (lo <= hi)%N -> (hi <= N.of_nat (length s))%N ->
  slice s lo hi = Some (sub s (N.to_nat lo) (N.to_nat hi)).
Proof.
  intros H1 H2. unfold slice.
  destruct (N.leb_spec lo hi); [|lia]. destruct (N.leb_spec hi (N.of_nat (length s))); [|lia]. reflexivity.
Qed.

Lemma datagram_body_checked_no_panic dbg src he cl :
  he <= length src -> datagram_body true dbg src he cl <> DgPanic.
Proof.
  intros Hh. unfold datagram_body. destruct cl as [n|].
  - destruct (N.eqb_spec n 0); [discriminate|].
    destruct (N.leb_spec (N.of_nat he + n) usize_max); cbn [andb]; [|discriminate].
    destruct (N.leb_spec (N.of_nat he + n) (N.of_nat (length src))); [|discriminate].
    rewrite slice_some by lia. discriminate.
  - destruct (N.eqb_spec (N.of_nat he) (N.of_nat (length src))); [discriminate|].
    rewrite slice_some by lia. discriminate.
Qed.

Lemma datagram_code_checked_no_panic dbg src : datagram_code true dbg src <> DgPanic.
Proof.
  unfold datagram_code.
  destruct (collect_headers (S (length src)) src 0 true []) as [[p hs]|] eqn:E; [|discriminate].
  apply datagram_body_checked_no_panic. apply head_end_le.
  eapply collect_headers_bound; [exact E|lia].
Qed.

Lemma sub_to_end s lo : lo <= length s -> sub s lo (length s) = skipn lo s.
Proof.
  intros H. unfold sub. apply firstn_all2. rewrite skipn_length. lia.
Qed.

(* with the checked form the code frames a datagram exactly like the reference used for C03 *)
Lemma datagram_code_checked_eq dbg src :
  (N.of_nat (length src) <= usize_max)%N -> datagram_code true dbg src = datagram_parse src.
Proof.
  intros Hlen. unfold datagram_code, datagram_parse, header_content_length.
  destruct (collect_headers (S (length src)) src 0 true []) as [[p hs]|] eqn:E; [|reflexivity].
  assert (Hh : head_end src p <= length src).
  { apply head_end_le. eapply collect_headers_bound; [exact E|lia]. }
  set (he := head_end src p) in *. unfold datagram_body.
  assert (Hnone : (if (N.of_nat he =? N.of_nat (length src))%N then DgOk he []
                   else match slice src (N.of_nat he) (N.of_nat (length src)) with
                        | Some b => DgOk he b | None => DgPanic end) = DgOk he (skipn he src)).
  { destruct (N.eqb_spec (N.of_nat he) (N.of_nat (length src))) as [Heq|Hne].
    - apply Nat2N.inj in Heq. rewrite Heq. now rewrite skipn_all.
    - rewrite slice_some by lia. rewrite !Nat2N.id. now rewrite sub_to_end. }
  destruct (find (fun nv => is_cl_name (fst nv)) hs) as [[nm v]|]; [|exact Hnone].
  destruct (parse_uint usize_max (trim v)) as [n|]; [|exact Hnone].
  destruct (N.eqb_spec n 0); [reflexivity|].
  destruct (N.leb_spec (N.of_nat he + n) (N.of_nat (length src))) as [Hle|Hgt].
  - destruct (N.leb_spec (N.of_nat he + n) usize_max); [|lia]. cbn [andb].
    rewrite slice_some by lia. rewrite N2Nat.inj_add, !Nat2N.id. reflexivity.
  - rewrite andb_false_r. reflexivity.
Qed.

(* ---------- the receive loop ---------- *)
Lemma handle_packet_checked_no_panic dbg p : handle_packet true dbg p <> TaskPanic.
Proof.
  unfold handle_packet. destruct (_ || _); [discriminate|].
  pose proof (datagram_code_checked_no_panic dbg p) as H.
  destruct (datagram_code true dbg p); congruence.
Qed.

Lemma udp_loop_checked dbg ps : udp_loop true dbg ps = (map (handle_packet true dbg) ps, true).
Proof.
  induction ps as [|p rest IH]; [reflexivity|]. cbn [udp_loop map].
  pose proof (handle_packet_checked_no_panic dbg p) as H. rewrite IH.
  destruct (handle_packet true dbg p); try reflexivity. congruence.
Qed.

(* ---------- the stream path: decode / drain / run_chunks never panic and never run out of fuel ---------- *)
Lemma find_nl_zero c r : find_nl (c :: r) = Some 0 -> is_nl c = true.
Proof.
  cbn [find_nl]. destruct (is_nl c); [reflexivity|]. destruct (find_nl r); cbn; discriminate.
Qed.

Lemma pull_loop_eoh fuel : forall input lb skip,
  pull_loop fuel input lb skip = EndOfHead -> skip = 0 /\ find_nl (skipn lb input) = Some 0.
Proof.
  induction fuel as [|fuel IH]; intros input lb skip H; cbn [pull_loop] in H; [discriminate|].
  destruct (Nat.ltb (length input) (lb + skip)); [discriminate|].
  destruct (find_nl (skipn (lb + skip) input)) as [off|] eqn:E; [|discriminate].
  destruct (classify (skipn (off + lb + skip) input)) as [|w dbl|].
  - apply IH in H. lia.
  - destruct (Nat.eqb_spec (off + lb + skip) lb) as [Heq|]; [|discriminate].
    assert (skip = 0) by lia. assert (off = 0) by lia. subst. rewrite Nat.add_0_r in E. auto.
  - discriminate.
Qed.

Lemma pull_next_eoh_head c r : is_nl c = false -> pull_next (c :: r) 0 <> EndOfHead.
Proof.
  intros Hc H. apply pull_loop_eoh in H. destruct H as [_ H]. cbn [skipn] in H.
  apply find_nl_zero in H. congruence.
Qed.

Lemma drop_crlf_head s c r : drop_crlf s = c :: r -> is_nl c = false.
Proof.
  induction s as [|x t IH]; cbn [drop_crlf]; [discriminate|].
  destruct (is_nl x) eqn:E; [exact IH|]. intros H; injection H as <- _. exact E.
Qed.

Lemma drop_crlf_length s : length (drop_crlf s) <= length s.
Proof. induction s as [|x t IH]; cbn [drop_crlf length]; [lia|]. destruct (is_nl x); cbn [length]; lia. Qed.

Lemma scan_complete_bounds fuel : forall src p cl q c,
  scan_lines fuel src p cl = SComplete q c -> p <= length src ->
  p <= q <= length src /\ (q = p -> pull_next src p = EndOfHead).
Proof.
  induction fuel as [|fuel IH]; intros src p cl q c H Hp; cbn [scan_lines] in H; [discriminate|].
  destruct (pull_next src p) as [lo hi next| | |] eqn:E; try discriminate.
  - destruct (pull_next_line_bounds _ _ _ _ _ E) as (-> & H1 & H2 & H3).
    destruct (sniff_line (sub src p hi) cl) as [cl1|]; [|discriminate].
    apply IH in H; [|lia]. destruct H as [[Ha Hb] _]. split; [lia|]. intros ->. lia.
  - injection H as <- _. split; [lia|]. intros _. reflexivity.
Qed.

Lemma scan_incomplete_bound fuel : forall src p cl q c,
  scan_lines fuel src p cl = SIncomplete q c -> p <= length src -> q <= length src.
Proof.
  induction fuel as [|fuel IH]; intros src p cl q c H Hp; cbn [scan_lines] in H; [discriminate|].
  destruct (pull_next src p) as [lo hi next| | |] eqn:E; try discriminate.
  - destruct (pull_next_line_bounds _ _ _ _ _ E) as (-> & H1 & H2 & H3).
    destruct (sniff_line (sub src p hi) cl) as [cl1|]; [|discriminate].
    apply IH in H; lia.
  - injection H as <- _. exact Hp.
Qed.

Definition dinv (st : dstate) (buf : bytes) : Prop := head_progress st <= length buf.

Section Stream.
  Variable start_ok : bytes -> bool.

  (* one decode call: no panic; the saved offset stays inside the buffer; a frame consumes >= 1 byte *)
  Lemma decode_spec st src0 st' src' r :
    dinv st src0 -> decode start_ok st src0 = (st', src', r) ->
    r <> DPanic /\
    match r with
    | DNone => dinv st' src' /\ length src' <= length src0
    | DFrame _ _ _ => dinv st' src' /\ length src' < length src0
    | _ => True
    end.
  Proof.
    unfold dinv. intros Hinv H. unfold decode in H.
    set (src := if Nat.eqb (head_progress st) 0 then drop_crlf src0 else src0) in *.
    assert (Hlen : length src <= length src0).
    { subst src. destruct (Nat.eqb _ _); [apply drop_crlf_length|lia]. }
    assert (Hhp : head_progress st <= length src).
    { subst src. destruct (Nat.eqb_spec (head_progress st) 0) as [->|]; lia. }
    destruct src as [|c0 r0] eqn:Esrc.
    { injection H as <- <- <-. split; [discriminate|]. cbn [length] in *. split; lia. }
    rewrite <- Esrc in *.
    assert (Hhead : head_progress st = 0 -> is_nl c0 = false).
    { intros Hz. subst src. rewrite Hz in Esrc. cbn [Nat.eqb] in Esrc. eapply drop_crlf_head; eauto. }
    destruct (scan_lines (S (length src)) src (head_progress st) (content_len st)) as [p cl|p cl|e|] eqn:Es.
    - pose proof (scan_incomplete_bound _ _ _ _ _ _ Es Hhp) as Hb.
      injection H as <- <- <-. split.
      + destruct (_ <? _)%N; discriminate.
      + destruct (_ <? _)%N; cbn [head_progress]; [exact I|]. split; lia.
    - destruct (scan_complete_bounds _ _ _ _ _ _ Es Hhp) as [[Ha Hb] Hc].
      pose proof (head_end_bound src p) as Hhe.
      destruct (_ <? _)%N.
      + injection H as <- <- <-. split; [discriminate|exact I].
      + destruct (Nat.ltb_spec (length src) (head_end src p + N.to_nat cl)) as [Hlt|Hge].
        * injection H as <- <- <-. split; [discriminate|]. cbn [head_progress]. split; lia.
        * assert (Hpos : 0 < p).
          { destruct (Nat.eq_dec p 0) as [->|]; [|lia]. exfalso.
            assert (Hz : head_progress st = 0) by lia.
            specialize (Hc (eq_sym Hz)). rewrite Hz in Hc. rewrite Esrc in Hc.
            revert Hc. apply pull_next_eoh_head. auto. }
          destruct (_ && _); injection H as <- <- <-; (split; [discriminate|]); [|exact I].
          cbn [head_progress]. rewrite skipn_length. split; lia.
    - injection H as <- <- <-. split; [discriminate|exact I].
    - exfalso. revert Es. apply scan_lines_no_panic; lia.
  Qed.

  Lemma drain_spec fuel : forall st buf is k,
    dinv st buf -> length buf < fuel -> drain start_ok fuel st buf = (is, k) ->
    ~ In IPanic is /\ match k with Some (st', buf') => dinv st' buf' | None => True end.
  Proof.
    induction fuel as [|fuel IH]; intros st buf is k Hinv Hf H; [lia|]. cbn [drain] in H.
    destruct (decode start_ok st buf) as [[st' buf'] r] eqn:Ed.
    destruct (decode_spec _ _ _ _ _ Hinv Ed) as [Hnp Hr].
    destruct r as [|f h c|e|].
    - injection H as <- <-. split; [intros []|]. tauto.
    - destruct (drain start_ok fuel st' buf') as [is' k'] eqn:Edr. injection H as <- <-.
      destruct Hr as [Hi Hl]. destruct (IH _ _ _ _ Hi ltac:(lia) Edr) as [Hn Hk].
      split; [|exact Hk]. intros [Hx|Hx]; [discriminate|tauto].
    - injection H as <- <-. split; [|exact I]. intros [Hx|[]]. discriminate.
    - congruence.
  Qed.

  Lemma run_chunks_no_panic chunks : forall st buf,
    dinv st buf -> ~ In IPanic (run_chunks start_ok st buf chunks).
  Proof.
    induction chunks as [|c rest IH]; intros st buf Hinv; cbn [run_chunks].
    - destruct (drain start_ok (S (length buf)) st buf) as [is k] eqn:Ed.
      destruct (drain_spec _ _ _ _ _ Hinv (Nat.lt_succ_diag_r _) Ed) as [Hn _].
      destruct k as [[st' [|x t]]|]; try exact Hn.
      rewrite in_app_iff. intros [Hx|[Hx|[]]]; [tauto|discriminate].
    - destruct c as [|x t]; [now apply IH|].
      set (b := buf ++ x :: t).
      assert (Hinv' : dinv st b). { unfold dinv in *. subst b. rewrite app_length. lia. }
      clearbody b.
      destruct (drain start_ok (S (length b)) st b) as [is k] eqn:Ed.
      destruct (drain_spec _ _ _ _ _ Hinv' (Nat.lt_succ_diag_r _) Ed) as [Hn Hk].
      destruct k as [[st' buf']|]; [|exact Hn].
      rewrite in_app_iff. intros [Hx|Hx]; [tauto|]. revert Hx. now apply IH.
  Qed.

  Lemma run_framed_no_panic chunks : ~ In IPanic (run_framed start_ok chunks).
  Proof. apply run_chunks_no_panic. unfold dinv. cbn. lia. Qed.
End Stream.
