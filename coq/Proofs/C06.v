(* Proofs/C06.v -- lemmas about the server transaction models of Model/Tsx.v *)
From Coq Require Import List NArith Lia Bool.
From EZK Require Import Gen.Tables Model.Tsx Proofs.C05.
Import ListNotations.
Open Scope N_scope.
Arguments N.add : simpl never.
Arguments N.mul : simpl never.
Arguments N.ltb : simpl never.
Arguments N.leb : simpl never.
Arguments N.eqb : simpl never.
Arguments N.min : simpl never.
Arguments N.max : simpl never.

Definition is_done (o : out) : bool := match o with Done _ => true | _ => false end.

(* ---------- non-INVITE ---------- *)
Lemma ni_reliable_once tie t0 evs : server_noninvite tie true t0 evs = [Send t0; Done t0].
Proof. reflexivity. Qed.

(* one re-send per request retransmission inside the window, at the instant it arrives *)
Definition is_req (e : sev) : bool := match e with OtherIn => false | _ => true end.

Lemma absorb_resends tie until : forall evs,
  Forall (fun p => sbefore tie (fst p) until = true) evs ->
  srv_absorb tie until evs = map (fun p => Send (fst p)) (filter (fun p => is_req (snd p)) evs).
Proof.
  induction evs as [|[a e] rest IH]; intros H; cbn [srv_absorb filter map]; [reflexivity|].
  inversion H as [|? ? Ha Hr]; subst. cbn [fst snd] in *. rewrite Ha.
  destruct e; cbn [is_req map]; [f_equal; now apply IH|f_equal; now apply IH|now apply IH].
Qed.

(* nothing is sent for anything that arrives after the window *)
Fixpoint sorted_times (now : N) (evs : list (N * sev)) : Prop :=
  match evs with [] => True | (a, _) :: rest => now <= a /\ sorted_times a rest end.

Lemma sbefore_false tie a t : t < a -> sbefore tie a t = false.
Proof. intros H. unfold sbefore. destruct tie; [destruct (N.leb_spec a t)|destruct (N.ltb_spec a t)]; auto; lia. Qed.

Lemma absorb_after_window tie until evs :
  match evs with [] => True | (a, _) :: _ => until < a end ->
  srv_absorb tie until evs = [].
Proof.
  destruct evs as [|[a e] rest]; [reflexivity|]. intros H. cbn [srv_absorb]. now rewrite sbefore_false.
Qed.

(* ---------- INVITE 3xx-6xx ---------- *)
Lemma inv_first_send_now tie rel t0 evs :
  exists rest, server_invite_failure tie rel t0 evs = Send t0 :: rest.
Proof. unfold server_invite_failure. eauto. Qed.

(* reliable transport: nothing but the first transmission is ever sent (request retransmissions do
   not exist on reliable transports, hence the hypothesis) *)
Lemma srv_inv_fail_reliable_no_send tie fuel : forall abandon now g d evs,
  Forall (fun p => snd p <> ReqRetrans) evs ->
  Forall (fun o => is_send o = false) (srv_inv_fail tie fuel true abandon now g d evs).
Proof.
  induction fuel as [|fuel IH]; intros abandon now g d evs H; cbn [srv_inv_fail]; [repeat constructor|].
  rewrite N.leb_refl.
  destruct evs as [|[a e] rest]; [repeat constructor|].
  destruct (sbefore tie a abandon); [|repeat constructor].
  inversion H as [|? ? He Hr]; subst. cbn [snd] in He.
  destruct e; [congruence|repeat constructor|]. now apply IH.
Qed.

(* the run ends exactly one way: Ok at the ACK, or TimedOut at t0 + 64*T1; nothing follows *)
Fixpoint ends_once (abandon : N) (l : list out) : Prop :=
  match l with
  | [] => False
  | [Done _] => True
  | [TimedOut t] => t = abandon
  | Send _ :: r => ends_once abandon r
  | _ => False
  end.

Lemma srv_inv_fail_ends tie fuel : forall rel abandon now g d evs,
  In OutOfFuel (srv_inv_fail tie fuel rel abandon now g d evs) \/
  ends_once abandon (srv_inv_fail tie fuel rel abandon now g d evs).
Proof.
  induction fuel as [|fuel IH]; intros rel abandon now g d evs; cbn [srv_inv_fail]; [left; now left|].
  set (deadline := if rel then abandon else N.min g abandon).
  set (timer := if abandon <=? deadline then [TimedOut abandon]
     else Send deadline :: srv_inv_fail tie fuel rel abandon deadline (deadline + N.min (d * 2) T2_ms) (N.min (d * 2) T2_ms) evs).
  assert (Ht : In OutOfFuel timer \/ ends_once abandon timer).
  { unfold timer. destruct (abandon <=? deadline); [right; reflexivity|].
    destruct (IH rel abandon deadline (deadline + N.min (d * 2) T2_ms) (N.min (d * 2) T2_ms) evs) as [H|H].
    - left. now right.
    - right. exact H. }
  destruct evs as [|[a e] rest]; [exact Ht|].
  destruct (sbefore tie a deadline); [|exact Ht].
  destruct e.
  - destruct (IH rel abandon (N.max a now) g d rest) as [H|H]; [left; now right|right; exact H].
  - right. exact I.
  - apply IH.
Qed.

(* no transmission after the ACK: the ACK ends the run, consumed by the transaction *)
Lemma srv_inv_fail_ack_stops tie fuel (rel : bool) abandon now g d a rest :
  sbefore tie a (if rel then abandon else N.min g abandon) = true ->
  srv_inv_fail tie (S fuel) rel abandon now g d ((a, AckIn) :: rest) = [Done (N.max a now)].
Proof. intros H. cbn [srv_inv_fail]. now rewrite H. Qed.

(* the loop never runs out of fuel *)
Lemma srv_inv_fail_fuel tie : forall fuel rel abandon now g d evs k,
  T1_ms <= d -> abandon < g + T1_ms * N.of_nat k -> (k + length evs < fuel)%nat ->
  ~ In OutOfFuel (srv_inv_fail tie fuel rel abandon now g d evs).
Proof.
  unfold T1_ms.
  induction fuel as [|fuel IH]; intros rel abandon now g d evs k Hd Hk Hf; [lia|]. cbn [srv_inv_fail].
  set (deadline := if rel then abandon else N.min g abandon).
  set (timer := if abandon <=? deadline then [TimedOut abandon]
     else Send deadline :: srv_inv_fail tie fuel rel abandon deadline (deadline + N.min (d * 2) T2_ms) (N.min (d * 2) T2_ms) evs).
  assert (Ht : ~ In OutOfFuel timer).
  { unfold timer. destruct (N.leb_spec abandon deadline) as [Hle|Hlt].
    - intros [H|[]]. discriminate.
    - assert (Hdg : deadline = g /\ g < abandon).
      { unfold deadline in *. destruct rel; lia. }
      destruct Hdg as [Hdg Hga]. intros [H|H]; [discriminate|]. revert H.
      destruct k as [|k]; [lia|].
      apply (IH rel abandon deadline _ _ evs k); [unfold T2_ms; lia| |lia].
      rewrite Hdg. rewrite Nat2N.inj_succ in Hk. unfold T2_ms. lia. }
  destruct evs as [|[a e] rest]; [exact Ht|].
  destruct (sbefore tie a deadline); [|exact Ht].
  cbn [length] in Hf.
  destruct e.
  - intros [H|H]; [discriminate|]. revert H. apply (IH rel abandon _ g d rest k); auto; clear -Hf; lia.
  - intros [H|[]]. discriminate.
  - apply (IH rel abandon _ g d rest k); auto; clear -Hf; lia.
Qed.

Lemma fuel_arith1 t0 : t0 + timeout_ms < t0 + T1_ms + T1_ms * N.of_nat 64.
Proof.
  assert (E1 : timeout_ms = 32000) by (vm_compute; reflexivity).
  assert (E2 : T1_ms = 500) by reflexivity. rewrite E1, E2. lia.
Qed.

Lemma fuel_arith2 (evs : list (N * sev)) :
  (64 + length evs < N.to_nat tsx_timeout_factor + 2 + length evs)%nat.
Proof.
  assert (E : N.to_nat tsx_timeout_factor = 64%nat) by (vm_compute; reflexivity). rewrite E. lia.
Qed.

Lemma no_fuel_gen tie rel t0 evs fuel : (64 + length evs < fuel)%nat ->
  ~ In OutOfFuel (Send t0 :: srv_inv_fail tie fuel rel (t0 + timeout_ms) t0 (t0 + T1_ms) T1_ms evs).
Proof.
  intros Hf [H|H]; [discriminate|]. revert H.
  apply (srv_inv_fail_fuel tie fuel rel (t0 + timeout_ms) t0 (t0 + T1_ms) T1_ms evs 64%nat).
  - apply N.le_refl.
  - apply fuel_arith1.
  - exact Hf.
Qed.

Lemma ends_gen tie rel t0 evs fuel : (64 + length evs < fuel)%nat ->
  ends_once (t0 + timeout_ms) (srv_inv_fail tie fuel rel (t0 + timeout_ms) t0 (t0 + T1_ms) T1_ms evs).
Proof.
  intros Hf. pose proof (no_fuel_gen tie rel t0 evs fuel Hf) as Hn.
  destruct (srv_inv_fail_ends tie fuel rel (t0 + timeout_ms) t0 (t0 + T1_ms) T1_ms evs) as [H|H]; [|exact H].
  exfalso. apply Hn. now right.
Qed.

Lemma server_invite_failure_no_fuel tie rel t0 evs :
  ~ In OutOfFuel (server_invite_failure tie rel t0 evs).
Proof. unfold server_invite_failure. apply no_fuel_gen. apply fuel_arith2. Qed.

Lemma server_invite_failure_ends tie rel t0 evs :
  exists rest, server_invite_failure tie rel t0 evs = Send t0 :: rest /\ ends_once (t0 + timeout_ms) rest.
Proof.
  unfold server_invite_failure. eexists. split; [reflexivity|]. apply ends_gen. apply fuel_arith2.
Qed.
