(* Proofs/C18.v *)
From Coq Require Import List NArith Lia Bool.
From EZK Require Import Gen.Tables Lib.Bytes Model.C18.
Import ListNotations.
Open Scope N_scope.

(* the code's response equals the RFC 7616 formula, on first use and on every reuse, for every
   algorithm, -sess variant, qop, userhash and every string *)
Lemma response_is_rfc enforce ch c r cnonce n d a q :
  1 <= n -> c_alg ch = Some a -> choose_qop (enforce || c_sess ch) (c_qops ch) = Some q ->
  respond enforce ch c r cnonce n = Some d ->
  d_response d = rfc_response a (c_sess ch) q (cr_user c) (c_realm ch) (cr_pass c) (c_nonce ch)
                              (rq_method r) (rq_uri r) (rq_body r) cnonce n /\
  d_username d = rfc_username a (c_userhash ch) (cr_user c) (c_realm ch) /\
  d_nc d = (match q with QNone => 0 | _ => n end) /\
  d_realm d = c_realm ch /\ d_nonce d = c_nonce ch /\ d_uri d = rq_uri r /\ d_opaque d = c_opaque ch /\
  d_alg d = a /\ d_sess d = c_sess ch /\ d_qop d = q /\ d_userhash d = c_userhash ch.
Proof.
  intros Hn Ha Hq. unfold respond. rewrite Ha, Hq. intros H; inversion H; subst; clear H. cbn.
  repeat split; try reflexivity.
  - unfold rfc_response, code_first, code_reuse, code_ha1, code_ha2, rfc_A1, rfc_A2.
    destruct q; destruct (c_sess ch); try reflexivity;
      destruct (N.leb_spec n 1); try reflexivity; replace n with 1 by lia; reflexivity.
  - destruct q; try reflexivity; lia.
Qed.

Lemma respond_defined enforce ch c r cnonce n a q :
  c_alg ch = Some a -> choose_qop (enforce || c_sess ch) (c_qops ch) = Some q ->
  exists d, respond enforce ch c r cnonce n = Some d.
Proof. intros Ha Hq. unfold respond. rewrite Ha, Hq. eauto. Qed.

(* nc grows by one per request *)
Lemma nc_increments enforce ch c r cnonce n d1 d2 q :
  1 <= n -> choose_qop (enforce || c_sess ch) (c_qops ch) = Some q -> q <> QNone ->
  respond enforce ch c r cnonce n = Some d1 -> respond enforce ch c r cnonce (n + 1) = Some d2 ->
  d_nc d2 = d_nc d1 + 1.
Proof.
  intros Hn Hq Hne. unfold respond. rewrite Hq. destruct (c_alg ch); [|discriminate].
  intros H1 H2; inversion H1; inversion H2; subst; cbn. destruct q; [congruence| |]; lia.
Qed.

(* qop choice: auth-int preferred, then auth, none when the challenge offers none *)
Lemma qop_choice enforce qs :
  choose_qop enforce qs =
  match qs with
  | [] => Some (if enforce then QAuth else QNone)
  | _ => if has OAuthInt qs then Some QAuthInt else if has OAuth qs then Some QAuth else None
  end.
Proof. reflexivity. Qed.

(* ---------- session ---------- *)
Lemma creds_by_realm st realm c : store_get realm (fst st) = Some c -> creds_for st realm = Some c.
Proof. unfold creds_for. now intros ->. Qed.

Lemma creds_default st realm : store_get realm (fst st) = None -> creds_for st realm = snd st.
Proof. unfold creds_for. now intros ->. Qed.

(* the store: what add_for_realm and set_default leave behind *)
Lemma store_add_same realm c m : auth_store_add_replaces = true -> store_get realm (store_add realm c m) = Some c.
Proof.
  intros G. induction m as [|[r c0] t IH]; cbn [store_add store_get].
  - now rewrite bytes_eqb_refl.
  - destruct (bytes_eqb r realm) eqn:E; cbn [store_get]; rewrite E; [now rewrite G | exact IH].
Qed.

Lemma store_add_other realm realm' c m : realm' <> realm -> store_get realm' (store_add realm c m) = store_get realm' m.
Proof.
  intros N. induction m as [|[r c0] t IH]; cbn [store_add store_get].
  - destruct (bytes_eqb realm realm') eqn:E; [|reflexivity]. apply bytes_eqb_eq in E. congruence.
  - destruct (bytes_eqb r realm) eqn:E; cbn [store_get].
    + apply bytes_eqb_eq in E. subst r. destruct (bytes_eqb realm realm') eqn:E'; [|reflexivity].
      apply bytes_eqb_eq in E'. congruence.
    + destruct (bytes_eqb r realm'); [reflexivity | exact IH].
Qed.

Lemma add_for_realm_chosen realm c st : auth_store_add_replaces = true -> creds_for (add_for_realm realm c st) realm = Some c.
Proof. intros G. unfold creds_for, add_for_realm. cbn [fst snd]. now rewrite store_add_same. Qed.

Lemma add_for_realm_others realm realm' c st : realm' <> realm -> creds_for (add_for_realm realm c st) realm' = creds_for st realm'.
Proof. intros N. unfold creds_for, add_for_realm. cbn [fst snd]. now rewrite store_add_other. Qed.

Lemma set_default_spec c st realm :
  creds_for (set_default c st) realm = match store_get realm (fst st) with Some x => Some x | None => Some c end.
Proof. reflexivity. Qed.

Lemma first_answerable_spec enforce rej es l p ch :
  first_answerable enforce rej es l = Some (p, ch) ->
  exists pre post, l = pre ++ (p, ch) :: post /\ answerable enforce rej es ch = true /\
                   Forall (fun pc => answerable enforce rej es (snd pc) = false) pre.
Proof.
  induction l as [|[p0 c0] t IH]; cbn [first_answerable]; [discriminate|].
  cbn [snd]. destruct (answerable enforce rej es c0) eqn:E.
  - intros H; inversion H; subst. exists [], t. repeat split; auto.
  - intros H. destruct (IH H) as (pre & post & -> & Ha & Hf). exists ((p0, c0) :: pre), post.
    repeat split; auto.
Qed.

(* a challenge whose nonce equals the nonce already answered for that realm is never answered again *)
Lemma repeated_nonce_not_answered enforce rej es ch e :
  find_entry (c_realm ch) es = Some e -> e_nonce e = c_nonce ch -> answerable enforce rej es ch = false.
Proof.
  intros Hf Hn. unfold answerable. rewrite Hf, Hn, bytes_eqb_refl. reflexivity.
Qed.

(* a single repeated challenge makes handle_authenticate fail for that realm and keeps the old entry *)
Lemma repeated_challenge_fails enforce rej st es p ch e c :
  find_entry (c_realm ch) es = Some e -> e_nonce e = c_nonce ch -> creds_for st (c_realm ch) = Some c ->
  handle_authenticate enforce rej st es [(p, ch)] = (es, [c_realm ch]).
Proof.
  intros Hf Hn Hc. unfold handle_authenticate, group. cbn [fold_left group_add fst snd handle_groups].
  rewrite Hc. cbn [first_answerable snd]. now rewrite (repeated_nonce_not_answered enforce rej es ch e Hf Hn).
Qed.

(* header kind: one header per entry; Proxy-Authorization exactly for answers to Proxy-Authenticate *)
Lemma authorize_kinds es : map (fun x => fst (fst x)) (snd (authorize es)) = map e_proxy es /\
  map (fun x => snd x) (snd (authorize es)) = map (fun e => e_uses e + 1) es /\
  map e_uses (fst (authorize es)) = map (fun e => e_uses e + 1) es.
Proof. unfold authorize. cbn [fst snd]. rewrite !map_map. repeat split; reflexivity. Qed.

(* a new answer records the header kind of the challenge it answers and starts unused *)
Lemma answered_entry enforce rej st es realm l p ch c t :
  creds_for st realm = Some c -> first_answerable enforce rej es l = Some (p, ch) ->
  handle_groups enforce rej st es ((realm, l) :: t) =
  handle_groups enforce rej st (remove_entry realm es ++ [mke realm (c_nonce ch) p ch c 0]) t.
Proof. intros Hc Hf. cbn [handle_groups]. now rewrite Hc, Hf. Qed.

Lemma no_credentials_fails enforce rej st es realm l t :
  creds_for st realm = None ->
  handle_groups enforce rej st es ((realm, l) :: t) =
  (fst (handle_groups enforce rej st es t), realm :: snd (handle_groups enforce rej st es t)).
Proof. intros Hc. cbn [handle_groups]. rewrite Hc. now destruct (handle_groups enforce rej st es t). Qed.
