(* Proofs/C08b.v -- whole histories: every non-ACK request of a run is answered exactly once, or is (still) parked
   behind a CSeq gap and has not been answered yet *)
From Coq Require Import List Arith NArith Lia Bool Permutation.
From EZK Require Import Gen.Tables Lib.Bytes Model.C10 Proofs.C10 Model.C08 Proofs.C08.
Import ListNotations.
Close Scope N_scope.
Open Scope nat_scope.

Definition ids (rs : list req) : list N := map q_id rs.

(* request x sits in the backlog of some dialog *)
Definition parked_in (ds : list dentry) (x : N) : Prop :=
  exists d e c, nth_error ds d = Some e /\ In (c, x) (backlog (d_st e)).

(* ---------- what one dispatch does to the dialog table ---------- *)
Lemma walk_cases ls : forall i ds env r,
  (fst (walk ls i ds env r) = ds /\ handled ls ds env r = [r] /\ parked ls ds env r = false) \/
  (exists d e, q_dlg r = Some d /\ nth_error ds d = Some e /\
     fst (walk ls i ds env r) = set_nth ds d (fst (fst (deliver d e env r))) /\
     handled ls ds env r = snd (fst (deliver d e env r)) /\
     parked ls ds env r = snd (deliver d e env r) /\
     C10.refused (d_st e) (C10.mkreq (q_cseq r) (q_id r) (is_ack r)) = false).
Proof.
  induction ls as [|l rest IH]; intros i ds env r; cbn [walk handled parked].
  - left. auto.
  - destruct l as [mask|].
    + destruct (takes mask (q_meth r)); [left; auto|].
      destruct (IH (S i) ds env r) as [(H1 & H2 & H3)|(d & e & H)].
      * left. destruct (walk rest (S i) ds env r) as [ds' evs]. cbn [fst] in *. auto.
      * right. exists d, e. destruct (walk rest (S i) ds env r) as [ds' evs]. cbn [fst] in *. exact H.
    + specialize (IH (S i) ds env r).
      destruct (q_dlg r) as [d|] eqn:Ed; [|exact IH].
      destruct (nth_error ds d) as [e|] eqn:En; [|exact IH].
      destruct (C10.refused (d_st e) (C10.mkreq (q_cseq r) (q_id r) (is_ack r))) eqn:Er; [exact IH|].
      right. exists d, e. destruct (deliver d e env r) as [[e' reqs] pk]. cbn [fst snd]. repeat split; auto.
Qed.

(* ---------- what one C10 step does to the backlog ---------- *)
Lemma step_backlog st q st' del :
  C10.step st q = (st', del) -> NoDup (keys (backlog st)) ->
  (del = [] /\ backlog st' = bl_insert (r_cseq q) (r_id q) (backlog st) /\ exists n, next st = Some n /\ (n < r_cseq q)%N) \/
  (exists dd, del = (r_cseq q, r_id q) :: dd /\ Permutation (backlog st) (dd ++ backlog st') /\ NoDup (map fst dd)).
Proof.
  unfold C10.step. intros H Hnd.
  destruct (r_cseq q ?= match next st with Some n => n | None => r_cseq q end)%N eqn:Ec.
  - destruct (drain_spec (S (length (backlog st))) (r_cseq q) (backlog st) Hnd (Nat.lt_succ_diag_r _)) as (k & dd & bl' & Hd & Hk & Hp & _).
    rewrite Hd in H. injection H as <- <-. right. exists dd. cbn [backlog]. split; [reflexivity|]. split; [exact Hp|].
    rewrite Hk. apply Nseq_NoDup.
  - injection H as <- <-. right. exists []. cbn [backlog app]. split; [reflexivity|]. split; [apply Permutation_refl| constructor].
  - injection H as <- <-. left. cbn [backlog]. split; [reflexivity|]. split; [reflexivity|].
    destruct (next st) as [n|]; [exists n; split; [reflexivity|]; apply N.compare_gt_iff in Ec; exact Ec|].
    rewrite N.compare_refl in Ec. discriminate.
Qed.

(* ---------- small facts ---------- *)
Lemma nth_set_same {A} (l : list A) : forall d x y, nth_error l d = Some y -> nth_error (set_nth l d x) d = Some x.
Proof. induction l as [|h t IH]; intros [|d] x y H; cbn in *; try discriminate; [reflexivity| eapply IH; eauto]. Qed.

Lemma nth_set_other {A} (l : list A) : forall d d' x, d <> d' -> nth_error (set_nth l d x) d' = nth_error l d'.
Proof.
  induction l as [|h t IH]; intros d d' x Hne; [destruct d; reflexivity|].
  destruct d as [|d], d' as [|d']; cbn; try reflexivity; [congruence|]. apply IH. congruence.
Qed.

Lemma lookup_unique env : NoDup (ids env) -> forall r', In r' env -> lookup (q_id r') env = Some r'.
Proof.
  unfold lookup. induction env as [|a t IH]; intros Hnd r' Hin; [destruct Hin|].
  cbn [ids map] in Hnd. inversion Hnd as [|? ? Hnot Hnd']; subst. cbn [find].
  destruct Hin as [->|Hin]; [now rewrite N.eqb_refl|].
  destruct (N.eqb_spec (q_id a) (q_id r')) as [E|_]; [|now apply IH].
  exfalso. apply Hnot. rewrite E. now apply in_map.
Qed.

Lemma lookup_cons_other r env x : q_id r <> x -> lookup x (r :: env) = lookup x env.
Proof. unfold lookup. cbn [find]. intros H. destruct (N.eqb_spec (q_id r) x); [contradiction|reflexivity]. Qed.

Lemma lookup_in x env r' : lookup x env = Some r' -> In r' env.
Proof. unfold lookup. intros H. apply find_some in H. tauto. Qed.

Lemma bl_remove_incl k bl ci : In ci (bl_remove k bl) -> In ci bl.
Proof.
  induction bl as [|[k' v] t IH]; cbn; [tauto|]. destruct (N.eqb k' k); cbn; [intros H; right; now apply IH|].
  intros [H|H]; [now left| right; now apply IH].
Qed.

(* the requests released from a backlog, looked up in the requests seen so far *)
Definition released (E : list req) (dd : list (N * N)) : list req :=
  flat_map (fun ci => match lookup (snd ci) E with Some r' => [r'] | None => [] end) dd.

Lemma released_in E dd r2 : In r2 (released E dd) -> exists ci, In ci dd /\ lookup (snd ci) E = Some r2.
Proof.
  unfold released. intros H. apply in_flat_map in H as (ci & Hci & H). exists ci. split; [exact Hci|].
  destruct (lookup (snd ci) E) as [r'|]; [|destruct H]. destruct H as [->|[]]. reflexivity.
Qed.

Lemma released_none E dd x : ~ In x (map snd dd) -> length (filter (answered_as x) (released E dd)) = 0.
Proof.
  intros Hn. rewrite filter_none; [reflexivity|]. intros r2 Hin. apply released_in in Hin as (ci & Hci & Hl).
  unfold answered_as. destruct (N.eqb_spec (q_id r2) x) as [E1|]; [|reflexivity].
  exfalso. apply Hn. apply lookup_id in Hl. rewrite <- E1, Hl. now apply in_map.
Qed.

Lemma released_ack E dd x rx : lookup x E = Some rx -> is_ack rx = true -> length (filter (answered_as x) (released E dd)) = 0.
Proof.
  intros Hl Ha. rewrite filter_none; [reflexivity|]. intros r2 Hin. apply released_in in Hin as (ci & Hci & Hl2).
  unfold answered_as. destruct (N.eqb_spec (q_id r2) x) as [E1|]; [|reflexivity].
  pose proof (lookup_id _ _ _ Hl2) as E2. assert (Hx : snd ci = x) by congruence. rewrite Hx, Hl in Hl2. injection Hl2 as <-.
  now rewrite Ha.
Qed.

Lemma released_one E dd x rx : NoDup (map snd dd) -> In x (map snd dd) -> lookup x E = Some rx -> is_ack rx = false ->
  length (filter (answered_as x) (released E dd)) = 1.
Proof.
  intros Hnd Hin Hl Ha. induction dd as [|ci t IH]; [destruct Hin|].
  cbn [map] in Hnd, Hin. inversion Hnd as [|? ? Hnot Hnd']; subst.
  change (released E (ci :: t)) with ((match lookup (snd ci) E with Some r' => [r'] | None => [] end) ++ released E t).
  rewrite filter_app, app_length.
  destruct Hin as [Heq|Hin].
  - rewrite Heq, Hl. cbn [filter]. unfold answered_as at 1. rewrite (lookup_id _ _ _ Hl), N.eqb_refl, Ha. cbn [negb andb length].
    rewrite released_none; [reflexivity| now rewrite <- Heq].
  - rewrite (IH Hnd' Hin). destruct (lookup (snd ci) E) as [r'|] eqn:El; [|reflexivity].
    cbn [filter]. unfold answered_as. destruct (N.eqb_spec (q_id r') x) as [E1|]; [|reflexivity].
    exfalso. apply Hnot. apply lookup_id in El. rewrite <- El, E1. exact Hin.
Qed.

(* ---------- the invariant of a run ---------- *)
Record Inv (ds : list dentry) (env : list req) (evs : list ev) : Prop := mkInv {
  inv_ids : NoDup (ids env);
  inv_keys : forall d e, nth_error ds d = Some e -> NoDup (keys (backlog (d_st e)));
  inv_vals : forall d e, nth_error ds d = Some e -> NoDup (map snd (backlog (d_st e)));
  inv_src : forall d e c x, nth_error ds d = Some e -> In (c, x) (backlog (d_st e)) ->
            exists r', In r' env /\ q_id r' = x /\ q_cseq r' = c /\ q_dlg r' = Some d;
  inv_once : forall r', In r' env -> is_ack r' = false ->
            (parked_in ds (q_id r') /\ finals (q_id r') evs = 0) \/ (~ parked_in ds (q_id r') /\ finals (q_id r') evs = 1);
  inv_ack : forall r', In r' env -> is_ack r' = true -> finals (q_id r') evs = 0;
  inv_fresh : forall x, ~ In x (ids env) -> finals x evs = 0 }.

Lemma parked_ids ds env evs x : Inv ds env evs -> parked_in ds x -> In x (ids env).
Proof.
  intros I (d & e & c & Hn & Hin). destruct (inv_src _ _ _ I d e c x Hn Hin) as (r' & Hr & <- & _). now apply in_map.
Qed.

Lemma same_request env r1 r2 : NoDup (ids env) -> In r1 env -> In r2 env -> q_id r1 = q_id r2 -> r1 = r2.
Proof.
  intros Hnd H1 H2 E. pose proof (lookup_unique env Hnd r1 H1) as L1. pose proof (lookup_unique env Hnd r2 H2) as L2.
  rewrite E in L1. congruence.
Qed.

(* case 1: the request is answered without touching a dialog backlog *)
Lemma inv_step_plain ds env evs r e1 :
  Inv ds env evs -> ~ In (q_id r) (ids env) ->
  (forall x, finals x e1 = if answered_as x r then 1 else 0) ->
  Inv ds (r :: env) (evs ++ e1).
Proof.
  intros I Hf He. constructor.
  - cbn [ids map]. constructor; [exact Hf| exact (inv_ids _ _ _ I)].
  - exact (inv_keys _ _ _ I).
  - exact (inv_vals _ _ _ I).
  - intros d e c x Hn Hin. destruct (inv_src _ _ _ I d e c x Hn Hin) as (r' & Hr & H). exists r'. split; [now right| exact H].
  - intros r' [<-|Hin] Ha; rewrite finals_app, He; unfold answered_as.
    + rewrite N.eqb_refl, Ha. cbn [negb andb]. right. split; [|rewrite (inv_fresh _ _ _ I _ Hf); reflexivity].
      intros Hp. apply Hf. eapply parked_ids; eauto.
    + destruct (N.eqb_spec (q_id r) (q_id r')) as [E|_]; [exfalso; apply Hf; rewrite E; now apply in_map|].
      cbn [andb]. rewrite Nat.add_0_r. exact (inv_once _ _ _ I r' Hin Ha).
  - intros r' [<-|Hin] Ha; rewrite finals_app, He; unfold answered_as.
    + rewrite Ha. cbn [negb]. rewrite andb_false_r. rewrite (inv_fresh _ _ _ I _ Hf). reflexivity.
    + destruct (N.eqb_spec (q_id r) (q_id r')) as [E|_]; [exfalso; apply Hf; rewrite E; now apply in_map|].
      cbn [andb]. rewrite Nat.add_0_r. exact (inv_ack _ _ _ I r' Hin Ha).
  - intros x Hx. cbn [ids map] in Hx. rewrite finals_app, He. unfold answered_as.
    destruct (N.eqb_spec (q_id r) x) as [E|_]; [exfalso; apply Hx; now left|]. cbn [andb].
    rewrite (inv_fresh _ _ _ I x); [reflexivity|]. intros H. apply Hx. now right.
Qed.

Lemma parked_set ds d e e' x : nth_error ds d = Some e ->
  (parked_in (set_nth ds d e') x <->
   (exists c, In (c, x) (backlog (d_st e'))) \/ (exists d2 e2 c, d2 <> d /\ nth_error ds d2 = Some e2 /\ In (c, x) (backlog (d_st e2)))).
Proof.
  intros Hn. split.
  - intros (d2 & e2 & c & Hn2 & Hin). destruct (Nat.eq_dec d d2) as [<-|Hne].
    + rewrite (nth_set_same ds d e' e Hn) in Hn2. injection Hn2 as <-. left. eauto.
    + rewrite (nth_set_other ds d d2 e' Hne) in Hn2. right. exists d2, e2, c. repeat split; auto.
  - intros [(c & Hin)|(d2 & e2 & c & Hne & Hn2 & Hin)].
    + exists d, e', c. split; [eapply nth_set_same; eauto| exact Hin].
    + exists d2, e2, c. split; [rewrite nth_set_other; auto| exact Hin].
Qed.

Lemma set_nth_id {A} (l : list A) : forall d x, nth_error l d = Some x -> set_nth l d x = l.
Proof. induction l as [|h t IH]; intros [|d] x H; cbn in *; try discriminate; [now injection H as ->| f_equal; now apply IH]. Qed.

Lemma parked_split ds d e x : nth_error ds d = Some e ->
  (parked_in ds x <->
   (exists c, In (c, x) (backlog (d_st e))) \/ (exists d2 e2 c, d2 <> d /\ nth_error ds d2 = Some e2 /\ In (c, x) (backlog (d_st e2)))).
Proof. intros Hn. rewrite <- (set_nth_id ds d e Hn) at 1. exact (parked_set ds d e e x Hn). Qed.

(* case 2: the request is ahead of a gap and goes into the backlog of its dialog *)
Lemma inv_step_park ds env evs r d e e' e1 :
  Inv ds env evs -> ~ In (q_id r) (ids env) -> q_dlg r = Some d -> nth_error ds d = Some e ->
  ~ In (q_cseq r) (keys (backlog (d_st e))) ->
  backlog (d_st e') = bl_insert (q_cseq r) (q_id r) (backlog (d_st e)) ->
  (forall x, finals x e1 = 0) ->
  Inv (set_nth ds d e') (r :: env) (evs ++ e1).
Proof.
  intros I Hf Hd Hn Hnk Hb He.
  assert (Hb' : backlog (d_st e') = (q_cseq r, q_id r) :: backlog (d_st e)).
  { rewrite Hb. unfold bl_insert. now rewrite bl_remove_notin. }
  assert (Hnv : ~ In (q_id r) (map snd (backlog (d_st e)))).
  { intros Hin. apply in_map_iff in Hin as ([c x] & Ex & Hin). cbn [snd] in Ex. subst x.
    apply Hf. eapply parked_ids; eauto. exists d, e, c. auto. }
  assert (Hpk : forall x, x <> q_id r -> (parked_in (set_nth ds d e') x <-> parked_in ds x)).
  { intros x Hx. rewrite (parked_set ds d e e' x Hn), (parked_split ds d e x Hn). rewrite Hb'.
    split; (intros [(c & Hin)|H]; [left|right; exact H]).
    - destruct Hin as [E|Hin]; [congruence| eauto].
    - exists c. now right. }
  constructor.
  - cbn [ids map]. constructor; [exact Hf| exact (inv_ids _ _ _ I)].
  - intros d2 e2 Hn2. destruct (Nat.eq_dec d d2) as [<-|Hne].
    + rewrite (nth_set_same ds d e' e Hn) in Hn2. injection Hn2 as <-. rewrite Hb'. cbn [keys map fst]. constructor; [exact Hnk|].
      exact (inv_keys _ _ _ I d e Hn).
    + rewrite (nth_set_other ds d d2 e' Hne) in Hn2. exact (inv_keys _ _ _ I d2 e2 Hn2).
  - intros d2 e2 Hn2. destruct (Nat.eq_dec d d2) as [<-|Hne].
    + rewrite (nth_set_same ds d e' e Hn) in Hn2. injection Hn2 as <-. rewrite Hb'. cbn [map snd]. constructor; [exact Hnv|].
      exact (inv_vals _ _ _ I d e Hn).
    + rewrite (nth_set_other ds d d2 e' Hne) in Hn2. exact (inv_vals _ _ _ I d2 e2 Hn2).
  - intros d2 e2 c x Hn2 Hin. destruct (Nat.eq_dec d d2) as [<-|Hne].
    + rewrite (nth_set_same ds d e' e Hn) in Hn2. injection Hn2 as <-. rewrite Hb' in Hin. destruct Hin as [E|Hin].
      * injection E as <- <-. exists r. repeat split; auto. now left.
      * destruct (inv_src _ _ _ I d e c x Hn Hin) as (r' & Hr & H). exists r'. split; [now right| exact H].
    + rewrite (nth_set_other ds d d2 e' Hne) in Hn2.
      destruct (inv_src _ _ _ I d2 e2 c x Hn2 Hin) as (r' & Hr & H). exists r'. split; [now right| exact H].
  - intros r' [<-|Hin] Ha; rewrite finals_app, He, Nat.add_0_r.
    + left. split; [|exact (inv_fresh _ _ _ I _ Hf)]. apply (parked_set ds d e e' _ Hn). left. exists (q_cseq r). rewrite Hb'. now left.
    + assert (Hx : q_id r' <> q_id r) by (intros E; apply Hf; rewrite <- E; now apply in_map).
      destruct (inv_once _ _ _ I r' Hin Ha) as [[Hp Hfin]|[Hp Hfin]]; [left|right]; (split; [|exact Hfin]); rewrite (Hpk _ Hx); exact Hp.
  - intros r' [<-|Hin] Ha; rewrite finals_app, He, Nat.add_0_r; [exact (inv_fresh _ _ _ I _ Hf)| exact (inv_ack _ _ _ I r' Hin Ha)].
  - intros x Hx. cbn [ids map] in Hx. rewrite finals_app, He, Nat.add_0_r. apply (inv_fresh _ _ _ I). intros H. apply Hx. now right.
Qed.

Lemma NoDup_app_l {A} (a b : list A) : NoDup (a ++ b) -> NoDup a.
Proof. induction a as [|x a IH]; cbn [app]; intros H; [constructor|]. inversion H as [|? ? Hn Hr]; subst. constructor; [intros Hi; apply Hn; apply in_or_app; now left| now apply IH]. Qed.

Lemma NoDup_app_r {A} (a b : list A) : NoDup (a ++ b) -> NoDup b.
Proof. induction a as [|x a IH]; cbn [app]; intros H; [exact H|]. inversion H; subst. now apply IH. Qed.

Lemma count_cons x r l : length (filter (answered_as x) (r :: l)) = (if answered_as x r then 1 else 0) + length (filter (answered_as x) l).
Proof. cbn [filter]. destruct (answered_as x r); reflexivity. Qed.

Lemma answered_self r : is_ack r = false -> answered_as (q_id r) r = true.
Proof. intros H. unfold answered_as. now rewrite N.eqb_refl, H. Qed.

Lemma answered_ack x r : is_ack r = true -> answered_as x r = false.
Proof. intros H. unfold answered_as. rewrite H. now rewrite andb_false_r. Qed.

Lemma answered_other x r : q_id r <> x -> answered_as x r = false.
Proof. intros H. unfold answered_as. destruct (N.eqb_spec (q_id r) x); [contradiction|reflexivity]. Qed.

(* case 3: the request is handed on, together with the requests it releases from the backlog of its dialog *)
Lemma inv_step_release ds env evs r d e e' dd e1 :
  Inv ds env evs -> ~ In (q_id r) (ids env) -> nth_error ds d = Some e ->
  Permutation (backlog (d_st e)) (dd ++ backlog (d_st e')) ->
  (forall x, finals x e1 = length (filter (answered_as x) (r :: released (r :: env) dd))) ->
  Inv (set_nth ds d e') (r :: env) (evs ++ e1).
Proof.
  intros I Hf Hn Hp He.
  set (bl := backlog (d_st e)) in *. set (bl' := backlog (d_st e')) in *.
  assert (F1 : forall ci, In ci (dd ++ bl') -> In ci bl) by (intros ci H; eapply Permutation_in; [apply Permutation_sym; exact Hp| exact H]).
  assert (F2 : forall ci, In ci bl -> In ci dd \/ In ci bl') by (intros ci H; apply in_app_or; eapply Permutation_in; eauto).
  assert (Hk : NoDup (map fst dd ++ map fst bl')).
  { rewrite <- map_app. eapply Permutation_NoDup; [apply Permutation_map; exact Hp|]. exact (inv_keys _ _ _ I d e Hn). }
  assert (Hv : NoDup (map snd dd ++ map snd bl')).
  { rewrite <- map_app. eapply Permutation_NoDup; [apply Permutation_map; exact Hp|]. exact (inv_vals _ _ _ I d e Hn). }
  assert (Hvd : NoDup (map snd dd)) by (eapply NoDup_app_l; eauto).
  assert (F3 : forall x c, In x (map snd dd) -> ~ In (c, x) bl').
  { intros x c Hx Hin. apply (in_map snd) in Hin. cbn [snd] in Hin.
    clear -Hv Hx Hin. induction (map snd dd) as [|a t IH]; [destruct Hx|]. cbn [app] in Hv. inversion Hv as [|? ? Hnot Hv']; subst.
    destruct Hx as [->|Hx]; [apply Hnot; apply in_or_app; now right| now apply IH]. }
  assert (HD : forall x, In x (map snd dd) -> exists rx c, In (c, x) dd /\ In rx env /\ q_id rx = x /\ q_dlg rx = Some d /\ lookup x (r :: env) = Some rx).
  { intros x Hx. apply in_map_iff in Hx as ([c y] & Ey & Hin). cbn [snd] in Ey. subst y.
    destruct (inv_src _ _ _ I d e c x Hn (F1 _ (in_or_app _ _ _ (or_introl Hin)))) as (rx & Hr & Hid & _ & Hdl).
    exists rx, c. repeat split; auto. rewrite lookup_cons_other; [rewrite <- Hid; apply lookup_unique; [exact (inv_ids _ _ _ I)| exact Hr]|].
    intros E. apply Hf. rewrite E, <- Hid. now apply in_map. }
  assert (Hnot_id : ~ In (q_id r) (map snd dd)).
  { intros H. destruct (HD _ H) as (rx & c & _ & Hr & Hid & _). apply Hf. rewrite <- Hid. now apply in_map. }
  constructor.
  - cbn [ids map]. constructor; [exact Hf| exact (inv_ids _ _ _ I)].
  - intros d2 e2 Hn2. destruct (Nat.eq_dec d d2) as [<-|Hne].
    + rewrite (nth_set_same ds d e' e Hn) in Hn2. injection Hn2 as <-. fold bl'. unfold keys. eapply NoDup_app_r; eauto.
    + rewrite (nth_set_other ds d d2 e' Hne) in Hn2. exact (inv_keys _ _ _ I d2 e2 Hn2).
  - intros d2 e2 Hn2. destruct (Nat.eq_dec d d2) as [<-|Hne].
    + rewrite (nth_set_same ds d e' e Hn) in Hn2. injection Hn2 as <-. fold bl'. eapply NoDup_app_r; eauto.
    + rewrite (nth_set_other ds d d2 e' Hne) in Hn2. exact (inv_vals _ _ _ I d2 e2 Hn2).
  - intros d2 e2 c x Hn2 Hin. destruct (Nat.eq_dec d d2) as [<-|Hne].
    + rewrite (nth_set_same ds d e' e Hn) in Hn2. injection Hn2 as <-. fold bl' in Hin.
      destruct (inv_src _ _ _ I d e c x Hn (F1 _ (in_or_app _ _ _ (or_intror Hin)))) as (r' & Hr & H). exists r'. split; [now right| exact H].
    + rewrite (nth_set_other ds d d2 e' Hne) in Hn2.
      destruct (inv_src _ _ _ I d2 e2 c x Hn2 Hin) as (r' & Hr & H). exists r'. split; [now right| exact H].
  - intros r' [<-|Hin] Ha; rewrite finals_app, He, count_cons.
    + rewrite (answered_self _ Ha), (released_none _ _ _ Hnot_id), (inv_fresh _ _ _ I _ Hf). right. split; [|reflexivity].
      intros Hpk. apply (parked_set ds d e e' _ Hn) in Hpk. apply Hf. destruct Hpk as [(c & Hc)|(d2 & e2 & c & _ & Hn2 & Hc)].
      * eapply parked_ids; eauto. exists d, e, c. split; [exact Hn|]. apply F1. apply in_or_app. now right.
      * eapply parked_ids; eauto. exists d2, e2, c. auto.
    + assert (Hx : q_id r <> q_id r') by (intros E; apply Hf; rewrite E; now apply in_map).
      rewrite (answered_other _ _ Hx). cbn [Nat.add].
      destruct (in_dec N.eq_dec (q_id r') (map snd dd)) as [HinD|HnD].
      * destruct (HD _ HinD) as (rx & c & Hcd & Hrx & Hidx & Hdlx & Hlx).
        assert (rx = r') by (eapply same_request; eauto; exact (inv_ids _ _ _ I)). subst rx.
        rewrite (released_one _ _ _ r' Hvd HinD Hlx Ha).
        assert (Hold : parked_in ds (q_id r')) by (exists d, e, c; split; [exact Hn|]; apply F1; apply in_or_app; now left).
        destruct (inv_once _ _ _ I r' Hin Ha) as [[_ Hfin]|[Hp0 _]]; [|contradiction]. rewrite Hfin. right. split; [|reflexivity].
        intros Hpk. apply (parked_set ds d e e' _ Hn) in Hpk. destruct Hpk as [(c2 & Hc2)|(d2 & e2 & c2 & Hne & Hn2 & Hc2)].
        -- exact (F3 _ c2 HinD Hc2).
        -- destruct (inv_src _ _ _ I d2 e2 c2 _ Hn2 Hc2) as (r2 & Hr2 & Hid2 & _ & Hdl2).
           assert (r2 = r') by (eapply same_request; eauto; exact (inv_ids _ _ _ I)). subst r2. congruence.
      * rewrite (released_none _ _ _ HnD), Nat.add_0_r.
        assert (Hiff : parked_in (set_nth ds d e') (q_id r') <-> parked_in ds (q_id r')).
        { rewrite (parked_set ds d e e' _ Hn), (parked_split ds d e _ Hn). fold bl bl'.
          split; (intros [(c & Hc)|H]; [left|right; exact H]).
          - exists c. apply F1. apply in_or_app. now right.
          - destruct (F2 _ Hc) as [Hd|Hb]; [exfalso; apply HnD; apply (in_map snd) in Hd; exact Hd| eauto]. }
        destruct (inv_once _ _ _ I r' Hin Ha) as [[Hp0 Hfin]|[Hp0 Hfin]]; [left|right]; (split; [|exact Hfin]); rewrite Hiff; exact Hp0.
  - intros r' [<-|Hin] Ha; rewrite finals_app, He, count_cons.
    + rewrite (answered_ack _ _ Ha). cbn [Nat.add]. rewrite (released_none _ _ _ Hnot_id), (inv_fresh _ _ _ I _ Hf). reflexivity.
    + assert (Hx : q_id r <> q_id r') by (intros E; apply Hf; rewrite E; now apply in_map).
      rewrite (answered_other _ _ Hx). cbn [Nat.add].
      assert (Hl : lookup (q_id r') (r :: env) = Some r') by (rewrite lookup_cons_other; [apply lookup_unique; [exact (inv_ids _ _ _ I)| exact Hin]| exact Hx]).
      rewrite (released_ack _ _ _ r' Hl Ha), Nat.add_0_r. exact (inv_ack _ _ _ I r' Hin Ha).
  - intros x Hx. cbn [ids map] in Hx. rewrite finals_app, He, count_cons.
    rewrite answered_other by (intros E; apply Hx; now left). cbn [Nat.add].
    rewrite released_none.
    + rewrite Nat.add_0_r. apply (inv_fresh _ _ _ I). intros H. apply Hx. now right.
    + intros H. destruct (HD _ H) as (rx & c & _ & Hr & Hid & _). apply Hx. right. rewrite <- Hid. now apply in_map.
Qed.

(* one dispatch keeps the invariant *)
Lemma walk_inv ls ds env evs r :
  dlg_backlog_no_overwrite = true ->
  Inv ds env evs -> ~ In (q_id r) (ids env) ->
  Inv (fst (walk ls 0 ds env r)) (r :: env) (evs ++ snd (walk ls 0 ds env r)).
Proof.
  intros Hflag I Hf.
  assert (Hfin : forall x, finals x (snd (walk ls 0 ds env r)) = length (filter (answered_as x) (handled ls ds env r)))
    by (intros x; apply finals_walk).
  destruct (walk_cases ls 0 ds env r) as [(H1 & H2 & _)|(d & e & Hd & Hn & H1 & H2 & _ & Href)].
  - rewrite H1. apply inv_step_plain; [exact I| exact Hf|]. intros x. rewrite Hfin, H2. cbn [filter]. destruct (answered_as x r); reflexivity.
  - rewrite H1. revert H2 Hfin. unfold deliver.
    destruct (C10.step (d_st e) (C10.mkreq (q_cseq r) (q_id r) (is_ack r))) as [st' del] eqn:Es. cbn [fst snd]. intros H2 Hfin.
    destruct (step_backlog _ _ _ _ Es (inv_keys _ _ _ I d e Hn)) as [(-> & Hb & n & Hnx & Hlt)|(dd & -> & Hp & _)]; cbn [r_cseq r_id] in *.
    + apply (inv_step_park ds env evs r d e (mkde st' (d_usages e))); auto.
      * (* the guard: the number is not parked already *)
        unfold C10.refused in Href. rewrite Hflag, Hnx in Href. cbn [r_cseq andb] in Href.
        apply N.ltb_lt in Hlt. rewrite Hlt in Href. cbn [andb] in Href.
        apply bl_lookup_None. destruct (bl_lookup (q_cseq r) (backlog (d_st e))); [discriminate|reflexivity].
      * intros x. rewrite Hfin, H2. reflexivity.
    + apply (inv_step_release ds env evs r d e (mkde st' (d_usages e)) dd); auto.
      intros x. rewrite Hfin, H2. cbn [flat_map snd]. rewrite lookup_head. reflexivity.
Qed.

(* ---------- whole runs ---------- *)
Lemma run_inv ls : dlg_backlog_no_overwrite = true -> forall rs ds env evs0,
  Inv ds env evs0 -> NoDup (ids rs) -> (forall x, In x (ids rs) -> ~ In x (ids env)) ->
  Inv (fst (run ls ds env rs)) (rev rs ++ env) (evs0 ++ snd (run ls ds env rs)).
Proof.
  intros Hflag. induction rs as [|r rest IH]; intros ds env evs0 I Hnd Hdis.
  - cbn. now rewrite app_nil_r.
  - cbn [run]. cbn [ids map] in Hnd, Hdis. inversion Hnd as [|? ? Hnot Hnd']; subst.
    assert (Hf : ~ In (q_id r) (ids env)) by (apply Hdis; now left).
    pose proof (walk_inv ls ds env evs0 r Hflag I Hf) as I1.
    destruct (walk ls 0 ds env r) as [ds1 e1] eqn:Ew. cbn [fst snd] in I1.
    specialize (IH ds1 (r :: env) (evs0 ++ e1) I1 Hnd').
    destruct (run ls ds1 (r :: env) rest) as [ds2 e2] eqn:Er. cbn [fst snd] in *.
    replace (rev (r :: rest) ++ env) with (rev rest ++ r :: env) by (cbn [rev]; now rewrite <- app_assoc).
    rewrite app_assoc. apply IH.
    intros x Hx [E|Hin]; [apply Hnot; now rewrite E| exact (Hdis x (or_intror Hx) Hin)].
Qed.

Lemma inv_init ds0 : (forall d e, nth_error ds0 d = Some e -> backlog (d_st e) = []) -> Inv ds0 [] [].
Proof.
  intros H. constructor; try (intros; match goal with Hin : In _ [] |- _ => destruct Hin end).
  - constructor.
  - intros d e Hn. rewrite (H d e Hn). constructor.
  - intros d e Hn. rewrite (H d e Hn). constructor.
  - intros d e c x Hn Hin. rewrite (H d e Hn) in Hin. destruct Hin.
  - reflexivity.
Qed.

Theorem history_exactly_once ls ds0 rs :
  dlg_backlog_no_overwrite = true ->
  (forall d e, nth_error ds0 d = Some e -> backlog (d_st e) = []) ->
  NoDup (ids rs) ->
  let ds' := fst (run ls ds0 [] rs) in
  let evs := snd (run ls ds0 [] rs) in
  (forall r, In r rs -> is_ack r = false ->
     (parked_in ds' (q_id r) /\ finals (q_id r) evs = 0) \/ (~ parked_in ds' (q_id r) /\ finals (q_id r) evs = 1)) /\
  (forall r, In r rs -> is_ack r = true -> finals (q_id r) evs = 0) /\
  (forall x, ~ In x (ids rs) -> finals x evs = 0).
Proof.
  intros Hflag H0 Hnd ds' evs.
  pose proof (run_inv ls Hflag rs ds0 [] [] (inv_init ds0 H0) Hnd (fun x _ H => H)) as I.
  rewrite app_nil_r in I. cbn [app] in I. fold ds' evs in I.
  split; [|split].
  - intros r Hin Ha. apply (inv_once _ _ _ I r); [now apply in_rev in Hin| exact Ha].
  - intros r Hin Ha. apply (inv_ack _ _ _ I r); [now apply in_rev in Hin| exact Ha].
  - intros x Hx. apply (inv_fresh _ _ _ I). intros H. apply Hx. unfold ids in *. rewrite map_rev in H. now apply in_rev in H.
Qed.
