(* Proofs/C02b.v -- the second pass of the stream decoder: the body slice of every well-formed frame is in bounds *)
From Coq Require Import List Arith NArith Lia Bool.
From Coq.Strings Require Import Byte.
From EZK Require Import Lib.Bytes Lib.Num Lib.Utf8 Model.C03 Proofs.C03 Proofs.C03b Model.C02.
Import ListNotations.
Close Scope N_scope.
Open Scope nat_scope.

Lemma second_head_of_scan F : forall b q c p cl, scan_lines F b q c = SComplete p cl -> second_head F b q = Some p.
Proof.
  induction F as [|F IH]; intros b q c p cl H; cbn [scan_lines] in H; [discriminate|]. cbn [second_head].
  destruct (pull_next b q) as [lo hi next| | |]; try discriminate.
  - destruct (sniff_line (sub b lo hi) c) as [c'|e]; [|discriminate]. eapply IH; eauto.
  - now injection H as -> _.
Qed.

Section SecondPass.
  Variable start_ok : bytes -> bool.

  Theorem second_pass_wf m he cl : wfm start_ok m he cl -> second_pass true m cl = SpOk he (skipn he m).
  Proof.
    intros Hw. destruct (wf_he _ _ _ _ Hw) as [Hhe _]. pose proof (wf_len _ _ _ _ Hw) as Hl.
    destruct (wf_scan_ext start_ok m he cl (skipn he m) Hw) as (p & Hsc & Hhe2 & _).
    rewrite firstn_skipn in Hsc, Hhe2.
    unfold second_pass. unfold scanc in Hsc. rewrite (second_head_of_scan _ _ _ _ _ _ Hsc). rewrite Hhe2.
    unfold slice.
    assert (Hb : ((N.of_nat he <=? N.of_nat he + cl) && (N.of_nat he + cl <=? N.of_nat (length m)))%N = true).
    { apply andb_true_intro. split; apply N.leb_le; lia. }
    rewrite Hb. f_equal. unfold sub. rewrite Nnat.Nat2N.id.
    replace (N.to_nat (N.of_nat he + cl) - he) with (length (skipn he m)) by (rewrite skipn_length; lia).
    apply firstn_all.
  Qed.
End SecondPass.

(* with the length decoded again from the headers the slice can leave the frame: two Content-Length lines, first > last *)
Definition sp_witness : bytes :=
  Eval vm_compute in B"OPTIONS sip:a SIP/2.0" ++ [CR; LF] ++ B"Content-Length: 5" ++ [CR; LF] ++ B"Content-Length: 0" ++ [CR; LF; CR; LF].

Lemma second_pass_unsaved_panics : second_pass false sp_witness 0 = SpPanic.
Proof. vm_compute. reflexivity. Qed.

Lemma sp_witness_is_a_frame : scan_lines (S (length sp_witness)) sp_witness 0 0 = SComplete 59 0 /\ head_end sp_witness 59 = length sp_witness.
Proof. split; vm_compute; reflexivity. Qed.
