(* Proofs/C14.v *)
From Coq Require Import List Arith NArith Lia Bool.
From EZK Require Import Model.C14.
Import ListNotations.
Open Scope N_scope.

Lemma find_index_spec {A} (p : A -> bool) l : forall i j,
  find_index p l i = Some j -> exists x, nth_error l (j - i) = Some x /\ p x = true /\ (i <= j)%nat /\
  (forall k y, (k < j - i)%nat -> nth_error l k = Some y -> p y = false).
Proof.
  induction l as [|x r IH]; intros i j H; simpl in H; [discriminate|].
  destruct (p x) eqn:E.
  - inversion H; subst. exists x. rewrite Nat.sub_diag. simpl. repeat split; auto. intros k y Hk. lia.
  - destruct (IH (S i) j H) as (y & Hn & Hp & Hle & Hbefore).
    exists y. assert (j - i = S (j - S i))%nat as -> by lia. simpl. repeat split; auto; [lia|].
    intros k z Hk Hz. destruct k; simpl in Hz; [inversion Hz; subst; exact E|].
    apply (Hbefore k z); [lia|exact Hz].
Qed.

Lemma find_index_none {A} (p : A -> bool) l : forall i,
  find_index p l i = None <-> forallb (fun x => negb (p x)) l = true.
Proof.
  induction l as [|x r IH]; intros i; simpl; [tauto|].
  destruct (p x); simpl; [split; discriminate|apply IH].
Qed.

Lemma all_indices_spec {A} (p : A -> bool) l : forall i j,
  In j (all_indices p l i) -> exists x, nth_error l (j - i) = Some x /\ p x = true /\ (i <= j)%nat.
Proof.
  induction l as [|x r IH]; intros i j H; simpl in H; [contradiction|].
  destruct (p x) eqn:E.
  - destruct H as [<-|H].
    + exists x. rewrite Nat.sub_diag. auto.
    + destruct (IH (S i) j H) as (y & Hn & Hp & Hle). exists y.
      assert (j - i = S (j - S i))%nat as -> by lia. simpl. repeat split; auto; lia.
  - destruct (IH (S i) j H) as (y & Hn & Hp & Hle). exists y.
    assert (j - i = S (j - S i))%nat as -> by lia. simpl. repeat split; auto; lia.
Qed.

Lemma all_indices_nil {A} (p : A -> bool) l : forall i,
  all_indices p l i = [] <-> forallb (fun x => negb (p x)) l = true.
Proof.
  induction l as [|x r IH]; intros i; simpl; [tauto|].
  destruct (p x); simpl; [split; discriminate|apply IH].
Qed.

(* a sips: target is only ever sent over a transport that reports itself secure *)
Lemma sips_secure cfg u c : u_secure u = true -> In c (select cfg u) -> c = Fail \/ choice_secure cfg c = true.
Proof.
  intros Hs. unfold select.
  destruct (find_index (dg_matches u) (unmanaged cfg) 0) as [i|] eqn:E1.
  - intros [<-|[]]. right. destruct (find_index_spec _ _ _ _ E1) as (d & Hn & Hp & _).
    rewrite Nat.sub_0_r in Hn. simpl. rewrite Hn. unfold dg_matches, allows in Hp. rewrite Hs in Hp.
    now apply andb_prop in Hp as [_ Hp].
  - destruct (all_indices (conn_matches u) (conns cfg) 0) as [|i0 is] eqn:E2.
    + destruct (find_index (fac_ok u) (factories cfg) 0) as [i|] eqn:E3.
      * intros [<-|[]]. right. destruct (find_index_spec _ _ _ _ E3) as (f & Hn & Hp & _).
        rewrite Nat.sub_0_r in Hn. simpl. rewrite Hn. unfold fac_ok, allows in Hp. rewrite Hs in Hp.
        now apply andb_prop in Hp as [Hp _].
      * intros [<-|[]]. now left.
    + intros Hin. apply in_map_iff in Hin as (j & <- & Hj). right.
      rewrite <- E2 in Hj. destruct (all_indices_spec _ _ _ _ Hj) as (x & Hn & Hp & _).
      rewrite Nat.sub_0_r in Hn. simpl. rewrite Hn. unfold conn_matches, allows in Hp. rewrite Hs in Hp.
      repeat (apply andb_prop in Hp as [Hp ?]). assumption.
Qed.

(* fails if nothing qualifies *)
Lemma fails_if_none cfg u :
  forallb (fun d => negb (dg_matches u d)) (unmanaged cfg) = true ->
  forallb (fun c => negb (conn_matches u c)) (conns cfg) = true ->
  forallb (fun f => negb (fac_ok u f)) (factories cfg) = true ->
  select cfg u = [Fail].
Proof.
  intros H1 H2 H3. unfold select.
  apply (find_index_none _ _ 0%nat) in H1. apply (all_indices_nil _ _ 0%nat) in H2. apply (find_index_none _ _ 0%nat) in H3.
  now rewrite H1, H2, H3.
Qed.

Lemma never_empty cfg u : select cfg u <> [].
Proof.
  unfold select. destruct (find_index (dg_matches u) (unmanaged cfg) 0); [discriminate|].
  destruct (all_indices (conn_matches u) (conns cfg) 0); [|discriminate].
  destruct (find_index (fac_ok u) (factories cfg) 0); discriminate.
Qed.

(* a datagram transport is chosen only if its address family matches the destination *)
Lemma datagram_family cfg u i : In (UseDatagram i) (select cfg u) ->
  exists d, nth_error (unmanaged cfg) i = Some d /\ dg_v6 d = u_v6 u /\ allows u (dg_secure d) = true.
Proof.
  unfold select. destruct (find_index (dg_matches u) (unmanaged cfg) 0) as [j|] eqn:E1.
  - intros [H|[]]. inversion H; subst. destruct (find_index_spec _ _ _ _ E1) as (d & Hn & Hp & _).
    rewrite Nat.sub_0_r in Hn. exists d. unfold dg_matches in Hp. apply andb_prop in Hp as [Hf Ha].
    split; [exact Hn|]. split; [now apply eqb_prop|exact Ha].
  - destruct (all_indices (conn_matches u) (conns cfg) 0) eqn:E2.
    + destruct (find_index (fac_ok u) (factories cfg) 0); intros [H|[]]; discriminate.
    + intros H. apply in_map_iff in H as (x & Hx & _). discriminate.
Qed.

(* an existing usable outgoing connection to the same remote is reused before any factory is asked *)
Lemma existing_outgoing_preferred cfg u :
  forallb (fun d => negb (dg_matches u d)) (unmanaged cfg) = true ->
  existsb (conn_matches u) (conns cfg) = true ->
  forall c, In c (select cfg u) ->
    exists i x, c = UseConn i /\ nth_error (conns cfg) i = Some x /\ conn_matches u x = true.
Proof.
  intros H1 H2 c. unfold select. apply (find_index_none _ _ 0%nat) in H1. rewrite H1.
  destruct (all_indices (conn_matches u) (conns cfg) 0) as [|i0 is] eqn:E2.
  - exfalso. apply (all_indices_nil _ _ 0%nat) in E2.
    apply existsb_exists in H2 as (x & Hin & Hx). rewrite forallb_forall in E2. specialize (E2 x Hin).
    rewrite Hx in E2. discriminate.
  - intros Hin. apply in_map_iff in Hin as (j & <- & Hj). rewrite <- E2 in Hj.
    destruct (all_indices_spec _ _ _ _ Hj) as (x & Hn & Hp & _). rewrite Nat.sub_0_r in Hn. eauto.
Qed.

Lemma conn_match_meaning u x : conn_matches u x = true ->
  c_outgoing x = true /\ c_v6 x = u_v6 u /\ c_ip x = u_ip u /\ c_port x = resolve_port u /\
  allows u (c_secure x) = true /\ c_usable x = true.
Proof.
  unfold conn_matches. intros H. repeat (apply andb_prop in H as [H ?]).
  repeat split; auto; try (now apply eqb_prop); now apply N.eqb_eq.
Qed.

(* port rule *)
Lemma port_rule u :
  resolve_port u = match u_port u with Some p => p | None => if u_secure u then 5061 else 5060 end.
Proof. reflexivity. Qed.

(* pinned target *)
Lemma pinned_reused {T} (t s : T) : create_outgoing (Some t) s = t.
Proof. reflexivity. Qed.
Lemma unpinned_selects {T} (s : T) : create_outgoing None s = s.
Proof. reflexivity. Qed.

(* a new connection is only made by the first factory that is allowed and connects *)
Lemma new_conn_first_ok cfg u i : In (NewConn i) (select cfg u) ->
  exists f, nth_error (factories cfg) i = Some f /\ fac_ok u f = true /\
  (forall k g, (k < i)%nat -> nth_error (factories cfg) k = Some g -> fac_ok u g = false).
Proof.
  unfold select. destruct (find_index (dg_matches u) (unmanaged cfg) 0); [intros [H|[]]; discriminate|].
  destruct (all_indices (conn_matches u) (conns cfg) 0) eqn:E2.
  - destruct (find_index (fac_ok u) (factories cfg) 0) as [j|] eqn:E3; [|intros [H|[]]; discriminate].
    intros [H|[]]. inversion H; subst. destruct (find_index_spec _ _ _ _ E3) as (f & Hn & Hp & _ & Hb).
    rewrite Nat.sub_0_r in *. eauto.
  - intros H. apply in_map_iff in H as (x & Hx & _). discriminate.
Qed.
