(* Proofs/C04.v *)
From Coq Require Import List NArith Lia Bool.
From EZK Require Import Lib.Bytes Gen.Tables Model.C04.
Import ListNotations.
Open Scope N_scope.

Lemma meth_eqb_eq a b : meth_eqb a b = true <-> a = b.
Proof.
  destruct a, b; simpl; split; intros H; try discriminate; try reflexivity.
  - apply N.eqb_eq in H. now subst.
  - inversion H. apply N.eqb_refl.
Qed.

Lemma ometh_eqb_eq a b : ometh_eqb a b = true <-> a = b.
Proof.
  destruct a, b; simpl; try (split; [discriminate|discriminate]); try tauto.
  rewrite meth_eqb_eq. split; [intros ->; reflexivity|intros H; now inversion H].
Qed.

Lemma role_eqb_eq a b : role_eqb a b = true <-> a = b.
Proof. destruct a, b; simpl; split; intros H; try discriminate; reflexivity. Qed.

Lemma key_eqb_eq a b : key_eqb a b = true <-> a = b.
Proof.
  destruct a as [r1 b1 m1|r1 m1 c1 f1 i1 s1], b as [r2 b2 m2|r2 m2 c2 f2 i2 s2]; simpl;
    try (split; [discriminate|discriminate]).
  - rewrite !andb_true_iff, role_eqb_eq, bytes_eqb_eq, ometh_eqb_eq.
    split; [intros [[-> ->] ->]; reflexivity|intros H; inversion H; auto].
  - rewrite !andb_true_iff, role_eqb_eq, ometh_eqb_eq, N.eqb_eq, !bytes_eqb_eq.
    split; [intros [[[[[-> ->] ->] ->] ->] ->]; reflexivity|intros H; inversion H; repeat split; auto].
Qed.

Lemma key_eqb_refl k : key_eqb k k = true.
Proof. now apply key_eqb_eq. Qed.

Lemma lookup_some k t e : lookup k t = Some e -> In e t /\ e_key e = k.
Proof.
  induction t as [|x r IH]; simpl; [discriminate|].
  destruct (key_eqb (e_key x) k) eqn:E.
  - intros H; inversion H; subst. split; [now left|now apply key_eqb_eq].
  - intros H. destruct (IH H). split; [now right|assumption].
Qed.

Lemma lookup_none k t : lookup k t = None <-> (forall e, In e t -> e_key e <> k).
Proof.
  induction t as [|x r IH]; simpl.
  - split; [intros _ e []|reflexivity].
  - destruct (key_eqb (e_key x) k) eqn:E.
    + split; [discriminate|]. intros H. exfalso. apply (H x); [now left|now apply key_eqb_eq].
    + rewrite IH. split.
      * intros H e [<-|Hin]; [|now apply H]. intros Heq. apply key_eqb_eq in Heq. congruence.
      * intros H e Hin. apply H. now right.
Qed.

(* ---- a message never matches a transaction of the opposite role ---- *)
Definition key_role (k : key) : role := match k with K3261 r _ _ | K2543 r _ _ _ _ _ => r end.

Lemma key_of_role m k : key_of m = Some k -> key_role k = if m_is_request m then Server else Client.
Proof.
  unfold key_of. destruct (has_cookie (m_branch m)).
  - intros H; inversion H; reflexivity.
  - destruct (m_from_tag m); [|discriminate]. intros H; inversion H; reflexivity.
Qed.

Lemma role_disjoint q r kq kr :
  m_is_request q = true -> m_is_request r = false -> key_of q = Some kq -> key_of r = Some kr -> kq <> kr.
Proof.
  intros Hq Hr Kq Kr E. subst kr.
  apply key_of_role in Kq, Kr. rewrite Hq in Kq. rewrite Hr in Kr. congruence.
Qed.

(* ---- routing ---- *)
(* a message is handed to an existing transaction iff an entry with exactly its key exists (and the
   ACK filter does not reject it); otherwise a request becomes a new registration, a response is dropped *)
Lemma receive_spec t fresh m k :
  key_of m = Some k ->
  match lookup k t with
  | Some e =>
    if e_ack_filter e && m_is_request m && meth_eqb (m_line_method m) ACK
    then receive t fresh m = (t, SurfacedNoReg)
    else exists v, receive t fresh m = (t, ToTsx (e_id e) v)
  | None =>
    if m_is_request m then receive t fresh m = (mke fresh k HeldRequest false :: t, NewRequest fresh)
    else receive t fresh m = (t, Orphan)
  end.
Proof.
  intros Hk. unfold receive. rewrite Hk. destruct (lookup k t) as [e|].
  - destruct (e_ack_filter e && m_is_request m && meth_eqb (m_line_method m) ACK); [reflexivity|eauto].
  - destruct (m_is_request m); reflexivity.
Qed.

(* retransmission of a request whose transaction is alive: absorbed, table unchanged, layers not invoked *)
Lemma retransmission_absorbed t fresh m k e :
  key_of m = Some k -> lookup k t = Some e -> e_ack_filter e = false ->
  exists v, receive t fresh m = (t, ToTsx (e_id e) v).
Proof.
  intros Hk Hl Hf. pose proof (receive_spec t fresh m k Hk) as H. rewrite Hl, Hf in H. exact H.
Qed.

(* the ACK of a non-2xx (same branch as the INVITE, cookie style): same key as the INVITE *)
Lemma ack_same_key inv ack :
  has_cookie (m_branch inv) = true -> m_branch ack = m_branch inv ->
  m_is_request inv = true -> m_is_request ack = true ->
  m_cseq_method inv = INVITE -> m_cseq_method ack = ACK ->
  key_of ack = key_of inv.
Proof.
  intros Hc Hb Hi Ha Mi Ma. unfold key_of. rewrite Hb, Hc, Hi, Ha, Mi, Ma. reflexivity.
Qed.

(* CANCEL never has the INVITE's key *)
Lemma cancel_other_key inv c ki kc :
  m_cseq_method inv = INVITE -> m_cseq_method c = CANCEL ->
  key_of inv = Some ki -> key_of c = Some kc -> ki <> kc.
Proof.
  unfold key_of. intros Mi Mc. rewrite Mi, Mc. simpl.
  destruct (has_cookie (m_branch inv)), (has_cookie (m_branch c));
    try destruct (m_from_tag inv); try destruct (m_from_tag c); intros Hi Hc E;
    inversion Hi; inversion Hc; subst; discriminate.
Qed.

(* ACK for a 2xx: filter installed -> surfaces without registration *)
Lemma ack_2xx_surfaces t fresh m k e :
  key_of m = Some k -> lookup k t = Some e -> e_ack_filter e = true ->
  m_is_request m = true -> m_line_method m = ACK ->
  receive t fresh m = (t, SurfacedNoReg).
Proof.
  intros Hk Hl Hf Hr Hm. pose proof (receive_spec t fresh m k Hk) as H.
  rewrite Hl, Hf, Hr, Hm in H. exact H.
Qed.

(* RFC 2543 fallback: keys of cookie-less branches are equal iff role, folded method, CSeq number,
   From-tag, Call-ID and sent-by are equal *)
Lemma rfc2543_keys a b ta tb :
  has_cookie (m_branch a) = false -> has_cookie (m_branch b) = false ->
  m_from_tag a = Some ta -> m_from_tag b = Some tb ->
  (key_of a = key_of b <->
   m_is_request a = m_is_request b /\ fold_method (m_cseq_method a) = fold_method (m_cseq_method b) /\
   m_cseq a = m_cseq b /\ ta = tb /\ m_call_id a = m_call_id b /\ m_sent_by a = m_sent_by b).
Proof.
  intros Ha Hb Fa Fb. unfold key_of. rewrite Ha, Hb, Fa, Fb. split.
  - intros H. inversion H as [[Hr Hm Hc Ht Hi Hs]]. repeat split; auto.
    destruct (m_is_request a), (m_is_request b); auto; discriminate.
  - intros (Hr & Hm & Hc & Ht & Hi & Hs). rewrite Hr, Hm, Hc, Ht, Hi, Hs. reflexivity.
Qed.

(* RFC 3261 style: equal iff role, branch and folded CSeq method are equal *)
Lemma rfc3261_keys a b :
  has_cookie (m_branch a) = true -> has_cookie (m_branch b) = true ->
  (key_of a = key_of b <->
   m_is_request a = m_is_request b /\ m_branch a = m_branch b /\
   fold_method (m_cseq_method a) = fold_method (m_cseq_method b)).
Proof.
  intros Ha Hb. unfold key_of. rewrite Ha, Hb. split.
  - intros H. inversion H as [[Hr Hbr Hm]]. repeat split; auto.
    destruct (m_is_request a), (m_is_request b); auto; discriminate.
  - intros (Hr & Hbr & Hm). rewrite Hr, Hbr, Hm. reflexivity.
Qed.

(* once a transaction has ended the same identifiers start a new one *)
Lemma remove_id_lookup id t k :
  (forall e, In e t -> e_key e = k -> e_id e = id) -> lookup k (remove_id id t) = None.
Proof.
  intros H. apply lookup_none. intros e Hin Hk.
  assert (Hin' : In e t /\ e_id e <> id).
  { clear H Hk. induction t as [|x r IH]; simpl in Hin; [contradiction|].
    destruct (N.eqb_spec (e_id x) id).
    - destruct (IH Hin). split; [now right|assumption].
    - destruct Hin as [<-|Hin]; [split; [now left|assumption]|].
      destruct (IH Hin). split; [now right|assumption]. }
  destruct Hin' as [Hi Hne]. apply Hne. now apply H.
Qed.

Lemma reuse_after_end t fresh m k id :
  key_of m = Some k -> m_is_request m = true ->
  (forall e, In e t -> e_key e = k -> e_id e = id) ->
  receive (remove_id id t) fresh m = (mke fresh k HeldRequest false :: remove_id id t, NewRequest fresh).
Proof.
  intros Hk Hr H. pose proof (receive_spec (remove_id id t) fresh m k Hk) as S.
  rewrite (remove_id_lookup id t k H), Hr in S. exact S.
Qed.


(* an answer that arrives while the caller is still inside send is handed to the transaction *)
Lemma early_response_delivered k id r :
  tsx_client_registers_before_send = true -> key_of r = Some k -> m_is_request r = false ->
  snd (run (client_send_events k id [r] [])) = [(None, 1%N); (Some (ToTsx id true), 1%N)].
Proof.
  intros G Hk Hr. unfold client_send_events. rewrite G. cbn [map app]. unfold run. cbn [fold_left step].
  unfold receive. rewrite Hk. cbn [lookup e_key]. rewrite key_eqb_refl. cbn [e_ack_filter e_owner e_id andb].
  rewrite Hr. reflexivity.
Qed.

(* registered only after the send has returned, the same answer is dropped as an orphan *)
Lemma late_registration_drops (k : key) r :
  key_of r = Some k -> m_is_request r = false ->
  fst (step ([], 1000) (Recv r)) = ([], 1001) /\ snd (step ([], 1000) (Recv r)) = Some Orphan.
Proof. intros Hk Hr. cbn [step]. unfold receive. rewrite Hk. cbn [lookup]. rewrite Hr. split; reflexivity. Qed.


(* a CANCEL that names the pending INVITE (same top Via branch, same CSeq number) finds it, whatever the style of the branch *)
Lemma cancel_finds_invite inv c :
  cancel_lookup_by_tsx_branch = true -> m_is_request inv = true -> m_is_request c = true ->
  m_branch c = m_branch inv -> m_cseq c = m_cseq inv -> m_from_tag c = m_from_tag inv ->
  cancellable_reg inv <> None -> cancellable_lookup c = cancellable_reg inv.
Proof.
  intros G Hi Hc Hb Hs Hf Hn. unfold cancellable_lookup, cancellable_reg in *. rewrite G. unfold key_of in *.
  rewrite Hb, Hs, Hf, Hi, Hc. destruct (has_cookie (m_branch inv)); [reflexivity|].
  destruct (m_from_tag inv); [reflexivity | now elim Hn].
Qed.

(* looked up under the raw Via branch, the INVITE of a caller without the magic cookie is not found *)
Lemma raw_branch_lookup_misses inv :
  has_cookie (m_branch inv) = false -> m_branch inv <> [] -> m_from_tag inv <> None ->
  cancellable_reg inv <> Some (m_cseq inv, m_branch inv).
Proof.
  intros Hc Hb Hf. unfold cancellable_reg, key_of. rewrite Hc. destruct (m_from_tag inv); [|now elim Hf].
  cbn [key_branch]. intros E. injection E as E. now elim Hb.
Qed.
