(* Proofs/C07.v *)
From Coq Require Import List NArith Lia Bool.
From EZK Require Import Lib.Bytes Gen.Tables Model.Tsx Model.C07 Proofs.C05.
Import ListNotations.
Open Scope N_scope.

Lemma hname_eqb_refl n : hname_eqb n n = true.
Proof. destruct n; simpl; auto. apply N.eqb_refl. Qed.

Lemma hname_eqb_eq a b : hname_eqb a b = true <-> a = b.
Proof.
  destruct a, b; simpl; split; intros H; try discriminate; try reflexivity.
  - apply N.eqb_eq in H. now subst.
  - inversion H. apply N.eqb_refl.
Qed.

Lemma values_app h1 h2 n : values (h1 ++ h2) n = values h1 n ++ values h2 n.
Proof. unfold values. now rewrite filter_app, map_app. Qed.

Lemma values_map_same n vs : values (map (fun v => (n, v)) vs) n = vs.
Proof.
  unfold values. induction vs as [|v vs IH]; simpl; [reflexivity|].
  rewrite hname_eqb_refl. simpl. now rewrite IH.
Qed.

Lemma values_map_other n m vs : hname_eqb m n = false -> values (map (fun v => (m, v)) vs) n = [].
Proof.
  intros H. unfold values. induction vs as [|v vs IH]; simpl; [reflexivity|]. now rewrite H.
Qed.

Lemma clone_into_values src dest n h m :
  clone_into src dest n = Some h ->
  values h m = values dest m ++ (if hname_eqb n m then values src n else []).
Proof.
  unfold clone_into. destruct (values src n) as [|v vs] eqn:E; [discriminate|].
  intros H; injection H as H; subst h. rewrite values_app. f_equal.
  destruct (hname_eqb n m) eqn:Enm.
  - apply hname_eqb_eq in Enm. subst. apply (values_map_same m (v :: vs)).
  - now apply (values_map_other m n (v :: vs)).
Qed.

(* every named header of the ACK, and what it does not contain *)
Lemma ack_fields inv resp ack :
  create_ack inv resp = Some ack ->
  rq_method ack = ack_method /\
  rq_uri ack = rq_uri inv /\
  rq_cseq ack = rq_cseq inv /\
  values (rq_headers ack) HVia = values (rq_headers inv) HVia /\
  values (rq_headers ack) HFrom = values (rq_headers inv) HFrom /\
  values (rq_headers ack) HTo = values resp HTo /\
  values (rq_headers ack) HCallId = values (rq_headers inv) HCallId /\
  values (rq_headers ack) HRoute = values (rq_headers inv) HRoute /\
  (forall k, values (rq_headers ack) (HOther k) = []).
Proof.
  unfold create_ack.
  destruct (clone_into (rq_headers inv) [] HVia) as [h1|] eqn:E1; [|discriminate].
  destruct (clone_into (rq_headers inv) h1 HFrom) as [h2|] eqn:E2; [|discriminate].
  destruct (clone_into resp h2 HTo) as [h3|] eqn:E3; [|discriminate].
  destruct (clone_into (rq_headers inv) h3 HCallId) as [h4|] eqn:E4; [|discriminate].
  destruct (rq_cseq inv) as [n|] eqn:E5; [|discriminate].
  intros H; inversion H; subst; clear H. cbn [rq_method rq_uri rq_cseq rq_headers].
  match goal with |- context [values ?X HVia] => set (h6 := X) end.
  assert (V : forall m, values h6 m
     = values h4 m ++ (if hname_eqb HRoute m then values (rq_headers inv) HRoute else [])).
  { intros m. unfold h6. destruct (values (rq_headers inv) HRoute) as [|v vs] eqn:ER.
    - destruct (hname_eqb HRoute m); now rewrite app_nil_r.
    - rewrite values_app. f_equal. destruct (hname_eqb HRoute m) eqn:Em.
      + apply hname_eqb_eq in Em. subst. apply (values_map_same HRoute (v :: vs)).
      + now apply (values_map_other m HRoute (v :: vs)). }
  assert (W : forall m, values h4 m =
     (if hname_eqb HVia m then values (rq_headers inv) HVia else []) ++
     (if hname_eqb HFrom m then values (rq_headers inv) HFrom else []) ++
     (if hname_eqb HTo m then values resp HTo else []) ++
     (if hname_eqb HCallId m then values (rq_headers inv) HCallId else [])).
  { intros m. rewrite (clone_into_values _ _ _ _ m E4), (clone_into_values _ _ _ _ m E3),
      (clone_into_values _ _ _ _ m E2), (clone_into_values _ _ _ _ m E1). simpl. now rewrite <- !app_assoc. }
  repeat split; auto; intros; rewrite V, W; simpl; rewrite ?app_nil_r; reflexivity.
Qed.

(* the ACK exists whenever the INVITE and the response carry the mandatory headers *)
Lemma ack_exists inv resp :
  values (rq_headers inv) HVia <> [] -> values (rq_headers inv) HFrom <> [] ->
  values resp HTo <> [] -> values (rq_headers inv) HCallId <> [] -> rq_cseq inv <> None ->
  exists ack, create_ack inv resp = Some ack.
Proof.
  intros Hv Hf Ht Hc Hs. unfold create_ack, clone_into.
  destruct (values (rq_headers inv) HVia); [congruence|].
  destruct (values (rq_headers inv) HFrom); [congruence|].
  destruct (values resp HTo); [congruence|].
  destruct (values (rq_headers inv) HCallId); [congruence|].
  destruct (rq_cseq inv); [|congruence]. eauto.
Qed.

(* ---------- timed part: one ACK per received non-2xx final, none for 2xx ---------- *)
Definition is_ack (o : out) : bool := match o with AckSent _ => true | _ => false end.

Lemma completed_one_ack_each tie until : forall arrs,
  Forall (fun p => before tie (fst p) until = true) arrs ->
  inv_completed tie false until arrs = map (fun p => AckSent (fst p)) arrs.
Proof.
  induction arrs as [|[a c] rest IH]; intros H; cbn [inv_completed map]; [reflexivity|].
  inversion H as [|? ? Ha Hr]; subst. cbn [fst] in *. rewrite Ha. cbn [negb andb]. f_equal. now apply IH.
Qed.

Lemma completed_reliable_no_ack tie until arrs : inv_completed tie true until arrs = [].
Proof. destruct arrs as [|[a c] rest]; reflexivity. Qed.

Lemma accepted_no_ack tie d : forall arrs now, Forall (fun o => is_ack o = false) (inv_accepted tie d now arrs).
Proof.
  induction arrs as [|[a c] rest IH]; intros now; cbn [inv_accepted]; [repeat constructor|].
  destruct (before tie a d); repeat constructor. apply IH.
Qed.

Fixpoint sorted_from (now : N) (arrs : list (N * cls)) : Prop :=
  match arrs with
  | [] => True
  | (a, _) :: rest => now <= a /\ sorted_from a rest
  end.

(* Accepted: every response that arrives before first-2xx + 64*T1 is handed to the caller, in order,
   with no ACK, and completion is reported at that deadline *)
Lemma accepted_hands_over_all tie d : forall arrs now,
  sorted_from now arrs ->
  Forall (fun p => before tie (fst p) d = true) arrs ->
  inv_accepted tie d now arrs = map (fun p => Got (fst p) (snd p)) arrs ++ [Done d].
Proof.
  induction arrs as [|[a c] rest IH]; intros now Hs H; cbn [inv_accepted map app]; [reflexivity|].
  inversion H as [|? ? Ha Hr]; subst. cbn [fst snd] in *. rewrite Ha.
  destruct Hs as [Hn Hs]. replace (N.max a now) with a by lia. f_equal. now apply IH.
Qed.

Lemma final_failure_shape tie rel t rest :
  inv_final tie rel t Fail rest = AckSent t :: Got t Fail :: Done t :: inv_completed tie rel (t + inv_completed_ms) rest.
Proof. reflexivity. Qed.

Lemma final_success_shape tie rel t rest :
  inv_final tie rel t Succ rest = Got t Succ :: inv_accepted tie (t + timeout_ms) t rest.
Proof. reflexivity. Qed.
