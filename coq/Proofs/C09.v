(* Proofs/C09.v *)
From Coq Require Import List NArith Lia Bool.
From Coq.Strings Require Import Byte.
From EZK Require Import Lib.Bytes Lib.Num Gen.Tables Model.C09.
Import ListNotations.
Open Scope N_scope.

Lemma param_get_set_same name v ps : param_get name ps <> None -> param_get name (param_set name v ps) = Some (Some v).
Proof.
  induction ps as [|[n x] r IH]; simpl; [congruence|].
  destruct (bytes_eqb n name) eqn:E; simpl; rewrite E; [reflexivity|exact IH].
Qed.

Lemma param_get_set_other name other v ps : bytes_eqb other name = false ->
  param_get other (param_set name v ps) = param_get other ps.
Proof.
  intros Hne. induction ps as [|[n x] r IH]; simpl; [reflexivity|].
  destruct (bytes_eqb n name) eqn:E; simpl.
  - destruct (bytes_eqb n other) eqn:E2; [|reflexivity].
    apply bytes_eqb_eq in E, E2. subst. rewrite bytes_eqb_refl in Hne. discriminate.
  - destruct (bytes_eqb n other); [reflexivity|exact IH].
Qed.

Lemma param_get_app name ps qs :
  param_get name (ps ++ qs) = match param_get name ps with Some v => Some v | None => param_get name qs end.
Proof.
  induction ps as [|[n x] r IH]; simpl; [reflexivity|]. destruct (bytes_eqb n name); [reflexivity|exact IH].
Qed.

Lemma push_or_edit_get name v ps : param_get name (push_or_edit name v ps) = Some (Some v).
Proof.
  unfold push_or_edit. destruct (param_get name ps) eqn:E.
  - apply param_get_set_same. congruence.
  - rewrite param_get_app, E. simpl. now rewrite bytes_eqb_refl.
Qed.

Lemma push_or_edit_other name other v ps : bytes_eqb other name = false ->
  param_get other (push_or_edit name v ps) = param_get other ps.
Proof.
  intros Hne. unfold push_or_edit. destruct (param_get name ps) eqn:E.
  - now apply param_get_set_other.
  - rewrite param_get_app. destruct (param_get other ps); [reflexivity|].
    simpl. destruct (bytes_eqb name other) eqn:E2; [|reflexivity].
    apply bytes_eqb_eq in E2. subst. rewrite bytes_eqb_refl in Hne. discriminate.
Qed.

Definition src_host (s : addr) : host := HIP (a_v6 s) (a_num s) (a_text s).

(* ---------- received / rport stamping ---------- *)
Lemma received_added v src : host_eqb (src_host src) (v_host v) = false ->
  param_val s_received (v_params (add_received_rport v src)) = Some (a_text src).
Proof.
  intros H. unfold add_received_rport, param_val. fold (src_host src). rewrite H. cbn [v_params].
  destruct (param_get s_rport (push_or_edit s_received (a_text src) (v_params v))).
  - rewrite param_get_set_other by reflexivity. now rewrite push_or_edit_get.
  - now rewrite push_or_edit_get.
Qed.

Lemma received_untouched v src : host_eqb (src_host src) (v_host v) = true ->
  param_get s_received (v_params (add_received_rport v src)) = param_get s_received (v_params v).
Proof.
  intros H. unfold add_received_rport. fold (src_host src). rewrite H. cbn [v_params].
  destruct (param_get s_rport (v_params v)); [|reflexivity]. now apply param_get_set_other.
Qed.

Lemma rport_presence v src :
  (param_get s_rport (v_params (add_received_rport v src)) = None <-> param_get s_rport (v_params v) = None).
Proof.
  unfold add_received_rport. fold (src_host src). cbn [v_params].
  set (ps1 := if host_eqb (src_host src) (v_host v) then v_params v else push_or_edit s_received (a_text src) (v_params v)).
  assert (E : param_get s_rport ps1 = param_get s_rport (v_params v)).
  { unfold ps1. destruct (host_eqb _ _); [reflexivity|]. now apply push_or_edit_other. }
  destruct (param_get s_rport ps1) eqn:E1.
  - rewrite param_get_set_same by congruence. rewrite <- E. split; discriminate.
  - rewrite E1. rewrite <- E. tauto.
Qed.

Lemma rport_filled v src : param_get s_rport (v_params v) <> None ->
  param_val s_rport (v_params (add_received_rport v src)) = Some (print_dec (a_port src)).
Proof.
  intros H. unfold add_received_rport, param_val. fold (src_host src). cbn [v_params].
  set (ps1 := if host_eqb (src_host src) (v_host v) then v_params v else push_or_edit s_received (a_text src) (v_params v)).
  assert (E : param_get s_rport ps1 = param_get s_rport (v_params v)).
  { unfold ps1. destruct (host_eqb _ _); [reflexivity|]. now apply push_or_edit_other. }
  destruct (param_get s_rport ps1) eqn:E1; [|congruence].
  now rewrite param_get_set_same by congruence.
Qed.

Lemma stamping_keeps_others v src name :
  bytes_eqb name s_received = false -> bytes_eqb name s_rport = false ->
  param_get name (v_params (add_received_rport v src)) = param_get name (v_params v).
Proof.
  intros H1 H2. unfold add_received_rport. fold (src_host src). cbn [v_params].
  set (ps1 := if host_eqb (src_host src) (v_host v) then v_params v else push_or_edit s_received (a_text src) (v_params v)).
  assert (E : param_get name ps1 = param_get name (v_params v)).
  { unfold ps1. destruct (host_eqb _ _); [reflexivity|]. now apply push_or_edit_other. }
  destruct (param_get s_rport ps1); [|exact E]. rewrite param_get_set_other by assumption. exact E.
Qed.

Lemma stamping_keeps_sent_by v src :
  v_transport (add_received_rport v src) = v_transport v /\ v_host (add_received_rport v src) = v_host v /\
  v_port (add_received_rport v src) = v_port v.
Proof. unfold add_received_rport. cbn. auto. Qed.

(* ---------- destination: complete case analysis ---------- *)
Definition maddr_ip (v : via) : option N :=
  match param_val s_maddr (v_params v) with Some m => parse_ipv4 m | None => None end.

Lemma maddr_unchanged v src : maddr_ip (add_received_rport v src) = maddr_ip v.
Proof.
  unfold maddr_ip, param_val. now rewrite stamping_keeps_others by reflexivity.
Qed.

Lemma dest_connection v0 src remote : destination v0 src (Some remote) = remote.
Proof. reflexivity. Qed.

Lemma dest_maddr v src ip : maddr_ip v = Some ip ->
  destination (add_received_rport v src) src None =
  mkaddr false ip (print_ipv4 ip) (match v_port v with Some p => p | None => 5060 end).
Proof.
  intros H. unfold destination. fold (maddr_ip (add_received_rport v src)). rewrite maddr_unchanged, H.
  destruct (stamping_keeps_sent_by v src) as (_ & _ & Hp). now rewrite Hp.
Qed.

Lemma dest_rport v src : maddr_ip v = None -> param_get s_rport (v_params v) <> None -> a_port src <= 65535 ->
  destination (add_received_rport v src) src None = src.
Proof.
  intros Hm Hr Hp. unfold destination. fold (maddr_ip (add_received_rport v src)). rewrite maddr_unchanged, Hm.
  rewrite rport_filled by assumption. rewrite parse_print_dec by assumption. destruct src; reflexivity.
Qed.

Lemma dest_source v src : maddr_ip v = None -> param_get s_rport (v_params v) = None ->
  destination (add_received_rport v src) src None = src.
Proof.
  intros Hm Hr. unfold destination. fold (maddr_ip (add_received_rport v src)). rewrite maddr_unchanged, Hm.
  unfold param_val. apply (proj2 (rport_presence v src)) in Hr. now rewrite Hr.
Qed.

(* ---------- mirrored headers ---------- *)
Definition values (hs : list (hname * bytes)) (n : hname) : list bytes :=
  map snd (filter (fun p => hname_eqb (fst p) n) hs).

Lemma values_app hs1 hs2 n : values (hs1 ++ hs2) n = values hs1 n ++ values hs2 n.
Proof. unfold values. now rewrite filter_app, map_app. Qed.

Lemma values_map_same n (vs : list bytes) : values (map (fun v => (n, v)) vs) n = vs.
Proof.
  unfold values. induction vs as [|v r IH]; simpl; [reflexivity|].
  destruct n; simpl; now rewrite IH.
Qed.

Lemma values_map_other n m (vs : list bytes) : hname_eqb m n = false -> values (map (fun v => (m, v)) vs) n = [].
Proof.
  intros H. unfold values. induction vs as [|v r IH]; simpl; [reflexivity|]. now rewrite H.
Qed.

Lemma values_cons n v r m : values ((n, v) :: r) m = (if hname_eqb n m then [v] else []) ++ values r m.
Proof. unfold values. simpl. destruct (hname_eqb n m); reflexivity. Qed.

Lemma values_nil m : values [] m = [].
Proof. reflexivity. Qed.

Lemma mirror rq src conn code reason v0 vs rs :
  rq_vias rq = v0 :: vs -> create_response rq src conn code reason = Some rs ->
  values (rs_headers rs) HVia = print_via (add_received_rport v0 src) :: map print_via vs /\
  values (rs_headers rs) HFrom = [rq_from rq] /\ values (rs_headers rs) HTo = [rq_to rq] /\
  values (rs_headers rs) HCallId = [rq_call_id rq] /\ values (rs_headers rs) HCSeq = [rq_cseq rq] /\
  values (rs_headers rs) HTimestamp = (if code =? 100 then rq_timestamp rq else []) /\
  values (rs_headers rs) HContentLength = [] /\
  rs_code rs = code /\
  rs_reason rs = (match reason with Some r => Some r | None => assoc_code code code_reasons end) /\
  rs_dest rs = destination (add_received_rport v0 src) src conn.
Proof.
  intros Hv. unfold create_response. rewrite Hv. intros H; injection H as H; subst rs.
  cbn [rs_headers rs_code rs_reason rs_dest map app].
  assert (M : forall l, map (fun v => (HVia, print_via v)) l = map (fun x => (HVia, x)) (map print_via l)).
  { intros l. now rewrite map_map. }
  assert (T : forall n, values (if code =? 100 then map (fun t => (HTimestamp, t)) (rq_timestamp rq) else []) n =
          if hname_eqb HTimestamp n then (if code =? 100 then rq_timestamp rq else []) else []).
  { intros n. destruct (code =? 100).
    - destruct (hname_eqb HTimestamp n) eqn:E.
      + destruct n; try discriminate. apply values_map_same.
      + now apply values_map_other.
    - destruct (hname_eqb HTimestamp n); reflexivity. }
  rewrite M.
  repeat split; try reflexivity;
    rewrite values_cons, values_app, !values_cons, T;
    try (rewrite values_map_other by reflexivity); try rewrite values_map_same;
    cbn [hname_eqb app]; rewrite ?app_nil_r; reflexivity.
Qed.

Lemma response_exists rq src conn code reason :
  rq_vias rq <> [] -> exists rs, create_response rq src conn code reason = Some rs.
Proof. unfold create_response. destruct (rq_vias rq); [congruence|eauto]. Qed.

(* ---------- Content-Length ---------- *)
Lemma content_length_once hs len :
  values (finalize_headers hs len) HContentLength = [print_dec len] /\
  forall n, hname_eqb n HContentLength = false -> values (finalize_headers hs len) n = values hs n.
Proof.
  unfold finalize_headers. split.
  - rewrite values_app. unfold values at 1.
    assert (F : filter (fun p => hname_eqb (fst p) HContentLength)
                  (filter (fun p : hname * bytes => negb (hname_eqb (fst p) HContentLength)) hs) = []).
    { induction hs as [|[n v] r IH]; simpl; [reflexivity|].
      destruct (hname_eqb n HContentLength) eqn:E; simpl; [exact IH|]. rewrite E. exact IH. }
    rewrite F. reflexivity.
  - intros n Hn. rewrite values_app. unfold values.
    assert (F : filter (fun p => hname_eqb (fst p) n)
                  (filter (fun p : hname * bytes => negb (hname_eqb (fst p) HContentLength)) hs)
                = filter (fun p => hname_eqb (fst p) n) hs).
    { induction hs as [|[m v] r IH]; simpl; [reflexivity|].
      destruct (hname_eqb m HContentLength) eqn:E; simpl.
      - destruct (hname_eqb m n) eqn:E2; [|exact IH].
        destruct m, n; try discriminate.
      - destruct (hname_eqb m n); [now rewrite IH|exact IH]. }
    rewrite F. simpl. destruct n; try discriminate; simpl; now rewrite app_nil_r.
Qed.
