(* Proofs/C19.v -- SDP: whole-token matching, numbers, keying-material lifetime, the media line, the
   dispatcher (attachment) and the text round trip *)
From Coq Require Import List Arith NArith Lia Bool.
From Coq.Strings Require Import Byte.
From EZK Require Import Lib.Bytes Lib.Num Lib.Utf8 Model.C19.
Import ListNotations.
Close Scope N_scope.
Open Scope nat_scope.

(* ---------- tokens are matched whole ---------- *)
Lemma dir_of_whole s d : dir_of s = Some d -> s = dir_name d.
Proof.
  unfold dir_of.
  destruct (bytes_eqb s t_sendrecv) eqn:E1; [intros Hq; injection Hq as <-; now apply bytes_eqb_eq|].
  destruct (bytes_eqb s t_recvonly) eqn:E2; [intros Hq; injection Hq as <-; now apply bytes_eqb_eq|].
  destruct (bytes_eqb s t_sendonly) eqn:E3; [intros Hq; injection Hq as <-; now apply bytes_eqb_eq|].
  destruct (bytes_eqb s t_inactive) eqn:E4; [intros Hq; injection Hq as <-; now apply bytes_eqb_eq|discriminate].
Qed.

Lemma dir_of_name d : dir_of (dir_name d) = Some d.
Proof. destruct d; vm_compute; reflexivity. Qed.

Lemma mtype_of_whole s m : mtype_of s = Some m -> s = mtype_name m.
Proof.
  unfold mtype_of.
  destruct (bytes_eqb s t_audio) eqn:E1; [intros Hq; injection Hq as <-; now apply bytes_eqb_eq|].
  destruct (bytes_eqb s t_video) eqn:E2; [intros Hq; injection Hq as <-; now apply bytes_eqb_eq|].
  destruct (bytes_eqb s t_text) eqn:E3; [intros Hq; injection Hq as <-; now apply bytes_eqb_eq|].
  destruct (bytes_eqb s t_application) eqn:E4; [intros Hq; injection Hq as <-; now apply bytes_eqb_eq|discriminate].
Qed.

Lemma mtype_of_name m : mtype_of (mtype_name m) = Some m.
Proof. destruct m; vm_compute; reflexivity. Qed.

(* a transport protocol token always prints back as itself: known names are recognised only when the
   whole token equals them, everything else is kept verbatim *)
Lemma proto_name_of s : proto_name (proto_of s) = s.
Proof.
  unfold proto_of.
  destruct (bytes_eqb s t_udp) eqn:E1; [apply bytes_eqb_eq in E1; now subst|].
  destruct (bytes_eqb s t_avp) eqn:E2; [apply bytes_eqb_eq in E2; now subst|].
  destruct (bytes_eqb s t_savp) eqn:E3; [apply bytes_eqb_eq in E3; now subst|].
  destruct (bytes_eqb s t_savpf) eqn:E4; [apply bytes_eqb_eq in E4; now subst|reflexivity].
Qed.

Definition proto_wf (p : proto) : Prop :=
  match p with
  | POther s => s <> [] /\ forallb not_ws s = true /\ proto_of s = POther s /\
                (* RFC 8866: proto = token *("/" token); a token that begins with '/' would be read as the port count *)
                match s with c :: _ => Byte.eqb c slash = false | [] => True end
  | _ => True
  end.

Lemma proto_of_name p : proto_wf p -> proto_of (proto_name p) = p.
Proof. destruct p; cbn [proto_name proto_wf]; try (intros _; vm_compute; reflexivity). intros (_ & _ & H & _). exact H. Qed.

Lemma index_of_spec s l : forall i j, index_of s l i = Some j -> i <= j /\ nth (j - i) l [] = s.
Proof.
  induction l as [|x r IH]; intros i j H; cbn [index_of] in H; [discriminate|].
  destruct (bytes_eqb s x) eqn:E.
  - injection H as <-. apply bytes_eqb_eq in E. subst. rewrite Nat.sub_diag. split; [lia|reflexivity].
  - apply IH in H. destruct H as [Hle Hn]. split; [lia|]. replace (j - i) with (S (j - S i)) by lia. exact Hn.
Qed.

Lemma suite_name_of s : suite_name (suite_of s) = s.
Proof.
  unfold suite_of. destruct (index_of s suites 0) as [i|] eqn:E; [|reflexivity].
  apply index_of_spec in E. destruct E as [_ E]. rewrite Nat.sub_0_r in E. exact E.
Qed.

(* ---------- numbers ---------- *)
Lemma number_print bound n rest :
  (n <= bound)%N -> stops is_digit rest -> number bound (print_dec n ++ rest) = Some (n, rest).
Proof.
  intros Hb Hs. unfold number, digits_of. rewrite take_while_app; [|apply print_dec_digits|exact Hs].
  destruct (print_dec_value n) as [_ Hne]. rewrite parse_print_dec by exact Hb.
  destruct (print_dec n); [congruence|reflexivity].
Qed.

Lemma parse_uint_bound bound s n : parse_uint bound s = Some n -> (n <= bound)%N.
Proof.
  unfold parse_uint.
  match goal with |- context [match ?x with [] => None | _ :: _ => _ end] => destruct x as [|c0 r0] end; [discriminate|].
  destruct (digits_value 0 (c0 :: r0)) as [v|]; [|discriminate].
  destruct (N.leb_spec v bound) as [Hle|Hgt]; [|discriminate]. intros Hs; injection Hs as <-. exact Hle.
Qed.

Lemma number_bound bound s n r : number bound s = Some (n, r) -> (n <= bound)%N.
Proof.
  unfold number. destruct (digits_of s) as [d r']. destruct d as [|d0 dr]; [discriminate|].
  destruct (parse_uint bound (d0 :: dr)) as [v|] eqn:E; [|discriminate].
  intros Hs; injection Hs as <- _. now apply parse_uint_bound in E.
Qed.

(* ---------- keying material lifetime: 2^n is computed with a range check ---------- *)
Lemma parse_lifetime_bound s v r : parse_lifetime s = Some (v, r) -> (v <= u32max)%N.
Proof.
  unfold parse_lifetime. destruct (strip_prefix t_pow s) as [r0|].
  - destruct (number u32max r0) as [[e r']|]; [|discriminate].
    destruct (N.ltb_spec e 32); [|discriminate]. intros Hq; injection Hq as <- _.
    assert (2 ^ e <= 2 ^ 31)%N by (apply N.pow_le_mono_r; lia). unfold u32max. lia.
  - apply number_bound.
Qed.

Lemma print_dec_not_pow n : strip_prefix t_pow (print_dec n) = None.
Proof.
  pose proof (print_dec_digits n) as Hd. destruct (print_dec_value n) as [_ Hne].
  destruct (print_dec n) as [|a [|b t]]; [congruence| |].
  - cbn in Hd. rewrite andb_true_r in Hd. unfold t_pow. cbn [strip_prefix]. destruct (Byte.eqb _ a); reflexivity.
  - cbn [forallb] in Hd. apply andb_prop in Hd as [_ Hd]. apply andb_prop in Hd as [Hb _].
    unfold t_pow. cbn [strip_prefix]. destruct (Byte.eqb "2"%byte a); [|reflexivity].
    destruct (Byte.eqb "^"%byte b) eqn:E; [|reflexivity]. apply byte_eqb_eq in E. subst b. discriminate.
Qed.

Lemma parse_print_lifetime n rest :
  (n <= u32max)%N -> stops is_digit rest ->
  parse_lifetime (print_lifetime n ++ rest) = Some (n, rest).
Proof.
  intros Hb Hs. unfold print_lifetime, parse_lifetime.
  destruct ((0 <? n)%N && N.eqb (2 ^ N.log2 n) n) eqn:E.
  - apply andb_prop in E as [Hpos Hpow]. apply N.ltb_lt in Hpos. apply N.eqb_eq in Hpow.
    rewrite <- app_assoc, strip_prefix_app.
    assert (Hl : (N.log2 n < 32)%N).
    { apply N.log2_lt_pow2; [exact Hpos|]. unfold u32max in Hb. change (2 ^ 32)%N with 4294967296%N. lia. }
    rewrite number_print; [|unfold u32max; lia|exact Hs].
    destruct (N.ltb_spec (N.log2 n) 32); [|lia]. now rewrite Hpow.
  - assert (Hn : strip_prefix t_pow (print_dec n ++ rest) = None).
    { pose proof (print_dec_not_pow n) as Hp. pose proof (print_dec_digits n) as Hd.
      destruct (print_dec_value n) as [Hv Hne].
      destruct (print_dec n) as [|a [|b t]]; [congruence| |].
      - unfold t_pow. cbn [app strip_prefix].
        destruct (Byte.eqb "2"%byte a) eqn:Ea; [|reflexivity].
        (* the single digit 2 is the number 2 = 2^1, which is printed with the exponent form *)
        exfalso. apply byte_eqb_eq in Ea. subst a. cbn in Hv. injection Hv as <-. cbn in E. discriminate.
      - unfold t_pow in *. cbn [app strip_prefix] in *. destruct (Byte.eqb "2"%byte a); [|reflexivity].
        destruct (Byte.eqb "^"%byte b); [discriminate|reflexivity]. }
    rewrite Hn. now apply number_print.
Qed.

(* an exponent of 32 or more is refused: no overflow *)
Lemma lifetime_exponent_refused e rest :
  (32 <= e)%N -> (e <= u32max)%N -> stops is_digit rest -> parse_lifetime (t_pow ++ print_dec e ++ rest) = None.
Proof.
  intros He Hb Hs. unfold parse_lifetime. rewrite strip_prefix_app, number_print by assumption.
  destruct (N.ltb_spec e 32); [lia|reflexivity].
Qed.

(* ---------- the media line ---------- *)
Lemma skip_ws_nows s : stops is_ws s -> skip_ws s = s.
Proof. unfold skip_ws. destruct s as [|c r]; [reflexivity|]. cbn [stops take_while]. now intros ->. Qed.

Lemma skip_ws_sp s : stops is_ws s -> skip_ws (sp :: s) = s.
Proof.
  intros H. unfold skip_ws. cbn [take_while]. replace (is_ws sp) with true by reflexivity.
  destruct (take_while is_ws s) as [a b] eqn:E. cbn [snd].
  destruct s as [|c r]; [cbn in E; now injection E as _ <-|]. cbn [stops] in H. cbn [take_while] in E. rewrite H in E. now injection E as _ <-.
Qed.

Lemma digit_not_ws c : is_digit c = true -> is_ws c = false.
Proof.
  unfold is_digit, is_ws. intros H. apply andb_prop in H as [H1 H2]. apply N.leb_le in H1. apply N.leb_le in H2.
  destruct (Byte.eqb c x20) eqn:E1; [apply byte_eqb_eq in E1; subst; cbn in *; lia|].
  destruct (Byte.eqb c x09) eqn:E2; [apply byte_eqb_eq in E2; subst; cbn in *; lia|].
  destruct (Byte.eqb c x0a) eqn:E3; [apply byte_eqb_eq in E3; subst; cbn in *; lia|].
  destruct (Byte.eqb c x0d) eqn:E4; [apply byte_eqb_eq in E4; subst; cbn in *; lia|].
  destruct (Byte.eqb c x0c) eqn:E5; [apply byte_eqb_eq in E5; subst; cbn in *; lia|reflexivity].
Qed.

Lemma print_dec_head n : exists c r, print_dec n = c :: r /\ is_digit c = true.
Proof.
  pose proof (print_dec_digits n) as Hd. destruct (print_dec_value n) as [_ Hne].
  destruct (print_dec n) as [|c r]; [congruence|]. cbn [forallb] in Hd. apply andb_prop in Hd as [Hc _]. eauto.
Qed.

Lemma stops_ws_print_dec n rest : stops is_ws (print_dec n ++ rest).
Proof. destruct (print_dec_head n) as (c & r & -> & Hc). cbn [app stops]. now apply digit_not_ws. Qed.

Lemma parse_print_fmts l : forall fuel, length l < fuel ->
  Forall (fun f => (f <= u32max)%N) l -> parse_fmts fuel (print_fmts l) = l.
Proof.
  induction l as [|f r IH]; intros fuel Hf Hb.
  - destruct fuel; [cbn in Hf; lia|]. reflexivity.
  - destruct fuel as [|fuel]; [cbn in Hf; lia|]. inversion Hb as [|? ? Hf0 Hr]; subst.
    cbn [print_fmts parse_fmts]. rewrite skip_ws_sp by apply stops_ws_print_dec.
    rewrite number_print; [|exact Hf0|].
    + f_equal. apply IH; [cbn in Hf; lia|exact Hr].
    + destruct r; cbn [print_fmts stops]; [exact I|reflexivity].
Qed.

Lemma print_fmts_length l : length l <= length (print_fmts l).
Proof. induction l as [|f r IH]; cbn [print_fmts length]; [lia|]. rewrite app_length. lia. Qed.

Lemma token_app t rest : forallb not_ws t = true -> stops not_ws rest -> token (t ++ rest) = (t, rest).
Proof. intros. unfold token. now apply take_while_app. Qed.

Definition media_wf (m : media) : Prop :=
  (m_port m <= u16max)%N /\ (match m_ports_num m with Some n => (n <= u32max)%N | None => True end) /\
  proto_wf (m_proto m) /\ Forall (fun f => (f <= u32max)%N) (m_fmts m).

Lemma mtype_name_token m : forallb not_ws (mtype_name m) = true /\ mtype_name m <> [].
Proof. destruct m; split; try (vm_compute; reflexivity); discriminate. Qed.

Lemma proto_name_token p : proto_wf p -> forallb not_ws (proto_name p) = true /\ proto_name p <> [].
Proof.
  destruct p; cbn [proto_wf proto_name]; try (intros _; split; [vm_compute; reflexivity|discriminate]).
  intros (Hne & Hf & _ & _). auto.
Qed.

Lemma stops_not_ws_sp r : stops not_ws (sp :: r).
Proof. reflexivity. Qed.

Lemma print_fmts_stops_not_ws l : stops not_ws (print_fmts l).
Proof. destruct l; cbn [print_fmts stops]; [exact I|reflexivity]. Qed.

Lemma stops_ws_token t rest : t <> [] -> forallb not_ws t = true -> stops is_ws (t ++ rest).
Proof.
  intros Hne Hf. destruct t as [|c t']; [congruence|]. cbn [forallb] in Hf. apply andb_prop in Hf as [Hc _].
  cbn [app stops]. unfold not_ws in Hc. now destruct (is_ws c).
Qed.

(* Media::parse (Display for Media) = the media line, for every representable media line *)
Lemma parse_print_media m : media_wf m -> parse_media (print_media m) = Some m.
Proof.
  intros (Hport & Hpn & Hproto & Hfm). destruct m as [mt port pn pr fm]. cbn [m_type m_port m_ports_num m_proto m_fmts] in *.
  unfold parse_media, print_media. cbn [m_type m_port m_ports_num m_proto m_fmts].
  destruct (mtype_name_token mt) as [Hmt Hmtne]. destruct (proto_name_token pr Hproto) as [Hpt Hptne].
  set (tail := proto_name pr ++ print_fmts fm).
  assert (Htail_ws : stops is_ws tail) by (subst tail; apply stops_ws_token; assumption).
  assert (Htail : token tail = (proto_name pr, print_fmts fm)) by (subst tail; apply token_app; [exact Hpt|apply print_fmts_stops_not_ws]).
  assert (Hfin : match proto_name pr with
                 | [] => None
                 | _ :: _ => Some (mkmedia mt port pn (proto_of (proto_name pr)) (parse_fmts (S (length (print_fmts fm))) (print_fmts fm)))
                 end = Some (mkmedia mt port pn pr fm)).
  { destruct (proto_name pr) eqn:Epr; [congruence|]. rewrite <- Epr, proto_of_name by exact Hproto.
    rewrite parse_print_fmts; [reflexivity| |exact Hfm]. pose proof (print_fmts_length fm). lia. }
  rewrite skip_ws_nows by (apply stops_ws_token; assumption).
  rewrite token_app by (try exact Hmt; apply stops_not_ws_sp).
  destruct (mtype_name mt) eqn:Emt; [congruence|]. rewrite <- Emt, mtype_of_name. clear Emt.
  cbn [app]. rewrite skip_ws_sp by apply stops_ws_print_dec.
  destruct pn as [n|].
  - rewrite number_print; [|exact Hport|reflexivity].
    cbn [app]. rewrite skip_ws_nows by reflexivity. replace (Byte.eqb slash slash) with true by reflexivity.
    rewrite number_print; [|exact Hpn|reflexivity].
    cbn [app]. fold tail. rewrite skip_ws_sp by exact Htail_ws. rewrite Htail. exact Hfin.
  - cbn [app]. rewrite number_print; [|exact Hport|reflexivity].
    fold tail. rewrite skip_ws_sp by exact Htail_ws.
    assert (Hsl : match tail with c :: _ => Byte.eqb c slash = false | [] => False end).
    { subst tail. destruct pr; cbn [proto_name proto_wf] in *; try reflexivity.
      destruct Hproto as (Hne & _ & _ & Hs0). destruct s as [|c0 s0]; [congruence|exact Hs0]. }
    destruct tail as [|c0 r0] eqn:Etail; [destruct Hsl|]. rewrite Hsl.
    rewrite skip_ws_nows by exact Htail_ws. rewrite Htail. exact Hfin.
Qed.

(* ---------- the dispatcher: every printed line comes back to the section that printed it ---------- *)
Definition set_media (p : pstate) (ms : list mdesc) : pstate :=
  mkps (p_name p) (p_origin p) (p_time p) (p_dir p) (p_conn p) (p_bw p) (p_iceopts p) (p_icelite p) (p_ufrag p) (p_pwd p) (p_attrs p) ms.

Lemma with_media_set f p : with_media f p = set_media p (f (p_media p)).
Proof. reflexivity. Qed.

(* lines that update the newest media section *)
Lemma fold_upd (K : bytes -> line) (f : bytes -> mdesc -> mdesc) :
  (forall x p m ms, apply_line (set_media p (m :: ms)) (K x) = with_media (upd_last (f x)) (set_media p (m :: ms))) ->
  forall l p m ms, fold_left apply_line (map K l) (set_media p (m :: ms)) = set_media p (fold_left (fun m x => f x m) l m :: ms).
Proof.
  intros HK l. induction l as [|x r IH]; intros p m ms; cbn [map fold_left]; [reflexivity|].
  rewrite HK. rewrite with_media_set. cbn [set_media p_media upd_last].
  change (set_media (set_media p (m :: ms)) (f x m :: ms)) with (set_media p (f x m :: ms)). apply IH.
Qed.

Lemma fold_attr_md l : forall p m ms,
  fold_left apply_line (map LAttr l) (set_media p (m :: ms)) = set_media p (fold_left (fun m x => add_md_attr x m) l m :: ms).
Proof.
  induction l as [|x r IH]; intros p m ms; cbn [map fold_left]; [reflexivity|].
  cbn [apply_line set_media p_media]. rewrite with_media_set. cbn [set_media p_media upd_last].
  change (set_media (set_media p (m :: ms)) (add_md_attr x m :: ms)) with (set_media p (add_md_attr x m :: ms)). apply IH.
Qed.

Lemma fold_bw_md l p m ms :
  fold_left apply_line (map LBw l) (set_media p (m :: ms)) = set_media p (fold_left (fun m x => add_md_bw x m) l m :: ms).
Proof. apply (fold_upd LBw add_md_bw). reflexivity. Qed.

Lemma fold_rtpmap_md l p m ms :
  fold_left apply_line (map LRtpmap l) (set_media p (m :: ms)) = set_media p (fold_left (fun m x => add_md_rtpmap x m) l m :: ms).
Proof. apply (fold_upd LRtpmap add_md_rtpmap). reflexivity. Qed.

Lemma fold_fmtp_md l p m ms :
  fold_left apply_line (map LFmtp l) (set_media p (m :: ms)) = set_media p (fold_left (fun m x => add_md_fmtp x m) l m :: ms).
Proof. apply (fold_upd LFmtp add_md_fmtp). reflexivity. Qed.

Lemma fold_cand_md l p m ms :
  fold_left apply_line (map LCandidate l) (set_media p (m :: ms)) = set_media p (fold_left (fun m x => add_md_cand x m) l m :: ms).
Proof. apply (fold_upd LCandidate add_md_cand). reflexivity. Qed.

Lemma fold_crypto_md l p m ms :
  fold_left apply_line (map LCrypto l) (set_media p (m :: ms)) = set_media p (fold_left (fun m x => add_md_crypto x m) l m :: ms).
Proof. apply (fold_upd LCrypto add_md_crypto). reflexivity. Qed.

(* accumulating into one list field *)
Lemma acc_bw l : forall m, fold_left (fun m x => add_md_bw x m) l m =
  mkmd (md_media m) (md_dir m) (md_conn m) (md_bw m ++ l) (md_rtcp m) (md_rtpmaps m) (md_fmtps m) (md_ufrag m) (md_pwd m) (md_cands m) (md_eoc m) (md_crypto m) (md_attrs m).
Proof. induction l as [|x r IH]; intros m; cbn [fold_left]; [rewrite app_nil_r; now destruct m|]. rewrite IH. cbn. now rewrite <- app_assoc. Qed.
Lemma acc_rtpmap l : forall m, fold_left (fun m x => add_md_rtpmap x m) l m =
  mkmd (md_media m) (md_dir m) (md_conn m) (md_bw m) (md_rtcp m) (md_rtpmaps m ++ l) (md_fmtps m) (md_ufrag m) (md_pwd m) (md_cands m) (md_eoc m) (md_crypto m) (md_attrs m).
Proof. induction l as [|x r IH]; intros m; cbn [fold_left]; [rewrite app_nil_r; now destruct m|]. rewrite IH. cbn. now rewrite <- app_assoc. Qed.
Lemma acc_fmtp l : forall m, fold_left (fun m x => add_md_fmtp x m) l m =
  mkmd (md_media m) (md_dir m) (md_conn m) (md_bw m) (md_rtcp m) (md_rtpmaps m) (md_fmtps m ++ l) (md_ufrag m) (md_pwd m) (md_cands m) (md_eoc m) (md_crypto m) (md_attrs m).
Proof. induction l as [|x r IH]; intros m; cbn [fold_left]; [rewrite app_nil_r; now destruct m|]. rewrite IH. cbn. now rewrite <- app_assoc. Qed.
Lemma acc_cand l : forall m, fold_left (fun m x => add_md_cand x m) l m =
  mkmd (md_media m) (md_dir m) (md_conn m) (md_bw m) (md_rtcp m) (md_rtpmaps m) (md_fmtps m) (md_ufrag m) (md_pwd m) (md_cands m ++ l) (md_eoc m) (md_crypto m) (md_attrs m).
Proof. induction l as [|x r IH]; intros m; cbn [fold_left]; [rewrite app_nil_r; now destruct m|]. rewrite IH. cbn. now rewrite <- app_assoc. Qed.
Lemma acc_crypto l : forall m, fold_left (fun m x => add_md_crypto x m) l m =
  mkmd (md_media m) (md_dir m) (md_conn m) (md_bw m) (md_rtcp m) (md_rtpmaps m) (md_fmtps m) (md_ufrag m) (md_pwd m) (md_cands m) (md_eoc m) (md_crypto m ++ l) (md_attrs m).
Proof. induction l as [|x r IH]; intros m; cbn [fold_left]; [rewrite app_nil_r; now destruct m|]. rewrite IH. cbn. now rewrite <- app_assoc. Qed.
Lemma acc_attr l : forall m, fold_left (fun m x => add_md_attr x m) l m =
  mkmd (md_media m) (md_dir m) (md_conn m) (md_bw m) (md_rtcp m) (md_rtpmaps m) (md_fmtps m) (md_ufrag m) (md_pwd m) (md_cands m) (md_eoc m) (md_crypto m) (md_attrs m ++ l).
Proof. induction l as [|x r IH]; intros m; cbn [fold_left]; [rewrite app_nil_r; now destruct m|]. rewrite IH. cbn. now rewrite <- app_assoc. Qed.

(* one media section: whatever the state, its lines rebuild exactly that section on top of the others *)
Lemma fold_print_md m p ms :
  fold_left apply_line (print_md m) (set_media p ms) = set_media p (m :: ms).
Proof.
  unfold print_md. rewrite !fold_left_app. cbn [fold_left apply_line].
  rewrite with_media_set. cbn [set_media p_media p_dir].
  change (set_media (set_media p ms) (new_media (md_media m) (p_dir p) :: ms)) with (set_media p (new_media (md_media m) (p_dir p) :: ms)).
  set (m0 := new_media (md_media m) (p_dir p)).
  (* connection *)
  assert (H1 : fold_left apply_line (opt_line LConn (md_conn m)) (set_media p (m0 :: ms)) =
               set_media p (mkmd (md_media m) (p_dir p) (md_conn m) [] None [] [] None None [] false [] [] :: ms)).
  { destruct (md_conn m); reflexivity. }
  rewrite H1. rewrite fold_bw_md, acc_bw. cbn [md_media md_dir md_conn md_bw md_rtcp md_rtpmaps md_fmtps md_ufrag md_pwd md_cands md_eoc md_crypto md_attrs app].
  (* direction *)
  cbn [apply_line set_media p_media]. rewrite with_media_set. cbn [set_media p_media upd_last set_md_dir md_media md_dir md_conn md_bw md_rtcp md_rtpmaps md_fmtps md_ufrag md_pwd md_cands md_eoc md_crypto md_attrs].
  match goal with |- context [set_media (set_media p ?a) ?b] => change (set_media (set_media p a) b) with (set_media p b) end.
  (* rtcp *)
  match goal with |- context [fold_left apply_line (opt_line LRtcp (md_rtcp m)) (set_media p (?mm :: ms))] =>
    assert (H2 : fold_left apply_line (opt_line LRtcp (md_rtcp m)) (set_media p (mm :: ms)) =
                 set_media p (mkmd (md_media m) (md_dir m) (md_conn m) (md_bw m) (md_rtcp m) [] [] None None [] false [] [] :: ms)) by (destruct (md_rtcp m); reflexivity);
    rewrite H2 end.
  rewrite fold_rtpmap_md, acc_rtpmap. cbn [md_media md_dir md_conn md_bw md_rtcp md_rtpmaps md_fmtps md_ufrag md_pwd md_cands md_eoc md_crypto md_attrs app].
  rewrite fold_fmtp_md, acc_fmtp. cbn [md_media md_dir md_conn md_bw md_rtcp md_rtpmaps md_fmtps md_ufrag md_pwd md_cands md_eoc md_crypto md_attrs app].
  match goal with |- context [fold_left apply_line (opt_line LUfrag (md_ufrag m)) (set_media p (?mm :: ms))] =>
    assert (H3 : fold_left apply_line (opt_line LUfrag (md_ufrag m)) (set_media p (mm :: ms)) =
                 set_media p (mkmd (md_media m) (md_dir m) (md_conn m) (md_bw m) (md_rtcp m) (md_rtpmaps m) (md_fmtps m) (md_ufrag m) None [] false [] [] :: ms)) by (destruct (md_ufrag m); reflexivity);
    rewrite H3 end.
  match goal with |- context [fold_left apply_line (opt_line LPwd (md_pwd m)) (set_media p (?mm :: ms))] =>
    assert (H4 : fold_left apply_line (opt_line LPwd (md_pwd m)) (set_media p (mm :: ms)) =
                 set_media p (mkmd (md_media m) (md_dir m) (md_conn m) (md_bw m) (md_rtcp m) (md_rtpmaps m) (md_fmtps m) (md_ufrag m) (md_pwd m) [] false [] [] :: ms)) by (destruct (md_pwd m); reflexivity);
    rewrite H4 end.
  rewrite fold_cand_md, acc_cand. cbn [md_media md_dir md_conn md_bw md_rtcp md_rtpmaps md_fmtps md_ufrag md_pwd md_cands md_eoc md_crypto md_attrs app].
  match goal with |- context [fold_left apply_line (if md_eoc m then [LEoc] else []) (set_media p (?mm :: ms))] =>
    assert (H5 : fold_left apply_line (if md_eoc m then [LEoc] else []) (set_media p (mm :: ms)) =
                 set_media p (mkmd (md_media m) (md_dir m) (md_conn m) (md_bw m) (md_rtcp m) (md_rtpmaps m) (md_fmtps m) (md_ufrag m) (md_pwd m) (md_cands m) (md_eoc m) [] [] :: ms)) by (destruct (md_eoc m); reflexivity);
    rewrite H5 end.
  rewrite fold_crypto_md, acc_crypto. cbn [md_media md_dir md_conn md_bw md_rtcp md_rtpmaps md_fmtps md_ufrag md_pwd md_cands md_eoc md_crypto md_attrs app].
  rewrite fold_attr_md, acc_attr. cbn [md_media md_dir md_conn md_bw md_rtcp md_rtpmaps md_fmtps md_ufrag md_pwd md_cands md_eoc md_crypto md_attrs app].
  now destruct m.
Qed.

Lemma fold_print_mds l : forall p ms,
  fold_left apply_line (flat_map print_md l) (set_media p ms) = set_media p (rev l ++ ms).
Proof.
  induction l as [|m r IH]; intros p ms; cbn [flat_map]; [reflexivity|].
  rewrite fold_left_app, fold_print_md, IH. cbn [rev]. now rewrite <- app_assoc.
Qed.

(* session level lists, before the first media section *)
Lemma fold_bw_sess l : forall p, p_media p = [] ->
  fold_left apply_line (map LBw l) p =
  mkps (p_name p) (p_origin p) (p_time p) (p_dir p) (p_conn p) (p_bw p ++ l) (p_iceopts p) (p_icelite p) (p_ufrag p) (p_pwd p) (p_attrs p) [].
Proof.
  induction l as [|x r IH]; intros p Hm; cbn [map fold_left].
  - rewrite app_nil_r. destruct p; cbn in *; now subst.
  - cbn [apply_line]. rewrite Hm. rewrite IH by reflexivity. cbn. now rewrite <- app_assoc.
Qed.

Lemma fold_attr_sess l : forall p, p_media p = [] ->
  fold_left apply_line (map LAttr l) p =
  mkps (p_name p) (p_origin p) (p_time p) (p_dir p) (p_conn p) (p_bw p) (p_iceopts p) (p_icelite p) (p_ufrag p) (p_pwd p) (p_attrs p ++ l) [].
Proof.
  induction l as [|x r IH]; intros p Hm; cbn [map fold_left].
  - rewrite app_nil_r. destruct p; cbn in *; now subst.
  - cbn [apply_line]. rewrite Hm. rewrite IH by reflexivity. cbn. now rewrite <- app_assoc.
Qed.

(* Display then the dispatcher gives back the description: every field, every list in order, every media
   section with exactly its own lines *)
Lemma parse_print_lines s : parse_lines (print_sd s) = Some s.
Proof.
  unfold parse_lines, print_sd. rewrite !fold_left_app. cbn [fold_left apply_line ps0 p_name p_origin p_time p_dir p_conn p_bw p_iceopts p_icelite p_ufrag p_pwd p_attrs p_media].
  set (p1 := mkps (Some (s_name s)) (Some (s_origin s)) None SendRecv None [] None false None None [] []).
  assert (H1 : fold_left apply_line (opt_line LConn (s_conn s)) p1 =
               mkps (Some (s_name s)) (Some (s_origin s)) None SendRecv (s_conn s) [] None false None None [] []) by (destruct (s_conn s); reflexivity).
  rewrite H1. rewrite fold_bw_sess by reflexivity. cbn [p_name p_origin p_time p_dir p_conn p_bw p_iceopts p_icelite p_ufrag p_pwd p_attrs p_media app].
  cbn [apply_line p_name p_origin p_time p_dir p_conn p_bw p_iceopts p_icelite p_ufrag p_pwd p_attrs p_media].
  match goal with |- context [fold_left apply_line (opt_line LIceOptions (s_iceopts s)) ?q] =>
    assert (H2 : fold_left apply_line (opt_line LIceOptions (s_iceopts s)) q =
                 mkps (Some (s_name s)) (Some (s_origin s)) (Some (s_time s)) SendRecv (s_conn s) (s_bw s) (s_iceopts s) false None None [] []) by (destruct (s_iceopts s); reflexivity);
    rewrite H2 end.
  match goal with |- context [fold_left apply_line (if s_icelite s then [LIceLite] else []) ?q] =>
    assert (H3 : fold_left apply_line (if s_icelite s then [LIceLite] else []) q =
                 mkps (Some (s_name s)) (Some (s_origin s)) (Some (s_time s)) SendRecv (s_conn s) (s_bw s) (s_iceopts s) (s_icelite s) None None [] []) by (destruct (s_icelite s); reflexivity);
    rewrite H3 end.
  cbn [apply_line p_name p_origin p_time p_dir p_conn p_bw p_iceopts p_icelite p_ufrag p_pwd p_attrs p_media].
  match goal with |- context [fold_left apply_line (opt_line LUfrag (s_ufrag s)) ?q] =>
    assert (H4 : fold_left apply_line (opt_line LUfrag (s_ufrag s)) q =
                 mkps (Some (s_name s)) (Some (s_origin s)) (Some (s_time s)) (s_dir s) (s_conn s) (s_bw s) (s_iceopts s) (s_icelite s) (s_ufrag s) None [] []) by (destruct (s_ufrag s); reflexivity);
    rewrite H4 end.
  match goal with |- context [fold_left apply_line (opt_line LPwd (s_pwd s)) ?q] =>
    assert (H5 : fold_left apply_line (opt_line LPwd (s_pwd s)) q =
                 mkps (Some (s_name s)) (Some (s_origin s)) (Some (s_time s)) (s_dir s) (s_conn s) (s_bw s) (s_iceopts s) (s_icelite s) (s_ufrag s) (s_pwd s) [] []) by (destruct (s_pwd s); reflexivity);
    rewrite H5 end.
  rewrite fold_attr_sess by reflexivity. cbn [p_name p_origin p_time p_dir p_conn p_bw p_iceopts p_icelite p_ufrag p_pwd p_attrs p_media app].
  match goal with |- context [fold_left apply_line (flat_map print_md (s_media s)) ?q] =>
    change q with (set_media q []) end.
  rewrite fold_print_mds. unfold finish. cbn [set_media p_name p_origin p_time p_dir p_conn p_bw p_iceopts p_icelite p_ufrag p_pwd p_attrs p_media].
  rewrite app_nil_r, rev_involutive. now destruct s.
Qed.

(* ---------- text level: lines, classification ---------- *)
Definition no_eol (s : bytes) : Prop := forallb (fun b => negb (is_eol b)) s = true.
Definition starts_ok (s : bytes) : Prop := match s with c :: _ => is_cont c = false | [] => True end.

Lemma no_eol_app a b : no_eol a -> no_eol b -> no_eol (a ++ b).
Proof. unfold no_eol. intros Ha Hb. now rewrite forallb_app, Ha, Hb. Qed.

Lemma no_eol_cons c s : is_eol c = false -> no_eol s -> no_eol (c :: s).
Proof. unfold no_eol. intros Hc Hs. cbn [forallb]. now rewrite Hc, Hs. Qed.

Lemma split_lines_no_eol s : forall t cur, no_eol s -> split_lines (s ++ t) cur = split_lines t (rev s ++ cur).
Proof.
  induction s as [|c r IH]; intros t cur H; [reflexivity|].
  unfold no_eol in H. cbn [forallb] in H. apply andb_prop in H as [Hc Hr].
  cbn [app split_lines]. destruct (is_eol c); [discriminate|]. rewrite IH by exact Hr. cbn [rev]. now rewrite <- app_assoc.
Qed.

Lemma split_lines_crlf s rest : s <> [] -> no_eol s -> split_lines (s ++ CR :: LF :: rest) [] = s :: split_lines rest [].
Proof.
  intros Hne Hs. rewrite split_lines_no_eol by exact Hs. rewrite app_nil_r.
  cbn [split_lines]. replace (is_eol CR) with true by reflexivity. replace (is_eol LF) with true by reflexivity.
  destruct (rev s) eqn:E.
  - exfalso. apply Hne. apply (f_equal (@rev byte)) in E. now rewrite rev_involutive in E.
  - rewrite <- E, rev_involutive. reflexivity.
Qed.

Lemma split_render ls : Forall (fun l => render l <> [] /\ no_eol (render l)) ls ->
  split_lines (render_all ls) [] = map render ls.
Proof.
  induction ls as [|l r IH]; intros H; [reflexivity|]. inversion H as [|? ? [Hne Hn] Hr]; subst.
  unfold render_all. cbn [flat_map map]. rewrite <- app_assoc. cbn [app].
  rewrite split_lines_crlf by assumption. f_equal. now apply IH.
Qed.

Lemma split_once_app name value : forallb (fun b => negb (Byte.eqb b colon)) name = true ->
  split_once (name ++ colon :: value) = Some (name, value).
Proof.
  induction name as [|c r IH]; intros H; cbn [app split_once].
  - now rewrite byte_eqb_refl.
  - cbn [forallb] in H. apply andb_prop in H as [Hc Hr]. destruct (Byte.eqb c colon); [discriminate|]. now rewrite IH.
Qed.

Lemma split_once_none s : forallb (fun b => negb (Byte.eqb b colon)) s = true -> split_once s = None.
Proof.
  induction s as [|c r IH]; intros H; cbn [split_once]; [reflexivity|].
  cbn [forallb] in H. apply andb_prop in H as [Hc Hr]. destruct (Byte.eqb c colon); [discriminate|]. now rewrite IH.
Qed.

Definition no_colon (s : bytes) : Prop := forallb (fun b => negb (Byte.eqb b colon)) s = true.

Definition known_value_names : list bytes :=
  [t_rtpmap; t_fmtp; t_rtcp; t_icelite; t_iceoptions; t_iceufrag; t_icepwd; t_candidate; t_crypto].

Section Text.
  Variable valid : bytes -> bytes -> bool.

  Definition attr_wf (a : uattr) : Prop :=
    no_colon (a_name a) /\ no_eol (a_name a) /\ starts_ok (a_name a) /\
    match a_value a with
    | None => dir_of (a_name a) = None /\ bytes_eqb (a_name a) t_icelite = false /\ bytes_eqb (a_name a) t_eoc = false
    | Some v => no_eol v /\ Forall (fun k => bytes_eqb (a_name a) k = false) known_value_names
    end.

  Definition payload_wf (k p : bytes) : Prop := valid k p = true /\ no_eol p.

  Definition wf_line (l : line) : Prop :=
    match l with
    | LVersion | LEoc | LIceLite | LDir _ => True
    | LOrigin p => payload_wf ["o"%byte] p /\ starts_ok p
    | LName p => no_eol p /\ starts_ok p
    | LTime p => payload_wf ["t"%byte] p /\ starts_ok p
    | LConn p => payload_wf ["c"%byte] p /\ starts_ok p
    | LBw p => payload_wf ["b"%byte] p /\ starts_ok p
    | LMedia m => media_wf m
    | LRtpmap p => payload_wf t_rtpmap p
    | LFmtp p => payload_wf t_fmtp p
    | LRtcp p => payload_wf t_rtcp p
    | LIceOptions p => payload_wf t_iceoptions p
    | LUfrag p => payload_wf t_iceufrag p
    | LPwd p => payload_wf t_icepwd p
    | LCandidate p => payload_wf t_candidate p
    | LCrypto p => payload_wf t_crypto p
    | LAttr a => attr_wf a
    | LIgnored _ => False
    end.

  Lemma is_cont_ascii c : (b2n c < 128)%N -> is_cont c = false.
  Proof. intros H. unfold is_cont, in_range. destruct (N.leb_spec 128 (b2n c)); [lia|reflexivity]. Qed.

  Lemma classify_attr_known k p :
    In k known_value_names -> k <> t_icelite -> valid k p = true ->
    classify_attr valid (k ++ colon :: p) =
    Some (if bytes_eqb k t_rtpmap then LRtpmap p else if bytes_eqb k t_fmtp then LFmtp p else if bytes_eqb k t_rtcp then LRtcp p
          else if bytes_eqb k t_iceoptions then LIceOptions p else if bytes_eqb k t_iceufrag then LUfrag p
          else if bytes_eqb k t_icepwd then LPwd p else if bytes_eqb k t_candidate then LCandidate p else LCrypto p).
  Proof.
    intros Hin Hne Hv. unfold classify_attr.
    assert (Hnc : no_colon k).
    { unfold known_value_names in Hin. cbn [In] in Hin.
      repeat (destruct Hin as [<-|Hin]; [vm_compute; reflexivity|]). destruct Hin. }
    rewrite split_once_app by exact Hnc.
    unfold known_value_names in Hin. cbn [In] in Hin.
    repeat (destruct Hin as [<-|Hin]; [try congruence; cbn [bytes_eqb]; rewrite ?Hv; try reflexivity|]); try destruct Hin.
    all: try (vm_compute bytes_eqb; rewrite ?Hv; reflexivity).
  Qed.

  Lemma render_head_ok p : starts_ok p ->
    (match p with c :: _ => is_cont c | [] => false end) = false.
  Proof.
    intros Hp.
    destruct p as [|c r]; [reflexivity|exact Hp].
  Qed.

  (* every line the printer can emit is classified as itself *)
  Lemma classify_render l : wf_line l -> classify valid (render l) = Some l.
  Proof.
    destruct l; cbn [wf_line render].
    - intros _. vm_compute. reflexivity.
    - intros ((Hv & _) & Hs). unfold classify. rewrite render_head_ok by exact Hs.
      cbn [Byte.eqb Byte.to_bits Bool.eqb andb]. now rewrite Hv.
    - intros (_ & Hs). unfold classify. rewrite render_head_ok by exact Hs. reflexivity.
    - intros ((Hv & _) & Hs). unfold classify. rewrite render_head_ok by exact Hs.
      cbn [Byte.eqb Byte.to_bits Bool.eqb andb]. now rewrite Hv.
    - intros ((Hv & _) & Hs). unfold classify. rewrite render_head_ok by exact Hs.
      cbn [Byte.eqb Byte.to_bits Bool.eqb andb]. now rewrite Hv.
    - intros ((Hv & _) & Hs). unfold classify. rewrite render_head_ok by exact Hs.
      cbn [Byte.eqb Byte.to_bits Bool.eqb andb]. now rewrite Hv.
    - intros Hm. unfold classify.
      assert (Hs : starts_ok (print_media m)).
      { unfold print_media. destruct (m_type m); cbn [mtype_name]; apply is_cont_ascii; vm_compute; reflexivity. }
      rewrite render_head_ok by exact Hs.
      cbn [Byte.eqb Byte.to_bits Bool.eqb andb]. now rewrite parse_print_media.
    - intros _. destruct d; vm_compute; reflexivity.
    - intros _. vm_compute. reflexivity.
    - intros _. vm_compute. reflexivity.
    - intros (Hv & _). unfold classify. cbn [app]. replace (t_rtpmap ++ colon :: p) with (t_rtpmap ++ colon :: p) by reflexivity.
      change ("a"%byte :: eq_ :: t_rtpmap ++ colon :: p) with ("a"%byte :: eq_ :: (t_rtpmap ++ colon :: p)).
      cbv beta iota. replace (match t_rtpmap ++ colon :: p with c :: _ => is_cont c | [] => false end) with false by reflexivity.
      cbn [Byte.eqb Byte.to_bits Bool.eqb andb]. rewrite classify_attr_known; [reflexivity|vm_compute; tauto|discriminate|exact Hv].
    - intros (Hv & _). unfold classify.
      replace (match t_fmtp ++ colon :: p with c :: _ => is_cont c | [] => false end) with false by reflexivity.
      cbn [Byte.eqb Byte.to_bits Bool.eqb andb]. rewrite classify_attr_known; [reflexivity|vm_compute; tauto|discriminate|exact Hv].
    - intros (Hv & _). unfold classify.
      replace (match t_rtcp ++ colon :: p with c :: _ => is_cont c | [] => false end) with false by reflexivity.
      cbn [Byte.eqb Byte.to_bits Bool.eqb andb]. rewrite classify_attr_known; [reflexivity|vm_compute; tauto|discriminate|exact Hv].
    - intros (Hv & _). unfold classify.
      replace (match t_iceoptions ++ colon :: p with c :: _ => is_cont c | [] => false end) with false by reflexivity.
      cbn [Byte.eqb Byte.to_bits Bool.eqb andb]. rewrite classify_attr_known; [reflexivity|vm_compute; tauto|discriminate|exact Hv].
    - intros (Hv & _). unfold classify.
      replace (match t_iceufrag ++ colon :: p with c :: _ => is_cont c | [] => false end) with false by reflexivity.
      cbn [Byte.eqb Byte.to_bits Bool.eqb andb]. rewrite classify_attr_known; [reflexivity|vm_compute; tauto|discriminate|exact Hv].
    - intros (Hv & _). unfold classify.
      replace (match t_icepwd ++ colon :: p with c :: _ => is_cont c | [] => false end) with false by reflexivity.
      cbn [Byte.eqb Byte.to_bits Bool.eqb andb]. rewrite classify_attr_known; [reflexivity|vm_compute; tauto|discriminate|exact Hv].
    - intros (Hv & _). unfold classify.
      replace (match t_candidate ++ colon :: p with c :: _ => is_cont c | [] => false end) with false by reflexivity.
      cbn [Byte.eqb Byte.to_bits Bool.eqb andb]. rewrite classify_attr_known; [reflexivity|vm_compute; tauto|discriminate|exact Hv].
    - intros (Hv & _). unfold classify.
      replace (match t_crypto ++ colon :: p with c :: _ => is_cont c | [] => false end) with false by reflexivity.
      cbn [Byte.eqb Byte.to_bits Bool.eqb andb]. rewrite classify_attr_known; [reflexivity|vm_compute; tauto|discriminate|exact Hv].
    - intros (Hnc & _ & Hs & Hval). destruct a as [name value]. cbn [a_name a_value] in *. unfold classify.
      destruct value as [v|].
      + destruct Hval as [_ Hk].
        assert (Hhead : (match name ++ colon :: v with c :: _ => is_cont c | [] => false end) = false).
        {
          destruct name as [|c r]; [reflexivity|exact Hs]. }
        rewrite Hhead. cbn [Byte.eqb Byte.to_bits Bool.eqb andb]. unfold classify_attr. rewrite split_once_app by exact Hnc.
        unfold known_value_names in Hk.
        repeat match goal with H : Forall _ (_ :: _) |- _ => inversion H; clear H; subst end.
        repeat match goal with H : bytes_eqb name _ = false |- _ => rewrite H; clear H end. reflexivity.
      + destruct Hval as (Hd & Hl & He).
        assert (Hhead : (match name ++ [] with c :: _ => is_cont c | [] => false end) = false).
        { rewrite app_nil_r.
          destruct name as [|c r]; [reflexivity|exact Hs]. }
        rewrite Hhead. cbn [Byte.eqb Byte.to_bits Bool.eqb andb]. unfold classify_attr. rewrite app_nil_r.
        rewrite split_once_none by exact Hnc. now rewrite Hd, Hl, He.
    - intros [].
  Qed.

  Lemma classify_all_render ls : Forall wf_line ls -> classify_all valid (map render ls) = Some ls.
  Proof.
    induction ls as [|l r IH]; intros H; [reflexivity|]. inversion H; subst.
    cbn [map classify_all]. rewrite classify_render by assumption. now rewrite IH.
  Qed.
End Text.

(* ---------- the whole text ---------- *)
Lemma is_eol_not_ws c : is_ws c = false -> is_eol c = false.
Proof.
  unfold is_ws, is_eol, CR, LF. intros H. repeat (apply orb_false_iff in H; destruct H as [H ?]).
  apply orb_false_iff. split; assumption.
Qed.

Lemma no_eol_not_ws s : forallb not_ws s = true -> no_eol s.
Proof.
  unfold no_eol. induction s as [|c r IH]; cbn [forallb]; [reflexivity|]. intros H. apply andb_prop in H as [Hc Hr].
  rewrite IH by exact Hr. unfold not_ws in Hc. rewrite is_eol_not_ws; [reflexivity|]. now destruct (is_ws c).
Qed.

Lemma no_eol_print_dec n : no_eol (print_dec n).
Proof.
  apply no_eol_not_ws. pose proof (print_dec_digits n) as H. induction (print_dec n) as [|c r IH]; [reflexivity|].
  cbn [forallb] in *. apply andb_prop in H as [Hc Hr]. rewrite IH by exact Hr. unfold not_ws. now rewrite digit_not_ws.
Qed.

Lemma no_eol_print_fmts l : no_eol (print_fmts l).
Proof.
  induction l as [|f r IH]; [reflexivity|]. cbn [print_fmts]. apply no_eol_cons; [reflexivity|].
  apply no_eol_app; [apply no_eol_print_dec|exact IH].
Qed.

Lemma no_eol_print_media m : media_wf m -> no_eol (print_media m).
Proof.
  intros (_ & _ & Hp & _). unfold print_media.
  apply no_eol_app; [apply no_eol_not_ws, mtype_name_token|].
  apply no_eol_app; [reflexivity|]. apply no_eol_app; [apply no_eol_print_dec|].
  apply no_eol_app; [destruct (m_ports_num m); [apply no_eol_cons; [reflexivity|apply no_eol_print_dec]|reflexivity]|].
  apply no_eol_app; [reflexivity|]. apply no_eol_app; [apply no_eol_not_ws, (proto_name_token _ Hp)|apply no_eol_print_fmts].
Qed.

Section Text2.
  Variable valid : bytes -> bytes -> bool.

  Ltac eol_tac := repeat (first [assumption | reflexivity | apply no_eol_cons]).

  Lemma render_ok l : wf_line valid l -> render l <> [] /\ no_eol (render l).
  Proof.
    destruct l; cbn [wf_line render]; intros Hw.
    - split; [discriminate|reflexivity].
    - destruct Hw as ((_ & Hn) & _). split; [discriminate|eol_tac].
    - destruct Hw as (Hn & _). split; [discriminate|eol_tac].
    - destruct Hw as ((_ & Hn) & _). split; [discriminate|eol_tac].
    - destruct Hw as ((_ & Hn) & _). split; [discriminate|eol_tac].
    - destruct Hw as ((_ & Hn) & _). split; [discriminate|eol_tac].
    - split; [discriminate|]. eol_tac. now apply no_eol_print_media.
    - split; [discriminate|]. destruct d; reflexivity.
    - split; [discriminate|reflexivity].
    - split; [discriminate|reflexivity].
    - destruct Hw as (_ & Hn). split; [discriminate|eol_tac].
    - destruct Hw as (_ & Hn). split; [discriminate|eol_tac].
    - destruct Hw as (_ & Hn). split; [discriminate|eol_tac].
    - destruct Hw as (_ & Hn). split; [discriminate|eol_tac].
    - destruct Hw as (_ & Hn). split; [discriminate|eol_tac].
    - destruct Hw as (_ & Hn). split; [discriminate|eol_tac].
    - destruct Hw as (_ & Hn). split; [discriminate|eol_tac].
    - destruct Hw as (_ & Hn). split; [discriminate|eol_tac].
    - destruct Hw as (_ & Hn & _ & Hv). split; [discriminate|]. eol_tac.
      apply no_eol_app; [exact Hn|]. destruct (a_value a); [|reflexivity]. destruct Hv as [Hv _]. now apply no_eol_cons.
    - destruct Hw.
  Qed.

  (* SessionDescription::parse (to_string d) = d, for every description whose printed lines are well formed *)
  Lemma parse_print_text s : Forall (wf_line valid) (print_sd s) -> parse_text valid (print_text s) = Some s.
  Proof.
    intros Hwf. unfold parse_text, print_text.
    rewrite split_render.
    - rewrite classify_all_render by exact Hwf. apply parse_print_lines.
    - eapply Forall_impl; [|exact Hwf]. intros l Hl. now apply render_ok.
  Qed.
End Text2.

(* every byte of a non-ASCII character is a token byte for the model's (ASCII) white-space predicate *)
Lemma not_ws_high_byte : forall b : byte, 128 <= Byte.to_nat b -> not_ws b = true.
Proof. intros b. destruct b; cbn; intros H; try reflexivity; lia. Qed.
