(* Proofs/C01n.v -- display names round-trip for every byte string *)
From Coq Require Import List Arith NArith Bool.
From Coq.Strings Require Import Byte.
From EZK Require Import Gen.Tables Lib.Bytes Model.C01n.
Import ListNotations.
Open Scope nat_scope.

Lemma unquote_quote name rest : sip_display_quoted_escaped = true -> unquote (quote name ++ dq :: rest) = Some (name, rest).
Proof.
  intros Hf. induction name as [|c r IH]; cbn [quote app unquote].
  - now rewrite byte_eqb_refl.
  - rewrite Hf. cbn [andb]. unfold needs_escape. destruct (Byte.eqb c dq) eqn:E1; cbn [orb].
    + cbn [app unquote]. change (Byte.eqb bs dq) with false. rewrite byte_eqb_refl. cbn iota. now rewrite IH.
    + destruct (Byte.eqb c bs) eqn:E2.
      * cbn [app unquote]. change (Byte.eqb bs dq) with false. rewrite byte_eqb_refl. cbn iota. now rewrite IH.
      * cbn [app unquote]. rewrite E1, E2. now rewrite IH.
Qed.

Theorem display_roundtrip name rest : sip_display_quoted_escaped = true -> parse_display (print_display name ++ rest) = Some (name, rest).
Proof.
  intros Hf. unfold parse_display, print_display. cbn [app]. rewrite byte_eqb_refl. rewrite <- app_assoc. cbn [app].
  now apply unquote_quote.
Qed.

(* without the escaping a name that contains a quote does not come back *)
Lemma display_unescaped_refuted : exists name, unquote (name ++ [dq]) <> Some (name, []).
Proof. exists [dq]. vm_compute. discriminate. Qed.
