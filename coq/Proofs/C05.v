(* Proofs/C05.v -- lemmas about the client transaction models of Model/Tsx.v *)
From Coq Require Import List NArith Lia Bool.
From EZK Require Import Gen.Tables Model.Tsx.
Import ListNotations.
Open Scope N_scope.
Arguments N.add : simpl never.
Arguments N.mul : simpl never.
Arguments N.ltb : simpl never.
Arguments N.leb : simpl never.
Arguments N.eqb : simpl never.
Arguments N.min : simpl never.
Arguments N.max : simpl never.

Definition not_send (o : out) : Prop := is_send o = false.
Definition not_timedout (o : out) : Prop := is_timedout o = false.
Definition not_fuel (o : out) : Prop := o <> OutOfFuel.

(* ---------- outputs of the post-message phases contain no Send ---------- *)
Lemma ni_wait_no_send tie d : forall arrs now, Forall not_send (ni_wait tie d now arrs).
Proof.
  induction arrs as [|[a c] rest IH]; intros now; cbn [ni_wait].
  - repeat constructor.
  - destruct (before tie a d); [|repeat constructor].
    destruct c; repeat constructor; apply IH.
Qed.

Lemma inv_accepted_no_send tie d : forall arrs now, Forall not_send (inv_accepted tie d now arrs).
Proof.
  induction arrs as [|[a c] rest IH]; intros now; cbn [inv_accepted]; [repeat constructor|].
  destruct (before tie a d); repeat constructor. apply IH.
Qed.

Lemma inv_completed_no_send tie rel u : forall arrs, Forall not_send (inv_completed tie rel u arrs).
Proof.
  induction arrs as [|[a c] rest IH]; cbn [inv_completed]; [constructor|].
  destruct (negb rel && before tie a u); repeat constructor. exact IH.
Qed.

Lemma inv_final_no_send tie rel t c rest : Forall not_send (inv_final tie rel t c rest).
Proof.
  unfold inv_final. destruct c; repeat constructor;
    try apply inv_accepted_no_send; apply inv_completed_no_send.
Qed.

Lemma inv_proceeding_no_send tie rel : forall arrs now, Forall not_send (inv_proceeding tie rel now arrs).
Proof.
  induction arrs as [|[a c] rest IH]; intros now; cbn [inv_proceeding]; [constructor|].
  destruct c; try apply inv_final_no_send. constructor; [reflexivity|apply IH].
Qed.

Lemma inv_msg_no_send tie rel t c rest : Forall not_send (inv_msg tie rel t c rest).
Proof.
  unfold inv_msg. destruct c; try apply inv_final_no_send.
  constructor; [reflexivity|apply inv_proceeding_no_send].
Qed.

Lemma inv_wait_no_send tie rel d now arrs : Forall not_send (inv_wait tie rel d now arrs).
Proof.
  unfold inv_wait. destruct arrs as [|[a c] rest]; [repeat constructor|].
  destruct (before tie a d); [apply inv_msg_no_send|repeat constructor].
Qed.

(* ---------- reliable transports: exactly one transmission ---------- *)
Definition count_sends (l : list out) : nat := length (filter is_send l).

Lemma no_send_count l : Forall not_send l -> count_sends l = 0%nat.
Proof.
  unfold count_sends. induction 1 as [|o l H _ IH]; [reflexivity|]. simpl. rewrite H. exact IH.
Qed.

Lemma reliable_once_noninvite tie arrs : count_sends (client_noninvite tie true arrs) = 1%nat.
Proof.
  unfold client_noninvite. change (count_sends (Send 0 :: ?l)) with (S (count_sends l)).
  now rewrite no_send_count by apply ni_wait_no_send.
Qed.

Lemma reliable_once_invite tie arrs : count_sends (client_invite tie true arrs) = 1%nat.
Proof.
  unfold client_invite. change (count_sends (Send 0 :: ?l)) with (S (count_sends l)).
  now rewrite no_send_count by apply inv_wait_no_send.
Qed.

(* ---------- any response stops retransmission ---------- *)
Definition sends_upto (a : N) (l : list out) : Prop :=
  Forall (fun o => is_send o = true -> time_of o <= a) l.

Lemma no_send_upto a l : Forall not_send l -> sends_upto a l.
Proof.
  unfold sends_upto. induction 1 as [|o l H _ IH]; constructor; [|exact IH].
  intros Hs. unfold not_send in H. congruence.
Qed.

Lemma before_le tie a t : before tie a t = false -> t <= a.
Proof. unfold before. destruct tie; [destruct (N.leb_spec a t)|destruct (N.ltb_spec a t)]; intros; try discriminate; lia. Qed.

Lemma ni_init_sends_upto tie d fuel : forall now n a c rest,
  sends_upto a (ni_init tie fuel d now n ((a, c) :: rest)).
Proof.
  induction fuel as [|fuel IH]; intros now n a c rest; cbn [ni_init].
  - repeat constructor. discriminate.
  - destruct (before tie a (N.min (now + n) d)) eqn:Hb.
    + apply no_send_upto. destruct c; repeat constructor; apply ni_wait_no_send.
    + apply before_le in Hb.
      destruct (N.ltb_spec (now + n) d).
      * constructor; [cbn; intros _; lia|apply IH].
      * destruct (N.eqb_spec (now + n) d); repeat constructor; cbn; intros; try discriminate; lia.
Qed.

Lemma inv_init_sends_upto tie d fuel : forall now n a c rest,
  sends_upto a (inv_init tie fuel d now n ((a, c) :: rest)).
Proof.
  induction fuel as [|fuel IH]; intros now n a c rest; cbn [inv_init].
  - repeat constructor. discriminate.
  - destruct (before tie a (N.min (now + n) d)) eqn:Hb.
    + apply no_send_upto. apply inv_msg_no_send.
    + apply before_le in Hb.
      destruct (N.ltb_spec (now + n) d).
      * constructor; [cbn; intros _; lia|apply IH].
      * destruct (N.eqb_spec (now + n) d); repeat constructor; cbn; intros; try discriminate; lia.
Qed.

Lemma response_stops_noninvite tie rel a c rest :
  sends_upto a (client_noninvite tie rel ((a, c) :: rest)).
Proof.
  unfold client_noninvite. constructor; [cbn; intros _; lia|].
  destruct rel; [apply no_send_upto, ni_wait_no_send|apply ni_init_sends_upto].
Qed.

Lemma response_stops_invite tie rel a c rest :
  sends_upto a (client_invite tie rel ((a, c) :: rest)).
Proof.
  unfold client_invite. constructor; [cbn; intros _; lia|].
  destruct rel; [apply no_send_upto, inv_wait_no_send|apply inv_init_sends_upto].
Qed.

(* ---------- INVITE: a transaction that has seen a response never times out ---------- *)
Lemma inv_accepted_no_to tie d : forall arrs now, Forall not_timedout (inv_accepted tie d now arrs).
Proof.
  induction arrs as [|[a c] rest IH]; intros now; cbn [inv_accepted]; [repeat constructor|].
  destruct (before tie a d); repeat constructor. apply IH.
Qed.

Lemma inv_completed_no_to tie rel u : forall arrs, Forall not_timedout (inv_completed tie rel u arrs).
Proof.
  induction arrs as [|[a c] rest IH]; cbn [inv_completed]; [constructor|].
  destruct (negb rel && before tie a u); repeat constructor. exact IH.
Qed.

Lemma inv_final_no_to tie rel t c rest : Forall not_timedout (inv_final tie rel t c rest).
Proof.
  unfold inv_final. destruct c; repeat constructor;
    try apply inv_accepted_no_to; apply inv_completed_no_to.
Qed.

Lemma inv_proceeding_no_to tie rel : forall arrs now, Forall not_timedout (inv_proceeding tie rel now arrs).
Proof.
  induction arrs as [|[a c] rest IH]; intros now; cbn [inv_proceeding]; [constructor|].
  destruct c; try apply inv_final_no_to. constructor; [reflexivity|apply IH].
Qed.

Lemma inv_msg_no_to tie rel t c rest : Forall not_timedout (inv_msg tie rel t c rest).
Proof.
  unfold inv_msg. destruct c; try apply inv_final_no_to.
  constructor; [reflexivity|apply inv_proceeding_no_to].
Qed.

(* [quiet_until_timeout l]: every output before a TimedOut is a Send (nothing was received) and the
   TimedOut is the last output *)
Fixpoint quiet_until_timeout (l : list out) : Prop :=
  match l with
  | [] => True
  | TimedOut _ :: r => r = []
  | Send _ :: r => quiet_until_timeout r
  | _ :: r => Forall not_timedout r
  end.

Lemma quiet_of_no_to l : Forall not_timedout l -> quiet_until_timeout l.
Proof.
  induction 1 as [|o l H Hl IH]; [exact I|].
  destruct o; cbn; auto. discriminate H.
Qed.

Lemma inv_init_quiet tie d fuel : forall now n arrs, quiet_until_timeout (inv_init tie fuel d now n arrs).
Proof.
  induction fuel as [|fuel IH]; intros now n arrs; cbn [inv_init]; [cbn; constructor|].
  assert (Ht : quiet_until_timeout
    (if now + n <? d then Send (now + n) :: inv_init tie fuel d (now + n) (n * 2) arrs
     else if now + n =? d then [Send (now + n); TimedOut d] else [TimedOut d])).
  { destruct (now + n <? d); [cbn; apply IH|]. destruct (now + n =? d); cbn; reflexivity. }
  destruct arrs as [|[a c] rest]; [exact Ht|].
  destruct (before tie a (N.min (now + n) d)); [|exact Ht].
  apply quiet_of_no_to, inv_msg_no_to.
Qed.

Lemma invite_no_timeout_after_response tie rel arrs :
  quiet_until_timeout (client_invite tie rel arrs).
Proof.
  unfold client_invite. cbn [quiet_until_timeout]. destruct rel.
  - unfold inv_wait. destruct arrs as [|[a c] rest]; [reflexivity|].
    destruct (before tie a timeout_ms); [apply quiet_of_no_to, inv_msg_no_to|reflexivity].
  - apply inv_init_quiet.
Qed.

Lemma invite_proceeding_never_times_out tie rel t rest :
  Forall not_timedout (inv_msg tie rel t Prov rest).
Proof. apply inv_msg_no_to. Qed.

(* ---------- non-INVITE: one final response, nothing after it ---------- *)
Fixpoint final_is_last (l : list out) : Prop :=
  match l with
  | [] => True
  | o :: r => (is_final_got o = true -> r = []) /\ final_is_last r
  end.

Lemma ni_wait_final_last tie d : forall arrs now, final_is_last (ni_wait tie d now arrs).
Proof.
  induction arrs as [|[a c] rest IH]; intros now; cbn [ni_wait].
  - cbn. split; [discriminate|exact I].
  - destruct (before tie a d); [|cbn; split; [discriminate|exact I]].
    destruct c; cbn; try (split; [reflexivity|exact I]).
    split; [discriminate|apply IH].
Qed.

Lemma ni_init_final_last tie d fuel : forall now n arrs, final_is_last (ni_init tie fuel d now n arrs).
Proof.
  induction fuel as [|fuel IH]; intros now n arrs; cbn [ni_init]; [cbn; split; [discriminate|exact I]|].
  assert (Ht : final_is_last
    (if now + n <? d then Send (now + n) :: ni_init tie fuel d (now + n) (N.min (n * 2) T2_ms) arrs
     else if now + n =? d then [Send (now + n); TimedOut d] else [TimedOut d])).
  { destruct (now + n <? d); [cbn; split; [discriminate|apply IH]|].
    destruct (now + n =? d); cbn; repeat split; discriminate. }
  destruct arrs as [|[a c] rest]; [exact Ht|].
  destruct (before tie a (N.min (now + n) d)); [|exact Ht].
  destruct c; cbn; try (split; [reflexivity|exact I]).
  split; [discriminate|apply ni_wait_final_last].
Qed.

Lemma noninvite_one_final tie rel arrs : final_is_last (client_noninvite tie rel arrs).
Proof.
  unfold client_noninvite. cbn [final_is_last]. split; [discriminate|].
  destruct rel; [apply ni_wait_final_last|apply ni_init_final_last].
Qed.

(* ---------- arrivals after the deadline change nothing ---------- *)
Definition all_after (d : N) (arrs : list (N * cls)) : Prop := Forall (fun p => d < fst p) arrs.

Lemma before_false tie a t : t < a -> before tie a t = false.
Proof. intros H. unfold before. destruct tie; [destruct (N.leb_spec a t)|destruct (N.ltb_spec a t)]; auto; lia. Qed.

Lemma ni_init_late tie d fuel : forall now n arrs,
  all_after d arrs -> ni_init tie fuel d now n arrs = ni_init tie fuel d now n [].
Proof.
  induction fuel as [|fuel IH]; intros now n arrs H; cbn [ni_init]; [reflexivity|].
  destruct arrs as [|[a c] rest]; [reflexivity|].
  inversion H as [|? ? Ha _]; subst. cbn [fst] in Ha.
  rewrite before_false by (pose proof (N.le_min_r (now + n) d); lia).
  destruct (now + n <? d); [|reflexivity]. f_equal. apply IH. exact H.
Qed.

Lemma inv_init_late tie d fuel : forall now n arrs,
  all_after d arrs -> inv_init tie fuel d now n arrs = inv_init tie fuel d now n [].
Proof.
  induction fuel as [|fuel IH]; intros now n arrs H; cbn [inv_init]; [reflexivity|].
  destruct arrs as [|[a c] rest]; [reflexivity|].
  inversion H as [|? ? Ha _]; subst. cbn [fst] in Ha.
  rewrite before_false by (pose proof (N.le_min_r (now + n) d); lia).
  destruct (now + n <? d); [|reflexivity]. f_equal. apply IH. exact H.
Qed.

Lemma late_arrivals_ignored tie rel arrs : all_after timeout_ms arrs ->
  client_noninvite tie rel arrs = client_noninvite tie rel [] /\
  client_invite tie rel arrs = client_invite tie rel [].
Proof.
  intros H. unfold client_noninvite, client_invite. destruct rel.
  - destruct arrs as [|[a c] rest]; [split; reflexivity|].
    inversion H as [|? ? Ha _]; subst. cbn [fst] in Ha.
    cbn [ni_wait inv_wait]. rewrite before_false by exact Ha. split; reflexivity.
  - rewrite ni_init_late, inv_init_late by exact H. split; reflexivity.
Qed.

(* ---------- the loops never run out of fuel ---------- *)
Lemma ni_wait_fuel tie d : forall arrs now, Forall not_fuel (ni_wait tie d now arrs).
Proof.
  induction arrs as [|[a c] rest IH]; intros now; cbn [ni_wait]; [repeat constructor; discriminate|].
  destruct (before tie a d); [|repeat constructor; discriminate].
  destruct c; repeat constructor; try discriminate. apply IH.
Qed.

Lemma ni_init_fuel tie d fuel : forall now n arrs,
  T1_ms <= n -> now <= d -> d < now + T1_ms * N.of_nat fuel ->
  Forall not_fuel (ni_init tie fuel d now n arrs).
Proof.
  unfold T1_ms.
  induction fuel as [|fuel IH]; intros now n arrs Hn Hnd Hd; [lia|]. cbn [ni_init].
  assert (Ht : Forall not_fuel
    (if now + n <? d then Send (now + n) :: ni_init tie fuel d (now + n) (N.min (n * 2) T2_ms) arrs
     else if now + n =? d then [Send (now + n); TimedOut d] else [TimedOut d])).
  { destruct (N.ltb_spec (now + n) d).
    - constructor; [discriminate|]. apply IH; [unfold T2_ms; lia|lia|].
      rewrite Nat2N.inj_succ in Hd. lia.
    - destruct (now + n =? d); repeat constructor; discriminate. }
  destruct arrs as [|[a c] rest]; [exact Ht|].
  destruct (before tie a (N.min (now + n) d)); [|exact Ht].
  destruct c; repeat constructor; try discriminate. apply ni_wait_fuel.
Qed.

Lemma noninvite_never_out_of_fuel tie rel arrs : Forall not_fuel (client_noninvite tie rel arrs).
Proof.
  unfold client_noninvite. constructor; [discriminate|].
  destruct rel; [apply ni_wait_fuel|].
  apply ni_init_fuel; [lia|vm_compute; discriminate|vm_compute; reflexivity].
Qed.
