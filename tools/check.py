#!/usr/bin/env python3
"""bin/check <Cxx> <quick|thorough> [--replay file]

Decides one property: regenerate tables, rebuild and audit the Coq closure of the property,
rebuild harness (from /repo's working tree) and extracted-model driver, run corpus + seeded cases
through both, compare (correspondence), run the implementation oracle, write evidence, print the
verdict.  See DESIGN.md section 2.4 and 8."""
import glob
import importlib
import json
import os
import random
import sys
import time

sys.path.insert(0, os.path.dirname(os.path.abspath(__file__)))
import common as C  # noqa: E402


def load_plugin(pid):
    return importlib.import_module("props." + pid.lower())


def load_corpus(pid):
    cases = []
    for path in sorted(glob.glob(os.path.join(C.VERIF, "corpus", pid, "*.tsv"))):
        for line in open(path):
            line = line.rstrip("\n")
            if line and not line.startswith("#"):
                cases.append(line.split("\t"))
    return cases


def run_cases(P, pid, cases, tag, release=False, model_ok=True):
    path = os.path.join(C.BUILD, pid, "cases_%s.tsv" % tag)
    C.write_cases(path, cases)
    rc_i, impl, raw_i = C.run_harness(pid, path, release=release, timeout=getattr(P, "HARNESS_TIMEOUT", 1800))
    model = {}
    rc_m = 0
    raw_m = ""
    if model_ok:
        mpath = path
        if hasattr(P, "model_case"):
            # inputs the model needs from the implementation's own output (random branches, tags, cnonces ...)
            mpath = os.path.join(C.BUILD, pid, "cases_%s_model.tsv" % tag)
            C.write_cases(mpath, [P.model_case(c, impl.get(c[0], "")) for c in cases])
        rc_m, model, raw_m = C.run_driver(pid, mpath)
    return impl, model, (rc_i, rc_m, raw_i[-2000:], raw_m[-2000:])


def evaluate(P, cases, impl, model, findings, model_ok):
    """returns dict with violations, known hits, disagreements, counters"""
    res = {"violations": [], "known": {}, "disagree": [], "missing": [], "nontrivial": set(), "n": 0}
    norm_i = getattr(P, "normalize_impl", lambda c, s: s)
    norm_m = getattr(P, "normalize_model", lambda c, s: s)
    for case in cases:
        cid = case[0]
        res["n"] += 1
        io = impl.get(cid)
        if io is None:
            res["missing"].append(cid)
            res["violations"].append((case, "<no output: harness crashed or hung on this case>", "harness produced no observation"))
            continue
        for v in P.oracle(case, io):
            k = P.known(case, io, v, findings) if hasattr(P, "known") else None
            if k:
                res["known"].setdefault(k, []).append((case, io, v))
            else:
                res["violations"].append((case, io, v))
        if model_ok:
            mo = model.get(cid)
            if hasattr(P, "accepts"):
                agree = mo is not None and P.accepts(case, norm_i(case, io), norm_m(case, mo))
            else:
                agree = mo is not None and norm_i(case, io) == norm_m(case, mo)
            if not agree:
                kd = P.known_disagreement(case, io, mo, findings) if hasattr(P, "known_disagreement") else None
                if kd:
                    res["known"].setdefault(kd, []).append((case, io, "model/impl differ as recorded"))
                else:
                    res["disagree"].append((case, io, mo))
        key = P.nontrivial(case, io)
        if key is not None:
            res["nontrivial"].add(key)
    return res


def main():
    if len(sys.argv) < 3:
        print(__doc__)
        sys.exit(2)
    pid = sys.argv[1].upper()
    tier = sys.argv[2]
    replay = None
    if "--replay" in sys.argv:
        replay = sys.argv[sys.argv.index("--replay") + 1]
    tier = os.environ.get("VERIF_TIER", tier)
    seed = int(os.environ.get("VERIF_SEED", "1"))
    t0 = time.time()
    P = load_plugin(pid)
    os.makedirs(os.path.join(C.BUILD, pid), exist_ok=True)
    findings = C.load_known_findings(pid)
    notes = []

    with C.BuildLock():
        # 1. translator
        tie_ok = True
        try:
            import translate
            changed = translate.run()
            if changed:
                notes.append("Gen/Tables.v regenerated (content changed)")
            import translate_tables
            for sec, err in translate.FAILED.items():
                if pid in translate_tables.SECTION_USERS.get(sec, []):
                    # the constants of the last successful regeneration stay in the model; whether they still describe
                    # the code is decided by the correspondence run below (model vs implementation on every case)
                    notes.append("translator: section '%s' could not be regenerated (%s); its last regenerated values are "
                                 "validated by the correspondence run only" % (sec, err))
            for name, what in translate_tables.UNLOCATED:
                notes.append("translator: the form behind flag %s (%s) was neither recognised nor contradicted; the value of the last "
                             "regeneration is kept and that form is validated by the correspondence run only" % (name, what))
        except Exception as e:  # a table that can no longer be located is a broken tie
            tie_ok = False
            notes.append("translator failed: %r" % (e,))
        # 2. Coq: proofs of the property
        proof_ok, coq_log = C.coq_build(P.COQ_PROOF_TARGETS, timeout=1200 if tier == "quick" else 3600)
        failing_theorem = None
        if not proof_ok:
            failing_theorem = C_extract_coq_error(coq_log)
            notes.append("Coq proof build failed: " + failing_theorem)
        # model + extraction (must build even when a proof is broken)
        model_ok, mlog = C.coq_build(P.COQ_MODEL_TARGETS, timeout=900)
        if not model_ok:
            notes.append("Coq model/extraction build failed: " + C_extract_coq_error(mlog))
        theorems = C.props_theorems(pid)
        assumptions = {}
        audit_ok = True
        if proof_ok:
            assumptions, alog = C.coq_assumptions(pid, theorems)
            if assumptions is None:
                audit_ok = False
                assumptions = {}
                notes.append("Print Assumptions run failed: " + alog[-500:])
            else:
                for t in theorems:
                    a = assumptions.get(t)
                    if a != "closed" and not (isinstance(a, list) and a and set(a) <= C.ALLOWED_AXIOMS):
                        audit_ok = False
                        notes.append("theorem %s depends on %r" % (t, a))
        hits = C.coq_grep_audit()
        if hits:
            audit_ok = False
            notes.append("forbidden constructs: " + "; ".join(hits[:5]))
        if tier == "thorough" and proof_ok and os.environ.get("VERIF_SKIP_COQCHK") != "1":
            rc, out = C.sh(["coqchk", "-silent", "-o", "-Q", C.COQ, "EZK", "EZK.Props." + pid], cwd=C.COQ, timeout=3000)
            coqchk = out[-1500:]
            if rc != 0:
                audit_ok = False
                notes.append("coqchk failed")
        else:
            coqchk = None
        # 3. driver + harness
        if model_ok:
            model_ok, dlog = C.build_driver(pid, getattr(P, 'GEN', None))
            if not model_ok:
                notes.append("driver build failed: " + dlog[-800:])
        harness_ok, hlog = C.build_harness(release=False)
        if not harness_ok:
            notes.append("harness build failed: " + hlog[-1500:])
        release_ok = False
        if tier == "thorough" and getattr(P, "RELEASE_TOO", False) and harness_ok:
            release_ok, rlog = C.build_harness(release=True)

    discharged = [t for t in theorems if proof_ok and assumptions.get(t) == "closed"]

    if not harness_ok:
        # cannot observe the implementation at all
        replay_path = C.write_replay(pid, seed, {"property": pid, "kind": "harness-build-failed", "log": hlog[-3000:], "notes": notes})
        finish(pid, tier, seed, t0, P, theorems, [], {"n": 0, "nontrivial": set(), "known": {}, "disagree": [], "violations": []},
               notes, 1, coqchk, [])
        print("VIOLATION property=%s replay=%s no-failing-input-found" % (pid, replay_path))
        sys.exit(1)

    # 4. cases
    rng = random.Random(seed)
    if replay:
        data = json.load(open(replay))
        cases = data.get("cases") or ([data["case"]] if "case" in data else [])
    else:
        cases = load_corpus(pid) + P.gen_cases(rng, tier)
    # unique ids
    seen = {}
    uniq = []
    for c in cases:
        if c[0] in seen:
            if seen[c[0]] == c[1:]:
                continue
            # two different cases under one id (a generator slip): keep both, the later one under a suffixed id
            k = 2
            while "%s~d%d" % (c[0], k) in seen:
                k += 1
            c = ["%s~d%d" % (c[0], k)] + list(c[1:])
        seen[c[0]] = c[1:]
        uniq.append(c)
    cases = uniq
    impl, model, raw = run_cases(P, pid, cases, "main", model_ok=model_ok)
    res = evaluate(P, cases, impl, model, findings, model_ok)
    if tier == "thorough" and release_ok:
        impl_r, _, _ = run_cases(P, pid, cases, "release", release=True, model_ok=False)
        res_r = evaluate(P, cases, impl_r, {}, findings, False)
        for v in res_r["violations"]:
            res["violations"].append((v[0], v[1], "[release build] " + v[2]))
        for k, v in res_r["known"].items():
            res["known"].setdefault(k, []).extend(v)
        notes.append("release-profile run: %d cases" % res_r["n"])

    if replay:
        for c in cases:
            print("case   :", "\t".join(c))
            print("impl   :", impl.get(c[0]))
            print("model  :", model.get(c[0]))
            print("oracle :", P.oracle(c, impl.get(c[0], "")))

    for k, hits_ in sorted(res["known"].items()):
        f = [x for x in findings if x["id"] == k][0]
        print("KNOWN-FINDING: property=%s %s [%s; %d case(s) this run, e.g. %s]" % (pid, f["what"], k, len(hits_), hits_[0][0][0]))

    verdict = 0
    replay_path = None
    tail = ""
    if res["violations"]:
        case, io, why = shrink_violation(P, pid, res["violations"][0], findings)
        replay_path = C.write_replay(pid, seed, {"property": pid, "kind": "oracle-violation", "why": why, "case": case,
                                                 "impl": io, "model": model.get(case[0]), "seed": seed, "tier": tier,
                                                 "replay_cmd": "bin/check %s quick --replay <this file>" % pid})
        verdict = 1
    elif not (proof_ok and audit_ok and tie_ok and model_ok) or res["disagree"]:
        # a proof obligation or the correspondence is broken: search for a concrete failing input
        found = None
        search_cases = [d[0] for d in res["disagree"]]
        if hasattr(P, "search_cases"):
            search_cases += P.search_cases(random.Random(seed + 7919), tier, res["disagree"])
        else:
            for extra in range(3):
                search_cases += P.gen_cases(random.Random(seed * 1000 + extra + 1), tier)
        seen2 = set()
        sc = []
        for c in search_cases:
            if c[0] not in seen2:
                seen2.add(c[0])
                sc.append(c)
        if sc:
            impl2, model2, _ = run_cases(P, pid, sc, "search", model_ok=False)
            res2 = evaluate(P, sc, impl2, {}, findings, False)
            if res2["violations"]:
                found = shrink_violation(P, pid, res2["violations"][0], findings)
            res["n"] += res2["n"]
        what = []
        if not proof_ok:
            what.append("theorem/proof: " + (failing_theorem or "?"))
        if not audit_ok:
            what.append("assumption/grep audit")
        if not tie_ok:
            what.append("translator (tables)")
        if not model_ok:
            what.append("model/extraction build")
        if res["disagree"]:
            what.append("correspondence model<->implementation (%d cases)" % len(res["disagree"]))
        if found:
            case, io, why = found
            replay_path = C.write_replay(pid, seed, {"property": pid, "kind": "oracle-violation-after-broken-tie", "broken": what,
                                                     "why": why, "case": case, "impl": io, "seed": seed})
        else:
            d = res["disagree"][0] if res["disagree"] else None
            replay_path = C.write_replay(pid, seed, {"property": pid, "kind": "no-failing-input-found", "no_longer_checks": what,
                                                     "first_disagreement": {"case": d[0], "impl": d[1], "model": d[2]} if d else None,
                                                     "cases": [d[0]] if d else [], "notes": notes, "seed": seed})
            tail = " no-failing-input-found"
        verdict = 1

    finish(pid, tier, seed, t0, P, theorems, discharged, res, notes, verdict, coqchk, cases, impl, model)
    if verdict:
        print("VIOLATION property=%s replay=%s%s" % (pid, replay_path, tail))
    else:
        stale = os.path.join(C.VERIF, "replays", "%s_seed%s.json" % (pid, seed))
        if os.path.exists(stale) and not replay:
            os.remove(stale)
        print("OK property=%s tier=%s cases=%d theorems=%d/%d wall=%.1fs" % (pid, tier, res["n"], len(discharged), len(theorems), time.time() - t0))
    sys.exit(verdict)


def shrink_violation(P, pid, viol, findings):
    """delta-debug the failing case if the plugin knows how to split it"""
    case, io, why = viol
    if not hasattr(P, "shrink_candidates"):
        return viol
    budget = 60
    cur = (case, io, why)
    improved = True
    while improved and budget > 0:
        improved = False
        cands = P.shrink_candidates(cur[0])[:40]
        if not cands:
            break
        budget -= 1
        for i, c in enumerate(cands):
            c[0] = "%s~s%d" % (case[0].split("~")[0], i)
        path = os.path.join(C.BUILD, pid, "cases_shrink.tsv")
        C.write_cases(path, cands)
        _, impl, _ = C.run_harness(pid, path, timeout=600)
        for c in cands:
            io2 = impl.get(c[0])
            if io2 is None:
                continue
            vs = [v for v in P.oracle(c, io2) if not (hasattr(P, "known") and P.known(c, io2, v, findings))]
            if vs:
                cur = (c, io2, vs[0])
                improved = True
                break
    return cur


def C_extract_coq_error(logtext):
    lines = logtext.strip().split("\n")
    for i, l in enumerate(lines):
        if l.startswith("File "):
            return " ".join(x.strip() for x in lines[i:i + 6])[:600]
    return " ".join(lines[-4:])[:600]


def finish(pid, tier, seed, t0, P, theorems, discharged, res, notes, verdict, coqchk, cases, impl=None, model=None):
    impl = impl or {}
    model = model or {}
    samples = []
    for c in cases[:400]:
        if len(samples) >= 5:
            break
        if c[0] in impl and (P.nontrivial(c, impl[c[0]]) is not None):
            samples.append({"case": c, "impl": impl[c[0]][:600], "model": (model.get(c[0]) or "")[:600]})
    if not samples and cases:
        samples.append({"case": cases[0], "impl": impl.get(cases[0][0])})
    if not samples:
        samples.append({"note": "no case was run (build failure)"})
    ev = {
        "property_id": pid,
        "tier": tier if tier in ("quick", "thorough") else "quick",
        "seed": seed,
        "level": "proof",
        "wall_s": round(time.time() - t0, 2),
        "violations": 1 if verdict else 0,
        "coverage": {
            "obligations": max(1, len(theorems)),
            "discharged": len(discharged),
            "theorems": theorems,
            "theorems_discharged": discharged,
            "checker_cmd": "make -C coq %s (coqc 8.16.1, full .vo) + Print Assumptions per theorem + forbidden-construct grep%s"
                           % (" ".join(P.COQ_PROOF_TARGETS), "; coqchk -o -silent" if coqchk else ""),
            "trusted_base": P.TRUSTED,
            "evaluations": res["n"],
            "distinct_nontrivial": len(res["nontrivial"]),
            "programs": res["n"],
            "disagreements_checked": res["n"],
            "disagreements_found": len(res["disagree"]),
            "known_findings_hit": {k: len(v) for k, v in res["known"].items()},
            "rule": P.RULE,
            "samples": samples,
            "exhaustive": False,
            "partial_or_refuted": getattr(P, "PARTIAL", []),
            "notes": notes,
            "distribution": P.distribution(cases, impl) if hasattr(P, "distribution") else {},
        },
        "assumptions": P.ASSUMPTIONS,
    }
    if coqchk:
        ev["coverage"]["coqchk_tail"] = coqchk
    C.write_evidence(pid, ev)


if __name__ == "__main__":
    main()
