#!/bin/sh
# tools/confirm_seed.sh <worktree> <id> <property> <demo-cmd...>  -- confirm a seeded change in its scratch worktree and file it
wt="$1"; id="$2"; prop="$3"; shift 3
cd "$wt" || exit 2
export CARGO_NET_OFFLINE=true RUST_BACKTRACE=0
git diff -- crates > /tmp/seed_$id.diff
[ -s /tmp/seed_$id.diff ] || cp patch.diff /tmp/seed_$id.diff
git checkout -- crates
echo "== demo WITHOUT change"; (cd demo && sh -c "$*") > /tmp/seed_${id}_without.log 2>&1; rc0=$?; tail -3 /tmp/seed_${id}_without.log
git apply /tmp/seed_$id.diff
echo "== suite WITH change"; cargo test --workspace --no-fail-fast --offline 2>&1 | grep -E "^test result" | awk '{s+=$4; f+=$6} END {print s, f}'
echo "== demo WITH change"; (cd demo && sh -c "$*") > /tmp/seed_${id}_with.log 2>&1; rc1=$?; tail -5 /tmp/seed_${id}_with.log
echo "rc without=$rc0 with=$rc1"
mkdir -p /verif/seeded/$id
cp /tmp/seed_$id.diff /verif/seeded/$id/patch.diff
rm -rf /verif/seeded/$id/demo; mkdir -p /verif/seeded/$id/demo
(cd demo && tar cf - --exclude=target --exclude=Cargo.lock . ) | (cd /verif/seeded/$id/demo && tar xf -)
