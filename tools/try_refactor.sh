#!/bin/sh
# tools/try_refactor.sh <patch> <Cxx...>: apply a behaviour-preserving change, run quick checks (expected: OK), undo
patch="$(readlink -f "$1")"; shift
cd /repo || exit 2
git apply "$patch" || { echo "patch does not apply"; exit 2; }
for p in "$@"; do
  (cd /verif && bin/check "$p" quick 2>&1 | grep -v KNOWN-FINDING | tail -1)
done
cd /repo && git checkout -- . && git clean -fdq -- crates && git status --short | head -3
