"""C11 -- requests built inside a dialog follow RFC 3261 sec. 12.2.1.1."""
import re

ID = "C11"
COQ_PROOF_TARGETS = ["Props/C11.vo"]
COQ_MODEL_TARGETS = ["Extract/ExC11.vo"]
CLAIM_TEXT = ("Theorems (coq/Props/C11.v, no axioms) over the model of Dialog::new_server / ClientDialogBuilder::create_dialog_from_response / "
              "Dialog::create_request / create_response / invite::create_ack: dialog identifiers of every created request on both sides "
              "(Call-ID, From/To URIs and tags correctly swapped, Request-URI = peer Contact, Max-Forwards, Route = Record-Route in order for "
              "the UAS and reversed for the UAC), consecutive hence strictly increasing CSeq over any creation sequence below 2^32 (and so "
              "under any interleaving of the single atomic increment), first UAC CSeq above the INVITE's, ACK re-using the given number, "
              "To-tag on every response above 100 with Contact for 101-299 and the Record-Route copy. Correspondence: INVITE/2xx pairs "
              "with 0..4 Record-Route entries on both roles and sequences of creations (also from concurrent tasks) run against the real "
              "sip-ua crate and the extracted model.")
CLAIM_NOTE = ("Trusted: Coq kernel; hand-written model Model/C11.v validated by differential runs; URIs/name-addrs are opaque strings in the model "
              "(their text form is C01's subject), the harness compares ezk's own rendering of each component. The ACK for a 2xx is built "
              "by a private function reached only through a session refresh: refresh scenarios put it on the wire and its number is compared with the re-INVITE's.")
TRUSTED = [
    "Coq 8.16.1 kernel; no axioms",
    "hand-written model coq/Model/C11.v of sip-ua/src/dialog/{mod,client_builder}.rs, validated by the correspondence run",
    "extraction (ExtrOcamlBasic only) + ocaml/util.ml + ocaml/c11_driver.ml",
    "Rust harness harness/src/c11.rs (public API of sip-ua; hooks not needed)",
]
ASSUMPTIONS = [
    "AtomicU32::fetch_add is atomic: concurrent creators are a sequence of increments (the theorem assumes it; the harness exercises it with real OS threads, which is a test, not a proof)",
    "the random local tag and initial CSeq of a UAS dialog are inputs (the harness overwrites the counter through the public field)",
]
RULE = ("roles {UAS, UAC} x 0..4 Record-Route entries x tags/Call-IDs/Contacts (with port and URI parameters) x INVITE CSeq and counter "
        "start values incl. 0 and values near 2^31 x operation sequences of create_request (BYE, INVITE, INFO, PRACK, UPDATE, ACK), "
        "concurrent creation from 2..6 tasks and, on the UAS side, create_response for codes 100..699; non-trivial = at least two "
        "requests created or one response above 100; distinct = distinct case text")
PARTIAL = []

URIS = ["sip:peer@example.org", "sip:bob@biloxi.example.com", "sips:carol@chicago.example.com"]
CONTACTS = ["sip:peer@10.9.9.9", "sip:peer@10.9.9.9:5070;transport=udp", "sip:bob@[2001:db8::9]:5062", "sips:carol@h.example.com;x=1"]
RRS = ["sip:p1.example.org;lr", "sip:p2.example.org:5080;lr", "sip:p3.example.org;lr;x=7", "sips:p4.example.org;lr"]
METHODS = ["BYE", "INVITE", "INFO", "PRACK", "UPDATE", "ACK", "REFER"]


def gen_cases(rng, tier):
    cases = []
    n = 200 if tier == "quick" else 5000
    for i in range(n):
        role = "S" if i % 2 == 0 else "C"
        k = rng.randrange(0, 5)
        rr = [rng.choice(RRS) for _ in range(k)]
        icseq = rng.choice([0, 1, 77, 2 ** 31 - 2, rng.randrange(0, 2 ** 31)])
        c0 = rng.choice([0, 1, 1000, 2 ** 31 - 3, rng.randrange(0, 2 ** 31)])
        ops = []
        for _ in range(rng.randrange(1, 8)):
            r = rng.random()
            if r < 0.08 and role == "C":
                ops.append("P:%d" % rng.randrange(1, 4))       # the PRACK for a later 1xx that names another Contact
            elif r < 0.6:
                ops.append("Q:" + rng.choice(METHODS))
            elif r < 0.75:
                ops.append("J:%d" % rng.randrange(2, 7))
            elif r < 0.78 and c0 < 2 ** 31 - 10 ** 6 and icseq < 2 ** 31 - 10 ** 6:
                ops.append("T:%d:%d" % (rng.choice([4, 8]), 20000))
            elif role == "S":
                ops.append("R:%d" % rng.choice([100, 101, 180, 183, 199, 200, 202, 299, 300, 302, 404, 485, 486, 603]))
            else:
                ops.append("Q:" + rng.choice(METHODS))
        cases.append(["d%d" % i, "c11", role, "cid%d" % i, "sip:me@example.org", "lt%d" % i, rng.choice(URIS), "pt%d" % i,
                      rng.choice(CONTACTS), " ".join(rr), str(icseq), str(c0), ",".join(ops)])
    for j, ops in enumerate(("P:1", "Q:INFO,P:2,P:3,Q:BYE", "P:1,J:3,P:1")):
        cases.append(["dp%d" % j, "c11", "C", "cidp%d" % j, "sip:me@example.org", "ltp%d" % j, URIS[j % len(URIS)], "ptp%d" % j, CONTACTS[j % len(CONTACTS)], RRS[0], "77", "1000", ops])
    # the responses the invite usage / acceptor generates for the dialog-creating INVITE on every path (accept, reject, CANCEL,
    # BYE on the early dialog, reliable provisionals): each one above 100 must carry the dialog's local tag
    import importlib
    P12 = importlib.import_module("props.c12")
    src = [c for c in P12.gen_cases(rng.__class__(rng.randrange(1 << 30)), "quick") if c[2] == "uas" and c[6] in ("race", "rel1xx")]
    if tier == "quick":
        src = [c for k, c in enumerate(src) if k % 4 == 0 or ":bye" in c[4] or ":prov" in c[4]][:80]
    for k, c in enumerate(src):
        cases.append(["ua%d" % k, "c11", "ua", c[2], c[3], c[4], c[5]])
    # the caller's side through the Initiator: dialogs created by a 2xx directly and early dialogs confirmed by a 2xx, with Record-Route
    # lists of one to three entries in every line layout; a request created inside the new dialog is probed
    P13 = importlib.import_module("props.c13")
    src = [c for c in P13.gen_cases(rng.__class__(rng.randrange(1 << 30)), "quick") if c[2] == "uac" and not c[0].startswith("nc")
           and re.search(r"resp:2\d\d:\w+:[0-9a-f]*%s" % "Record-Route".encode().hex(), c[4])]
    early = [c for c in src if re.search(r"resp:1[1-9]\d:(\w+):.*resp:2\d\d:\1:", c[4])]
    direct = [c for c in src if c not in early]
    pick = early[:40] + direct[:20] if tier == "quick" else src
    # forks: several dialogs out of one INVITE, each addresses its own peer (To-tag, Contact, route set of its own response)
    forks = [P13._case("fk%d" % j, h, rng) for j, h in enumerate((["180:a", "200:b"], ["200:a", "200:b"], ["183:a", "180:b", "200:b", "200:a"], ["180:b", "180:a", "200:a", "200:b", "200:c"]))]
    for k, c in enumerate(pick + forks):
        cases.append(["uc%d" % k, "c11", "ua", c[2], c[3] + ";probe", c[4], c[5]])
    # the ACK for the 2xx of a session refresh (the only ACK the library builds inside a dialog): it carries the re-INVITE's number,
    # also when the application created other requests in the dialog between the re-INVITE and its answer
    k = 0
    for se in (90, 40):
        for n_between in (0, 1, 3):
            ex = ("Contact: <sip:peer-a@10.9.9.9:5070;transport=udp>\r\nSupported: timer\r\nRequire: timer\r\nSession-Expires: %d;refresher=uac\r\n" % se).encode().hex()
            t = (se - 10) * 1000 + 1000
            steps = ["0:invite", "1000:resp:200:a:" + ex]
            tt = t + 1000
            for _ in range(n_between):
                steps.append("%d:between" % tt); tt += 500
            steps += ["%d:resp2" % tt, "%d:wait" % (tt + 5000)]
            cases.append(["ur%d" % k, "c11", "ua", "uac", "se=1800;refresh=do;between", ",".join(steps), "1"]); k += 1
    # callee side: requests created in the dialog go to the Contact of the INVITE - a Contact in the ACK (optional, legal) is not a target
    # refresh (RFC 3261 12.2: only a re-INVITE moves the remote target)
    for j, ack_extra in enumerate(("", "Contact: <sip:peer@10.9.9.9>\r\n", "Contact: \"Alice (desk)\" <sip:alice-desk@caller.example.org;transport=tcp>;+sip.ice\r\n",
                                   "Contact: <sip:other@10.9.9.77:5090>\r\nSupported: timer\r\n")):
        cases.append(["ucal%d" % j, "c11", "ua", "uas", "probe", "0:inv,100:accept,300:ack::%s,5000:wait" % ack_extra.encode().hex(), "1"])
    # several refresh rounds in one session: every round's ACK carries the number of that round's re-INVITE (the peer answers whatever
    # request is the newest every 4 s; an answer to a request already answered only makes the same ACK go out again)
    for se, horizon in ((90, 260000), (40, 130000)):
        ex = ("Contact: <sip:peer-a@10.9.9.9:5070;transport=udp>\r\nSupported: timer\r\nRequire: timer\r\nSession-Expires: %d;refresher=uac\r\n" % se).encode().hex()
        steps = ["0:invite", "1000:resp:200:a:" + ex]
        for t in range((se - 10) * 1000 + 2500, horizon, 4000):
            if (t // 4000) % 5 == 0:
                steps.append("%d:between" % (t - 300))
            steps.append("%d:resp2" % t)
        steps.append("%d:wait" % (horizon + 3000))
        cases.append(["urm%d" % k, "c11", "ua", "uac", "se=1800;refresh=do;between", ",".join(steps), "1"]); k += 1
    return cases


_TRIVIAL = None


def model_case(case, impl):
    if case[2] == "ua":
        return [case[0], "c11", "S", "cid", "sip:me@example.org", "lt", URIS[0], "pt", CONTACTS[0], "", "1", "1", ""]
    if "P:" in case[12]:
        # a PRACK is a request created in the dialog like any other
        import re
        return case[:12] + [re.sub(r"P:\d+", "Q:PRACK", case[12])]
    return case


def accepts(case, impl, model):
    if case[2] == "ua":
        return True
    return impl == model


def _ua_oracle(case, impl):
    if "PANIC" in impl:
        return ["panic: " + impl[-300:]]
    impl = impl.replace("|branch=invite1|", "|branch=z9hG4bKinvite1|")      # a legacy caller's INVITE branch (setup lbranch)
    tags = []
    for m in re.finditer(r"W:SIP/2\.0_(\d+)_[^|]*\|cseq=\d+_INVITE\|branch=z9hG4bKinvite1\|totag=([^|]*)\|", impl):
        if int(m.group(1)) > 100:
            tags.append((int(m.group(1)), m.group(2)))
    for code, t in tags:
        if t in ("-", ""):
            return ["the %d response to the dialog-creating INVITE carries no To-tag (script %s)" % (code, case[5])]
    if len(set(t for _, t in tags)) > 1:
        return ["responses to the dialog-creating INVITE carry different To-tags: %r" % sorted(set(tags))]
    # the ACK of a refresh: the number of the re-INVITE it acknowledges
    if case[0].startswith("ur"):
        reinv = [m.group(1) for m in re.finditer(r"W:INVITE_\S*?\|cseq=(\d+)_INVITE\|", impl)]
        acks = [m.group(1) for m in re.finditer(r"W:ACK_\S*?\|cseq=(\d+)_ACK\|", impl)]
        if len(set(reinv)) < 2:
            return ["the refresh re-INVITE did not go out (INVITE numbers on the wire: %r)" % sorted(set(reinv))]
        if not acks:
            return ["no ACK for the 2xx of the refresh re-INVITE on the wire"]
        last_inv, n_rounds = None, 0
        for m in re.finditer(r"W:(INVITE|ACK)_\S*?\|cseq=(\d+)_(?:INVITE|ACK)\|", impl):
            if m.group(1) == "INVITE":
                if m.group(2) != last_inv:
                    n_rounds += 1
                last_inv = m.group(2)
            elif m.group(2) != last_inv:
                return ["the ACK for the 2xx of refresh re-INVITE number %d carries CSeq %s, that re-INVITE had %s" % (n_rounds - 1, m.group(2), last_inv)]
        if case[0].startswith("urm") and n_rounds < 4 and len(case[5]) > 600:
            return ["%d INVITE numbers on the wire over the whole session, at least three refresh rounds expected" % n_rounds]
    # caller side: the request created inside the new dialog goes to the Contact of the peer's response along the reversed Record-Route
    for m in re.finditer(r"probe:(\w+):uri=([^/]*)/route=(\S*?)/totag=(\S*?)@\d+", impl):
        tag, uri, route, totag = m.groups()
        if tag == "uas":
            # callee side: remote target = the Contact of the INVITE, remote tag = its From-tag, no Record-Route in these scenarios
            if uri != "sip:peer@10.9.9.9" or totag != "ptag" or route != "":
                return ["a request created in the callee's dialog goes to %r (To-tag %r, Route %r); the remote target is the Contact of the INVITE, "
                        "sip:peer@10.9.9.9, the remote tag its From-tag" % (uri, totag, route)]
            continue
        if totag != tag:
            return ["a request created in the caller's dialog with %s carries To-tag %r: the remote tag of a dialog is the To-tag of the response that created it" % (tag, totag)]
        ok = set()
        for st in [x for x in case[5].split(",") if x]:
            a = st.split(":")
            if len(a) >= 5 and a[1] == "resp" and a[3] == tag and int(a[2]) > 100:
                extra = bytes.fromhex(a[4]).decode("utf-8", "replace") if a[4] else ""
                rr = []
                for line in extra.split("\r\n"):
                    if line.lower().startswith("record-route:"):
                        rr += [x.strip().strip("<>") for x in line.split(":", 1)[1].split(",")]
                ok.add("+".join(reversed(rr)))
        if ok and route not in ok:
            return ["a request created in the caller's dialog with %s carries Route %r, not the reversed Record-Route of the peer's response (%r)" % (tag, route, sorted(ok))]
        if "peer-%s@" % tag not in uri:
            return ["a request created in the caller's dialog with %s goes to %s, not to the Contact of the peer's response" % (tag, uri)]
    return []


def oracle(case, impl):
    if case[2] == "ua":
        return _ua_oracle(case, impl)
    return _oracle_dialog(case, impl)


def _oracle_dialog(case, impl):
    """RFC 3261 12.1.1 / 12.1.2 / 12.2.1.1 reference dialog computed here from the INVITE/2xx pair"""
    if "PANIC" in impl:
        return ["panic: " + impl[:300]]
    role, callid, local_uri, local_tag, peer_uri, peer_tag, contact = case[2:9]
    rr = [r for r in case[9].split(" ") if r]
    icseq, c0 = int(case[10]), int(case[11])
    ops = [o for o in case[12].split(",") if o]
    outs = impl.split(";Q ")  # not used; parse sequentially below
    obs = re.split(r";(?=[QJRT] )", impl)
    if len(obs) != len(ops):
        return ["malformed observation: %d outcomes for %d operations" % (len(obs), len(ops))]
    lt = "LT" if role == "S" else local_tag
    route = rr if role == "S" else list(reversed(rr))
    nxt = c0 if role == "S" else icseq + 1
    last = None if role == "S" else icseq
    for op, o in zip(ops, obs):
        kind, _, arg = op.partition(":")
        if kind == "P":
            kind, arg = "Q", "PRACK"
        if kind == "Q":
            want = "Q m=%s uri=%s from=%s|%s to=%s|%s cid=%s cseq=%d %s mf=70 route=%s" % (
                arg, contact, local_uri, lt, peer_uri, peer_tag, callid, nxt, arg, ",".join(route))
            if o != want:
                return ["created request differs from the RFC 3261 12.2.1.1 reference:\n  got  %s\n  want %s" % (o, want)]
            if last is not None and not nxt > last:
                return ["CSeq %d not greater than the previous %d" % (nxt, last)]
            last = nxt
            nxt += 1
        elif kind == "J":
            n = int(arg)
            want = "J " + ",".join(str(nxt + j) for j in range(n))
            if o != want:
                return ["concurrently created CSeq numbers %s, expected %s" % (o, want)]
            last = nxt + n - 1
            nxt += n
        elif kind == "T":
            th, it = [int(x) for x in arg.split(":")]
            n = th * it
            want = "T min=%d max=%d n=%d distinct=%d increasing=true" % (nxt, nxt + n - 1, n, n)
            if o != want:
                return ["requests created from %d threads: %s, expected %s (CSeq must be unique and strictly increasing)" % (th, o, want)]
            last = nxt + n - 1
            nxt += n
        elif kind == "R":
            code = int(arg)
            totag = "LT" if code > 100 else "-"
            m = re.match(r"R code=(\d+) totag=(\S+) contact=(\S+) rr=(.*)$", o)
            if not m:
                return ["unparsable response observation " + o]
            if m.group(2) != totag:
                return ["response %d carries To-tag %s, the property requires %s" % (code, m.group(2), totag)]
            if 101 <= code <= 299 and m.group(3) != "sip:me@10.0.0.1":
                return ["response %d carries no Contact" % code]
            if m.group(4) != ",".join(rr):
                return ["response %d Record-Route %r, request had %r" % (code, m.group(4), rr)]
    return []


def nontrivial(case, impl):
    if case[2] == "ua":
        return case[5] if "W:SIP/2.0_" in impl else None
    ops = [o for o in case[12].split(",") if o]
    if len(ops) >= 2 or any(o.startswith("R:") and int(o[2:]) > 100 for o in ops):
        return "\t".join(case[2:])
    return None


def distribution(cases, impl):
    import collections
    h = collections.Counter()
    for c in cases:
        if c[2] == "ua":
            h["user-agent scenario"] += 1
            continue
        h["role=%s rr=%d" % (c[2], len([r for r in c[9].split(" ") if r]))] += 1
    return dict(h)
