"""C06 -- server transactions deliver the final response reliably."""
import re

ID = "C06"
GEN = "tsx"
COQ_PROOF_TARGETS = ["Props/C06.vo"]
COQ_MODEL_TARGETS = ["Extract/ExTsx.vo"]
CLAIM_TEXT = ("Theorems (coq/Props/C06.v, no axioms) over the timed model of server.rs / server_inv.rs: the final response is sent at the "
              "call instant; non-INVITE: one re-send per request retransmission inside 64*T1, nothing after; INVITE 3xx-6xx: timer G at "
              "T1 doubling capped at T2, ends exactly once with Ok at the ACK or TimedOut at 64*T1, nothing sent after the ACK; reliable "
              "transports never retransmit; the loop terminates. Correspondence: the extracted model and the real ServerTsx / "
              "ServerInvTsx (mock transport, paused tokio clock) on the same timed histories of retransmissions and ACKs.")
CLAIM_NOTE = ("Trusted: Coq kernel; translator regexes for T1/T2/64; hand-written model Model/Tsx.v (server part) validated by differential "
              "runs; tokio paused clock; exact ties excluded. 2xx to INVITE (retransmitted by the TU) is covered under C12, not here.")
TRUSTED = [
    "Coq 8.16.1 kernel; no axioms",
    "tools/translate.py (T1, T2, 64)",
    "hand-written timed model coq/Model/Tsx.v (server part) of server.rs / server_inv.rs, validated by the correspondence run",
    "extraction (ExtrOcamlBasic only) + ocaml/util.ml + ocaml/c06_driver.ml",
    "Rust harness harness/src/tsx_server.rs (mock transport, take-everything layer, paused clock, H2)",
]
ASSUMPTIONS = [
    "the application calls respond / respond_failure once, at t0",
    "exact coincidences of an arrival with a timer are excluded from the generated grid",
    "request retransmissions only occur on unreliable transports",
]
RULE = ("kinds {non-INVITE, INVITE failure} x {unreliable, reliable} x final classes x call instants x histories of request "
        "retransmissions and ACKs at instants b-1, b+1, midpoints for every boundary b (timer G instants, 64*T1), incl. none; "
        "provisional responses before the final; non-trivial = at least one retransmission/ACK arrives inside the window or the "
        "silent schedule runs to the timeout; distinct = distinct case text")
PARTIAL = []

T1, T2, TO = 500, 4000, 32000
G_SENDS = [0, 500, 1500, 3500, 7500, 11500, 15500, 19500, 23500, 27500, 31500]


def grid():
    b = sorted(set(G_SENDS + [TO]))
    g = set()
    for x in b:
        if x > 0:
            g.add(x - 1)
        g.add(x + 1)
    for x, y in zip(b, b[1:]):
        g.add((x + y) // 2)
    return sorted(g - set(b))


def _case(cid, kind, rel, code, t0, evs, provs=(), branch=""):
    # de-tie: events relative to t0 must not coincide with timer instants
    forb = set(t0 + x for x in G_SENDS + [TO])
    out = []
    prev = t0
    for (t, k) in evs:
        t = max(t, prev + 1)
        while t in forb:
            t += 1
        out.append((t, k))
        prev = t
    last = max([e[0] for e in out] + [t0])
    horizon = max(last, t0 + TO) + 40000
    # branch: "" = RFC 3261 magic cookie, "legacy" = RFC 2543 style branch, "none" = no branch parameter (17.2.3 matching)
    return [cid, "c06", kind, str(rel), str(code), str(t0), ",".join("%d:%s" % e for e in out), str(horizon),
            ",".join(str(p) for p in provs), branch]


def gen_cases(rng, tier):
    cases = []
    n = 0
    G = grid()
    for kind in ("ni", "inv"):
        codes = [200, 404, 603] if kind == "ni" else [302, 486, 500, 603]
        for rel in (0, 1):
            for t0 in (0, 137):
                for code in codes[: (len(codes) if tier == "thorough" else 2)]:
                    cases.append(_case("sil%d" % n, kind, rel, code, t0, [])); n += 1
                    cases.append(_case("prov%d" % n, kind, rel, code, t0 + 40, [], provs=(5, 20))); n += 1
                    if rel == 0:
                        pts = G if tier == "thorough" else G[::4]
                        for g in pts:
                            cases.append(_case("r1-%d" % n, kind, rel, code, t0, [(t0 + g, "R")])); n += 1
                            if kind == "inv":
                                cases.append(_case("a1-%d" % n, kind, rel, code, t0, [(t0 + g, "A")])); n += 1
                                cases.append(_case("ra-%d" % n, kind, rel, code, t0, [(t0 + g // 2 + 1, "R"), (t0 + g + 2, "A")])); n += 1
                        cases.append(_case("late%d" % n, kind, rel, code, t0, [(t0 + 100, "R"), (t0 + TO + 1, "R")])); n += 1
                    elif kind == "inv":
                        for g in (1, 499, 501, 31999, 32001):
                            cases.append(_case("ar-%d" % n, kind, rel, code, t0, [(t0 + g, "A")])); n += 1
    # peers that do not use the magic cookie: retransmissions and the ACK still belong to the transaction
    for br in ("legacy", "none"):
        for kind, code in (("ni", 200), ("inv", 486)):
            for rel in (0, 1):
                for t0 in (0, 137):
                    evs = [(t0 + 700, "R"), (t0 + 1200, "A" if kind == "inv" else "R")] if rel == 0 else ([(t0 + 1200, "A")] if kind == "inv" else [])
                    cases.append(_case("br%d" % n, kind, rel, code, t0, evs, branch=br)); n += 1
    # a re-send the transport refuses (a transient send error) is one lost response: the transaction goes on absorbing the
    # retransmissions and answering them until 64*T1
    for t0 in (0, 137):
        for code in (200, 404):
            for evs in ([(t0 + 500, "X"), (t0 + 1500, "R"), (t0 + 3500, "R")], [(t0 + 100, "R"), (t0 + 600, "X"), (t0 + 700, "X"), (t0 + 20000, "R")],
                        [(t0 + 31000, "X"), (t0 + 31900, "R"), (t0 + 32100, "R")], [(t0 + 1, "X")]):
                cases.append(_case("xs%d" % n, "ni", 0, code, t0, evs)); n += 1
    # the application answers late: the retransmissions that queued up meanwhile (timer E of the client: 0.5, 1.5, 3.5, 7.5, then every
    # 4 s) are answered when the response is there, one copy each, and none of them is shown to the application again
    E_SCHED = [500, 1500, 3500, 7500, 11500, 15500, 19500, 23500, 27500, 31500]
    for t0 in (2000, 12000, 24000, 28000, 31900):
        for code in (200, 404):
            pre = [(t, "R") for t in E_SCHED if t < t0]
            post = [(t0 + 700, "R"), (t0 + 31000, "R")]
            evs = pre + post
            horizon = t0 + TO + 40000
            cases.append(["late%d" % n, "c06", "ni", "0", str(code), str(t0), ",".join("%d:%s" % e for e in evs), str(horizon), "", ""]); n += 1
    # over a reliable transport a second copy of a request may still arrive (a peer that re-sends after a reconnect, a duplicating proxy):
    # waiting when the application answers or coming later, it is not answered again - the response is sent once
    for t0 in (2, 2000, 12000):
        for code in (200, 404):
            for evs in ([(1, "R")], [(1, "R"), (t0 // 2 + 1, "R")], [(t0 + 700, "R")], [(1, "R"), (t0 + 5, "R")]):
                evs = sorted(set((max(1, t), k) for (t, k) in evs if t != t0))
                cases.append(["laterel%d" % n, "c06", "ni", "1", str(code), str(t0), ",".join("%d:%s" % e for e in evs), str(t0 + TO + 40000), "", ""]); n += 1
    # the same for an INVITE that is answered late (timer A of the client: 0.5, 1.5, 3.5, 7.5, ...): a provisional response given meanwhile
    # goes out once per call however many copies of the INVITE are waiting, and the final answers each waiting copy once
    A_SCHED = [500, 1500, 3500, 7500, 15500]
    for t0 in (1000, 2600, 9000, 20000):
        for provs in ((), (t0 - 400,), (200, t0 - 400), (t0 - 900, t0 - 400)):
            provs = tuple(p for p in provs if p > 0)
            for code in (486, 603):
                for ack in (None, t0 + 300):
                    pre = [(t, "R") for t in A_SCHED if t < t0]
                    post = [(t0 + 120, "R")] + ([(ack, "A")] if ack else [])
                    cases.append(["lateinv%d" % n, "c06", "inv", "0", str(code), str(t0), ",".join("%d:%s" % e for e in pre + post), str(t0 + TO + 40000),
                                  ",".join(str(p) for p in provs), ""]); n += 1
    nrand = 120 if tier == "quick" else 3000
    for i in range(nrand):
        kind = rng.choice(["ni", "inv"])
        rel = 0 if rng.random() < 0.8 else 1
        t0 = rng.randrange(0, 3000)
        k = rng.randrange(0, 6)
        ts = sorted(set(t0 + rng.choice(G + [rng.randrange(1, 40000)]) for _ in range(k)))
        evs = [(t, "R") for t in ts]
        if kind == "inv" and evs and rng.random() < 0.6:
            evs[-1] = (evs[-1][0], "A")
        if rel:
            evs = [e for e in evs if e[1] == "A"]
        cases.append(_case("x%d" % i, kind, rel, rng.choice([404, 486, 600]) if kind == "inv" else rng.choice([200, 481]), t0, evs,
                           branch=rng.choice(["", "", "", "legacy", "none"])))
    return cases


def _toks(impl):
    evs = []
    tsx = None
    for t in impl.split("\t")[0].split():
        if t.startswith("tsx="):
            tsx = int(t[4:])
            continue
        m = re.match(r"([A-Za-z!?]+)@(\d+)(?::(.*))?$", t)
        if not m:
            return None, None
        evs.append((m.group(1), int(m.group(2)), m.group(3)))
    return evs, tsx


def accepts(case, impl, model):
    if case[0].startswith("late"):
        return True      # retransmissions queued before the answer are outside the timed model: decided by the oracle
    return impl == model


def model_case(case, impl):
    # the model sees a refused re-send as a retransmission like any other; its transmission is taken out again in normalize_model
    return case[:6] + [case[6].replace(":X", ":R")] + case[7:]


def normalize_model(case, s):
    refused = set(int(x.split(":")[0]) for x in case[6].split(",") if x.endswith(":X"))
    return " ".join(t for t in s.strip().split() if not (t.startswith("S@") and int(t[2:]) in refused))


def normalize_impl(case, s):
    evs, _ = _toks(s)
    if evs is None:
        return s
    return " ".join("%s@%d" % (e[0], e[1]) for e in evs if e[0] in ("S", "S!", "D", "T", "E"))


def oracle(case, impl):
    """expected instants from the property text: call instant; one per request retransmission; timer G partial sums
    capped at T2; nothing after the ACK or after 64*T1; all transmissions byte-identical"""
    if "PANIC" in impl:
        return ["panic: " + impl[:300]]
    evs, tsx = _toks(impl)
    if evs is None:
        return ["unparsable observation " + impl[:200]]
    kind, rel, t0 = case[2], case[3] == "1", int(case[5])
    inj = [(int(x.split(":")[0]), x.split(":")[1]) for x in case[6].split(",") if x]
    provs = [int(p) for p in case[8].split(",") if p] if len(case) > 8 else []
    horizon = int(case[7])
    if any(e[0].startswith("S!") for e in evs):
        return ["a retransmitted response is not byte-identical to the first transmission"]
    if any("?dest" in e[0] for e in evs):
        return ["response sent to a different destination than the request source"]
    if any(e[0] == "E" for e in evs):
        return ["error result: " + impl[:200]]
    sends = [e[1] for e in evs if e[0] == "S"]
    ps = [e[1] for e in evs if e[0] == "P"]
    if ps != provs:
        return ["provisional responses on the wire at %r, one per call expected at %r" % (ps, provs)]
    res = [(e[0], e[1]) for e in evs if e[0] in ("D", "T")]
    layer = [(e[1], e[2]) for e in evs if e[0] == "L"]
    if kind == "ni":
        queued = [t for (t, k) in inj if k == "R" and t < t0]        # retransmissions that arrived before the application answered
        exp = [t0] * (1 + (0 if rel else len(queued))) + ([] if rel else [t for (t, k) in inj if k == "R" and t0 < t < t0 + TO])
        if sends != exp:
            return ["non-INVITE: response transmissions at %r, expected %r" % (sends, exp)]
        if res != [("D", t0)]:
            return ["non-INVITE: respond() results %r, expected Ok at %d" % (res, t0)]
        # the first request after the window starts a new transaction (the harness layer takes and keeps it, unanswered);
        # what follows are retransmissions of that one and are absorbed by it
        late = [t for (t, k) in inj if k in ("R", "X") and t > t0 + TO][:1]
        if not rel and [t for (t, m) in layer] != late:
            return ["requests surfaced to the layers at %r, expected %r: the first one after the 64*T1 window starts a new transaction" % (layer, late)]
        end = t0 + (0 if rel else TO)
    else:
        ack = next((t for (t, k) in inj if k == "A" and t < t0 + TO), None)
        stop = ack if ack is not None else t0 + TO
        exp = [t0]
        if not rel:
            exp += [t0 for (t, k) in inj if k == "R" and t < t0]       # copies of the INVITE that waited for the answer: one each
            exp += [t0 + g for g in G_SENDS[1:] if t0 + g < stop]
            exp += [t for (t, k) in inj if k == "R" and t0 < t < stop]
        exp.sort()
        if sends != exp:
            return ["INVITE failure: response transmissions at %r, expected %r (ack=%r)" % (sends, exp, ack)]
        want = [("D", ack)] if ack is not None else [("T", t0 + TO)]
        if res != want:
            return ["INVITE failure: respond_failure results %r, expected %r" % (res, want)]
        if ack is not None and any(t == ack for (t, m) in layer):
            return ["the ACK for the non-2xx final was handed to the layers"]
        end = stop
    if tsx is not None and horizon > end + 1:
        held = len([1 for (t, m) in layer])   # surfaced requests are kept (with their registration) by the harness layer
        if tsx != held:
            return ["transaction entries at the horizon: %d, expected %d" % (tsx, held)]
    return []


def nontrivial(case, impl):
    t0 = int(case[5])
    inj = [(int(x.split(":")[0]), x.split(":")[1]) for x in case[6].split(",") if x]
    if not inj or any(t < t0 + TO for (t, _) in inj):
        return "\t".join(case[2:])
    return None


def distribution(cases, impl):
    import collections
    h = collections.Counter()
    for c in cases:
        h["%s/%s/%d events" % (c[2], "rel" if c[3] == "1" else "unrel", len([x for x in c[6].split(",") if x]))] += 1
    return dict(h)
