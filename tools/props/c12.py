"""C12 -- UAS INVITE: one final response under any CANCEL/BYE/accept race; 2xx until ACK."""
import re

ID = "C12"
COQ_PROOF_TARGETS = ["Props/C12.vo"]
COQ_MODEL_TARGETS = ["Extract/ExC12.vo"]
HARNESS_TIMEOUT = 3000
CLAIM_TEXT = ("Theorems (coq/Props/C12.v, no axioms): over the token machine of the invite state (every interleaving of CANCEL, BYE, accept, "
              "reject, provisional responses and drops is a sequence of sections serialised by the state mutex) at most one final response to "
              "the INVITE is ever sent and exactly one once the pending transaction has been taken; a matching CANCEL or a BYE on the pending "
              "INVITE gets its own 200 and the INVITE 487, after which accept and reject report termination; a CANCEL that no longer matches "
              "gets 200 or 481 and changes nothing; the 2xx is re-sent at T1 doubling up to T2 and abandoned at 64*T1, a reliable provisional "
              "response at T1 doubling for 64*T1, nothing is re-sent after the ACK / PRACK, and only the PRACK with the matching RAck "
              "completes the rendezvous (a malformed one leaves it intact). Correspondence: scripted races and ACK / PRACK arrival instants "
              "around every retransmission edge through the real Acceptor / InviteLayer / DialogLayer under the paused clock.")
CLAIM_NOTE = ("Trusted: Coq kernel; translator (T1, T2, 64); hand-written model Model/C12.v validated by differential runs; fairness (FIFO hand-off) of "
              "the tokio mutex and cancellation safety of dropped futures are assumed; an application that drops the Acceptor without answering "
              "sends no final response (C16 covers the cleanup). The moment the pending-cancel entry disappears (return of respond_success / "
              "respond_failure) is an input to the model (event `gone`), computed from the script.")
TRUSTED = [
    "Coq 8.16.1 kernel; no axioms",
    "tools/translate.py (T1, T2, 64)",
    "hand-written model coq/Model/C12.v of invite/{mod,acceptor,prack}.rs, validated by the correspondence run",
    "extraction (ExtrOcamlBasic only) + ocaml/util.ml + ocaml/c12_driver.ml",
    "Rust harness harness/src/ua.rs (Acceptor / InviteLayer / DialogLayer through the public API, mock transport, paused clock)",
]
ASSUMPTIONS = [
    "critical sections guarded by the async state mutex are atomic and taken in arrival order",
    "exact ties of ACK / PRACK arrival with a retransmission timer are excluded from the generated instants",
]
RULE = ("races: all orders of up to 4 events from {matching CANCEL, non-matching CANCEL, BYE, accept (+ACK), reject (+ACK), provisional} after the "
        "INVITE, with the later events placed before or after completion of accept/reject; schedules: ACK / matching PRACK at b-1, b+1 and "
        "midpoints for every retransmission instant b and none at all; PRACK variants (wrong RSeq, wrong CSeq, malformed, missing RAck) "
        "before the matching one; non-trivial = a final response is sent; distinct = distinct script")
PARTIAL = []

G2 = [0, 500, 1500, 3500, 7500, 11500, 15500, 19500, 23500, 27500, 31500]
G1 = [0, 500, 1500, 3500, 7500, 15500, 31500]


def hx(s):
    return s.encode().hex()


def grid(b):
    g = set()
    for x in b + [32000]:
        if x > 0:
            g.add(x - 1)
        g.add(x + 1)
    for x, y in zip(b, b[1:]):
        g.add((x + y) // 2)
    return sorted(g - set(b) - {32000})


def gen_cases(rng, tier):
    import itertools
    cases = []
    n = 0
    # ---- 2xx schedule
    pts = grid(G2) if tier == "thorough" else grid(G2)[::3]
    for a in pts + [None]:
        t0 = 1000
        script = "0:inv,%d:accept" % t0 + (",%d:ack" % (t0 + a) if a is not None else "") + ",%d:wait" % (t0 + 40000)
        cases.append(["x%d" % n, "c12", "uas", "-", script, "1", "ok2xx", str(t0), "-" if a is None else str(t0 + a)]); n += 1
    # the ACK arrives while the caller of respond_success is still inside the send of the 2xx (the bytes are out, the flush has not
    # returned): it is the awaited ACK, nothing is retransmitted
    for linger, a in ((300, 100), (300, 299), (700, 400), (50, 10)):
        cases.append(["x%d" % n, "c12", "uas", "linger2xx=%d" % linger, "0:inv,1000:accept,%d:ack,41000:wait" % (1000 + a), "1", "ok2xx", "1000", str(1000 + a)]); n += 1
    # ACK with a wrong CSeq is not the awaited one
    cases.append(["x%d" % n, "c12", "uas", "-", "0:inv,1000:accept,1700:ack:999,3000:ack,50000:wait", "1", "ok2xx", "1000", "3000"]); n += 1
    # ... nor one with a lower number (the dialog layer lets an ACK below the expected CSeq through to the usage: a late copy of the ACK of
    # an earlier INVITE): the 2xx goes on being retransmitted until the ACK with the INVITE's number is there, or 64*T1 are over
    for stray in (313, 1, 0):
        cases.append(["x%d" % n, "c12", "uas", "-", "0:inv,1000:accept,1100:ack:%d,1200:ack,50000:wait" % stray, "1", "ok2xx", "1000", "1200"]); n += 1
        cases.append(["x%d" % n, "c12", "uas", "-", "0:inv,1000:accept,1700:ack:%d,2100:ack:%d,5000:ack,50000:wait" % (stray, stray), "1", "ok2xx", "1000", "5000"]); n += 1
        cases.append(["x%d" % n, "c12", "uas", "-", "0:inv,1000:accept,1700:ack:%d,50000:wait" % stray, "1", "ok2xx", "1000", "-"]); n += 1
    # the 2xx is the application's to retransmit whatever the transport is (RFC 3261 13.3.1.4): over a reliable transport the same schedule
    for a in (None, 600, 7000, 31000):
        cases.append(["x%d" % n, "c12", "uas", "tcp", "0:inv,1000:accept" + (",%d:ack" % (1000 + a) if a is not None else "") + ",41000:wait", "1", "ok2xx", "1000",
                      "-" if a is None else str(1000 + a)]); n += 1
    # a caller whose branch has no magic cookie: its ACK is matched onto the INVITE's server transaction (RFC 3261 17.2.3) and still
    # reaches the usage - the 2xx stops being retransmitted
    for a in (600, 7000, None):
        cases.append(["x%d" % n, "c12", "uas", "lbranch", "0:inv,1000:accept" + (",%d:ack" % (1000 + a) if a is not None else "") + ",41000:wait", "1", "ok2xx", "1000",
                      "-" if a is None else str(1000 + a)]); n += 1
    # ---- reliable provisional schedule
    rel = hx("Supported: 100rel\r\n")
    pts = grid(G1) if tier == "thorough" else grid(G1)[::2]
    for a in pts + [None]:
        t0 = 1000
        script = "0:inv:%s,%d:provrel:183" % (rel, t0) + (",%d:prack" % (t0 + a) if a is not None else "") + ",%d:wait" % (t0 + 40000)
        cases.append(["p%d" % n, "c12", "uas", "-", script, "1", "rel1xx", str(t0), "-" if a is None else str(t0 + a)]); n += 1
    for variant in ("wrong", "wrongcseq", "bad", "none"):
        script = "0:inv:%s,1000:provrel:183,1200:prack:%s,1300:prack:%s,2200:prack,50000:wait" % (rel, variant, variant)
        cases.append(["pv%d" % n, "c12", "uas", "-", script, "1", "rel1xx", "1000", "2200"]); n += 1
    # a CANCEL (or BYE) that arrives while the application waits for the PRACK of a reliable provisional response - the acceptor holds the
    # state all that time, the INVITE is still pending: the CANCEL wins as at any other moment before the final response
    for first in ("cancel", "bye"):
        for tail in (",1200:prack", ",1400:prack,2000:accept", ",1200:prack,2000:reject:486"):       # (without a PRACK the acceptor keeps the state for 64*T1 and the CANCEL is handled after that)
            script = "0:inv:%s,1000:provrel:183,1100:%s%s,60000:wait" % (rel, first, tail)
            model = first + (",accept" if "accept" in tail else ",reject:486" if "reject" in tail else "")
            cases.append(["rp%d" % n, "c12", "uas", "-", script, "1", "race", model]); n += 1
    # ---- races
    evs = ["cancel", "cancelx", "bye", "accept", "reject:486", "prov"]
    seqs = []
    for L in (1, 2, 3):
        for s in itertools.permutations(evs, L):
            if sum(1 for e in s if e in ("accept",) or e.startswith("reject")) > 1:
                continue
            seqs.append(list(s))
    if tier == "thorough":
        for s in itertools.permutations(evs, 4):
            if sum(1 for e in s if e in ("accept",) or e.startswith("reject")) <= 1:
                seqs.append(list(s))
    else:
        seqs = seqs[::2] + [["accept", "cancel"], ["cancel", "accept"], ["bye", "accept"], ["accept", "bye"], ["reject:603", "cancel"], ["prov", "cancel", "reject:486"],
                            ["accept", "cancel", "bye"], ["accept", "cancelx", "bye"], ["prov", "accept", "cancel", "bye"]]
    for s in seqs:
        for late in (False, True):
            acts = ["0:inv"]
            model = []
            t = 1000
            pending_done = None
            for e in s:
                if pending_done is not None and late:
                    t = max(t, pending_done + 1000)
                    model.append("gone"); pending_done = None
                if e == "accept":
                    acts.append("%d:accept" % t)
                    model.append("accept")
                    # completes with the ACK (sent 300 ms later when `late`, else 5 s later so that the next events fall inside the wait)
                    ack_t = t + (300 if late else 5000)
                    acts.append("%d:ack" % ack_t)
                    pending_done = ack_t
                elif e.startswith("reject"):
                    acts.append("%d:%s" % (t, e))
                    model.append(e)
                    ack_t = t + (300 if late else 5000)
                    acts.append("%d:ackf" % ack_t)
                    pending_done = ack_t
                elif e == "cancelx":
                    acts.append("%d:cancel:x" % t); model.append("cancelx")
                else:
                    acts.append("%d:%s%s" % (t, e, ":180" if e == "prov" else "")); model.append(e)
                t += 1000
            acts.sort(key=lambda a: int(a.split(":")[0]))
            acts.append("%d:wait" % (t + 45000))
            cases.append(["r%d" % n, "c12", "uas", "-", ",".join(acts), "1", "race", ",".join(model)]); n += 1
            # the same race with a caller whose Via branch has no magic cookie (RFC 2543 matching): every fifth one
            if n % 5 == 0 and any(e.startswith("cancel") for e in s):
                cases.append(["r%d" % n, "c12", "uas", "lbranch", ",".join(acts), "1", "race", ",".join(model)]); n += 1
    # "after which accept and reject report termination": also for a final response the application built while the INVITE was still
    # pending (create_response before the CANCEL / BYE, respond_failure / respond_success after it)
    for s, code in ((["cancel", "reject:486"], 486), (["bye", "reject:486"], 486), (["cancel", "accept"], 200), (["bye", "accept"], 200),
                    (["prov", "cancel", "reject:603"], 603), (["cancelx", "cancel", "reject:486"], 486), (["reject:486"], 486), (["accept"], 200)):
        acts = ["0:inv", "400:prep:%d" % code]
        t = 1000
        for e in s:
            if e == "accept":
                acts += ["%d:accept" % t, "%d:ack" % (t + 300)]
            elif e.startswith("reject"):
                acts += ["%d:%s" % (t, e), "%d:ackf" % (t + 300)]
            elif e == "cancelx":
                acts.append("%d:cancel:x" % t)
            else:
                acts.append("%d:%s%s" % (t, e, ":180" if e == "prov" else ""))
            t += 1000
        acts.append("%d:wait" % (t + 45000))
        cases.append(["rb%d" % n, "c12", "uas", "-", ",".join(acts), "1", "race", ",".join(s)]); n += 1
    return cases


def model_case(case, impl):
    kind = case[6]
    if kind == "race":
        # `gone` is only inserted by the generator when later events come after completion; when an accept / reject
        # finds the token already taken it returns at once
        return [case[0], "c12", "race", case[7]]
    return [case[0], "c12", kind, case[7], case[8]]


def _linger(case):
    m = re.search(r"linger2xx=(\d+)", case[3])
    return int(m.group(1)) if m else 0


def _events(impl):
    # a legacy caller's INVITE branch is given the name the rules below use for it
    impl = impl.replace("|branch=invite1|", "|branch=z9hG4bKinvite1|")
    evs = []
    for tok in impl.split("\t")[0].split():
        m = re.match(r"(.*)@(\d+)$", tok)
        if m:
            evs.append((m.group(1), int(m.group(2))))
    return evs


def normalize_impl(case, s):
    evs = _events(s)
    kind = case[6]
    if kind == "ok2xx":
        out = []
        for n, t in evs:
            if n.startswith("W:SIP/2.0_200_OK") and "cseq=314_INVITE" in n:
                out.append("S@%d" % t)
            elif n == "accept-result:ok" and _linger(case) and t == int(case[7]) + _linger(case) and case[8] != "-" and int(case[8]) < t:
                out.append("D@%s" % case[8])       # respond_success can only return when its send has returned: the ACK came before that
            elif n == "accept-result:ok":
                out.append("D@%d" % t)
            elif n.startswith("accept-result:") and "TimedOut" in n:
                out.append("T@%d" % t)
        return " ".join(out)
    if kind == "rel1xx":
        out = []
        for n, t in evs:
            if n.startswith("W:SIP/2.0_183") and "rseq=-" not in n:
                out.append("S@%d" % t)
            elif n == "provrel-result:ok":
                out.append("D@%d" % t)
            elif n.startswith("provrel-result:"):
                out.append("T@%d" % t)
        return " ".join(out)
    # race: canonical summary
    finals, cancel, bye, acc, rej, prov = [], [], [], [], [], []
    seen_final = set()
    for n, t in evs:
        m = re.match(r"W:SIP/2.0_(\d+)_[^|]*\|cseq=(\d+)_(\w+)\|branch=([^|]*)\|", n)
        if m:
            code, cseq, meth, branch = int(m.group(1)), m.group(2), m.group(3), m.group(4)
            if meth == "INVITE" and code >= 200:
                if code not in seen_final:      # retransmissions of the same final are one response
                    seen_final.add(code); finals.append(str(code))
            elif meth == "CANCEL":
                key = ("c", branch)
                if key not in seen_final:
                    seen_final.add(key)
                    # a matching CANCEL that finds the INVITE no longer pending may get 200 or 481 (it depends on
                    # whether the acceptor has already returned); a non-matching one must get 481
                    if branch == "z9hG4bKinvite1":
                        cancel.append("m:ok" if code in (200, 481) else "m:%d" % code)
                    else:
                        cancel.append(str(code))
            elif meth == "BYE":
                key = ("b", branch)
                if key not in seen_final:
                    seen_final.add(key); bye.append(str(code))
        elif n == "bye-received:uas":
            bye.append("S")
        elif n.startswith("accept-result:"):
            acc.append("ok" if n.endswith(":ok") else "term")
        elif n.startswith("reject-result:"):
            rej.append("ok" if n.endswith(":ok") else "term")
        elif n.startswith("prov-result:"):
            prov.append("ok" if n.endswith(":ok") else "term")
    # a BYE handed to the session is answered 200 by the application: keep the hand-over marker only
    if "S" in bye:
        bye = ["S"]
    # whether the dialog still exists when a BYE finds the invite already finished depends on when the
    # handler that took the transaction returned: 404 (no usage wants it) and 481 (no dialog) are both allowed
    bye = ["4xx" if b in ("404", "481") else b for b in bye]
    cancel.sort()    # answers to different CANCELs may be sent in any order (one may wait for the state lock)
    return "final=%s|cancel=%s|bye=%s|accept=%s|reject=%s|prov=%s" % (",".join(finals), ",".join(cancel), ",".join(bye), ",".join(acc), ",".join(rej), ",".join(prov))


def normalize_model(case, s):
    s = s.strip()
    if case[6] == "race":
        kinds = [e for e in case[7].split(",") if e in ("cancel", "cancelx")]

        def canon(m):
            codes = [x for x in m.group(1).split(",") if x]
            out = []
            for k, c in zip(kinds, codes):
                out.append(("m:ok" if c in ("200", "481") else "m:" + c) if k == "cancel" else c)
            return "cancel=" + ",".join(sorted(out))
        s = re.sub(r"cancel=([^|]*)", canon, s)
        s = re.sub(r"bye=([^|]*)", lambda m: "bye=" + ",".join("4xx" if b in ("404", "481") else b for b in m.group(1).split(",")), s)
    return s


def oracle(case, impl):
    if "PANIC" in impl:
        return ["panic: " + impl[-300:]]
    evs = _events(impl)
    kind = case[6]
    finals = {}
    for n, t in evs:
        m = re.match(r"W:SIP/2.0_(\d+)_[^|]*\|cseq=(\d+)_(\w+)\|branch=([^|]*)\|", n)
        if m and m.group(3) == "INVITE" and int(m.group(1)) >= 200 and m.group(2) == "314":
            finals.setdefault(int(m.group(1)), []).append(t)
    if len(finals) > 1:
        return ["more than one final response to the INVITE: %r" % sorted(finals)]
    # answers to CANCEL / BYE carry their own Via branch and CSeq
    for n, t in evs:
        m = re.match(r"W:SIP/2.0_(\d+)_[^|]*\|cseq=(\d+)_(\w+)\|branch=([^|]*)\|", n)
        if m and m.group(3) == "BYE" and not m.group(4).startswith("z9hG4bKbye"):
            return ["the answer to the BYE carries the branch %s (not the BYE's)" % m.group(4)]
        if m and m.group(3) == "INVITE" and m.group(4).startswith("z9hG4bKbye"):
            return ["a response with the INVITE's CSeq was sent on the BYE's branch"]
    for n, t in evs:
        m = re.match(r"W:SIP/2.0_(\d+)_[^|]*\|cseq=(\d+)_CANCEL\|branch=(z9hG4bKother[^|]*)\|", n)
        if m and m.group(1) != "481":
            return ["a CANCEL that matches no pending INVITE was answered %s instead of 481" % m.group(1)]
    if kind == "race":
        # "a CANCEL or BYE that matches the pending INVITE is itself answered 200 ... a CANCEL that no longer matches gets 200 or 481":
        # every CANCEL / BYE of the script is answered, once, with its own CSeq method
        for meth, word in (("BYE", "bye"), ("CANCEL", "cancel")):
            sent = sum(1 for e in case[7].split(",") if e == word or (word == "cancel" and e == "cancelx"))
            got = [n for n, _ in evs if re.match(r"W:SIP/2.0_[2-6]\d\d_[^|]*\|cseq=\d+_%s\|" % meth, n)]
            if len(got) != sent:
                return ["%d %s request(s) arrived, %d final response(s) with CSeq method %s were sent (events: %s)" % (sent, meth, len(got), meth, case[7])]
        # an established session only ends through a BYE (the session timer lies far beyond every script)
        names = [n for n, _ in evs]
        if "accept-result:ok" in names and "terminated:uas" in names and "bye" not in case[7].split(","):
            return ["the established session was terminated although no BYE arrived (events: %s)" % case[7]]
        if "accept-result:ok" in names and "bye" in case[7].split(",") and case[7].split(",").index("bye") > case[7].split(",").index("accept"):
            if "bye-received:uas" not in names:
                return ["a BYE for the established session was not handed to it (events: %s)" % case[7]]
        # a matching CANCEL / BYE that arrives first must win: 487 for the INVITE, 200 for itself
        first = case[7].split(",")[0]
        if first in ("cancel", "bye") and sorted(finals) != [487]:
            return ["%s arrived while the INVITE was pending but the INVITE was answered %r" % (first, sorted(finals))]
        # "... after which accept and reject report termination"
        if first in ("cancel", "bye") and sorted(finals) == [487]:
            for word in ("accept", "reject"):
                if any(n == word + "-result:ok" for n, _ in evs):
                    return ["the %s that matched the pending INVITE was answered and the INVITE got its 487, yet the later %s reported success (events: %s)" % (first.upper(), word, case[7])]
    if kind == "ok2xx":
        t0 = int(case[7]); ack = None if case[8] == "-" else int(case[8])
        if ack is not None and ack >= t0 + 32000:
            ack = None          # too late: the session has been given up
        stop = ack if ack is not None else t0 + 32000
        exp = [t0 + g for g in G2 if t0 + g < stop]
        got = finals.get(200, [])
        if got != exp:
            return ["2xx transmissions at %r, expected %r (ACK at %r)" % (got, exp, ack)]
        res = [(n, t) for n, t in evs if n.startswith("accept-result")]
        done = None if ack is None else max(ack, t0 + _linger(case))      # not before the send of the 2xx has returned
        if ack is not None and res != [("accept-result:ok", done)]:
            return ["respond_success result %r, expected ok at %d" % (res, done)]
        if ack is None and not (len(res) == 1 and "TimedOut" in res[0][0] and res[0][1] == t0 + 32000):
            return ["respond_success result %r, expected a timeout at %d" % (res, t0 + 32000)]
    if kind == "rel1xx":
        t0 = int(case[7]); pr = None if case[8] == "-" else int(case[8])
        if pr is not None and pr >= t0 + 32000:
            pr = None
        stop = pr if pr is not None else t0 + 32000
        exp = [t0 + g for g in G1 if t0 + g < stop]
        got = [t for n, t in evs if n.startswith("W:SIP/2.0_183") and "rseq=-" not in n]
        if got != exp:
            return ["reliable provisional transmissions at %r, expected %r (PRACK at %r)" % (got, exp, pr)]
        ok200 = [t for n, t in evs if n.startswith("W:SIP/2.0_200") and "_PRACK|" in n]
        if pr is not None and ok200[:1] != [pr]:
            return ["the matching PRACK was not answered 200 at %d: %r" % (pr, ok200)]
        if pr is not None and any(t < pr for t in ok200):
            return ["a non-matching PRACK was answered 200"]
    return []


def nontrivial(case, impl):
    return "\t".join(case[4:]) if "W:SIP/2.0_" in impl else None
