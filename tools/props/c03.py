"""C03 -- stream framing is independent of how TCP/TLS segments the bytes."""
import itertools
import re

ID = "C03"
COQ_PROOF_TARGETS = ["Props/C03.vo"]
COQ_MODEL_TARGETS = ["Extract/ExC03.vo"]
CLAIM_TEXT = ("Theorems (coq/Props/C03.v, no axioms) over the byte-level model of PullParser, StreamingDecoder::decode and the FramedRead loop: "
              "C03_main: a stream of well-formed messages (head <= 4096, a start line the start-line parser accepts, UTF-8 head lines) and CR/LF keep-alives is framed into exactly those messages for EVERY list of chunks that concatenates to it (induction over chunks; invariant: the saved offset and Content-Length are a sound summary of the buffer); C03_segmentation_independent; plus totality, extension stability, C03_resume, exact header-name matching. Correspondence: message sequences (header order, "
              "spelling, folding, bodies with CRLFCRLF and header-like text, sizes at the limits) with keep-alive CRLFs, cut at every 1-cut "
              "and 2-cut position for the small corpus, dribbled byte by byte and cut at random, run through the real StreamingDecoder behind "
              "tokio-util's FramedRead and through the extracted model (frame boundaries, errors); the oracle compares every stream frame "
              "(start line, header values, body) with the datagram parse of the same message.")
CLAIM_NOTE = ("Trusted: Coq kernel; hand-written model Model/C03.v validated by differential runs; MessageLine::parse is abstracted by a predicate "
              "(instantiated with `accept` for the generated well-formed start lines); tokio-util FramedRead semantics as modelled in run_chunks; "
              "TCP/TLS themselves are outside.")
TRUSTED = [
    "Coq 8.16.1 kernel; no axioms",
    "hand-written model coq/Model/C03.v of msg.rs::PullParser, streaming/decode.rs, parse.rs framing; Lib/{Num,Utf8}.v",
    "extraction (ExtrOcamlBasic only) + ocaml/util.ml + ocaml/c03_driver.ml",
    "Rust harness harness/src/c03.rs (hook H1: StreamingDecoder / parse_complete re-exports; scripted AsyncRead; tokio-util FramedRead)",
]
ASSUMPTIONS = [
    "FramedRead calls decode after every read until it returns None, decode_eof at end of stream (tokio-util 0.7)",
    "start lines of generated messages are accepted by MessageLine::parse",
]
RULE = ("corpus of message sequences x keep-alive placements x segmentations: every 1-cut and every 2-cut position for sequences up to "
        "~220 bytes (exhaustive for that sub-space), 1-byte dribble, seeded random k-cuts for longer ones (bodies up to 65535, heads near "
        "4096); non-trivial = at least one message is framed; distinct = distinct chunk lists")
PARTIAL = []

CRLF = "\r\n"


def msg(start, headers, body=b"", cl_style="Content-Length", cl_pos=None, nl=CRLF, cl_value=None):
    """build a message; the Content-Length header is placed at cl_pos among the headers"""
    hs = list(headers)
    clv = str(len(body)) if cl_value is None else cl_value
    clh = "%s%s" % (cl_style, clv) if cl_style.endswith(":") or cl_style.endswith(": ") else "%s: %s" % (cl_style, clv)
    pos = len(hs) if cl_pos is None else cl_pos
    hs.insert(pos, clh)
    head = nl.join([start] + hs) + nl + nl
    return head.encode("utf-8") + body


BASE_H = ["Via: SIP/2.0/TCP 10.9.9.9:5060;branch=z9hG4bKabc", "From: <sip:a@example.org>;tag=f", "To: <sip:b@example.org>",
          "Call-ID: x@y", "CSeq: 1 OPTIONS", "Max-Forwards: 70"]


def corpus(rng):
    ms = []
    req = "OPTIONS sip:b@example.org SIP/2.0"
    resp = "SIP/2.0 200 OK"
    ms.append(msg(req, BASE_H))
    ms.append(msg(resp, BASE_H[:5], b"hello"))
    ms.append(msg(req, BASE_H, b"v=0\r\n\r\no=- 1 1 IN IP4 1.2.3.4\r\nContent-Length: 99\r\n\r\n", cl_pos=0))
    ms.append(msg(req, BASE_H, b"body", cl_style="l", cl_pos=2))
    ms.append(msg(req, BASE_H, b"body12", cl_style="CONTENT-LENGTH", cl_pos=1))
    ms.append(msg(req, BASE_H, b"xy", cl_style="content-length ", cl_pos=3))
    ms.append(msg(req, BASE_H, b"xyz", cl_style="L", cl_pos=0))
    ms.append(msg(req, BASE_H + ["Language: 7", "l-custom: 3", "Label: 5"], b"abc", cl_pos=2))
    ms.append(msg(req, BASE_H + ["Subject: folded\r\n value: 9\r\n\tmore"], b"12345", cl_pos=1))
    ms.append(msg(req, BASE_H, b"0123456789", cl_value=" +10 ", cl_pos=4))
    ms.append(msg(req, BASE_H, b"nl", nl="\n", cl_pos=2))
    ms.append(msg(req, ["Via: SIP/2.0/TCP h;branch=z9hG4bK1", "From: <sip:ä@example.org>;tag=f", "To: <sip:b@example.org>", "Call-ID: 中", "CSeq: 2 OPTIONS"], "körper".encode()))
    ms.append(msg(resp, BASE_H[:5], b"\r\n\r\n\r\n", cl_pos=0))
    ms.append(msg(req, BASE_H, b"", cl_pos=0))
    return ms


def spellings():
    """every legal spelling of the Content-Length line: long / compact name in any case, optional blanks before the
    colon (HCOLON = *( SP / HTAB ) ":" SWS), optional blanks after it and after the number"""
    out = []
    req = "MESSAGE sip:b@example.org SIP/2.0"
    body = b"hello\r\n\r\nl: 3\r\nworld"
    for name in ("Content-Length", "content-length", "CONTENT-LENGTH", "CoNtEnT-lEnGtH", "l", "L"):
        for pre in ("", " ", "\t", " \t "):
            for post in ("", " ", "  \t"):
                for tail in ("", " "):
                    line = "%s%s:%s%d%s" % (name, pre, post, len(body), tail)
                    hs = list(BASE_H)
                    hs.insert(2, line)
                    out.append((req + CRLF + CRLF.join(hs) + CRLF + CRLF).encode() + body)
    # 1*DIGIT: leading zeros are a legal spelling of the number (fixed-width writers), whatever their count
    for name, pre in (("Content-Length", " "), ("l", ""), ("CONTENT-LENGTH", "\r\n ")):
        for width in (2, 5, 6, 8, 10, 20, 40):
            line = "%s:%s%s" % (name, pre, str(len(body)).rjust(width, "0"))
            hs = list(BASE_H)
            hs.insert(2, line)
            out.append((req + CRLF + CRLF.join(hs) + CRLF + CRLF).encode() + body)
    # SWS may contain a line fold: the value on a continuation line (blank or tab), before and after the number
    for name in ("Content-Length", "l", "CONTENT-LENGTH"):
        for post in ("\r\n ", "\r\n\t", " \r\n  ", "\r\n \t "):
            for tail in ("", " ", "\r\n "):
                line = "%s:%s%d%s" % (name, post, len(body), tail)
                for pos in (2, len(BASE_H)):
                    hs = list(BASE_H)
                    hs.insert(pos, line)
                    out.append((req + CRLF + CRLF.join(hs) + CRLF + CRLF).encode() + body)
    return out


def cuts_to_chunks(data, cuts):
    out = []
    prev = 0
    for c in sorted(set(cuts)):
        if 0 < c < len(data):
            out.append(data[prev:c]); prev = c
    out.append(data[prev:])
    return [c for c in out if c]


def _case(cid, stream, cuts, msgs):
    chunks = cuts_to_chunks(stream, cuts)
    return [cid, "c03", "|".join(c.hex() for c in chunks), "|".join(m.hex() for m in msgs)]


def gen_cases(rng, tier):
    cases = []
    ms = corpus(rng)
    n = 0
    # single messages: every 1-cut; pairs of short messages with keep-alives: sampled 2-cuts (all in thorough)
    for m in ms:
        for c in range(1, len(m)):
            if tier == "thorough" or c % 3 == 0 or c > len(m) - 12:
                cases.append(_case("c1-%d" % n, m, [c], [m])); n += 1
        cases.append(_case("drib-%d" % n, m, list(range(1, len(m))), [m])); n += 1
    short = sorted(ms, key=len)[:5]
    kas = [b"", b"\r\n", b"\r\n\r\n", b"\r\n" * 3, b"\r\n" * 4, b"\r\n" * 7]     # pongs and pings queue up
    for i, a in enumerate(short):
        for b in short[:3]:
            for ka in kas:
                stream = ka + a + ka + b + (b"\r\n" if ka else b"")
                if tier == "thorough" and len(stream) <= 420 and i < 2:
                    for c1, c2 in itertools.combinations(range(1, len(stream)), 2):
                        if (c1 * 31 + c2) % 7 == 0:
                            cases.append(_case("c2-%d" % n, stream, [c1, c2], [a, b])); n += 1
                for _ in range(4 if tier == "quick" else 20):
                    k = rng.randrange(1, 6)
                    cases.append(_case("ck-%d" % n, stream, rng.sample(range(1, len(stream)), min(k, len(stream) - 1)), [a, b])); n += 1
                cases.append(_case("drib-%d" % n, stream, list(range(1, len(stream))), [a, b])); n += 1
    # every spelling of Content-Length, followed by a keep-alive and another message
    for k, m in enumerate(spellings()):
        if tier == "quick" and k % 3 != (rng.randrange(3) if False else 0) and not (b"l " in m or b"L\t" in m or b"l\t" in m or b"L " in m):
            continue
        stream = m + b"\r\n" + ms[0]
        cases.append(_case("sp-%d" % n, stream, [], [m, ms[0]])); n += 1
        cases.append(_case("spd-%d" % n, stream, list(range(1, len(stream))), [m, ms[0]])); n += 1
        cases.append(_case("spc-%d" % n, stream, rng.sample(range(1, len(stream)), 2), [m, ms[0]])); n += 1
    # cuts right after the CRLF of a non-final Content-Length line (where the lost-length defect lived)
    m = ms[2]
    idx = m.find(b"\r\n", m.lower().find(b"content-length")) + 2
    for d in range(0, 8):
        cases.append(_case("clcut-%d" % n, m + ms[0], [idx + d], [m, ms[0]])); n += 1
    # sizes at the limits
    big_body = bytes(rng.randrange(32, 127) for _ in range(65535))
    cases.append(_case("big-%d" % n, msg("OPTIONS sip:b@example.org SIP/2.0", BASE_H, big_body) + ms[0], [100, 5000, 40000, 65600], [msg("OPTIONS sip:b@example.org SIP/2.0", BASE_H, big_body), ms[0]])); n += 1
    pad = "X-Pad: " + "p" * 3800
    near = msg("OPTIONS sip:b@example.org SIP/2.0", BASE_H + [pad], b"tail", cl_pos=0)
    cases.append(_case("head-%d" % n, near, [10, 2000, 4000], [near])); n += 1
    # heads of exactly the largest legal size and just below it (first byte of the start line through the blank line), alone and pipelined
    def sized(head_len, body=b"tail"):
        base = msg("OPTIONS sip:b@example.org SIP/2.0", BASE_H + ["X-Pad: "], body, cl_pos=0)
        cur = base.index(b"\r\n\r\n") + 4
        return msg("OPTIONS sip:b@example.org SIP/2.0", BASE_H + ["X-Pad: " + "p" * (head_len - cur)], body, cl_pos=0)
    for hl in (4093, 4094, 4095, 4096):
        m = sized(hl)
        assert m.index(b"\r\n\r\n") + 4 == hl
        cases.append(_case("hlim-%d" % n, m, [], [m])); n += 1
        cases.append(_case("hlim-%d" % n, m + ms[0], [hl - 2, hl + 1], [m, ms[0]])); n += 1
        cases.append(_case("hlim-%d" % n, b"\r\n\r\n" + ms[1] + m, [7, len(ms[1]) + 3000], [ms[1], m])); n += 1
    body5000 = msg("OPTIONS sip:b@example.org SIP/2.0", BASE_H, b"b" * 5000, cl_pos=1)
    cases.append(_case("b5000-%d" % n, body5000 + ms[1], [300, 4097, 4200], [body5000, ms[1]])); n += 1
    # random longer sequences
    for i in range(40 if tier == "quick" else 1500):
        seq = [rng.choice(ms) for _ in range(rng.randrange(1, 5))]
        stream = b""
        for s in seq:
            stream += rng.choice(kas) + s
        stream += rng.choice(kas)
        k = rng.randrange(0, 9)
        cuts = rng.sample(range(1, len(stream)), min(k, len(stream) - 1))
        cases.append(_case("rnd-%d" % i, stream, cuts, seq))
    return cases


def normalize_impl(case, s):
    return s.split("\t")[0].strip()


def normalize_model(case, s):
    return s.split("\t")[0].strip()


def oracle(case, impl):
    """every message of the sequence must come out of the stream path exactly as the datagram path parses it alone"""
    if "PANIC" in impl:
        return ["panic: " + impl[-300:]]
    parts = impl.split("\t")
    if len(parts) < 3:
        return ["malformed observation"]
    items = parts[0].split()
    if "HANG" in items:
        return ["decoder makes no progress"]
    sm = re.match(r"S\[(.*)\]$", parts[1])
    dm = re.match(r"D\[(.*)\]$", parts[2])
    stream = sm.group(1).split() if sm and sm.group(1) else []
    dgram = dm.group(1).split() if dm and dm.group(1) else []
    errs = [i for i in items if i.startswith("E:")]
    if errs:
        return ["stream path reports %s for a sequence of well-formed messages" % errs[0]]
    if stream != dgram:
        for i, (a, b) in enumerate(itertools.zip_longest(stream, dgram)):
            if a != b:
                def dec(x):
                    if not x:
                        return None
                    return {k: bytes.fromhex(v)[:80] for k, v in (f.split("=", 1) for f in x.split(";"))}
                return ["message %d differs between stream and datagram path: stream %r, datagram %r (%d frames vs %d messages)" % (i, dec(a), dec(b), len(stream), len(dgram))]
    return []


def nontrivial(case, impl):
    return case[2] if impl.startswith("F:") else None


def distribution(cases, impl):
    import collections
    h = collections.Counter()
    for c in cases:
        h["chunks=%d" % min(len(c[2].split("|")), 10)] += 1
    return dict(h)


def shrink_candidates(case):
    chunks = [c for c in case[2].split("|") if c]
    out = []
    # merge adjacent chunks
    for i in range(len(chunks) - 1):
        merged = chunks[:i] + [chunks[i] + chunks[i + 1]] + chunks[i + 2:]
        out.append([case[0], case[1], "|".join(merged), case[3]])
    return out
