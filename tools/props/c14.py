"""C14 -- a sips: target is never sent in clear; target and transport selection are sound."""
import itertools

ID = "C14"
COQ_PROOF_TARGETS = ["Props/C14.vo"]
COQ_MODEL_TARGETS = ["Extract/ExC14.vo"]
CLAIM_TEXT = ("Theorems (coq/Props/C14.v, no axioms) over the set-valued model of Transports::select for IP-literal targets: for every "
              "configuration of datagram transports, factories and connections, every outcome for a sips target is a failure or a transport "
              "that reports itself secure; failure exactly when nothing qualifies; the port rule (URI port, else 5061/5060); a datagram "
              "transport only with matching address family; a usable outgoing connection to the same remote address and port is reused "
              "before any factory is asked; a new connection comes from the first allowed factory that connects; a pinned target is used as "
              "is. Correspondence: configurations of <=2 datagram transports, <=3 factories, <=3 pre-existing connections (held / idle / "
              "closed by the peer / inbound) x targets, against the real endpoint with in-memory stream transports; the observed choice must "
              "be one of the outcomes the model allows (HashMap order).")
CLAIM_NOTE = ("Trusted: Coq kernel; hand-written model Model/C14.v validated by differential runs; in-memory StreamingTransport/Factory/Listener "
              "mocks; DNS is not modelled (IP-literal hosts only, which the code resolves without DNS); the URI transport= parameter is ignored "
              "by select for IP literals, as modelled.")
TRUSTED = [
    "Coq 8.16.1 kernel; no axioms",
    "hand-written model coq/Model/C14.v of transport/mod.rs selection, validated by the correspondence run",
    "extraction (ExtrOcamlBasic only) + ocaml/util.ml + ocaml/c14_driver.ml",
    "Rust harness harness/src/{c14,stream_mock}.rs (public traits StreamingTransport / StreamingFactory / StreamingListenerBuilder)",
]
ASSUMPTIONS = [
    "HashMap iteration order is arbitrary: the implementation's choice among several matching connections must be in the model's outcome set",
    "IP-literal targets only (no DNS in the sandbox)",
]
RULE = ("configurations: 0..2 datagram transports (secure x family) x 0..3 factories (secure x connects) x 0..3 pre-existing connections "
        "(outgoing held / idle / closed by peer, inbound; secure or not; same or other remote address and port) x targets (sip/sips x 3 "
        "addresses incl. IPv6 x no port / default port / other port); quick = seeded sample, thorough = larger sample plus the full "
        "product of the no-connection sub-space; non-trivial = the selection does not fall through to an error with nothing configured; "
        "distinct = distinct case text")
PARTIAL = []


def gen_case(rng, i):
    unm = ["%d:%d" % (rng.randrange(2), rng.randrange(2)) for _ in range(rng.choice([0, 0, 1, 1, 2]))]
    facs = ["%d:%d" % (rng.randrange(2), rng.choice([0, 1, 1])) for _ in range(rng.randrange(0, 4))]
    us = rng.randrange(2)
    ua = rng.choice([0, 1, 2, 0, 1, 2, 3])      # 3: an IPv4-mapped IPv6 literal - an IPv6 destination like any other
    uport = rng.choice(["-", "-", "5060", "5061", "5071"])
    rport = {"-": 5061 if us else 5060}.get(uport, None) or int(uport)
    pre = []
    for _ in range(rng.choice([0, 0, 1, 2, 3])):
        s = rng.randrange(2)
        a = ua if rng.random() < 0.7 else rng.randrange(3)
        p = rport if rng.random() < 0.7 else rng.choice([5060, 5061, 5099])
        if rng.random() < 0.2:
            pre.append("i:%d:%d:%d" % (s, a, p))
        else:
            pre.append("o:%d:%d:%d:%s" % (s, a, p, rng.choice(["held", "held", "idle", "dead"])))
    # the same (transport name, local, remote) key cannot exist twice: outgoing conns get distinct local ports, fine
    # URI parameters next to the target: the scheme and the port decide, a transport= parameter changes neither the default port nor
    # the security requirement
    up = rng.choice(["-", "-", "transport=tcp", "transport=udp", "transport=tls", "transport=TCP", "lr+transport=tcp+user=phone", "transport=ws", "lr"])
    return ["k%d" % i, "c14", ",".join(unm), ",".join(facs), ",".join(pre), "%d:%d:%s:%s:%d" % (us, ua, uport, up, rng.choice([0, 0, 0, 1, 2, 3]))]


def gen_cases(rng, tier):
    cases = [gen_case(rng, i) for i in range(400 if tier == "quick" else 6000)]
    if tier == "thorough":
        k = 0
        opts_u = [[]] + [[u] for u in ("0:0", "0:1", "1:0", "1:1")] + [["0:0", "1:0"], ["1:1", "0:0"]]
        opts_f = [[]] + [[f] for f in ("0:0", "0:1", "1:0", "1:1")] + [list(p) for p in itertools.product(("0:0", "0:1", "1:0", "1:1"), repeat=2)]
        for u in opts_u:
            for f in opts_f:
                for us in (0, 1):
                    for ua in (0, 2):
                        for port in ("-", "5071"):
                            cases.append(["x%d" % k, "c14", ",".join(u), ",".join(f), "", "%d:%d:%s" % (us, ua, port)])
                            k += 1
    return cases


def normalize_impl(case, s):
    return s.split("\tpin=")[0].strip()


def normalize_model(case, s):
    return s.strip()


# acceptance instead of equality: the model lists every allowed outcome
def accepts(case, impl, model):
    return impl in [m.strip() for m in model.split(" || ")]


def oracle(case, impl):
    """the property text evaluated directly on the recorded choice"""
    if "PANIC" in impl:
        return ["panic: " + impl[:300]]
    if "\tpin=" in impl:
        impl, _, pin = impl.partition("\tpin=")
        if pin.strip() != "ok":
            return ["three requests with one pinned target info (transport 10.0.0.77:7777, destination 192.0.2.50:7000) went out as %s: a pinned transport and destination are reused" % pin.strip()]
    us, ua, uport = case[5].split(":")[:3]
    secure = us == "1"
    want_port = int(uport) if uport != "-" else (5061 if secure else 5060)
    addrs = ["10.9.9.9", "10.255.8.255", "[2001:db8::9]", "[::ffff:192.0.2.1]"]
    if impl.startswith("ERR"):
        # must fail only if nothing qualifies
        unm = [u.split(":") for u in case[2].split(",") if u]
        facs = [f.split(":") for f in case[3].split(",") if f]
        pre = [p.split(":") for p in case[4].split(",") if p]
        v6 = ua in ("2", "3")
        if any((u[1] == "1") == v6 and (not secure or u[0] == "1") for u in unm):
            return ["selection failed although a suitable datagram transport is configured"]
        if any((not secure or f[0] == "1") and f[1] == "1" for f in facs):
            return ["selection failed although a suitable factory that connects is configured"]
        if any(p[0] == "o" and p[4] != "dead" and p[2] == ua and int(p[3]) == want_port and (not secure or p[1] == "1") for p in pre):
            return ["selection failed although a usable outgoing connection to the target exists"]
        return []
    toks = dict(t.split("=", 1) for t in impl.split() if "=" in t)
    what = impl.split()[0]
    if secure and toks.get("secure") != "1":
        return ["sips target sent over a transport that is not secure: " + impl]
    if toks.get("dest") != "%s:%d" % (addrs[int(ua)], want_port):
        return ["destination %s, expected %s:%d" % (toks.get("dest"), addrs[int(ua)], want_port)]
    if what == "INBOUND":
        return ["an inbound connection was selected for a new request"]
    pre = [p.split(":") for p in case[4].split(",") if p]
    if what[0] == "U":
        u = [x.split(":") for x in case[2].split(",") if x][int(what[1:])]
        if (u[1] == "1") != (ua in ("2", "3")):
            return ["datagram transport of the wrong address family selected"]
    if what[0] == "R":
        p = pre[int(what[1:])]
        if p[0] != "o" or p[4] == "dead" or p[2] != ua or int(p[3]) != want_port:
            return ["reused connection %r does not lead to the target (or is dead)" % (p,)]
    if what[0] == "N":
        unm_ok = False
        if any(p[0] == "o" and p[4] != "dead" and p[2] == ua and int(p[3]) == want_port and (not secure or p[1] == "1") for p in pre):
            return ["a new connection was opened although a usable outgoing connection to the same remote exists"]
    return []


def nontrivial(case, impl):
    if impl.startswith("ERR") and not (case[2] or case[3] or case[4]):
        return None
    return "\t".join(case[2:])


def distribution(cases, impl):
    import collections
    h = collections.Counter()
    for c in cases:
        h[impl.get(c[0], "?").split()[0][:1]] += 1
    return {"outcome_kinds": dict(h)}
