"""C07 -- INVITE client: non-2xx finals are ACKed by the transaction, 2xx left to the user."""
import re
from props import c05

ID = "C07"
GEN = "c07"
COQ_PROOF_TARGETS = ["Props/C07.vo"]
COQ_MODEL_TARGETS = ["Extract/ExC07.vo"]
CLAIM_TEXT = ("Theorems (coq/Props/C07.v, no axioms): the ACK built by the model of create_ack has method ACK, the INVITE's Request-URI, "
              "Via, From, Call-ID, CSeq number and Route values, the response's To, and nothing else, for every header multimap; a "
              "non-2xx final yields ACK, one failure report, completion; every retransmission inside the 32 s window is ACKed exactly "
              "once (never on reliable transports); 2xx responses produce no ACK and are all handed over until first-2xx + 64*T1. "
              "Correspondence: ACK bytes and timed outputs of the real ClientInvTsx against the extracted model on the same histories.")
CLAIM_NOTE = ("Trusted: as C05, plus the header-line splitter of the harness/oracle. The model receives the INVITE as the implementation "
              "printed it (random branch is an input). A non-2xx final repeated with a different To-tag is re-ACKed with the first "
              "ACK (RFC 3261 17.1.1.2 behaviour); the generator keeps such repeats to true retransmissions.")
TRUSTED = [
    "Coq 8.16.1 kernel; no axioms",
    "tools/translate.py (T1, 64, 32 s) ; hand-written models coq/Model/{Tsx,C07}.v of client_inv.rs, validated by the correspondence run",
    "extraction (ExtrOcamlBasic only) + ocaml/util.ml + ocaml/c07_driver.ml",
    "Rust harness harness/src/tsx_client.rs (mock transport, paused clock, H2)",
]
ASSUMPTIONS = c05.ASSUMPTIONS + [
    "the INVITE handed to the model is the one the implementation put on the wire (its random branch is an input, not a compared output)",
]
RULE = ("INVITE requests with 0..3 Route values (loose and strict), display names and URI parameters x final classes "
        "(3xx,4xx,5xx,6xx,2xx) x To-tags x retransmitted / forked finals at instants around the 32 s and 64*T1 windows x "
        "{unreliable, reliable}; non-trivial = at least one final response reaches the transaction; distinct = distinct case text")
PARTIAL = []

ROUTES = [
    "",
    "Route: <sip:p1.example.org;lr>\r\n",
    "Route: <sip:p1.example.org;lr>, <sip:p2.example.org:5070;lr>\r\n",
    "Route: <sip:p1.example.org;lr>\r\nRoute: \"Strict\" <sip:p2.example.org>;x=y\r\nRoute: <sips:p3.example.org;lr>\r\n",
]


def _case(cid, rel, arrs, extra, horizon=None, sources=None):
    base = c05._case(cid, "inv", rel, arrs, horizon)
    base[1] = "c07"
    base[6] = extra.encode().hex()
    while len(base) < 8:
        base.append("")
    # where each response comes from (d = the INVITE's destination, p = other port, h = other host): the ACK
    # must go where the INVITE went whatever the answer's source is
    base.append(",".join(sources) if sources else ",".join("dph"[(len(cid) + i + len(arrs)) % 3] for i in range(len(arrs))))
    return base


def gen_cases(rng, tier):
    cases = []
    n = 0
    codes = [300, 302, 401, 404, 486, 500, 503, 600, 603, 699]
    for rel in (0, 1):
        for ri, route in enumerate(ROUTES):
            for code in (codes if tier == "thorough" else codes[::3]):
                for t in (1, 499, 7600):
                    for tag in ("a", "-"):
                        cases.append(_case("f%d" % n, rel, [(t, code, tag)], route)); n += 1
            # retransmitted finals around the 32 s window
            for t in (2, 3000):
                for d in (1, 500, 31999, 32001, 50000):
                    cases.append(_case("r%d" % n, rel, [(t, 486, "a"), (t + d, 486, "a"), (t + d + 7, 486, "a")], route)); n += 1
            # provisional first
            cases.append(_case("p%d" % n, rel, [(100, 180, "e"), (40000, 480, "e"), (41000, 480, "e")], route)); n += 1
            # 2xx: forks and retransmissions around 64*T1
            for d in (1, 31999, 32001):
                cases.append(_case("s%d" % n, rel, [(300, 200, "a"), (300 + d, 200, "b"), (300 + d + 5, 200, "a")], route)); n += 1
    # an answer that arrives while the caller is still inside the first send (the bytes are out, the flush has not returned): it belongs
    # to this transaction; a non-2xx final is ACKed once and reported, a 2xx is handed up
    for rel in (0, 1):
        for code in (180, 200, 404, 486, 603):
            for (t, linger) in ((10, 20), (1, 400)):
                c = _case("lng%d" % n, rel, [(t, code, "a")], ROUTES[n % len(ROUTES)]); n += 1
                c[7] = ""
                while len(c) < 11:
                    c.append("")
                c[10] = str(linger)
                cases.append(c)
    # the To of the answer is echoed in the ACK as it came: tags with escapes or odd token characters, a To URI with port, parameters
    # and headers, a token display name, further To parameters
    for rel in (0, 1):
        for to in ("To: Bob <sip:bob@example.com:5070;transport=udp;user=phone>\r\n", "To: <sip:bob@example.com>\r\n", "To: \"B. Ob\" <sip:bob@example.com;maddr=192.0.2.7;ttl=3?x=y>;x=1\r\n",
                   "To: sip:bob@example.com\r\n"):
            for tag in ("ab%41c", "a.b-c_d~e", "1928301774", "-"):
                cases.append(_case("to%d" % n, rel, [(700, 486, tag)], to)); n += 1
    # the INVITE went out with a rewritten Via sent-by (TargetTransportInfo::via_host_port: a public address, a gateway name): the ACK's
    # Via is the INVITE's, not one made afresh from the transport
    for rel in (0, 1):
        for vhp in ("203.0.113.7~40123", "gw.example.org~5080", "gw.example.org", "2001:db8::7~5062"):
            for code in (404, 486):
                c = _case("vhp%d" % n, rel, [(700, code, "a"), (900, code, "a")], ROUTES[n % len(ROUTES)]); n += 1
                while len(c) < 12:
                    c.append("")
                c[11] = vhp
                cases.append(c)
    # bursts: many answers are in before the caller looks again (forks of a 2xx answering together, a late caller finding the final and
    # its retransmissions waiting): every 2xx is handed over, every copy of the failure is ACKed - any number of them
    for rel in (0, 1):
        for k in (5, 7, 12):
            for cid, arrs in (("bs", [(900, 200, "abcdefghijkl"[i]) for i in range(k)]), ("bf", [(900, 486, "a")] * k),
                              ("bp", [(900, 180, "abcdefghijkl"[i]) for i in range(k)] + [(2000, 200, "a")])):
                c = _case("%s%d" % (cid, n), rel, arrs, ROUTES[n % len(ROUTES)], sources=["d"] * len(arrs)); n += 1
                c[4] = ",".join("%d:%d:%s" % a for a in arrs)       # one instant: the harness injects them without letting anybody run in between
                cases.append(c)
    nrand = 60 if tier == "quick" else 2000
    for i in range(nrand):
        rel = rng.choice([0, 1])
        route = rng.choice(ROUTES)
        code = rng.choice(codes + [200, 202])
        t = rng.randrange(1, 31000) | 1
        tag0 = rng.choice("ab")
        arrs = [(t, code, tag0)]
        for _ in range(rng.randrange(0, 4)):
            # a non-2xx final is only ever repeated as a retransmission (same To-tag); 2xx may fork
            arrs.append((arrs[-1][0] + rng.choice([1, 10, 1000, 20000, 31990, 32010]), code, rng.choice("ab") if code < 300 else tag0))
        if rng.random() < 0.3:
            arrs.insert(0, (max(1, t // 2) | 1, 183, "e"))
        cases.append(_case("x%d" % i, rel, arrs, route))
    return cases


def model_case(case, impl):
    inv = ""
    for part in impl.split("\t")[1:]:
        if part.startswith("INVITE:"):
            inv = part[len("INVITE:"):]
    return c05.model_case(case, impl)[:7] + [inv]


def _show_fields(hexs):
    text = bytes.fromhex(hexs).decode("utf-8", "replace")
    d = {}
    for kv in text.split("||"):
        k, _, v = kv.partition("=")
        d[k] = v
    return d


def _canon(fields, branch):
    """header values only, ezk's own branch replaced by a fixed token"""
    out = {}
    for k, v in fields.items():
        if k == "line":
            out[k] = v
        else:
            vals = [x.split(":", 1)[1].strip() if ":" in x else x for x in v.split("&&")] if v else []
            out[k] = "&&".join(vals)
    return out


def normalize_impl(case, s):
    parts = s.split("\t")
    sched = c05.normalize_impl(case, parts[0])
    acks = []
    for p in parts[1:]:
        if p.startswith("ACK:"):
            f = _canon(_show_fields(p[4:]), None)
            acks.append("ACK:line=%s||via=%s||from=%s||to=%s||call-id=%s||cseq=%s||route=%s" % (
                f.get("line", ""), f.get("via", ""), f.get("from", ""), f.get("to", ""), f.get("call-id", ""), f.get("cseq", ""), f.get("route", "")))
    return "\t".join([sched] + acks)


def normalize_model(case, s):
    return s.strip()


def oracle(case, impl):
    """property text applied to the raw ACK bytes' header lines, independent of the model"""
    if "A!dest" in impl.split("\t")[0]:
        return ["an ACK was sent to another address than the one the INVITE was sent to (responses from %s)" % (case[8] if len(case) > 8 else "d")]
    v = c05.oracle(case[:6] + ([""] * 4 + [case[10]] if len(case) > 10 else []), impl)
    if v:
        return v
    parts = impl.split("\t")
    inv = None
    acks = []
    for p in parts[1:]:
        if p.startswith("INVITE:"):
            inv = _show_fields(p[7:])
        elif p.startswith("ACK:"):
            acks.append(_show_fields(p[4:]))
    if inv is None:
        return ["no INVITE on the wire"]
    kind, rel, arrs, horizon = c05._parse(case)
    tags = [a.split(":")[2] for a in case[4].split(",") if a]
    # which arrivals must have been ACKed: the first non-2xx final and, unreliable, its repeats within 32 s
    acked = []
    state = "wait"
    until = None
    for (t, c), tag in zip(arrs, tags):
        if state == "wait":
            if c >= 300:
                acked.append(tag); state = "comp"; until = t + (0 if rel else 32000)
            elif c >= 200:
                state = "acc"
        elif state == "comp" and t < until:
            acked.append(tag)
    if len(acks) != len(acked):
        return ["%d ACK(s) on the wire, the property expects %d" % (len(acks), len(acked))]
    inv_uri = inv["line"].split(" ")[1]
    hv = lambda f, k: [x.split(":", 1)[1].strip() for x in f.get(k, "").split("&&") if x]
    for a, tag in zip(acks, acked):
        if a["line"] != "ACK %s SIP/2.0" % inv_uri:
            return ["ACK request line %r, INVITE Request-URI is %r" % (a["line"], inv_uri)]
        for k in ("via", "from", "call-id", "route"):
            if hv(a, k) != hv(inv, k):
                return ["ACK %s %r differs from the INVITE's %r" % (k, hv(a, k), hv(inv, k))]
        exp_to = hv(inv, "to")[0] + (";tag=" + tag if tag != "-" else "")
        if hv(a, "to") != [exp_to]:
            return ["ACK To %r, response To was %r" % (hv(a, "to"), exp_to)]
        ic = hv(inv, "cseq")[0].split()
        if hv(a, "cseq") != ["%s ACK" % ic[0]]:
            return ["ACK CSeq %r, expected %r" % (hv(a, "cseq"), "%s ACK" % ic[0])]
    return []


def nontrivial(case, impl):
    kind, rel, arrs, horizon = c05._parse(case)
    if any(c >= 200 for (_, c) in arrs):
        return "\t".join(case[2:])
    return None


def distribution(cases, impl):
    import collections
    h = collections.Counter()
    for c in cases:
        nroute = bytes.fromhex(c[6]).decode().count("<")
        h["routes=%d rel=%s" % (nroute, c[3])] += 1
    return dict(h)
