"""C19 -- SDP parses without panicking and round-trips every description."""
import collections
import ipaddress
import re

ID = "C19"
COQ_PROOF_TARGETS = ["Props/C19.vo"]
COQ_MODEL_TARGETS = ["Extract/ExC19.vo"]
CLAIM_TEXT = ("Theorems (coq/Props/C19.v, no axioms) over a model of the line splitter, the dispatcher (which section a line is attached "
              "to), both printers, the media line, direction / flag / unknown attributes, the token tables and the keying-material lifetime: "
              "parse(print(d)) = d at the level of lines for EVERY description with any number of media sections and attributes "
              "(C19_attach) and at the level of text for every description whose printed lines are well formed (C19_roundtrip, via "
              "C19_media_roundtrip and the classification of every rendered line); tokens are matched whole (C19_direction_whole, "
              "C19_media_type_whole, C19_protocol_verbatim, C19_suite_verbatim); lifetimes round-trip and an exponent >= 32 is refused "
              "instead of overflowing (C19_lifetime_*); token tables and matcher forms are regenerated from the source (C19_tables). "
              "Correspondence: 400 (thorough 8000) generated descriptions over every field's grammar written as canonical SDP, parsed by the "
              "real parser (field-wise dump = the generator's structure), printed (bytes = the model's printer on the same description) "
              "and parsed again (dump unchanged); mutated and random texts: no panic, and whatever parses survives print -> parse; the "
              "model's dispatcher shape = the implementation's for every text it accepts.")
CLAIM_NOTE = ("PARTIAL: the field payloads with their own nom parser (origin, time, connection, bandwidth, rtcp, rtpmap, fmtp, "
              "crypto remainder) are opaque in the model; their print/parse round trips and panic freedom are decided by the differential "
              "runs only. The candidate attribute is modelled in full (Model/C19c.v, C19_candidate_roundtrip; addresses are the text in the line) "
              "and compared field by field and byte by byte with IceCandidate::parse / Display. Values that have no text form (IPv4 connection with a count but no TTL, an empty FEC_KEY list, a protocol token "
              "beginning with '/') are outside the grammar the property quantifies over and excluded by media_wf / the generator.")
TRUSTED = [
    "Coq 8.16.1 kernel; no axioms",
    "hand-written model coq/Model/C19.v; token tables regenerated from sdp-types by tools/translate_tables.py",
    "extraction (ExtrOcamlBasic only) + ocaml/util.ml + ocaml/c19_driver.ml",
    "Rust harness harness/src/c19.rs (field-wise dump of the public structs); Python generator/printer of canonical SDP in tools/props/c19.py",
]
ASSUMPTIONS = ["the unmodelled field parsers accept the canonical payload they print (validated field-wise by the harness on every generated description)"]
RULE = ("descriptions over every field's grammar: 0..3 media sections, 0..3 of each attribute, addresses (IPv4/IPv6 literals and host names), "
        "numeric fields at 0 / 1 / max, all transport protocol and suite tokens plus tokens that extend them by one character, directions at "
        "both levels, ICE attributes, crypto lines with lifetimes 2^n and plain, unknown attributes with and without value; texts: the "
        "canonical rendering, mutations of it and random strings")
PARTIAL = ["field payload parsers (origin, time, connection, bandwidth, rtcp, rtpmap, fmtp, crypto remainder) are abstracted by a validity predicate; exercised, not proved (the candidate attribute is modelled and proved on its own, Model/C19c.v, addresses as the text that stands in the line)"]

SUITES = ["AES_CM_128_HMAC_SHA1_80", "AES_CM_128_HMAC_SHA1_32", "F8_128_HMAC_SHA1_80", "AES_192_CM_HMAC_SHA1_80", "AES_192_CM_HMAC_SHA1_32",
          "AES_256_CM_HMAC_SHA1_80", "AES_256_CM_HMAC_SHA1_32", "AEAD_AES_128_GCM", "AEAD_AES_256_GCM"]
PROTOS = ["udp", "RTP/AVP", "RTP/SAVP", "RTP/SAVPF"]
MTYPES = ["audio", "video", "text", "application"]
DIRS = ["sendrecv", "recvonly", "sendonly", "inactive"]
KNOWN_VALUE_ATTRS = {"rtpmap", "fmtp", "rtcp", "ice-lite", "ice-options", "ice-ufrag", "ice-pwd", "candidate", "crypto"}
KNOWN_FLAG_ATTRS = set(DIRS) | {"end-of-candidates", "ice-lite"}
ICE = "abcdefghijklmnopqrstuvwxyzABCDEFGHIJKLMNOPQRSTUVWXYZ0123456789+/"
U32 = 2 ** 32 - 1
U64 = 2 ** 64 - 1


def hx(s):
    return "''" if s == "" else s.encode().hex()


# ---------------------------------------------------------------- value generator
def g_token(rng, alphabet="abcxyzABC019-_.", lo=1, hi=8):
    return "".join(rng.choice(alphabet) for _ in range(rng.randrange(lo, hi + 1)))


def g_cred(rng, lo):
    """ice-ufrag (4..256 ice-chars) / ice-pwd (22..256): mostly short, one in five at an edge of the legal range"""
    if rng.random() < 0.2:
        n = rng.choice([lo, lo + 1, 255, 256])
        return "".join(rng.choice(ICE) for _ in range(n))
    return g_token(rng, ICE, lo, lo + 8)


def g_u32(rng):
    return rng.choice([0, 1, 8, 96, 255, 8000, 65535, 65536, U32, U32 - 1, rng.randrange(U32)])


def g_addr(rng):
    k = rng.random()
    if k < 0.4:
        return ("4", rng.choice(["192.0.2.1", "0.0.0.0", "255.255.255.255", "10.0.0.1", "224.2.17.12"]))
    if k < 0.55:
        return ("4F", rng.choice(["example.com", "host-1.example.org", "a", "1.2.3", "x_y.z"]))
    if k < 0.85:
        return ("6", str(ipaddress.ip_address(rng.choice(["::1", "::", "2001:db8::1", "fe80::1:2:3:4", "2001:db8:0:0:1:0:0:1", "ff02::fb", "1:2:3:4:5:6:7:8"]))))
    return ("6F", rng.choice(["example.com", "v6.example.org", "host"]))


def g_uaddr(rng):
    k = rng.random()
    if k < 0.5:
        return ("U", rng.choice(["192.0.2.1", "10.0.0.1", "198.51.100.7"]))
    if k < 0.8:
        return ("U", str(ipaddress.ip_address(rng.choice(["2001:db8::1", "::1", "fe80::1"]))))
    return ("F", rng.choice(["example.com", "relay.example.org"]))


def g_conn(rng):
    a = g_addr(rng)
    if a[0] in ("4", "4F"):
        ttl = rng.choice([None, None, 1, 127, 255, U32])
        num = rng.choice([None, 2, 3, U32]) if ttl is not None else None
    else:
        ttl = None
        num = rng.choice([None, None, 2, U32])
    return {"addr": a, "ttl": ttl, "num": num}


BW_TOKEN = "!#$%&'*+-.0123456789ABCDEFGHIJKLMNOPQRSTUVWXYZ^_`abcdefghijklmnopqrstuvwxyz{|}~"


def g_bw(rng):
    # the bandwidth type is a token (RFC 8866): mostly the registered names, one in four from the whole token alphabet
    if rng.random() < 0.25:
        return ("".join(rng.choice(BW_TOKEN) for _ in range(rng.randrange(1, 6))), g_u32(rng))
    return (rng.choice(["AS", "CT", "TIAS", "X-a", "RR"]), g_u32(rng))


def g_text(rng, allow_colon=True):
    alphabet = "abcXYZ 019-_=;,/äß€" + (":" if allow_colon else "")
    n = rng.randrange(0, 12)
    return "".join(rng.choice(alphabet) for _ in range(n))


def g_attr(rng):
    while True:
        name = "".join(rng.choice("abcxyzXYZ-019 ") for _ in range(rng.randrange(1, 10)))
        if rng.random() < 0.5:
            if name in KNOWN_FLAG_ATTRS:
                continue
            return (name, None)
        if name in KNOWN_VALUE_ATTRS:
            continue
        return (name, g_text(rng))


def g_key(rng):
    key = "".join(rng.choice(ICE + "=") for _ in range(rng.choice([1, 8, 40])))
    lifetime = rng.choice([None, None, 1, 2, 3, 1 << 20, 1 << 31, (1 << 31) + 1, U32, 100])
    mki = rng.choice([None, None, (1, 1), (0, 4), (U32, 128)])
    return {"key": key, "lifetime": lifetime, "mki": mki}


def g_sparam(rng):
    k = rng.randrange(9)
    if k == 0:
        return ("KDR", rng.choice([0, 1, 24, U32]))
    if k == 1:
        return ("USRTP",)
    if k == 2:
        return ("USRTCP",)
    if k == 3:
        return ("UASRTP",)
    if k == 4:
        return ("FO", rng.choice(["FEC_SRTP", "SRTP_FEC"]))
    if k == 5:
        return ("FK", [g_key(rng) for _ in range(rng.randrange(1, 3))])
    if k == 6:
        return ("WSH", rng.choice([0, 64, 128, U32]))
    return ("X", rng.choice(["EXT", "x-param=1", "UNENCRYPTED_SRTPX", "UNENCRYPTED_SRTCP2", "KDRx", "WSH", "a:b", "FEC_ORDER"]))


def g_crypto(rng):
    suite = rng.choice(SUITES + [s + "X" for s in SUITES[:3]] + ["AES_CM_128", "MY_SUITE_1", "AEAD_AES_128_GCM_8"])
    return {"tag": rng.choice([0, 1, 2, 9, U32]), "suite": suite, "keys": [g_key(rng) for _ in range(rng.randrange(1, 3))],
            "params": [g_sparam(rng) for _ in range(rng.randrange(0, 3))]}


def g_cand(rng):
    unknown = []
    for _ in range(rng.randrange(0, 3)):
        unknown.append((rng.choice(["tcptype", "generation", "ufrag", "network-id"]), g_token(rng)))
    rel = rng.random() < 0.5
    # the related address and the related port are independent fields of IceCandidate: one in eight candidates has only one of them
    lone = rng.random() < 0.125
    rel_a, rel_p = (rel, rel) if not lone else rng.choice([(True, False), (False, True)])
    return {"foundation": g_token(rng, ICE, 1, 32), "component": rng.choice([1, 2, 256, U32]), "transport": rng.choice(["UDP", "TCP", "udp", "x"]),
            "priority": rng.choice([0, 1, 2130706431, U32, U64]), "addr": g_uaddr(rng), "port": rng.choice([0, 9, 3478, 65535]),
            "typ": rng.choice(["host", "srflx", "prflx", "relay", "other"]), "raddr": g_uaddr(rng) if rel_a else None,
            "rport": rng.choice([0, 9, 65535]) if rel_p else None, "unknown": unknown}


def g_media(rng, session_dir):
    # white space is ASCII white space: a token may contain any other character, also the non-ASCII spaces (RFC 8866 non-ws-string)
    proto = rng.choice(PROTOS + ["RTP/SAVPFX", "RTP/AVPF", "udpx", "UDP/TLS/RTP/SAVPF", "TCP/MSRP", "RTP/AV", "X/\u00a0Y", "RTP/\u3000AVP"])
    m = {"mt": rng.choice(MTYPES), "port": rng.choice([0, 9, 49170, 65535]), "pn": rng.choice([None, None, 2, U32]), "proto": proto,
         "fmts": [rng.choice([0, 8, 96, 127, U32]) for _ in range(rng.randrange(0, 4))],
         "dir": rng.choice(DIRS), "c": g_conn(rng) if rng.random() < 0.4 else None, "b": [g_bw(rng) for _ in range(rng.randrange(0, 3))],
         "rtcp": ({"port": rng.choice([0, 9, 53020, 65535]), "addr": g_addr(rng) if rng.random() < 0.5 else None} if rng.random() < 0.4 else None),
         "rm": [{"payload": g_u32(rng), "enc": rng.choice(["PCMU", "opus", "telephone-event", "H264", "x"]), "clock": g_u32(rng),
                 "params": rng.choice([None, None, "2", "1/x y"])} for _ in range(rng.randrange(0, 3))],
         "fm": [{"fmt": g_u32(rng), "params": rng.choice(["0-16", "minptime=10;useinbandfec=1", "a b  c", "profile-level-id=42e01f", "x"])} for _ in range(rng.randrange(0, 3))],
         "uf": g_cred(rng, 4) if rng.random() < 0.4 else None, "pw": g_cred(rng, 22) if rng.random() < 0.4 else None,
         "cand": [g_cand(rng) for _ in range(rng.randrange(0, 3))], "eoc": rng.random() < 0.3,
         "cr": [g_crypto(rng) for _ in range(rng.randrange(0, 3))], "at": [g_attr(rng) for _ in range(rng.randrange(0, 3))]}
    return m


def g_session(rng):
    sdir = rng.choice(DIRS + ["sendrecv"] * 3)
    s = {"name": rng.choice(["-", "call", "a b", " x", "sess ü", "s=1", ""]), "o": {"user": rng.choice(["-", "alice", "u_1", "-", "alice", "Zo\u00eb", "\u5c71\u7530\u3000\u592a\u90ce", "a\u00a0b", "x\u2009y\u2003z"]), "id": str(rng.choice([0, 1, 2890844526, U64])),
                                                                                   "ver": str(rng.choice([0, 1, 2890842807, U64])), "addr": g_addr(rng)},
         "t": (rng.choice([0, 1, 3034423619, U64]), rng.choice([0, 3042462419, U64])), "dir": sdir,
         "c": g_conn(rng) if rng.random() < 0.6 else None, "b": [g_bw(rng) for _ in range(rng.randrange(0, 3))],
         "io": [g_token(rng, ICE, 1, 8) for _ in range(rng.choice([0, 0, 1, 2, 3]))], "lite": rng.random() < 0.3,
         "uf": g_cred(rng, 4) if rng.random() < 0.4 else None, "pw": g_cred(rng, 22) if rng.random() < 0.4 else None,
         "at": [g_attr(rng) for _ in range(rng.randrange(0, 3))]}
    s["M"] = [g_media(rng, sdir) for _ in range(rng.choice([0, 1, 1, 2, 3]))]
    return s


# ---------------------------------------------------------------- canonical text (RFC 8866 order) and expected dump
def t_addr(a):
    return "IN IP%s %s" % (a[0][0], a[1])


def t_conn(c):
    s = "c=" + t_addr(c["addr"])
    if c["ttl"] is not None:
        s += "/%d" % c["ttl"]
        if c["num"] is not None:
            s += "/%d" % c["num"]
    elif c["num"] is not None:
        s += "/%d" % c["num"]
    return s


def t_key(k):
    s = "inline:" + k["key"]
    if k["lifetime"] is not None:
        lt = k["lifetime"]
        s += "|2^%d" % (lt.bit_length() - 1) if lt & (lt - 1) == 0 and lt > 0 else "|%d" % lt
    if k["mki"] is not None:
        s += "|%d:%d" % k["mki"]
    return s


def t_sparam(p):
    if p[0] == "KDR":
        return "KDR=%d" % p[1]
    if p[0] == "USRTP":
        return "UNENCRYPTED_SRTP"
    if p[0] == "USRTCP":
        return "UNENCRYPTED_SRTCP"
    if p[0] == "UASRTP":
        return "UNAUTHENTICATED_SRTP"
    if p[0] == "FO":
        return "FEC_ORDER=" + p[1]
    if p[0] == "FK":
        return "FEC_KEY=" + ";".join(t_key(k) for k in p[1])
    if p[0] == "WSH":
        return "WSH=%d" % p[1]
    return p[1]


def t_crypto(c):
    return "a=crypto:%d %s %s%s" % (c["tag"], c["suite"], ";".join(t_key(k) for k in c["keys"]), "".join(" " + t_sparam(p) for p in c["params"]))


def t_cand(c):
    s = "a=candidate:%s %d %s %d %s %d typ %s" % (c["foundation"], c["component"], c["transport"], c["priority"], c["addr"][1], c["port"], c["typ"])
    if c["raddr"] is not None:
        s += " raddr %s" % c["raddr"][1]
    if c["rport"] is not None:
        s += " rport %d" % c["rport"]
    for k, v in c["unknown"]:
        s += " %s %s" % (k, v)
    return s


def t_attr(a):
    return "a=" + a[0] + ("" if a[1] is None else ":" + a[1])


def text_of(s):
    L = ["v=0", "o=%s %s %s %s" % (s["o"]["user"], s["o"]["id"], s["o"]["ver"], t_addr(s["o"]["addr"])), "s=" + s["name"]]
    if s["c"]:
        L.append(t_conn(s["c"]))
    L += ["b=%s:%d" % b for b in s["b"]]
    L.append("t=%d %d" % s["t"])
    if s["io"]:
        L.append("a=ice-options:" + " ".join(s["io"]))
    if s["lite"]:
        L.append("a=ice-lite")
    if s["dir"] != "sendrecv":
        L.append("a=" + s["dir"])
    if s["uf"] is not None:
        L.append("a=ice-ufrag:" + s["uf"])
    if s["pw"] is not None:
        L.append("a=ice-pwd:" + s["pw"])
    L += [t_attr(a) for a in s["at"]]
    for m in s["M"]:
        L.append("m=%s %d%s %s%s" % (m["mt"], m["port"], "" if m["pn"] is None else "/%d" % m["pn"], m["proto"], "".join(" %d" % f for f in m["fmts"])))
        if m["c"]:
            L.append(t_conn(m["c"]))
        L += ["b=%s:%d" % b for b in m["b"]]
        L.append("a=" + m["dir"])
        if m["rtcp"]:
            L.append("a=rtcp:%d%s" % (m["rtcp"]["port"], "" if m["rtcp"]["addr"] is None else " " + t_addr(m["rtcp"]["addr"])))
        for r in m["rm"]:
            L.append("a=rtpmap:%d %s/%d%s" % (r["payload"], r["enc"], r["clock"], "" if r["params"] is None else "/" + r["params"]))
        for f in m["fm"]:
            L.append("a=fmtp:%d %s" % (f["fmt"], f["params"]))
        if m["uf"] is not None:
            L.append("a=ice-ufrag:" + m["uf"])
        if m["pw"] is not None:
            L.append("a=ice-pwd:" + m["pw"])
        L += [t_cand(c) for c in m["cand"]]
        if m["eoc"]:
            L.append("a=end-of-candidates")
        L += [t_crypto(c) for c in m["cr"]]
        L += [t_attr(a) for a in m["at"]]
    return "\r\n".join(L) + "\r\n"


def o(v, f=lambda x: str(x)):
    return "-" if v is None else f(v)


def d_addr(a):
    return "%s:%s" % (a[0], a[1] if a[0] in ("4", "6") else hx(a[1]))


def d_uaddr(a):
    return "%s:%s" % (a[0], a[1] if a[0] == "U" else hx(a[1]))


def d_conn(c):
    return "%s/%s/%s" % (d_addr(c["addr"]), o(c["ttl"]), o(c["num"]))


def d_key(k):
    return "%s~%s~%s" % (hx(k["key"]), o(k["lifetime"]), o(k["mki"], lambda m: "%d:%d" % m))


def d_sparam(p):
    if p[0] in ("KDR", "WSH"):
        return "%s=%d" % p
    if p[0] == "FO":
        return "FO=" + p[1]
    if p[0] == "FK":
        return "FK=(%s)" % "+".join(d_key(k) for k in p[1])
    if p[0] == "X":
        return "X:" + hx(p[1])
    return p[0]


def d_attrs(at):
    return ",".join(hx(n) if v is None else "%s=%s" % (hx(n), hx(v)) for n, v in at)


def dump_of(s):
    ms = []
    for m in s["M"]:
        proto = m["proto"] if m["proto"] in PROTOS else "O:" + hx(m["proto"])
        ms.append("M{mt=%s;port=%d;pn=%s;proto=%s;fmts=[%s];dir=%s;c=%s;b=[%s];rtcp=%s;rm=[%s];fm=[%s];uf=%s;pw=%s;cand=[%s];eoc=%d;cr=[%s];at=[%s]}" % (
            m["mt"], m["port"], o(m["pn"]), proto, ",".join(str(f) for f in m["fmts"]), m["dir"], o(m["c"], d_conn),
            ",".join("%s:%d" % (hx(b[0]), b[1]) for b in m["b"]),
            o(m["rtcp"], lambda r: "%d/%s" % (r["port"], o(r["addr"], d_addr))),
            ",".join("%d|%s|%d|%s" % (r["payload"], hx(r["enc"]), r["clock"], o(r["params"], hx)) for r in m["rm"]),
            ",".join("%d|%s" % (f["fmt"], hx(f["params"])) for f in m["fm"]),
            o(m["uf"], hx), o(m["pw"], hx),
            ",".join("%s|%d|%s|%d|%s|%d|%s|%s|%s|(%s)" % (hx(c["foundation"]), c["component"], hx(c["transport"]), c["priority"], d_uaddr(c["addr"]), c["port"], hx(c["typ"]),
                                                         o(c["raddr"], d_uaddr), o(c["rport"]), "+".join("%s=%s" % (hx(k), hx(v)) for k, v in c["unknown"])) for c in m["cand"]),
            1 if m["eoc"] else 0,
            ",".join("%d|%s|(%s)|(%s)" % (c["tag"], ("K:" + c["suite"]) if c["suite"] in SUITES else "E:" + hx(c["suite"]), "+".join(d_key(k) for k in c["keys"]),
                                          "+".join(d_sparam(p) for p in c["params"])) for c in m["cr"]),
            d_attrs(m["at"])))
    return "S{name=%s;o=%s|%s|%s|%s;t=%d,%d;dir=%s;c=%s;b=[%s];io=[%s];lite=%d;uf=%s;pw=%s;at=[%s];M=[%s]}" % (
        hx(s["name"]), hx(s["o"]["user"]), hx(s["o"]["id"]), hx(s["o"]["ver"]), d_addr(s["o"]["addr"]), s["t"][0], s["t"][1], s["dir"], o(s["c"], d_conn),
        ",".join("%s:%d" % (hx(b[0]), b[1]) for b in s["b"]), ",".join(hx(x) for x in s["io"]), 1 if s["lite"] else 0, o(s["uf"], hx), o(s["pw"], hx),
        d_attrs(s["at"]), " ".join(ms))


def mutate(rng, t):
    b = bytearray(t.encode())
    for _ in range(rng.randrange(1, 4)):
        if not b:
            b = bytearray(b"v=0\r\n")
        pos = rng.randrange(len(b))
        op = rng.randrange(7)
        if op == 6:
            b[pos:pos] = rng.choice(["\u00e9", "\u20ac", "\U0001F600", "\u540d"]).encode()      # may still cut an existing character: then NOT-UTF8
        elif op == 0:
            b[pos] = rng.choice(b"0123456789:/ =|^;\r\n-")
        elif op == 1:
            del b[pos:pos + rng.randrange(1, 8)]
        elif op == 2:
            b[pos:pos] = rng.choice([b"2^40", b"2^32", b"2^31", b"|", b"/", b":", b" ", b"\r\n", b"a=", b"99999999999999999999", b"m=", b"inline:", b"\xc3"])
        elif op == 3:
            j = rng.randrange(len(b))
            a, z = min(pos, j), max(pos, j)
            b[a:a] = b[a:z][:30]
        elif op == 4:
            del b[pos:]
        else:
            b[pos] = rng.randrange(256)
    return bytes(b)


_EXP = {}


def gen_cases(rng, tier):
    cases = []
    n_val = 400 if tier == "quick" else 8000
    for i in range(n_val):
        s = g_session(rng)
        cid = "v%d" % i
        _EXP[cid] = dump_of(s)
        cases.append([cid, "c19", "val", text_of(s).encode().hex(), _EXP[cid]])
    # hand-picked texts around the defects the design probe found
    special = [
        "v=0\r\no=- 1 1 IN IP4 1.2.3.4\r\ns=-\r\nt=0 0\r\nm=audio 9 RTP/SAVP 0\r\na=crypto:1 AES_CM_128_HMAC_SHA1_80 inline:abcd|2^40\r\n",
        "v=0\r\no=- 1 1 IN IP4 1.2.3.4\r\ns=-\r\nt=0 0\r\nm=audio 9 RTP/SAVP 0\r\na=crypto:1 AES_CM_128_HMAC_SHA1_80 inline:abcd|2^32|1:4\r\n",
        "v=0\r\no=- 1 1 IN IP4 1.2.3.4\r\ns=-\r\nt=0 0\r\nm=audio 9 RTP/SAVP 0\r\na=crypto:1 AES_CM_128_HMAC_SHA1_80 inline:abcd|2^31\r\n",
        "v=0\r\no=- 1 1 IN IP4 1.2.3.4\r\ns=-\r\nt=0 0\r\nm=audio 9 RTP/SAVPF 0 8\r\n",
        "v=0\r\no=- 1 1 IN IP4 1.2.3.4\r\ns=-\r\nt=0 0\r\na=ice-options:trickle ice2\r\na=ice-lite\r\na=recvonly\r\nm=audio 9 RTP/AVP 0\r\na=candidate:1 1 UDP 1 1.2.3.4 9 typ host\r\na=end-of-candidates\r\n",
    ]
    for i, t in enumerate(special):
        cases.append(["x%d" % i, "c19", "txt", t.encode().hex(), ""])
    # media-type tokens are matched whole: a known type followed by anything but white space is not that type (there is no variant for unknown
    # types, so the description is refused) - also when what follows is the port with the blank in between missing
    k = 0
    for mt in ("audio", "video", "text", "application"):
        for suffix in ("x", "1", "49170", "_", "/9", "-1", "s", "49170/2", ".", "9 9"):
            for rest in (" 9 RTP/AVP 0", " RTP/AVP 0", " 9/2 RTP/SAVP 0 8", ""):
                t = "v=0\r\no=- 1 1 IN IP4 1.2.3.4\r\ns=-\r\nt=0 0\r\nm=%s%s%s\r\n" % (mt, suffix, rest)
                if tier == "quick" and k % 2 and suffix not in ("49170", "1"):
                    k += 1
                    continue
                cases.append(["rej%d" % k, "c19", "txt", t.encode().hex(), ""]); k += 1
    # multi-byte characters at every offset of the first bytes of a line (the type letter, the '=', the first value byte), alone and
    # inside a description: any UTF-8 text gives a description or an error
    k = 0
    good = "v=0\r\no=- 1 1 IN IP4 1.2.3.4\r\ns=-\r\nt=0 0\r\n"
    for ch in ("\u00e9", "\u20ac", "\U0001F600", "\u00a0"):
        for line in ("v=0", "s=-", "a=x", "m=audio 9 RTP/AVP 0", "", "ab", "a", "c=IN IP4 1.2.3.4", "a=candidate:1 1 UDP 1 1.2.3.4 9 typ host"):
            for pos in range(0, min(len(line), 4) + 1):
                l = line[:pos] + ch + line[pos:]
                for t in (l, l + "\r\n", good + l + "\r\n", good + "m=audio 9 RTP/AVP 0\r\n" + l + "\r\n", l + "\r\n" + good, good + l):
                    if tier == "quick" and k % 3 and t != l + "\r\n":
                        k += 1
                        continue
                    cases.append(["u%d" % k, "c19", "txt", t.encode().hex(), ""]); k += 1
    # the candidate attribute on its own (Model/C19c.v): representable candidates, and lines around the edges of the grammar
    k = 0
    def cline(c):
        return t_cand(c)[2:]
    for i in range(150 if tier == "quick" else 3000):
        c = g_cand(rng)
        _CAND_VALID.add("c%d" % k)
        cases.append(["c%d" % k, "c19", "cand", cline(c).encode().hex(), ""]); k += 1
        if i % 3 == 0:
            t = cline(c)
            v = rng.randrange(12)
            if v == 0:
                t = t.replace(" ", "  ", 1 + rng.randrange(3))
            elif v == 1:
                t = t.replace(" ", "\t", 2)
            elif v == 2:
                t = t.replace(" typ ", " typ", 1)
            elif v == 3:
                t = t + " danglingkey"
            elif v == 4:
                t = t + " rport +5"
            elif v == 5:
                t = t + " rport " + rng.choice(["65535", "65536", "x", "-1", "00080"])
            elif v == 6:
                t = t + " raddr 192.0.2.9|x rport 9"
            elif v == 7:
                t = t + " raddr a.example raddr b.example rport 1 rport 2"
            elif v == 8:
                t = "candidate:" + "A" * rng.choice([31, 32, 33, 40]) + t[t.index(" "):]
            elif v == 9:
                p = t.split(" ")
                p[rng.choice([1, 3, 5])] = rng.choice(["4294967295", "4294967296", "18446744073709551615", "18446744073709551616", "65535", "65536", "007", ""])
                t = " ".join(p)
            elif v == 10:
                t = t.replace("candidate:", rng.choice(["candidate: ", "Candidate:", "candidate", "candidate:+/"]), 1)
            else:
                t = t[:rng.randrange(len(t))]
            cases.append(["c%d" % k, "c19", "cand", t.encode().hex(), ""]); k += 1
    # mutated and random texts: no panic, and whatever parses must survive print -> parse
    base = [text_of(g_session(rng)) for _ in range(40)]
    for i in range(600 if tier == "quick" else 20000):
        if rng.random() < 0.85:
            t = mutate(rng, rng.choice(base))
        else:
            t = bytes(rng.choice(b"vostcbma=:/ 0123456789\r\nIN P46^|x") for _ in range(rng.randrange(0, 80)))
        cases.append(["f%d" % i, "c19", "txt", t.hex(), ""])
    return cases


_CAND_VALID = set()


def _cand_wf(dump):
    """is the dumped candidate inside the domain the property speaks of: non-empty tokens, no empty address"""
    f = dump.split("|")
    if len(f) < 10:
        return False
    def tok(h):
        return h not in ("''", "") and not any(c in bytes.fromhex(h) for c in b" \t\n\x0c\r")
    def addr(a):
        return a.startswith("U:") or (a.startswith("F:") and a[2:] not in ("''", ""))
    if not (tok(f[0]) and tok(f[2]) and addr(f[4]) and tok(f[6])):
        return False
    if f[7] != "-" and not addr(f[7]):
        return False
    for kv in [x for x in f[9].strip("()").split("+") if x]:
        k, _, v = kv.partition("=")
        if not (tok(k) and tok(v)) or bytes.fromhex(k) in (b"raddr", b"rport"):
            return False
    return True


def _cand_norm(s):
    """addresses as the text that stands in the line (the model's view): U:<ip text> / F:<hex> -> hex of the text"""
    def fix(m):
        return m.group(1) + m.group(2).encode().hex()
    s = re.sub(r"(\||^C=|C2=)U:([0-9A-Fa-f:.]+)", lambda m: m.group(1) + m.group(2).encode().hex(), s)
    s = re.sub(r"(\||^C=|C2=)F:", lambda m: m.group(1), s)
    return s


def oracle(case, impl):
    out = []
    if "PANIC" in impl:
        return ["panic while parsing SDP: " + impl[-300:]]
    if case[2] == "cand":
        m = re.match(r"C=(\S+)(?:\tT=(\S*)\tC2=(\S+))?", impl)
        if not m:
            return ["no observation: " + impl[:200]]
        if m.group(1) == "ERR":
            if case[0] in _CAND_VALID:
                return ["a candidate written from a representable value is rejected by the parser"]
            return []
        if _cand_wf(m.group(1)) and m.group(3) != m.group(1):
            return ["candidate %s prints as %r which reads back as %s" % (m.group(1), bytes.fromhex(m.group(2)).decode("utf-8", "replace"), m.group(3))]
        return []
    if case[2] == "val":
        if impl in ("ERR", "NOT-UTF8"):
            return ["a description written in canonical SDP is rejected by the parser"]
        m = re.match(r"D1=(.*)\tT2=(\S*)\tD2=(.*)\tSH=", impl)
        if not m:
            return ["no observation: " + impl[:200]]
        d1, t2, d2 = m.groups()
        if d1 != case[4]:
            out.append("parsed description differs from the one written: " + _first_diff(case[4], d1))
        elif d2 != d1:
            out.append("print -> parse does not give back the description: " + _first_diff(d1, d2) + "  printed: " + repr(bytes.fromhex(t2).decode("utf-8", "replace"))[:300])
    elif case[0].startswith("rej"):
        line = next((l for l in bytes.fromhex(case[3]).decode("utf-8", "replace").split("\r\n") if l.startswith("m=")), "")
        tok = line[2:].split(" ")[0]
        if line and tok not in ("audio", "video", "text", "application") and not (impl.startswith("ERR") or impl == "NOT-UTF8"):
            out.append("%r was accepted: the media type is matched by prefix, the rest of the token was read as something else" % line)
    else:
        # arbitrary text: the property demands a description or an error, never a panic (checked above).  Whether an
        # accepted text survives print -> parse is NOT demanded: the parser accepts values outside the field grammar
        # (e.g. "raddr |x" yields an empty host name) that have no faithful text form; see DESIGN.md (false alarm corrected)
        pass
    return out


def _first_diff(a, b):
    i = 0
    while i < min(len(a), len(b)) and a[i] == b[i]:
        i += 1
    return "expected ...%s, got ...%s" % (a[max(0, i - 30):i + 50], b[max(0, i - 30):i + 50])


def normalize_impl(case, s):
    s = s.split("\tPANIC")[0]
    if case[2] == "cand":
        return _cand_norm(s)
    m = re.search(r"\tSH=(.*)$", s)
    t2 = re.search(r"\tT2=(\S*)", s)
    return (m.group(1) if m else s) + ("\tT2=" + t2.group(1) if t2 else "")


def accepts(case, impl, model):
    """model: shape of its own parse, and its own print of that (as hex); compared when the implementation parsed the text"""
    if case[2] == "cand":
        # the candidate grammar is modelled in full: same verdict, same fields, same printed bytes, same second parse
        return impl == "NOT-UTF8" or impl == model.strip()
    if not impl.startswith("S{"):
        return True        # rejected by a field parser the model abstracts (or not UTF-8)
    ishape, _, it2 = impl.partition("\tT2=")
    mshape, _, mt2 = model.partition("\tT2=")
    if ishape != mshape:
        return False
    if case[2] == "val":
        # canonical field payloads: the model's printer (same line order, payloads verbatim) must produce the implementation's bytes
        return it2 == mt2.split("\t")[0]
    return True


def nontrivial(case, impl):
    return case[3] if impl.startswith("D1=") else None


def distribution(cases, impl):
    c = collections.Counter()
    for x in cases:
        c[x[2]] += 1
        o_ = impl.get(x[0], "") if isinstance(impl, dict) else ""
        c["outcome:" + ("parsed" if o_.startswith("D1=") else o_.split(" ")[0][:12])] += 1
    return dict(c)


def shrink_candidates(case):
    t = bytes.fromhex(case[3])
    lines = t.split(b"\r\n")
    out = []
    if case[2] == "txt":
        for i in range(len(lines)):
            out.append([case[0], case[1], "txt", b"\r\n".join(lines[:i] + lines[i + 1:]).hex(), ""])
    return out
