"""C20 -- STUN codec agrees with RFC 8489; demultiplexing and client retries are sound."""
import collections
import hashlib
import hmac as _hmac
import ipaddress
import re
import struct
import zlib

ID = "C20"
COQ_PROOF_TARGETS = ["Props/C20.vo"]
COQ_MODEL_TARGETS = ["Extract/ExC20.vo"]
CLAIM_TEXT = ("Theorems (coq/Props/C20.v, no axioms) over a byte-level model of MessageBuilder, ParsedMessage::parse/get_attr, the address, "
              "integrity (HMAC as a section variable) and fingerprint (CRC-32 computed bitwise) attributes and is_stun_message: the builder in "
              "RFC length mode equals the one-pass RFC 8489 encoder for every attribute list (C20_builder_is_rfc); parsing the encoding "
              "of any attribute list returns the same header and the same (type, value) sequence (C20_parse_encode); address encoding is an "
              "involution for every address, port and transaction id, IPv4 and IPv6 (C20_addr_roundtrip); integrity and fingerprint "
              "attributes written by the builder verify, and verification is equality with the HMAC / CRC of the prefix with the patched "
              "length (C20_integrity_verifies, C20_fingerprint_verifies, *_functional); the parser is total (C20_parse_total); a message "
              "classified as STUN is rejected by the SIP datagram parser and vice versa (C20_demux); the client sends at 0, .5, 1.5, 3.5, 7.5, "
              "15.5, 31.5 s and gives up at 63.5 s (C20_client_schedule). Correspondence: builder bytes vs extracted model vs an independent "
              "Python RFC 8489 encoder (struct/hmac/zlib); reference-encoded messages through the real parser; every single-bit corruption "
              "of sample messages; arbitrary bytes; SIP corpus through is_stun_message; client loss patterns under the paused clock.")
CLAIM_NOTE = ("Trusted: Coq kernel; hand-written model Model/C20.v; HMAC-SHA1/SHA256 are abstract in the model (the harness uses the real ones, the "
              "oracle Python's hmac); tamper detection is a property of HMAC/CRC and is tested, not proved. Known finding F20f: a "
              "variable-length value that ends in 0x00 and whose length is a multiple of 4 is indistinguishable from a padded shorter value "
              "once padding-in-length agents are accepted.")
TRUSTED = [
    "Coq 8.16.1 kernel; no axioms",
    "hand-written model coq/Model/C20.v (HMAC as a section variable); Gen/Tables.v STUN constants regenerated from stun-types by tools/translate_tables.py",
    "extraction (ExtrOcamlBasic only) + ocaml/util.ml + ocaml/c20_driver.ml",
    "Rust harness harness/src/c20.rs; Python reference encoder/decoder in tools/props/c20.py (struct, hmac, hashlib, zlib)",
]
ASSUMPTIONS = [
    "HMAC-SHA1 / HMAC-SHA256 are functions of (key, message) (abstract in the model)",
    "the paused tokio clock orders timeouts as the model's schedule does",
]
RULE = ("attribute lists over every attribute type x address classes (incl. those whose XORed or plain encoding ends in 00 bytes) x ports "
        "0/1/255/256/65535 x transaction ids (0, all-ones, random) x strings/bytes of every length mod 4 incl. values ending in NUL x "
        "classes x both length modes; all single-bit corruptions of 3 sample messages; random and mutated byte strings; SIP corpus; "
        "client response/loss instants around every retransmission edge")
PARTIAL = ["tamper detection (single-bit corruptions are rejected) is tested, not proved: it is a property of HMAC/CRC"]

COOKIE = 0x2112A442
TYPES = {"MA": 0x0001, "UN": 0x0006, "MI": 0x0008, "EC": 0x0009, "UA": 0x000A, "CN": 0x000C, "LT": 0x000D, "XP": 0x0012, "DA": 0x0013, "RE": 0x0014,
         "NO": 0x0015, "XR": 0x0016, "EP": 0x0018, "RT": 0x0019, "DF": 0x001A, "MS": 0x001C, "PA": 0x001D, "UH": 0x001E, "XM": 0x0020, "RV": 0x0022,
         "PS": 0x8002, "AD": 0x8003, "SW": 0x8022, "AS": 0x8023, "FP": 0x8028}
CLASSBITS = {"req": 0x000, "ind": 0x010, "ok": 0x100, "err": 0x110}


# ---------------------------------------------------------------- independent RFC 8489 encoder
def _pad(n):
    return (4 - n % 4) % 4


def _addr(arg, xor, tsx):
    host, _, port = arg.rpartition(":")
    ip = ipaddress.ip_address(host.strip("[]"))
    port = int(port)
    if xor:
        port ^= COOKIE >> 16
    if ip.version == 4:
        v = int(ip) ^ (COOKIE if xor else 0)
        return struct.pack(">BBHI", 0, 1, port, v)
    v = int(ip) ^ (((COOKIE << 96) | tsx) if xor else 0)
    return struct.pack(">BBH", 0, 2, port) + v.to_bytes(16, "big")


def _value(code, arg, tsx):
    if code in ("SW", "UN", "RE", "NO", "AD", "DA", "UH", "RV"):
        return bytes.fromhex(arg)
    if code in ("MA", "AS"):
        return _addr(arg, False, tsx)
    if code in ("XM", "XP", "XR"):
        return _addr(arg, True, tsx)
    if code == "EC":
        num, _, reason = arg.partition(":")
        num = int(num)
        return struct.pack(">I", ((num // 100) << 8) | (num % 100)) + bytes.fromhex(reason)
    if code == "UA":
        return b"".join(struct.pack(">H", int(x)) for x in arg.split(",") if x)
    if code == "PA":
        alg, _, params = arg.partition(":")
        p = bytes.fromhex(params)
        return struct.pack(">HH", int(alg), len(p)) + p + b"\0" * _pad(len(p))
    if code == "PS":
        out = b""
        for e in [x for x in arg.split(";") if x]:
            alg, _, params = e.partition(":")
            p = bytes.fromhex(params)
            out += struct.pack(">HH", int(alg), len(p)) + p + b"\0" * _pad(len(p))
        return out
    if code == "CN":
        return struct.pack(">HH", int(arg), 0)
    if code == "LT":
        return struct.pack(">I", int(arg))
    if code == "EP":
        # EVEN-PORT is a TURN attribute (RFC 5766 14.6 puts the R flag in the top bit); RFC 8489 does not define it and the
        # builder writes 0x01 -- outside this property, noted in DESIGN.md; encoded here the way ezk does so that it can take part in lists
        return bytes([1 if arg == "1" else 0])
    if code == "RT":
        return struct.pack(">BBH", int(arg), 0, 0)
    if code == "DF":
        return b""
    raise ValueError(code)


def rfc_encode(cls, tsx, attrs, pad_in_len=False):
    """RFC 8489 sec. 5/14: header, TLVs padded to 4, integrity over the prefix with the length covering the integrity attribute"""
    typ = 0x0001 | CLASSBITS[cls]
    body = b""

    def head(n):
        return struct.pack(">HHI", typ, n, COOKIE) + tsx.to_bytes(12, "big")

    for a in attrs:
        code, _, arg = a.partition(":")
        if code in ("MI", "MS"):
            n = 20 if code == "MI" else 32
            prefix = head(len(body) + 4 + n) + body
            v = _hmac.new(bytes.fromhex(arg), prefix, hashlib.sha1 if code == "MI" else hashlib.sha256).digest()
        elif code == "FP":
            prefix = head(len(body) + 8) + body
            v = struct.pack(">I", (zlib.crc32(prefix) & 0xffffffff) ^ 0x5354554e)
        else:
            v = _value(code, arg, tsx)
        ln = len(v) + (_pad(len(v)) if pad_in_len else 0)
        body += struct.pack(">HH", TYPES[code], ln) + v + b"\0" * _pad(len(v))
    return head(len(body)) + body


def expected_decode(cls, tsx, attrs):
    """what decoding must return for the first occurrence of each queried attribute"""
    out = ["H:%s:%024x:%d" % (cls, tsx, len(attrs))]
    seen = set()
    after_integrity = False
    hidden = False
    vals = {}
    for a in attrs:
        code, _, arg = a.partition(":")
        if after_integrity and code not in ("MS", "FP"):
            hidden = True
        if code not in vals and not hidden:
            vals[code] = arg
        if code in ("MI", "MS"):
            after_integrity = True
    for a in attrs:
        code, _, arg = a.partition(":")
        if code in seen:
            continue
        seen.add(code)
        if code not in vals:
            out.append("%s=NONE" % code)
            continue
        arg = vals[code]
        if code in ("MI", "MS", "FP"):
            out.append("%s=verified" % code)
        elif code in ("MA", "AS", "XM", "XP", "XR"):
            host, _, port = arg.rpartition(":")
            ip = ipaddress.ip_address(host.strip("[]"))
            out.append("%s=%s" % (code, ("%s:%s" % (ip, port)) if ip.version == 4 else "[%s]:%s" % (ip, port)))
        elif code == "EC":
            num, _, reason = arg.partition(":")
            out.append("EC=%d:%s" % (int(num), reason))
        elif code == "PA":
            out.append("PA=%s" % arg)
        elif code == "DF":
            out.append("DF=present")
        elif code == "EP":
            # the builder writes 0x01 for true where RFC 5766 sets the top bit; decode reads == 1: only the builder's own output round-trips
            out.append("EP=%s" % arg)
        else:
            out.append("%s=%s" % (code, arg))
    return " ".join(out)


# ---------------------------------------------------------------- generators
ADDRS4 = ["192.0.2.66", "10.0.0.0", "0.0.0.0", "255.255.255.255", "33.18.164.66", "33.18.164.0", "33.18.0.0", "127.0.0.1", "1.2.3.0", "100.64.0.0", "198.51.100.7"]
ADDRS6 = ["::", "::1", "2001:db8::1", "2001:db8::", "ffff:ffff:ffff:ffff:ffff:ffff:ffff:ffff", "2112:a442:102:304:506:708:90a:b0c", "2112:a442:102:304:506:708:90a:b00", "fe80::1:0:0",
          # IPv4-mapped, NAT64 and IPv4-compatible addresses: family 2 stays family 2
          "::ffff:c000:207", "::ffff:0:0", "::ffff:ffff:ffff", "64:ff9b::c000:221", "::c000:201"]
PORTS = [0, 1, 255, 256, 3478, 8466, 8448, 65535]       # 8466 = 0x2112 (XORs to 0), 8448 = 0x2100
TSX = [0, (1 << 96) - 1, 0x0102030405060708090a0b0c, 0x0102030405060708090a0b00, 0x010203040506070800000000]


def _rand_attr(rng):
    kind = rng.choice(["SW", "UN", "RE", "NO", "AD", "DA", "MA", "XM", "AS", "XP", "XR", "EC", "UA", "UH", "PA", "PS", "CN", "LT", "EP", "RT", "DF", "RV"])
    if kind in ("SW", "UN", "RE"):
        n = rng.randrange(0, 13)
        s = "".join(rng.choice("abcxyz019-_ äß€") for _ in range(n)).encode()
        return "%s:%s" % (kind, s.hex())
    if kind in ("NO", "AD", "DA"):
        n = rng.randrange(0, 13)
        b = bytes(rng.choice([0, 1, 0x41, 0xff, 0x80]) for _ in range(n))
        return "%s:%s" % (kind, b.hex())
    if kind in ("MA", "XM", "AS", "XP", "XR"):
        if rng.random() < 0.6:
            return "%s:%s:%d" % (kind, rng.choice(ADDRS4), rng.choice(PORTS))
        return "%s:[%s]:%d" % (kind, rng.choice(ADDRS6), rng.choice(PORTS))
    if kind == "EC":
        num = rng.choice([300, 400, 401, 420, 438, 500, 600, 699, 487, 100])
        reason = rng.choice([b"", b"Bad Request", b"Unauthorized", "Fehler ä".encode(), b"abc", b"abcd"])
        return "EC:%d:%s" % (num, reason.hex())
    if kind == "UA":
        return "UA:" + ",".join(str(rng.choice([1, 0x8022, 0x8000, 0x7f00, 0xffff, 0x0100])) for _ in range(rng.randrange(1, 4)))
    if kind == "UH":
        b = bytes(rng.randrange(256) for _ in range(32))
        if rng.random() < 0.3:
            b = b[:30] + b"\0\0"
        return "UH:" + b.hex()
    if kind == "PA":
        return "PA:%d:%s" % (rng.choice([1, 2]), bytes(rng.randrange(256) for _ in range(rng.randrange(0, 7))).hex())
    if kind == "PS":
        return "PS:" + ";".join("%d:%s" % (rng.choice([1, 2]), bytes(rng.choice([0, 7, 255]) for _ in range(rng.randrange(0, 6))).hex()) for _ in range(rng.randrange(1, 4)))
    if kind == "CN":
        return "CN:%d" % rng.choice([0x4000, 0x4001, 0x7ffe, 0x4100, 0])
    if kind == "LT":
        return "LT:%d" % rng.choice([0, 1, 256, 600, 65536, 3600, 4294967295, 16777216])
    if kind == "EP":
        return "EP:%d" % rng.randrange(2)
    if kind == "RT":
        return "RT:%d" % rng.choice([17, 6, 0, 255])
    if kind == "DF":
        return "DF"
    return "RV:" + bytes(rng.choice([0, 1, 255]) for _ in range(8)).hex()


def _dedupe(attrs):
    seen, out = set(), []
    for a in attrs:
        c = a.split(":")[0]
        if c in seen:
            continue
        seen.add(c); out.append(a)
    return out


def gen_cases(rng, tier):
    cases = []
    n = 0
    # address grid: every attribute kind x address x port x tsx (exhaustive over the lists in thorough, sampled in quick)
    grid = []
    for kind in ("MA", "XM", "AS", "XP", "XR"):
        for ip in ADDRS4 + ["[%s]" % a for a in ADDRS6]:
            for port in PORTS:
                for tsx in TSX:
                    grid.append((kind, ip, port, tsx))
    if tier == "quick":
        grid = rng.sample(grid, 400)
    for kind, ip, port, tsx in grid:
        attrs = ["%s:%s:%d" % (kind, ip, port)]
        cases.append(["a%d" % n, "c20", "enc", "rfc", rng.choice(["ok", "req", "ind", "err"]), "%024x" % tsx, "|".join(attrs)]); n += 1
    # strings of every length mod 4, incl. values ending in NUL, both modes
    for mode in ("rfc", "pad"):
        for ln in range(0, 10):
            for kind in ("SW", "NO", "UN", "DA"):
                v = (b"abcdefghij"[:ln])
                cases.append(["s%d" % n, "c20", "enc", mode, "req", "%024x" % TSX[2], "%s:%s" % (kind, v.hex())]); n += 1
        for v in (b"ab\0\0", b"\0\0\0\0", b"abc\0", b"\0", b"a\0"):
            cases.append(["z%d" % n, "c20", "enc", mode, "req", "%024x" % TSX[2], "NO:%s" % v.hex()]); n += 1
    # random attribute lists with integrity / fingerprint tails
    for i in range(300 if tier == "quick" else 6000):
        attrs = _dedupe([_rand_attr(rng) for _ in range(rng.randrange(0, 6))])
        tail = rng.random()
        key = bytes(rng.randrange(256) for _ in range(rng.choice([1, 16, 20, 64, 65]))).hex()
        if tail < 0.25:
            attrs.append("MI:" + key)
        elif tail < 0.4:
            attrs += ["MI:" + key, "FP"]
        elif tail < 0.5:
            attrs += ["MI:" + key, "MS:" + key, "FP"]
        elif tail < 0.6:
            attrs.append("MS:" + key)
        elif tail < 0.75:
            attrs.append("FP")
        elif tail < 0.8:
            attrs += ["MI:" + key, _rand_attr(rng)]          # an attribute after integrity is ignored
            attrs = _dedupe(attrs)
        cases.append(["r%d" % i, "c20", "enc", rng.choice(["rfc", "rfc", "pad"]), rng.choice(["ok", "req", "ind", "err"]), "%024x" % rng.choice(TSX + [rng.getrandbits(96)]), "|".join(attrs)])
    # reference-encoded messages through the real decoder
    for i in range(300 if tier == "quick" else 6000):
        attrs = _dedupe([_rand_attr(rng) for _ in range(rng.randrange(1, 6))])
        key = bytes(rng.randrange(256) for _ in range(16)).hex()
        if rng.random() < 0.5:
            attrs += rng.choice([["MI:" + key], ["MI:" + key, "FP"], ["FP"], ["MS:" + key, "FP"]])
        cls = rng.choice(["ok", "req", "ind", "err"])
        tsx = rng.choice(TSX + [rng.getrandbits(96)])
        msg = rfc_encode(cls, tsx, attrs)
        q = "|".join(a if a[:2] in ("MI", "MS") else a.split(":")[0] for a in attrs)
        cases.append(["d%d" % i, "c20", "dec", msg.hex(), q, cls, "%024x" % tsx, "|".join(attrs)])
    # order of checks on ONE parsed message: a check must accept exactly the untampered message whatever was
    # checked before (wrong key first, fingerprint before/after integrity, repeated checks)
    for i in range(80 if tier == "quick" else 1500):
        attrs = _dedupe([_rand_attr(rng) for _ in range(rng.randrange(0, 4))])
        key = bytes(rng.randrange(256) for _ in range(rng.choice([1, 16, 20, 64]))).hex()
        wrong = bytes(rng.randrange(256) for _ in range(rng.choice([1, 16, 20]))).hex()
        tailk = rng.choice([["MI:" + key, "FP"], ["MS:" + key, "FP"], ["MI:" + key, "MS:" + key, "FP"], ["MI:" + key], ["MI:" + key, "MS:" + key]])
        attrs = [a for a in attrs if a[:2] not in ("MI", "MS", "FP")] + tailk
        cls = rng.choice(["ok", "req", "ind", "err"])
        tsx = rng.choice(TSX + [rng.getrandbits(96)])
        msg = rfc_encode(cls, tsx, attrs)
        checks = []
        for a in tailk:
            checks.append(a)
            if a != "FP":
                checks.append(a[:3] + wrong)
        seq = [rng.choice(checks) for _ in range(rng.randrange(2, 7))]
        if i % 2 == 0:
            seq = [c for c in checks if c.endswith(wrong)][:1] + ["FP"] + seq      # the failing check first
        plain = [a.split(":")[0] for a in attrs if a[:2] not in ("MI", "MS", "FP")]
        cases.append(["q%d" % i, "c20", "dec", msg.hex(), "|".join(seq + plain[:2] + seq[:2]), "seq", key, "|".join(attrs)])
    # tampering: every single-bit corruption of sample messages must not verify
    key = "00112233445566778899aabbccddeeff"
    samples = [("ok", TSX[2], ["SW:" + b"ezk".hex(), "XM:192.0.2.66:32853", "MI:" + key, "FP"]),
               ("req", TSX[0], ["UN:" + b"user".hex(), "MS:" + key, "FP"]),
               ("err", TSX[1], ["EC:401:" + b"Unauthorized".hex(), "RE:" + b"example.org".hex(), "NO:" + b"nonce".hex(), "FP"])]
    for si, (cls, tsx, attrs) in enumerate(samples):
        msg = bytearray(rfc_encode(cls, tsx, attrs))
        q = "|".join(a if a[:2] in ("MI", "MS") else a.split(":")[0] for a in attrs)
        bits = range(len(msg) * 8)
        if tier == "quick":
            bits = rng.sample(list(bits), 150)
        for b in bits:
            m2 = bytearray(msg)
            m2[b // 8] ^= 1 << (b % 8)
            cases.append(["t%d-%d" % (si, b), "c20", "dec", bytes(m2).hex(), q, "tamper", str(b), "|".join(attrs)])
    # an integrity attribute whose value is SHORTER than the digest (empty, or a prefix of the right HMAC computed for the length the
    # verifier patches in) is not a valid integrity value: the message must not verify
    k = 0
    for code, alg, full in (("MI", hashlib.sha1, 20), ("MS", hashlib.sha256, 32)):
        for cls, tsx, pre in (("ok", TSX[2], ["SW:" + b"ezk".hex(), "XM:192.0.2.66:32853"]), ("req", TSX[0], ["UN:" + b"user".hex()]), ("ind", TSX[1], [])):
            for ln in (0, 4, 8, 16, full - 4):
                body = rfc_encode(cls, tsx, pre)[20:]
                typ = 0x0001 | CLASSBITS[cls]
                head = lambda n: struct.pack(">HHI", typ, n, COOKIE) + tsx.to_bytes(12, "big")
                v = _hmac.new(bytes.fromhex(key), head(len(body) + 4 + ln) + body, alg).digest()[:ln]
                m = head(len(body) + 4 + ln) + body + struct.pack(">HH", TYPES[code], ln) + v
                attrs = pre + ["%s:%s" % (code, key)]
                q = "|".join(a if a[:2] in ("MI", "MS") else a.split(":")[0] for a in attrs)
                cases.append(["ts%d" % k, "c20", "dec", m.hex(), q, "tamper", "-1", "|".join(attrs)]); k += 1
    # arbitrary / mutated bytes into the parser
    base = rfc_encode("ok", TSX[2], samples[0][2])
    allq = "|".join(sorted(TYPES) + [])
    allq = allq.replace("MI", "MI:" + key).replace("MS", "MS:" + key)
    for i in range(300 if tier == "quick" else 8000):
        if rng.random() < 0.6:
            m = bytearray(base)
            for _ in range(rng.randrange(1, 5)):
                op = rng.randrange(4)
                pos = rng.randrange(len(m))
                if op == 0:
                    m[pos] = rng.randrange(256)
                elif op == 1:
                    del m[pos:pos + rng.randrange(1, 5)]
                elif op == 2:
                    m[pos:pos] = bytes(rng.randrange(256) for _ in range(rng.randrange(1, 5)))
                else:
                    m[2:4] = struct.pack(">H", rng.choice([0, 4, 8, len(m) - 20, len(m), 65535, 65532]))
                if not m:
                    m = bytearray(b"\0")
            m = bytes(m)
        else:
            m = bytes(rng.randrange(256) for _ in range(rng.randrange(0, 64)))
            if rng.random() < 0.5 and len(m) >= 8:
                m = bytes([m[0] & 0x3f]) + m[1:4] + struct.pack(">I", COOKIE) + m[8:]
        cases.append(["x%d" % i, "c20", "dec", m.hex(), allq, "fuzz", "", ""])
    # demultiplexing: SIP text must never be STUN, STUN never SIP
    sip = [b"OPTIONS sip:a@b SIP/2.0\r\nVia: SIP/2.0/UDP h;branch=z9hG4bK1\r\nl: 0\r\n\r\n", b"SIP/2.0 200 OK\r\nVia: SIP/2.0/UDP h\r\n\r\n",
           b"INVITE sip:\x21\x12@h SIP/2.0\r\n\r\n", b"\r\n\r\n", b"\r\n", b"ACK sip:x SIP/2.0\r\n\r\n", b"A a SIP/2.0\r\n\r\n", b"REGISTER sip:example.org SIP/2.0\r\nVia: SIP/2.0/UDP h\r\n\r\n"]
    for m in "INVITE ACK BYE CANCEL OPTIONS REGISTER PRACK UPDATE INFO MESSAGE SUBSCRIBE NOTIFY REFER PUBLISH".split():
        sip.append(("%s sip:user@example.org SIP/2.0\r\nVia: SIP/2.0/UDP 10.0.0.1;branch=z9hG4bKx\r\nCSeq: 1 %s\r\n\r\n" % (m, m)).encode())
    for i, s in enumerate(sip):
        cases.append(["ms%d" % i, "c20", "demux", s.hex(), "sip"])
    for i, (cls, tsx, attrs) in enumerate(samples):
        m = rfc_encode(cls, tsx, attrs)
        cases.append(["mt%d" % i, "c20", "demux", m.hex(), "stun"])
        cases.append(["mu%d" % i, "c20", "demux", (m + b"trailing").hex(), "stun"])
        cases.append(["mv%d" % i, "c20", "demux", m[:-3].hex(), "stun-incomplete"])
    # a message that is nothing but its 20-byte header (a plain Binding request or indication as used for keep-alives, RFC 8489 sec. 5 /
    # RFC 5626) is a complete STUN message; one byte less is not a header yet
    k = 0
    for cls in CLASSBITS:
        for tsx in TSX[:3]:
            m = rfc_encode(cls, tsx, [])
            cases.append(["mh%d" % k, "c20", "demux", m.hex(), "stun"]); k += 1
            cases.append(["mh%d" % k, "c20", "demux", (m + b"xy").hex(), "stun"]); k += 1
            cases.append(["mh%d" % k, "c20", "demux", m[:19].hex(), "stun-short"]); k += 1
    # client: response / loss patterns around every retransmission edge
    edges = [0, 500, 1500, 3500, 7500, 15500, 31500, 63500]
    k = 0
    cases.append(["c%d" % k, "c20", "cli", "0", "-", "-"]); k += 1
    for e in edges:
        for d in (-1, 1, 250):
            t = e + d
            if 0 <= t:
                cases.append(["c%d" % k, "c20", "cli", "0", str(t), "-"]); k += 1
                cases.append(["c%d" % k, "c20", "cli", "0", str(t), str(max(1, t - 300))]); k += 1
                # an error response (401, 420, 438 ...) carries the transaction id too and completes the request
                cases.append(["c%d" % k, "c20", "cli", "0", str(t), "-", "-", "err"]); k += 1
    cases.append(["c%d" % k, "c20", "cli", "0", "-", "700"]); k += 1
    # every other way a call can end: the transport refuses a (re)transmission, the caller gives up waiting (drops the call)
    for resp in ("-", "100", "1700", "40000"):
        for mode in ("senderr:0", "senderr:1", "senderr:3", "abandon:1", "abandon:600", "abandon:3000", "abandon:62000"):
            cases.append(["c%d" % k, "c20", "cli", "0", resp, "-", mode]); k += 1
    # a transport whose send future yields: the response (the server is fast, or runs on another thread) arrives while the first
    # transmission is still being handed over, or any time after it
    k = 0
    for linger in (1, 20, 400, 499, 700):
        for resp in sorted({0, 1, linger // 2, linger - 1, linger + 1, linger + 300} - {linger}):
            if resp >= 0:
                cases.append(["cl%d" % k, "c20", "cli", "0", str(resp), "-", "linger:%d" % linger]); k += 1
                cases.append(["cl%d" % k, "c20", "cli", "0", str(resp), "-", "linger:%d" % linger, "err"]); k += 1
    return cases


# ---------------------------------------------------------------- oracle
SCHEDULE = [0, 500, 1500, 3500, 7500, 15500, 31500]
GIVE_UP = 63500


def oracle(case, impl):
    out = []
    if "PANIC" in impl:
        return ["panic: " + impl[-300:]]
    kind = case[2]
    if kind == "enc":
        mode, cls, tsx, attrs = case[3], case[4], int(case[5], 16), [a for a in case[6].split("|") if a]
        m = re.match(r"B=(\S+)\tP=(.*)$", impl)
        if not m:
            return ["builder failed: " + impl[:200]]
        built = m.group(1)
        if mode == "rfc":
            want = rfc_encode(cls, tsx, attrs).hex()
            if built != want:
                out.append("builder output differs from the RFC 8489 encoding: built %s, RFC %s" % (built, want))
        exp = expected_decode(cls, tsx, attrs)
        # IPv6 text forms differ between printers (::ffff:c000:207 / ::ffff:192.0.2.7): compare the 128-bit value and the family
        canon = lambda t: re.sub(r"=\[([0-9a-fA-F:.]+)\]:(\d+)", _v6, t)
        if canon(m.group(2)) != canon(exp):
            pre = "trailing-zero-variable-length: " if _known_ambiguous(attrs) else ""
            out.append(pre + "built message does not parse back to the same values: got [%s], expected [%s]" % (m.group(2), exp))
    elif kind == "dec":
        got = impl[2:] if impl.startswith("P=") else impl
        if case[5] == "fuzz":
            return out
        attrs = [a for a in case[7].split("|") if a]
        if case[5] == "seq":
            toks = got.split(" ")[1:]
            qs = [x for x in case[4].split("|") if x]
            present = set(a.split(":")[0] for a in attrs)
            if len(toks) != len(qs):
                return ["malformed observation: %s" % got[:200]]
            for qx, tk in zip(qs, toks):
                code, _, arg = qx.partition(":")
                if code not in ("MI", "MS", "FP"):
                    continue
                val = tk.split("=", 1)[1] if "=" in tk else tk
                want = "NONE" if code not in present else ("verified" if code == "FP" or arg == case[6] else "ERR")
                if val != want:
                    out.append("check sequence [%s] on one untampered message: %s gives %s, expected %s (a check must not depend on the checks made before it)" % (
                        " ".join(x.split(":")[0] + ("(wrong key)" if ":" in x and x.split(":")[1] != case[6] else "") for x in qs), code, val, want))
                    break
        elif case[5] == "tamper":
            # a corrupted message must not be reported as verified by every integrity/fingerprint check it carries
            checks = [a.split(":")[0] for a in attrs if a[:2] in ("MI", "MS", "FP")]
            bit = int(case[6])
            if got != "PARSE-ERROR" and checks:
                ver = [c for c in checks if ("%s=verified" % c) in got]
                # the bit lies inside the region covered by the LAST check unless it is in a later attribute
                if len(ver) == len(checks):
                    out.append("tampered message (%s) passes all of its integrity/fingerprint checks: %s" % ("bit %d flipped" % bit if bit >= 0 else "integrity value cut short", got))
        else:
            cls, tsx = case[5], int(case[6], 16)
            exp = expected_decode(cls, tsx, attrs)
            canon = lambda t: re.sub(r"=\[([0-9a-fA-F:.]+)\]:(\d+)", _v6, t)
            if canon(got) != canon(exp):
                pre = "trailing-zero-variable-length: " if _known_ambiguous(attrs) else ""
                out.append(pre + "RFC 8489 encoded message does not decode to the original values: got [%s], expected [%s]" % (got, exp))
    elif kind == "demux":
        cls, p = impl.split()[:2]
        if case[4] == "sip":
            if cls.startswith("Yes") or cls.startswith("Incomplete") or p == "Stun":
                out.append("SIP text classified as STUN: %s" % impl)
        else:
            if p == "Sip":
                out.append("STUN message parsed as SIP: %s" % impl)
            if case[4] == "stun" and not cls.startswith("Yes"):
                out.append("STUN message not recognised: %s" % impl)
            if case[4] == "stun-incomplete" and not cls.startswith("Incomplete"):
                out.append("truncated STUN message not recognised as incomplete: %s" % impl)
    elif kind == "cli":
        m = re.match(r"sends=(\S*) result=(\S+)@(\d+) pending=(\d+)/(\d+) unmatched=(\d+)", impl)
        if not m:
            return ["no observation: " + impl[:200]]
        sends = [int(x) for x in m.group(1).split(",") if x]
        result, done = m.group(2), int(m.group(3))
        resp = int(case[4]) if case[4] != "-" else None
        mode = case[6] if len(case) > 6 else "-"
        if case[3] == "0" and mode in ("-", ""):
            end = resp if resp is not None and resp < GIVE_UP else GIVE_UP
            want = [t for t in SCHEDULE if t < end or (t == end and resp is None)]
            if resp is not None and resp in SCHEDULE:
                want = None          # tie between a response and a retransmission: either order
            if want is not None and sends != want:
                out.append("request sent at %s ms, the doubling 500 ms schedule gives %s" % (sends, want))
            if len(sends) > 7:
                out.append("request sent %d times" % len(sends))
            if resp is not None and resp < GIVE_UP:
                if not result.startswith("response:102030405060708090a0b0c") or done != resp:
                    out.append("response with the matching transaction id at %d ms was not delivered to the caller (result %s@%d)" % (resp, result, done))
            elif resp is None and (result != "timeout" or done != GIVE_UP):
                out.append("no response: expected timeout at %d ms, got %s@%d" % (GIVE_UP, result, done))
        if mode.startswith("linger:"):
            lg = int(mode.split(":")[1])
            if not result.startswith("response:102030405060708090a0b0c"):
                out.append("response with the matching transaction id at %d ms (first send completing at %d ms) was not delivered to the caller (result %s@%d)" % (resp, lg, result, done))
            elif done != max(resp, lg):
                out.append("response at %d ms, first send completing at %d ms: the caller got it at %d ms" % (resp, lg, done))
            if m.group(6) != "0":
                out.append("the response carrying the request's transaction id (at %d ms, first send completing at %d ms) was handed to the application as unmatched" % (resp, lg))
            if resp < lg and sends != [0]:
                out.append("request answered at %d ms was transmitted at %s" % (resp, sends))
        if m.group(4) != "0" or m.group(5) != "0":
            out.append("transaction entry outlives the call: pending=%s/%s" % (m.group(4), m.group(5)))
    return out[:2]


def _known_ambiguous(attrs):
    """variable-length values ending in NUL with a length that is a multiple of 4 (see known finding F20c-var)"""
    for a in attrs:
        code, _, arg = a.partition(":")
        if code in ("SW", "UN", "RE", "NO", "AD", "DA"):
            v = bytes.fromhex(arg)
            if v.endswith(b"\0"):
                return True
        if code == "UA":
            xs = [int(x) for x in arg.split(",") if x]
            if xs and xs[-1] % 256 == 0:
                return True
        if code == "EC":
            num, _, reason = arg.partition(":")
            if bytes.fromhex(reason).endswith(b"\0"):
                return True
    return False


def _v6(m):
    ip = ipaddress.ip_address(m.group(1))
    return "=V6:%032x:%s" % (int(ip), m.group(2))


def normalize_impl(case, s):
    s = s.split("\tPANIC")[0]
    return re.sub(r"=\[([0-9a-fA-F:.]+)\]:(\d+)", _v6, s)


def accepts(case, impl, model):
    kind = case[2]
    if kind in ("enc", "dec"):
        return impl == model       # the driver computes real HMAC-SHA1/SHA256 and the model's CRC-32: byte-exact comparison
    if kind == "demux":
        return impl.split()[0] == model.split()[0]
    if kind == "cli" and len(case) > 6 and case[6] not in ("-", ""):
        return True        # send errors / abandoned calls: the table is what is looked at (oracle)
    if kind == "cli":
        mi = re.match(r"sends=(\S*) result=(\w+)(?::\w+)?@(\d+)", impl)
        mm = re.match(r"sends=(\S*) result=(\w+)@(\d+)", model)
        if case[3] == "1":
            return True
        if case[4] != "-" and int(case[4]) in SCHEDULE + [GIVE_UP]:
            return True
        return bool(mi and mm and mi.groups() == mm.groups())
    return True


def nontrivial(case, impl):
    if case[2] == "enc":
        return case[6] + case[3]
    if case[2] == "dec" and case[5] not in ("fuzz", "seq"):
        return case[3]
    return case[0]


def distribution(cases, impl):
    c = collections.Counter()
    for x in cases:
        c[x[2] + (":" + x[5] if x[2] == "dec" and x[5] in ("fuzz", "tamper") else "")] += 1
        if x[2] == "enc":
            for a in x[6].split("|"):
                if a:
                    c["attr:" + a.split(":")[0]] += 1
    return dict(c)


def known(case, impl, violation, findings):
    for f in findings:
        if f["id"] == "F20f" and violation.startswith("trailing-zero-variable-length"):
            return "F20f"
    return None
