"""C01 -- SIP values survive print -> parse unchanged (URIs, headers, start lines)."""
import collections
import re

ID = "C01"
COQ_PROOF_TARGETS = ["Props/C01.vo"]
COQ_MODEL_TARGETS = ["Extract/ExC01.vo"]
CLAIM_TEXT = ("Theorems (coq/Props/C01.v, no axioms): decode(encode s) = s for EVERY byte string under the three (class, set) pairs the "
              "source derives, and every byte the encoder writes is accepted by the parser's class (C01_escape_*; C01_percent_needed shows "
              "the round trip fails as soon as '%' is kept raw); a token is a well-known method only when it equals the name and every "
              "token prints back (C01_method_exact, C01_method_roundtrip); parameter and header lists over all names and values "
              "round-trip (C01_*_params_roundtrip); the SIP URI printer / parser round-trips for every user, password-class password, "
              "accepted host, port and parameter / header list, and a print context is the printer applied to the Table 1 projection "
              "(C01_uri_roundtrip, C01_context_projection); classes, method names and escaping forms are regenerated from the source "
              "(C01_source_forms); display names of name-addr values: every byte string put between quotes by the printer (quote and backslash "
              "escaped) is read back unchanged by parse_quoted_string whatever follows (C01_display_name_roundtrip; refuted without the escaping); WHOLE MESSAGES (Model/C01m.v): for every start line without CR/LF, every Headers multimap (names = table "
              "rows or unknown tokens, values without CR/LF and leading blank, UTF-8) and every body, the bytes Endpoint::send_outgoing_* writes "
              "parse back - through the PullParser / Line::parse / Content-Length model shared with C03 - to the same start line, the same "
              "Headers value (Content-Length replaced by the body size) and the same body (C01_message_roundtrip), per name the stored ordered "
              "value list (C01_message_values*), header-name equality is equality of a canonical key over the regenerated 61-row name table "
              "(C01_header_name_*). Correspondence: URIs over reserved characters in every position x six print contexts (printed bytes and "
              "parsed fields = the extracted model's, reprint = print), methods +- one character and case flips, From/To/Contact/Route "
              "with display names (quotes, backslashes, blanks, empty) and tags, numeric headers at their bounds, each built through the public "
              "API, printed, parsed by the library and compared field-wise; whole messages (compact and mixed-case spellings, unknown names, "
              "repeated names, an application Content-Length, bodies with CRLFCRLF and header-like text) sent through the real "
              "Endpoint::send_outgoing_request / _response over a mock transport: wire bytes, parsed header list and body = the extracted model's.")
CLAIM_NOTE = ("PARTIAL: Host::parse (names / IPv4 / IPv6 text) is a validity predicate in the model; name-addr beyond the quoted display name (token display names, header parameters), the "
              "typed headers (Via, CSeq, RAck, timers, auth ...) are decided by the differential runs only; header values that begin with white "
              "space are outside the message theorem (the parser strips it, RFC 3261 7.3.1 makes it insignificant); passwords are "
              "restricted to the password character class (they are printed raw, outside what the property names).")
TRUSTED = [
    "Coq 8.16.1 kernel; no axioms",
    "hand-written models coq/Model/C01.v, coq/Model/C01m.v (+ Model/C03.v for the parser side); character classes, method names, the header "
    "name table and the Content-Length replacement form regenerated from the source by tools/translate_tables.py",
    "extraction (ExtrOcamlBasic only) + ocaml/util.ml + ocaml/c01_driver.ml",
    "Rust harness harness/src/c01.rs (values built through the public constructors / fields, field-wise dump)",
]
ASSUMPTIONS = ["Host::parse accepts exactly the host text it prints in front of a port, parameter list, header list or the end (host_ok)"]
RULE = ("URIs: user / parameter names / values over strings with every reserved character ('%', '%41', '@', ':', ';', '?', '&', '=', '\"', "
        "space, 2/3/4-byte UTF-8), hosts as names / IPv4 / IPv6, ports 1/5060/65535, the Table 1 parameter names, all six print "
        "contexts; name-addr headers with display names and tags; every method name +- one character and case flips; numeric "
        "headers at 0 / 1 / max; whole messages with repeated / compact / mixed-case / unknown header names, bodies of 0..340 bytes")
PARTIAL = ["Host::parse, token display names and the typed headers (Via, auth, timers, lists ...): exercised field-wise (print, parse, Debug-equal, reprint), not proved"]

METHODS = ["INVITE", "ACK", "CANCEL", "BYE", "REGISTER", "MESSAGE", "UPDATE", "PRACK", "OPTIONS", "SUBSCRIBE", "NOTIFY", "PUBLISH", "INFO", "REFER"]
CTXS = ["none", "requri", "fromto", "contact", "contactreg", "routing"]
U32 = 2 ** 32 - 1
NASTY = ["a%41b", "%", "%%", "100%", "a@b", "a:b", "a;b", "a?b", "a&b", "a=b", "a b", "a\"b", "a\\b", "a<b>", "a,b", "a/b", "a+b", "a$b", "ü", "名前", "𝄞x", "a\tb",
         "alice", "bob-1_2.3", "!~*'()", "+15551234567", "a#b", "[x]", "a`b", "a^b", "a|b", "{a}"]
HOSTS = ["example.org", "a-b.example.com", "host", "h1.h2.", "192.0.2.1", "10.0.0.1", "0.0.0.0", "255.255.255.255", "[2001:db8::1]", "[::1]", "x1",
         "[::]", "[::ffff:192.0.2.1]", "[::ffff:255.255.255.255]", "[fe80::1:2:3:4]", "[1:2:3:4:5:6:7:8]", "[ff02::fb]", "[2001:db8::a:0:0:1]"]
TABLE1 = ["maddr", "ttl", "transport", "lr", "user", "method"]


def hx(s):
    return "''" if s == "" else s.encode().hex()


def g_params(rng, with_table1, n_max=3):
    out = []
    names = set()
    for _ in range(rng.randrange(0, n_max + 1)):
        if with_table1 and rng.random() < 0.5:
            name = rng.choice(TABLE1)
        else:
            name = rng.choice(NASTY)
        if name in names:
            continue
        names.add(name)
        if name == "lr":
            value = None
        elif name == "ttl":
            value = str(rng.choice([1, 255]))
        elif name == "maddr":
            value = rng.choice(["192.0.2.9", "example.net"])
        elif name == "transport":
            value = rng.choice(["udp", "tcp", "tls"])
        else:
            value = rng.choice([None, "", "v"] + NASTY)
        out.append((name, value))
    return out


def g_uri(rng):
    user = rng.choice([None, None] + NASTY)
    pw = rng.choice([None, None, "secret", "p&=+$,"]) if user is not None else None
    return {"sips": rng.random() < 0.3, "user": user, "pw": pw, "host": rng.choice(HOSTS), "port": rng.choice([None, None, 1, 5060, 65535]),
            "up": g_params(rng, True), "hp": g_params(rng, False, 2)}


def enc_params(ps):
    return ";".join(hx(n) if v is None else "%s=%s" % (hx(n), hx(v)) for n, v in ps)


def enc_uri(u, sep="|"):
    return sep.join(["1" if u["sips"] else "0", "-" if u["user"] is None else hx(u["user"]), "-" if u["pw"] is None else hx(u["pw"]), u["host"],
                     "-" if u["port"] is None else str(u["port"]), enc_params(u["up"]), enc_params(u["hp"])])


def project(u, ctx):
    """RFC 3261 Table 1: what the given context may carry"""
    v = dict(u)
    if ctx == "fromto":
        v["port"] = None
        v["up"] = [p for p in u["up"] if p[0] not in ("maddr", "ttl", "transport", "lr")]
        v["hp"] = []
    elif ctx == "requri":
        v["hp"] = []
    elif ctx == "contact":
        v["up"] = [p for p in u["up"] if p[0] != "ttl"]
        v["hp"] = []
    elif ctx == "contactreg":
        v["up"] = [p for p in u["up"] if p[0] != "lr"]
    elif ctx == "routing":
        v["up"] = [p for p in u["up"] if p[0] != "ttl"]
        v["hp"] = []
    return v


def host_dump(h):
    return h


def dump_uri(u, sep="|"):
    return enc_uri(u, sep)


def gen_cases(rng, tier):
    cases = []
    n = 0
    for i in range(1200 if tier == "quick" else 30000):
        u = g_uri(rng)
        ctx = CTXS[i % len(CTXS)] if i % 3 else "none"
        cases.append(["u%d" % i, "c01", "uri", enc_uri(u), ctx, dump_uri(project(u, ctx))])
    # focused: one reserved character at a time in each position
    k = 0
    for s in NASTY:
        base = {"sips": False, "user": None, "pw": None, "host": "example.org", "port": None, "up": [], "hp": []}
        for pos in ("user", "pname", "pvalue", "hname", "hvalue"):
            u = dict(base)
            if pos == "user":
                u["user"] = s
            elif pos == "pname":
                u["up"] = [(s, "v")]
            elif pos == "pvalue":
                u["up"] = [("p", s)]
            elif pos == "hname":
                u["hp"] = [(s, "v")]
            else:
                u["hp"] = [("h", s)]
            cases.append(["e%d" % k, "c01", "uri", enc_uri(u), "none", dump_uri(u)]); k += 1
    # methods: every name, +- one character, case flips, prefixes
    toks = set()
    for m in METHODS:
        toks |= {m, m + "X", m + "1", "X" + m, m[:-1], m.lower(), m.capitalize(), m + m, m + "-", m[0] + m[1:].lower()}
    toks |= {"FOO", "x", "A", "invite2", "I", "ACKNOWLEDGE", "BYEBYE", "INFORM", "REFERRAL", "NOTIFYX", "PUB", "!", "a.b", "UP-DATE"}
    # every token character that is no letter or digit, behind and in front of a well-known name and alone
    for ch in "-.!%*_+`'~":
        toks |= {"INVITE" + ch + "v2", ch + "BYE", "X" + ch + "PING", "ACK" + ch, ch}
    for j, t in enumerate(sorted(toks)):
        cases.append(["m%d" % j, "c01", "meth", hx(t)])
    # IPv4 literals in the host part: every octet value at every position, and texts just outside the literal grammar
    hk = 0
    hosts = ["%d.%d.%d.%d" % q for q in ((0, 0, 0, 0), (255, 255, 255, 255), (192, 168, 1, 255), (10, 255, 0, 7), (255, 0, 0, 1), (1, 2, 3, 4), (127, 0, 0, 1), (100, 200, 250, 254), (9, 99, 199, 249))]
    hosts += ["%d.1.1.1" % o for o in range(0, 256, 5)] + ["1.1.1.%d" % o for o in range(250, 256)]
    hosts += ["256.1.1.1", "1.256.1.1", "1.1.1.256", "1.2.3.04", "01.2.3.4", "1.2.3", "1.2.3.4.5", "1.2.3.4:5060", "255.255.255.255:1", "1.2.3.4;x", "999.1.1.1", "1..2.3", "a.b.c.d", "1.2.3.x", "0255.1.1.1", "1.2.3.4x"]
    for h in hosts:
        cases.append(["hst%d" % hk, "c01", "host", hx(h)]); hk += 1
    # name-addr headers
    for i in range(500 if tier == "quick" else 10000):
        u = g_uri(rng)
        kind = rng.choice(["from", "to", "contact", "route", "rroute"])
        if kind in ("route", "rroute") and u["hp"]:
            u["hp"] = []
        display = rng.choice([None, None, "Alice", "Bob Smith", "ü name", "a.b", "A-1", "a\"b", "back\\slash", "\\", "\"", " lead", "trail ", "", "a:b", "<x>", "a\\\"b", "semi;colon", "名前"])
        tag = rng.choice([None, "abc", "1928301774", "a%41b", "a.b-c", "x~y", "q+r"]) if kind in ("from", "to") else None
        params = [(nm, v) for nm, v in g_params(rng, False, 2) if nm not in ("tag", "q", "expires")]
        ctx = {"from": "fromto", "to": "fromto", "contact": "contact", "route": "routing", "rroute": "routing"}[kind]
        spec = "|".join([kind, "-" if display is None else hx(display), enc_uri(u, "!"), "-" if tag is None else hx(tag), enc_params(params)])
        exp = "|".join(["-" if display is None else hx(display), dump_uri(project(u, ctx), "!"), "-" if tag is None else hx(tag), enc_params(params)])
        cases.append(["n%d" % i, "c01", "na", spec, exp])
    # numeric headers
    j = 0
    for kind, args in (("cseq", 1), ("rack", 2), ("rseq", 1), ("expires", 1), ("minexpires", 1), ("maxfwd", 1), ("cl", 1), ("minse", 1), ("se", 1)):
        for _ in range(12 if tier == "quick" else 100):
            nums = [str(rng.choice([0, 1, 2, 70, 255, 65535, 65536, U32 - 1, U32, rng.randrange(U32)])) for _ in range(args)]
            if kind == "maxfwd":
                nums = [str(rng.choice([0, 1, 70, 255]))]
            if kind == "cl":
                nums = ["0"]          # a Content-Length above 0 needs that many body bytes: covered by the msg cases
            if kind in ("cseq", "rack"):
                nums.append(rng.choice(METHODS + ["FOO", "INVITEX", "Invite", "INVITE.v2", "X-PING", "BYE_", "a!%*_+`'~-."]))
            if kind == "se":
                nums.append(rng.choice(["uac", "uas", "-"]))
            cases.append(["h%d" % j, "c01", "num", kind, ",".join(nums)]); j += 1
    # the other typed headers: authentication (numbers in hex on the wire), Via, Replaces, Retry-After, Subscription-State, lists
    QTEXT = ["example.org", "dcd98b7102dd2f0e8b11d0f600bfb0c093", "sip:bob@example.org", "a b", "x,y", "a=b", "semi;colon", "5ccc069c403ebaf9f0171e9517f40e41", "r", "ü nonce", "a, b=c"]
    TOK = ["a", "abc", "A1", "x-y", "a.b", "a_b", "z9hG4bK776asdhds", "100rel", "timer", "presence", "x~y", "FOO"]
    ALGS = ["MD5", "MD5-sess", "SHA-256", "SHA-256-sess", "SHA-512-256", "SHA-512-256-sess", "XYZ-1"]
    NCS = [0, 1, 9, 10, 15, 16, 26, 255, 256, 4095, 0xABCDEF, 0x99999999, 0x10000000, U32 - 1, U32]
    j = 0
    def add(kind, fields):
        nonlocal j
        cases.append(["y%d" % j, "c01", "typed", kind, "|".join(fields)]); j += 1
    for nc in NCS:
        add("authr", [hx("alice"), hx("example.org"), hx("n0nce"), hx("sip:bob@example.org"), hx("6629fae49393a05397450978507c4ef1"), "MD5", "-", "auth", hx("0a4f113b"), str(nc), "0", "0"])
    for _ in range(60 if tier == "quick" else 1500):
        qop = rng.choice(["-", "auth", "auth-int", "auth", "token"])
        user = rng.choice(["alice", "bob smith", "ü", "a@b", "+4912345", "x\"y", "50%25 off", "100% sûr", "%41 b", "a%b@c"])
        # RFC 7616 3.4.4: userhash=true together with username* is an error (the parser rejects it): not a value to round-trip
        uh = rng.choice("01") if re.fullmatch(r"[A-Za-z0-9!#$&+.^_`|~-]+", user) else "0"
        add("authr", [hx(user), hx(rng.choice(QTEXT)), hx(rng.choice(QTEXT)), hx(rng.choice(QTEXT)), hx(rng.choice(QTEXT)),
                      rng.choice(ALGS), rng.choice(["-", hx(rng.choice(QTEXT))]), qop, hx(rng.choice(QTEXT)), str(rng.choice(NCS + [rng.randrange(U32)])), uh, rng.choice("01")])
        add("authc", [hx(rng.choice(QTEXT)), rng.choice(["-", hx("sip:example.org")]), hx(rng.choice(QTEXT)), rng.choice(["-", hx(rng.choice(QTEXT))]), rng.choice("01"), rng.choice(ALGS),
                      rng.choice(["", "auth", "auth,auth-int", "auth-int", "auth,token"]), rng.choice("01"), rng.choice("01")])
    for _ in range(40 if tier == "quick" else 800):
        vp = [("branch", "z9hG4bK" + rng.choice(TOK))] + rng.sample([("rport", None), ("rport", "5060"), ("received", "192.0.2.1"), ("ttl", "16"), ("maddr", "224.0.1.75"), ("x", "y"), ("lr", None)], rng.randrange(0, 3))
        add("via", [rng.choice(["UDP", "TCP", "TLS", "SCTP", "WS", "udp"]), rng.choice(HOSTS), rng.choice(["-", "5060", "1", "65535"]), enc_params(vp)])
        add("replaces", [hx(rng.choice(["abc@host", "12345", "a.b-c"])), hx(rng.choice(TOK)), hx(rng.choice(TOK)), rng.choice("01")])
        add("retry", [str(rng.choice([0, 1, 120, U32])), enc_params(rng.sample([("duration", "3600"), ("x", "y"), ("flag", None)], rng.randrange(0, 3))), rng.choice(["-", hx("in a meeting"), hx("x")])])
        add("substate", [rng.choice(["active", "pending", "terminated"]), rng.choice(["-", "0", "3600", str(U32)]), rng.choice(["-", "deactivated", "probation", "rejected", "timeout", "giveup", "noresource", "invariant", "custom"]),
                         rng.choice(["-", "0", "30", str(U32)]), enc_params(rng.sample([("x", "y"), ("flag", None)], rng.randrange(0, 2)))])
        add("callid", [hx(rng.choice(["a84b4c76e66710@pc33.atlanta.com", "abc", "1-2@[::1]", "x%y"]))])
        add("ctype", [hx(rng.choice(["application/sdp", "text/plain;charset=utf-8", "multipart/mixed;boundary=\"x y\"", "application/pidf+xml"]))])
        add("event", [hx(rng.choice(["presence", "dialog;id=1", "refer", "message-summary"]))])
        for k2 in ("supported", "require", "allowev", "accept"):
            add(k2, [",".join(rng.sample(TOK, rng.randrange(1, 4)))])
        add("allow", [",".join(rng.sample(METHODS + ["FOO", "INVITEX"], rng.randrange(1, 6)))])
    # whole messages: start line, ordered header values per name, body (through Endpoint::send_outgoing_*)
    names = ["Via", "From", "To", "Call-ID", "CSeq", "Route", "Record-Route", "X-Custom", "Subject", "Contact", "Allow", "Supported",
             "v", "f", "t", "i", "m", "k", "l", "L", "s", "c", "e", "u", "o", "r", "b", "x", "VIA", "call-id", "CONTENT-LENGTH", "content-length",
             "Content-Type", "x-custom", "X-CUSTOM", "P-Asserted-Identity", "Session-Expires", "Min-SE", "RSeq", "RAck", "a.b!%*_`'~+-1", "l2", "LL"]
    values = ["a", "1 INVITE", "<sip:a@b>;tag=1", "SIP/2.0/UDP h;branch=z9hG4bK1", "x y z", "<sip:p1;lr>", "<sip:p2;lr>", "text with ü", "v1", "v2",
              "100rel", "timer", "", "trailing space ", "a: b", ":", "tab\tinside", "\"quoted, comma\"", "名前", "0", "999", "%41"]
    for i in range(150 if tier == "quick" else 3000):
        if rng.random() < 0.5:
            line = "%s sip:bob@example.org SIP/2.0" % rng.choice(METHODS + ["FOO", "INVITEX"])
        else:
            line = "SIP/2.0 %d %s" % (rng.choice([100, 180, 200, 404, 486, 600, 699]), rng.choice(["OK", "Not Found", "Busy Here", "x"]))
            if rng.random() < 0.25:
                line = "SIP/2.0 %d" % rng.choice([100, 200, 299, 499, 699])       # no reason phrase (StatusLine.reason = None)
        hs = []
        for _ in range(rng.randrange(0, 9)):
            hs.append((rng.choice(names), rng.choice(values)))
        body = bytes(rng.choice(b"abc\r\n\x00\xff :") for _ in range(rng.choice([0, 0, 1, 7, 40, 300])))
        if i % 17 == 0:
            body = b"v=0\r\n\r\nContent-Length: 5\r\n\r\n" + body
        cases.append(["g%d" % i, "c01", "msg", "|".join([hx(line), ";".join("%s=%s" % (hx(a), hx(b)) for a, b in hs), body.hex()])])
    return cases


def oracle(case, impl):
    out = []
    if "PANIC" in impl:
        return ["panic: " + impl[-300:]]
    kind = case[2]
    if kind == "uri":
        m = re.match(r"T1=(\S*)\tD1=(\S*)\tT2=(\S*)", impl)
        if not m:
            return ["no observation: " + impl[:200]]
        t1 = bytes.fromhex(m.group(1)).decode("utf-8", "replace")
        if m.group(2) == "ERR":
            return ["printed URI %r is rejected by the library's own parser" % t1]
        if m.group(2) != case[5]:
            out.append("URI %r (context %s) parses back to %s, expected %s" % (t1, case[4], m.group(2), case[5]))
        elif m.group(3) != m.group(1):
            out.append("serialise-parse-serialise is not a fixpoint: %r then %r" % (t1, bytes.fromhex(m.group(3)).decode("utf-8", "replace")))
    elif kind == "na":
        m = re.match(r"T1=(\S*)\tD1=(\S*)", impl)
        if not m:
            return ["no observation: " + impl[:200]]
        t1 = bytes.fromhex(m.group(1)).decode("utf-8", "replace")
        if m.group(2) in ("ERR", "UNPARSED-MESSAGE"):
            return ["printed header value %r is rejected by the library's own parser" % t1]
        if m.group(2) != case[4]:
            out.append("header value %r parses back to %s, expected %s" % (t1, m.group(2), case[4]))
    elif kind == "meth":
        tok = bytes.fromhex(case[3]).decode() if case[3] != "''" else ""
        m = re.match(r"P=(\S*)\tK=(\S+)(?:\tR=(\S+))?", impl)
        if not m:
            return ["no observation: " + impl[:200]]
        printed = bytes.fromhex(m.group(1)).decode()
        if m.group(3) is not None and tok:
            if m.group(3) == "UNPARSED":
                return ["the library rejects its own request line / CSeq / RAck for method token %r" % tok]
            for where, r in zip(("request line", "CSeq", "RAck"), m.group(3).split(",")):
                if r != "%s/%s" % (tok.encode().hex(), m.group(2)):
                    back = r.split("/")[0]
                    return ["method token %r in the %s reads back as %r (%s)" % (tok, where, bytes.fromhex(back).decode("utf-8", "replace") if re.fullmatch(r"[0-9a-f]*", back) else back, r)]
        want_k = str(METHODS.index(tok)) if tok in METHODS else "-"
        if m.group(2) != want_k:
            out.append("method token %r is classified as %s, expected %s (a well-known method only when the token equals its name)" % (
                tok, METHODS[int(m.group(2))] if m.group(2) != "-" else "an extension method", METHODS[int(want_k)] if want_k != "-" else "an extension method"))
        elif printed != tok:
            out.append("method token %r prints as %r" % (tok, printed))
    elif kind == "host":
        t = bytes.fromhex(case[3]).decode()
        m = re.fullmatch(r"(\d{1,3})\.(\d{1,3})\.(\d{1,3})\.(\d{1,3})((?:[:;].*)?)", t)
        if m and all(int(x) <= 255 and (x == "0" or not x.startswith("0")) for x in m.groups()[:4]):
            want = "IP4:%s.%s.%s.%s" % m.groups()[:4]
            if not impl.startswith(want + ":"):
                out.append("host %r is an IPv4 literal (used without DNS), the parser made %s of it" % (t, impl))
    elif kind == "num":
        m = re.match(r"T1=(\S*)\tD1=(\S*)", impl)
        if not m:
            return ["no observation: " + impl[:200]]
        if m.group(2) != case[4]:
            out.append("header %s(%s) printed as %r parses back to %s" % (case[3], case[4], bytes.fromhex(m.group(1)).decode("utf-8", "replace"), m.group(2)))
    elif kind == "typed":
        m = re.match(r"T1=(\S*)\tD=(\S*)(?:\tT2=(\S*))?", impl)
        if not m:
            return ["no observation: " + impl[:200]]
        t1 = bytes.fromhex(m.group(1)).decode("utf-8", "replace").strip()
        if m.group(2) in ("ERR", "UNPARSED-MESSAGE"):
            return ["typed header %s printed as %r is rejected by the library's own parser" % (case[3], t1)]
        if m.group(2) != "same":
            a, _, b = m.group(2).partition("<>")
            return ["typed header %s printed as %r parses back to a different value: %s, was %s" % (
                case[3], t1, bytes.fromhex(b).decode("utf-8", "replace")[:300], bytes.fromhex(a).decode("utf-8", "replace")[:300])]
        if m.group(3) != m.group(1):
            out.append("serialise-parse-serialise is not a fixpoint for %s: %r then %r" % (case[3], t1, bytes.fromhex(m.group(3) or "").decode("utf-8", "replace")))
    elif kind == "msg":
        f = case[3].split("|")
        if "UNPARSED" in impl:
            return ["the message the library put on the wire is rejected by its own parser"]
        m = re.match(r"T=(\S*)\tL=(\S*)\tH=(\S*)\tB=(\S*)", impl)
        if not m:
            return ["no observation: " + impl[:200]]
        line = unhx_py(f[0])
        if unhx_py(m.group(2)) != line:
            out.append("start line %r comes back as %r" % (line, unhx_py(m.group(2))))
        body = f[2] if len(f) > 2 else ""
        if m.group(4) != body:
            out.append("body differs after print -> parse (%d bytes written, %d read)" % (len(body) // 2, len(m.group(4)) // 2))
        # per header name (the table's spellings folded together), the ordered list of values
        exp = collections.OrderedDict()
        for e in [x for x in f[1].split(";") if x]:
            a, _, b = e.partition("=")
            exp.setdefault(_canon(unhx_py(a)), []).append(unhx_py(b))
        exp.pop("content-length", None)
        got = collections.OrderedDict()
        for e in [x for x in m.group(3).split(";") if x]:
            a, _, b = e.partition("=")
            got.setdefault(_canon(unhx_py(a)), []).append(unhx_py(b))
        cl = got.pop("content-length", None)
        if cl != [str(len(body) // 2)]:
            out.append("Content-Length values %r, body has %d bytes" % (cl, len(body) // 2))
        if list(exp.items()) != list(got.items()):
            for nm in exp:
                if got.get(nm) != exp[nm]:
                    out.append("header %s: values %r come back as %r" % (nm, exp[nm], got.get(nm)))
                    break
            else:
                out.append("header names / order differ: wrote %r, read %r" % (list(exp), list(got)))
    return out[:2]


# RFC 3261 section 7.3.3 / 20 compact forms (and RFC 3262 / 3265 / 3515 / 4028 / 6665 additions), written from the RFCs
_COMPACT = {"v": "via", "f": "from", "t": "to", "i": "call-id", "m": "contact", "l": "content-length", "c": "content-type", "e": "content-encoding",
            "s": "subject", "k": "supported", "u": "allow-events", "o": "event", "r": "refer-to", "b": "referred-by", "x": "session-expires"}


def _canon(nm):
    nm = nm.lower()
    return _COMPACT.get(nm, nm)


def unhx_py(h):
    return "" if h in ("''", "") else bytes.fromhex(h).decode("utf-8", "replace")


def normalize_impl(case, s):
    return s.split("\tPANIC")[0]


def accepts(case, impl, model):
    if case[2] == "host":
        # the model decides IPv4 literal or not (and the address); names / IPv6 / rejection are outside it
        return (impl.rsplit(":", 1)[0] if impl.startswith("IP4:") else "OTHER") == model
    if case[2] in ("uri", "meth", "msg"):
        return impl == model
    if case[2] == "na":
        # the printed header value begins with the display name exactly as the model quotes it, and the model reads its own quoting back
        m = re.match(r"Q=(\S+)(?:\tN=(\S+))?", model)
        if not m or m.group(1) == "-":
            return True
        t1 = re.match(r"T1=(\S*)", impl)
        disp = case[3].split("|")[1]
        return bool(t1) and t1.group(1).startswith(m.group(1)) and m.group(2) == disp
    return True


def nontrivial(case, impl):
    return "|".join(case[2:5])


def distribution(cases, impl):
    c = collections.Counter()
    for x in cases:
        c[x[2] + (":" + x[4] if x[2] == "uri" else "")] += 1
    return dict(c)
