"""C17 -- refresh happens before expiry: session timers and registrations."""
import re

ID = "C17"
COQ_PROOF_TARGETS = ["Props/C17.vo"]
COQ_MODEL_TARGETS = ["Extract/ExC17.vo"]
HARNESS_TIMEOUT = 3000
CLAIM_TEXT = ("Theorems (coq/Props/C17.v, no axioms) over the model of invite/timer.rs, the session's timer handling and register/mod.rs, with the "
              "margins and defaults regenerated from the source: on both roles the refresher's local timer is strictly shorter than the "
              "negotiated interval (for every interval > 0) and the non-refresher's is at least the interval, for every u32 value without "
              "overflow; a Session-Expires in the answer never disables the timer; the running timer fires exactly at its deadline and a "
              "refresh received before it restarts the full interval; the registration period is positive and strictly below every lifetime "
              "above the 10 s margin; successive REGISTERs carry CSeq+1 and the same Call-ID. Correspondence: whole sessions through the real "
              "Acceptor / Initiator / Session (UAS and UAC, refresher uas/uac/absent, Session-Expires and Min-SE over the u32 range incl. the "
              "limits, sequences of received refreshes and silences) and Registration timelines under the paused clock against the model.")
CLAIM_NOTE = ("Trusted: Coq kernel; translator regexes (margins, default interval, registration constants); hand-written model Model/C17.v validated "
              "by differential runs; on the UAS side the acceptor's timer configuration is not reachable through the public API, so only its "
              "default (interval 1800, refresher uac) with the peer's Min-SE is exercised against the code; the theorem covers every "
              "configuration. The registration timer is only re-created when the granted lifetime changes (as coded and modelled).")
TRUSTED = [
    "Coq 8.16.1 kernel; no axioms",
    "tools/translate.py (saturating margins, default interval, registration min/margin)",
    "hand-written model coq/Model/C17.v, validated by the correspondence run",
    "extraction (ExtrOcamlBasic only) + ocaml/util.ml + ocaml/c17_driver.ml",
    "Rust harness harness/src/{ua,c17reg}.rs (Acceptor/Initiator/Session/Registration through the public API, mock transport, paused clock)",
]
ASSUMPTIONS = [
    "the application calls Session::drive again immediately after each event",
    "registration events arrive at whole seconds (the harness polls the interval every 500 virtual ms)",
]
RULE = ("sessions: role {uas,uac} x refresher {uas,uac,absent} x Session-Expires / Min-SE in {1, 9, 10, 11, 89, 90, 1800, 3600, 2^31, 2^32-11, "
        "2^32-10, 2^32-1, random} x refresh sequences (none, before / after the deadline, repeated); registrations: lifetimes {5, 10, 11, 19, 20, "
        "21, 60, 3600, random} x sequences of 200 (same / different / no Expires) and 423 Min-Expires; non-trivial = a timer fires or a "
        "refresh restarts it; distinct = distinct case text")
PARTIAL = ["UAS-side acceptor configuration other than the default is covered by the theorem only (not reachable through the public API)"]

U32 = 2 ** 32 - 1
VALUES = [1, 9, 10, 11, 89, 90, 1800, 3600, 2 ** 31, U32 - 11, U32 - 10, U32]


def hx(s):
    return s.encode().hex()


def gen_cases(rng, tier):
    cases = []
    n = 0
    vals = VALUES + [rng.randrange(1, 100000) for _ in range(6 if tier == "quick" else 40)]
    # UAC sessions
    for refresher in ("uas", "uac", "unspec", "none"):
        for d in vals:
            if refresher == "none":
                extra = "Contact: <sip:peer@10.9.9.9>\r\n"
            else:
                rp = "" if refresher == "unspec" else ";refresher=" + refresher
                # how the answer announces the extension: Supported: timer, Require: timer only (RFC 4028 sec. 9 asks for no more),
                # Supported listing other extensions, nothing at all - the negotiated Session-Expires counts in every case
                ann = ["Supported: timer\r\n", "Require: timer\r\n", "Supported: 100rel, replaces\r\nRequire: timer\r\n", "", "Supported: 100rel\r\nSupported: timer\r\n"][n % 5]
                extra = ann + "Session-Expires: %d%s\r\nContact: <sip:peer@10.9.9.9>\r\n" % (d, rp)
            horizon = min(3 * (d + 20), 400000) * 1000 + 1000
            if refresher in ("uac", "unspec") and d <= 10:
                horizon = 1000      # zero-length timer: only the first (immediate) refresh is compared
            script = "0:invite,10:resp:100:-,1000:resp:200:tagA:%s,%d:wait" % (hx(extra), horizon + 30)
            cases.append(["uac%d" % n, "c17", "uac", "se=1800", script, "1", refresher, str(d), "1000", "", str(horizon)]); n += 1
            if refresher == "none":
                break
    # the caller refreshes with the library's own re-INVITE (RefreshNeeded::process_default) and the peer answers: every refresh sent
    # restarts the interval, the next one is asked for before it ends - for several rounds
    for refresher, d in (("uac", 90), ("unspec", 90), ("uac", 120), ("uac", 1800)):
        rp = "" if refresher == "unspec" else ";refresher=" + refresher
        extra = "Supported: timer\r\nSession-Expires: %d%s\r\nContact: <sip:peer@10.9.9.9>\r\n" % (d, rp)
        acts = ["0:invite", "1000:resp:200:tagA:%s" % hx(extra)]
        t = 1000
        for _ in range(4):
            t += (d - 10) * 1000
            acts.append("%d:resp2" % (t + 500))
        horizon = t + (d + 30) * 1000
        acts.append("%d:wait" % horizon)
        cases.append(["uacd%d" % n, "c17", "uac", "se=1800;refresh=do", ",".join(acts), "1", refresher, str(d), "1000", "", str(horizon)]); n += 1
    # UAC with received refreshes (re-INVITE from the peer) restarting the timer
    for refresher, d, evs in (("uas", 100, [50000, 120000]), ("uac", 100, [50000, 95000]), ("uas", 60, [69000, 139999]), ("uac", 30, [19999, 39000])):
        rp = ";refresher=" + refresher
        extra = "Supported: timer\r\nSession-Expires: %d%s\r\nContact: <sip:peer@10.9.9.9>\r\n" % (d, rp)
        acts = ["0:invite", "1000:resp:200:tagA:%s" % hx(extra)]
        for i, t in enumerate(evs):
            acts.append("%d:reinv" % t)
            acts.append("%d:ack" % (t + 100))
        horizon = 400000
        acts.append("%d:wait" % horizon)
        cases.append(["uacr%d" % n, "c17", "uac", "se=1800", ",".join(acts), "1", refresher, str(d), "1000", ",".join(str(t) for t in evs), str(horizon)]); n += 1
    # UAS sessions: default config, hostile Min-SE / Session-Expires from the peer
    for m in ["-"] + [str(v) for v in vals]:
        extra = "Supported: timer\r\n" + ("" if m == "-" else "Min-SE: %s\r\nSession-Expires: %s\r\n" % (m, m))
        eff = 1800 if m == "-" else max(int(m), 1800)
        horizon = min(2 * (eff + 20), 400000) * 1000
        script = "0:inv:%s,10:prov:180,1000:accept,1100:ack,%d:wait" % (hx(extra), horizon)
        cases.append(["uas%d" % n, "c17", "uas", "-", script, "1", "cfg", m, "1000", "", str(horizon)]); n += 1
    # registrations
    lifetimes = [5, 10, 11, 19, 20, 21, 60, 3600] + [rng.randrange(1, 90000) for _ in range(4 if tier == "quick" else 30)]
    for lt in lifetimes:
        per = max(lt, 20) - 10
        acts = []
        t = 1000
        for _ in range(rng.randrange(0, 4)):
            t += rng.randrange(1, 4) * per * 1000 + rng.randrange(1, 5) * 1000
            r = rng.random()
            if r < 0.5:
                acts.append("%d:ok:%d" % (t, rng.choice([lt, lt, 30, 120, 7200])))
            elif r < 0.7:
                acts.append("%d:ok:-" % t)
            else:
                acts.append("%d:min:%d" % (t, rng.choice([60, 1800, 25])))
        horizon = t + 5 * max(per, 60) * 1000 + 1
        cases.append(["reg%d" % n, "c17", "reg", str(lt), ",".join(acts), str(horizon)]); n += 1
    # a registrar that grants more than was asked for and later exactly what was asked for (another policy after a fail-over): the refresh
    # period follows the lifetime granted LAST
    for lt, g1 in ((60, 120), (300, 3600), (60, 7200), (600, 660)):
        t1 = (max(lt, 20) - 10) * 1000 + 1000
        t2 = t1 + (g1 - 10) * 1000 + 1000
        for acts in (["%d:ok:%d" % (t1, g1), "%d:ok:%d" % (t2, lt)], ["%d:ok:%d" % (t1, g1), "%d:ok:%d" % (t2, lt), "%d:ok:%d" % (t2 + (lt - 10) * 1000 + 1000, lt)],
                     ["%d:ok:%d" % (t1, g1), "%d:ok:%d" % (t2, g1), "%d:ok:%d" % (t2 + (g1 - 10) * 1000 + 1000, lt)]):
            last = int(acts[-1].split(":")[0])
            cases.append(["regr%d" % n, "c17", "reg", str(lt), ",".join(acts), str(last + 3 * max(lt, g1) * 1000 + 1)]); n += 1
    return cases


def model_case(case, impl):
    if case[2] == "reg":
        return case
    # id c17 sess role refresher value t0 refreshes horizon
    return [case[0], "c17", "sess", case[2], case[6], case[7], case[8], case[9], case[10]]


def _events(impl):
    evs = []
    for tok in impl.split("\t")[0].split():
        m = re.match(r"(.*)@(\d+)$", tok)
        if m:
            evs.append((m.group(1), int(m.group(2))))
    return evs


def normalize_impl(case, s):
    if case[2] == "reg":
        return s.strip()
    evs = _events(s)
    horizon = int(case[10])
    out = []
    timer = "none"
    for name, t in evs:
        if case[2] == "uas" and name.startswith("W:SIP/2.0_200_OK") and "cseq=314_INVITE" in name and timer == "none":
            se = re.search(r"\|se=([^|]*)\|", name).group(1)
            if se != "-":
                d, _, r = se.partition(";refresher=")
                timer = "%s/%s" % (r or "unspec", d)
        if name.startswith("refresh-needed") and t <= horizon:
            out.append("refresh@%d" % t)
        if name.startswith("W:BYE_") and t <= horizon and not any(o.startswith("bye@") for o in out):
            out.append("bye@%d" % t)
    if case[2] == "uac" and case[6] in ("uac", "unspec") and int(case[7]) <= 10:
        out = out[:1]
    if case[2] == "uac":
        return " ".join(out) if out else "-"
    return (timer + " " + " ".join(out)).strip()


def normalize_model(case, s):
    if case[2] == "reg":
        return s.strip()
    s = s.strip()
    if s == "timer=none":
        return "-" if case[2] == "uac" else "none"
    m = re.match(r"timer=(\w+)/(\d+)/(\d+)\s*(.*)$", s)
    rf, delta, real, rest = m.groups()
    if case[2] == "uac" and case[6] in ("uac", "unspec") and int(case[7]) <= 10:
        rest = " ".join(rest.split()[:1])
    if case[2] == "uac":
        return rest if rest else "-"
    return ("%s/%s %s" % (rf, delta, rest)).strip()


def oracle(case, impl):
    """the property text evaluated on the wire log / API events alone"""
    if "PANIC" in impl:
        return ["panic: " + impl[-300:]]
    if case[2] == "reg":
        m = re.match(r"ticks=([\d,]*) cseq=([\d,]*) callid_same=(\w+)", impl)
        if not m:
            return ["unparsable " + impl[:100]]
        cs = [int(x) for x in m.group(2).split(",") if x]
        if cs != list(range(len(cs))):
            return ["REGISTER CSeq numbers are not consecutive: %r" % cs]
        if m.group(3) != "true":
            return ["Call-ID changed between REGISTERs"]
        # every refresh must come strictly before the lifetime granted last (counted from when it was granted)
        ticks = [int(x) for x in m.group(1).split(",") if x]
        grants = [(0, int(case[3]))]
        for a in case[4].split(","):
            if a:
                p = a.split(":")
                if p[1] == "ok" and p[2] != "-":
                    grants.append((int(p[0]), int(p[2])))
                elif p[1] == "min":
                    grants.append((int(p[0]), int(p[2])))
        horizon = int(case[5])
        # a lifetime granted by a 2xx: the next refresh comes strictly before it runs out (the refresh timer ticks with the period of the
        # lifetime in force, so a tick falls into every window of that length)
        oks = [(0, int(case[3]))] + [(int(a.split(":")[0]), int(a.split(":")[2])) for a in case[4].split(",") if a and a.split(":")[1] == "ok" and a.split(":")[2] != "-"]
        after = sorted([int(a.split(":")[0]) for a in case[4].split(",") if a] + [horizon])
        if not any(a.split(":")[1] == "min" for a in case[4].split(",") if a):
            for (t, lt) in oks:
                end = t + lt * 1000
                nxt_ev = min([x for x in after if x > t] or [horizon])
                if lt >= 20 and end <= nxt_ev and not any(t < x < end for x in ticks):
                    return ["the registrar granted %d s at %d ms; no refresh was sent before that binding ran out (refreshes at %r)" % (lt, t, [x for x in ticks if x > t][:3])]
        for (t, lt), nxt in zip(grants, grants[1:] + [(horizon, None)]):
            if lt > 10 and nxt[0] > t + lt * 1000:
                if not any(t < x < t + lt * 1000 for x in ticks) and not any(g[0] == t and g[1] == lt for g in grants[:grants.index((t, lt))]):
                    # a grant equal to the current lifetime does not restart the timer: the refresh is then tied to the
                    # previous tick, which is earlier still -- only report when no tick at all falls before the expiry
                    prev = [x for x in ticks if x <= t]
                    if not prev:
                        return ["no refresh before the binding granted at %d ms (lifetime %d s) expired" % (t, lt)]
        return []
    evs = _events(impl)
    horizon = int(case[10])
    role, refresher, val = case[2], case[6], case[7]
    t0 = int(case[8])
    refreshes = [int(x) for x in case[9].split(",") if x]
    if role == "uac":
        if refresher == "none":
            if any(n.startswith("refresh-needed") or n.startswith("W:BYE_") for n, _ in evs):
                return ["timer events although the answer carried no Session-Expires"]
            return []
        delta = int(val)
        mine = refresher in ("uac", "unspec")
    else:
        delta = 1800 if val == "-" else max(int(val), 1800)
        mine = False
    delta = min(delta, U32)
    # last restart of the interval: session start or a received refresh
    marks = [t0] + refreshes
    if "refresh=do" in case[3]:
        # refreshes sent by this side and answered by the peer restart the interval as well: a resp2 step of the script counts when
        # a re-INVITE went out since the previous answer
        reinv = sorted(set(t for n, t in evs if re.match(r"W:INVITE_[^|]*\|cseq=\d+_INVITE\|branch=[^|]*\|totag=[^-|][^|]*\|", n)))
        prev = t0
        for a in case[4].split(","):
            if a.endswith(":resp2"):
                t = int(a.split(":")[0])
                if any(prev < x <= t for x in reinv):
                    marks.append(t)
                    prev = t
        marks.sort()
    fired = [(n, t) for n, t in evs if n.startswith("refresh-needed") or n.startswith("W:BYE_")]
    if mine:
        if any(n.startswith("W:BYE_") for n, _ in fired):
            return ["the refresher hung up instead of refreshing"]
        if role == "uac" and 1 <= delta <= 10 and not any(n.startswith("refresh-needed") and t0 <= t < t0 + delta * 1000 for n, t in fired):
            # an interval at or below the safety margin leaves no time to lose: the refresher is told at once, the timer is not switched off
            return ["Session-Expires %d with this side as refresher: no refresh was asked for before the interval ended (the timer is silently disabled)" % delta]
        # first refresh after each mark strictly before mark + delta (if the horizon reaches that far)
        for i, mk in enumerate(marks):
            nxt = marks[i + 1] if i + 1 < len(marks) else None
            end = mk + delta * 1000
            if nxt is not None and nxt < end:
                continue
            if end <= horizon:
                if not any(mk <= t < end for n, t in fired):
                    return ["refresher (role %s) was not told to refresh before the %d s interval ended (interval restarted at %d ms)" % (role, delta, mk)]
    else:
        byes = [t for n, t in fired if n.startswith("W:BYE_")]
        if any(n.startswith("refresh-needed") for n, _ in fired):
            return ["the non-refresher was asked to refresh"]
        last = max([m for m in marks if not byes or m <= byes[0]] or [t0])
        if byes and byes[0] < last + delta * 1000:
            return ["the non-refresher (role %s) sent BYE at %d ms, before the %d s interval that restarted at %d ms had passed" % (role, byes[0], delta, last)]
        if not byes and last + (delta + 10) * 1000 + 1000 < horizon:
            return ["no BYE although no refresh arrived for the whole interval"]
    return []


def nontrivial(case, impl):
    if "refresh" in impl or "BYE_" in impl or "ticks=" in impl:
        return "\t".join(case[2:])
    return None
