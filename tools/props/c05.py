"""C05 -- client transactions retransmit and time out on the RFC 3261 timer schedule."""
import re

ID = "C05"
GEN = "tsx"
COQ_PROOF_TARGETS = ["Props/C05.vo"]
COQ_MODEL_TARGETS = ["Extract/ExTsx.vo"]
CLAIM_TEXT = ("Theorems (coq/Props/C05.v, no axioms) over the timed model of client.rs / client_inv.rs: the silent-peer schedules equal "
              "the RFC 3261 timer A/B/E/F instants; for every arrival list, both tie-breaks and both transports: one transmission on "
              "reliable transports, no transmission after the first response, an INVITE transaction that has received anything never "
              "reports a timeout, a non-INVITE run ends with its single final response, responses after 64*T1 change nothing, the loop "
              "terminates. T1/T2/T4/64/32 s are regenerated from the source and proved equal to the RFC defaults. Correspondence: the "
              "extracted model and the real transactions (mock transport, paused tokio clock) run on the same timed histories.")
CLAIM_NOTE = ("Trusted: Coq kernel; translator regexes for the constants; hand-written model Model/Tsx.v validated by differential runs on a "
              "grid bracketing every timer edge; tokio paused-clock semantics; cooperative caller. Exact arrival/timer ties are not "
              "compared (theorems cover both resolutions).")
TRUSTED = [
    "Coq 8.16.1 kernel (coqc, vm_compute); no axioms",
    "tools/translate.py: T1, T2, T4, the `T1 * 64` factor and the 32 s completed-state lifetime are regenerated from sip-core/src/transaction/*.rs",
    "hand-written timed model coq/Model/Tsx.v (client part) of client.rs / client_inv.rs, validated by the correspondence run",
    "extraction (ExtrOcamlBasic only) + ocaml/util.ml + ocaml/c05_driver.ml",
    "Rust harness harness/src/tsx_client.rs: mock transport, tokio paused clock (hook H2 makes the transactions use it), cooperative caller task",
]
ASSUMPTIONS = [
    "the caller awaits receive() again immediately after each result (the cooperative caller the API documents)",
    "tokio::time::timeout polls the inner future before its timer; the paused clock advances only when every task is idle",
    "exact coincidences of an arrival with a timer are excluded from the generated grid (the theorems cover both resolutions via `tie`)",
]
RULE = ("kinds {non-INVITE, INVITE} x {unreliable, reliable} x arrival patterns (none; one response of each class at every grid "
        "instant; provisional then final; final then duplicates around T4 / 32 s; forked and retransmitted 2xx around 64*T1; "
        "provisional then silence) with instants b-1, b+1 and midpoints for every boundary b in {send instants, 64*T1, T4, 32 s}; "
        "plus seeded random arrival lists (prefix `mix`: correspondence only, outside the property's domain). "
        "non-trivial = at least one response arrives before the transaction ends or the full silent schedule is observed; "
        "distinct = distinct (kind, reliable, arrivals)")
PARTIAL = ["non-INVITE Proceeding: the code stops retransmitting after a provisional response (RFC 3261 17.1.2.2 keeps Timer E at T2); the property is silent there, the oracle does not judge it"]

T1, T2, T4, TO, C32 = 500, 4000, 5000, 32000, 32000
INV_SENDS = [0, 500, 1500, 3500, 7500, 15500, 31500]
NI_SENDS = [0, 500, 1500, 3500, 7500, 11500, 15500, 19500, 23500, 27500, 31500]


def grid():
    b = sorted(set(INV_SENDS + NI_SENDS + [TO]))
    g = set()
    for x in b:
        if x > 0:
            g.add(x - 1)
        g.add(x + 1)
    for x, y in zip(b, b[1:]):
        g.add((x + y) // 2)
    g -= set(b)
    return sorted(g)


def _detie(arrs):
    """no arrival may coincide with a timer: fixed schedule instants, 64*T1, or an earlier arrival + T4 / 32 s / 64*T1"""
    forbidden = set(INV_SENDS + NI_SENDS + [TO])
    out = []
    prev = -1
    for (t, c, tag) in arrs:
        t = max(t, prev + 1)
        while t in forbidden or any(t == p + w for (p, _, _) in out for w in (T4, C32, TO)):
            t += 1
        out.append((t, c, tag))
        prev = t
    return out


def _norm_code(c):
    """an extension status code (outside 100..699) is no 1xx and no 2xx: it ends a transaction like a failure response"""
    return c if 100 <= c <= 699 else 699


def _case(cid, kind, rel, arrs, horizon=None):
    arrs = _detie(arrs)
    last = max([a[0] for a in arrs] + [0])
    h = horizon or (max(last, TO) + 70000)
    case = [cid, "c05", kind, str(rel), ",".join("%d:%d:%s" % a for a in arrs), str(h), ""]
    te = _end_time(kind, bool(rel), [(a[0], _norm_code(a[1])) for a in arrs])
    probes = []
    if te is not None and te > 2:
        probes = [te - 1, te + 1]
    case.append(",".join(str(p) for p in probes if p < h and all(p != a[0] for a in arrs)))
    return case


def gen_cases(rng, tier):
    cases = []
    n = 0
    G = grid()
    for kind in ("ni", "inv"):
        for rel in (0, 1):
            cases.append(_case("sil-%s-%d" % (kind, rel), kind, rel, []))
            pts = G if tier == "thorough" else G[::3] + [31999, 32001]
            for t in sorted(set(pts)):
                for code in (180, 200, 486):
                    cases.append(_case("one%d" % n, kind, rel, [(t, code, "a")])); n += 1
            # extension status codes (RFC 3261 allows any three digits): no 1xx, no 2xx - they end the transaction like a failure
            for t in (200, 700, 8000):
                for code in (700, 999, 99):
                    cases.append(_case("ext%d" % n, kind, rel, [(t, code, "a")])); n += 1
            # provisional then final / silence
            for t1 in (G[::5] if tier == "quick" else G[::2]):
                cases.append(_case("prov%d" % n, kind, rel, [(t1, 183, "a")])); n += 1
                for dt, code in ((1, 200), (700, 404), (30000, 200), (40000, 603), (100000, 500)):
                    cases.append(_case("pf%d" % n, kind, rel, [(t1, 100, "-"), (t1 + dt, code, "a")])); n += 1
            # final then duplicates around the absorb windows
            for t in (1, 499, 501, 9000, 31999):
                for code in (200, 486):
                    win = T4 if kind == "ni" else (C32 if code >= 300 else TO)
                    for d in (1, win // 2, win - 1, win + 1, win + 5000):
                        tag2 = "b" if (kind == "inv" and code == 200 and d % 2 == 1) else "a"
                        cases.append(_case("dup%d" % n, kind, rel, [(t, code, "a"), (t + d, code, tag2), (t + d + 3, code, "a")])); n += 1
    # a first send that takes time (connection set-up): the schedule and the 64*T1 deadline count from its completion
    for kind in ("ni", "inv"):
        for rel in (0, 1):
            for lat in (700, 3000):
                c = _case("lat-%s-%d-%d" % (kind, rel, lat), kind, rel, [])
                c[7] = ""
                cases.append(c + ["", str(lat)])
    # a first send that returns late although its bytes are out (a flush that waits): an answer arriving meanwhile belongs to
    # this transaction like any other; everything is observed when the send has returned
    for kind in ("ni", "inv"):
        for rel in (0, 1):
            for code in (100, 180, 200, 486):
                for (t, linger) in ((10, 20), (1, 400)):
                    h = TO + 70000
                    cases.append(["lng-%s-%d-%d-%d" % (kind, rel, code, linger), "c05", kind, str(rel), "%d:%d:a" % (t, code), str(h), "", "", "", "", str(linger)])
    # random mixes (correspondence only)
    nmix = 150 if tier == "quick" else 4000
    for i in range(nmix):
        kind = rng.choice(["ni", "inv"])
        rel = rng.choice([0, 1])
        k = rng.randrange(1, 6)
        ts = sorted(rng.sample(G + [rng.randrange(1, 120000) | 1 for _ in range(8)], k))
        ts = sorted(set(t for t in ts if t not in (TO,)))
        arrs = [(t, rng.choice([100, 180, 183, 200, 200, 302, 486, 600]), rng.choice("ab")) for t in ts]
        cases.append(_case("mix%d" % i, kind, rel, arrs))
    # over a reliable transport nothing is retransmitted, so the transaction does not depend on when and how the caller waits: a caller
    # that calls receive() late, or in slices (a timeout / select! around it), sees the timeout 64*T1 after the SEND and every response
    k2 = 0
    for kind in ("inv", "ni"):
        for mode in ("late:10000", "late:31000", "repoll:5000", "repoll:700"):
            for arrs in ([], [(40000, 200, "a")], [(20000, 180, "a"), (50000, 200, "a")] if kind == "inv" else [(20000, 100, "-"), (31000, 200, "a")], [(12000, 486, "a")], [(33000, 486, "a")]):
                if mode.startswith("late") and arrs and arrs[0][0] < int(mode.split(":")[1]):
                    continue      # responses that are in before the caller looks are handed over when it does: instants differ, not judged here
                c = _case("lp%d" % k2, kind, 1, arrs); k2 += 1
                while len(c) < 13:
                    c.append("")
                c[12] = mode
                cases.append(c)
    # ... and responses that arrived IN TIME are handed over whenever the caller comes to look, also after the 64*T1 have passed: a timeout
    # is what is reported when no response has arrived (judged on the sequence of results, the instants are the caller's)
    k3 = 0
    for kind in ("ni", "inv"):
        for rel in (0, 1):
            for late, arrs in ((33000, [(1000, 200, "a")]), (33000, [(1000, 100, "-"), (31000, 200, "a")] if kind == "ni" else [(1000, 180, "a"), (31000, 200, "a")]), (40000, [(31900, 486, "a")]),
                               (33000, [(900, 100, "-")] if kind == "ni" else [(900, 183, "a")])):
                if rel == 0:
                    continue        # over an unreliable transport a caller that does not wait does not retransmit either: the cooperative caller is assumed there
                c = _case("lq%d" % k3, kind, rel, arrs); k3 += 1
                while len(c) < 13:
                    c.append("")
                c[12] = "late:%d" % late
                c[7] = ""
                cases.append(c)
    # over an unreliable transport the caller drives the retransmissions: one that starts to wait a little late (less than T1 after the
    # send) still gets every transmission of the schedule in before the 64*T1 are over (7 for INVITE, 11 for others) and the timeout then
    k4 = 0
    for kind in ("inv", "ni"):
        for late in (1, 120, 200, 380, 499):
            c = _case("ls%d" % k4, kind, 0, []); k4 += 1
            while len(c) < 13:
                c.append("")
            c[12] = "late:%d" % late
            c[7] = ""
            cases.append(c)
    # a caller that waits with receive_final(): however many provisional responses come first (a peer answers every copy of the request
    # with its 100 Trying, or sends 100 and then 183), the one final response is what it gets
    k = 0
    for rel in (0, 1):
        for arrs in ([(600, 100, "-"), (700, 100, "-"), (900, 200, "a")], [(10, 100, "-"), (20, 183, "a"), (30, 180, "a"), (5000, 404, "a")], [(100, 100, "-"), (200, 486, "a")],
                     [(300, 200, "a")], [(50, 100, "-"), (60, 100, "-"), (70, 100, "-"), (80, 100, "-")], [(40, 183, "a"), (31000, 183, "a"), (31500, 600, "a")]):
            c = _case("rf%d" % k, "ni", rel, arrs); k += 1
            while len(c) < 13:
                c.append("")
            c[12] = "rf"
            cases.append(c)
    return cases


def _shift(case, s):
    """cases whose first send takes `lat` virtual ms: the transaction's timers count from the completed first send, so
    every observed instant is taken relative to it"""
    lat = int(case[9]) if len(case) > 9 and case[9] else 0
    lat = lat or _linger(case)
    if not lat:
        return s
    head, sep, rest = s.partition("\t")
    head = re.sub(r"@(\d+)", lambda m: "@%d" % max(0, int(m.group(1)) - lat), head)
    return head + sep + rest


def _linger(case):
    return int(case[10]) if len(case) > 10 and case[10] else 0


def _rf(case):
    return len(case) > 12 and case[12] == "rf"


def model_case(case, impl):
    """an answer that arrives while the first send has not returned yet is seen when it returns: instant 0 of the transaction"""
    l = _linger(case)
    if not l:
        return case
    arrs = []
    for a in case[4].split(","):
        if a:
            p = a.split(":")
            arrs.append("%d:%s:%s" % (max(0, int(p[0]) - l), p[1], p[2]))
    return case[:4] + [",".join(arrs)] + case[5:]


def accepts(case, impl, model):
    if case[0].startswith("lq") or case[0].startswith("ls"):
        return True          # the instants are the caller's: decided by the oracle on the sequence of results
    return impl == model


def normalize_impl(case, s):
    s = _shift(case, s)
    s = re.sub(r"\s*tsx=\d+", "", s.split("\t")[0])
    s = re.sub(r"\s*N@\d+:\d+", "", s)
    return s.strip()


def _end_time(kind, rel, arrs):
    """instant at which the transaction (incl. its absorber task) releases its table entry; None = never on its own"""
    first = arrs[0][0] if arrs else None
    if first is None or first > TO:
        return TO
    if kind == "ni":
        for (t, c) in arrs:
            if t > TO:
                return TO
            if c >= 200:
                return t + (0 if rel else T4)
        return TO
    state = "calling"
    for (t, c) in arrs:
        if state == "calling" and t > TO:
            return TO
        if state in ("calling", "proceeding"):
            if c < 200:
                state = "proceeding"
            elif c < 300:
                return t + TO
            else:
                return t + (0 if rel else C32)
    return None if state == "proceeding" else TO


def normalize_model(case, s):
    if _rf(case):
        # receive_final() does not hand the provisional responses over
        s = " ".join(t for t in s.strip().split() if not re.match(r"G@\d+:P$", t))
    return s.strip()


def _parse(case):
    arrs = []
    for a in case[4].split(","):
        if a:
            p = a.split(":")
            arrs.append((max(0, int(p[0]) - _linger(case)), _norm_code(int(p[1]))))
    return case[2], case[3] == "1", arrs, int(case[5])


def oracle(case, impl):
    """RFC 3261 timers A/B/E/F/K and the property text, computed here independently of the Coq model."""
    if "PANIC" in impl:
        return ["panic: " + impl[:300]]
    if case[0].startswith("mix"):
        return []
    if case[0].startswith("lq"):
        kinds = [("P" if _norm_code(int(a.split(":")[1])) < 200 else ("S" if _norm_code(int(a.split(":")[1])) < 300 else "F")) for a in case[4].split(",") if a]
        got = re.findall(r"\b([GTE])@\d+(?::(\w))?", impl.split("\t")[0])
        seq = [g[1] if g[0] == "G" else g[0] for g in got]
        want = kinds[:]
        if case[2] == "ni" and kinds and kinds[-1] == "P":
            want = kinds + ["T"]          # only provisional responses came: Timer F is reported after them
        if seq[:len(want)] != want:
            return ["responses %s arrived before 64*T1 had passed and the caller looked at %s ms: it was handed %r, expected %r (a timeout is reported when no response has arrived)" % (
                case[4], case[12].split(":")[1], seq, want)]
        return []
    if case[0].startswith("ls"):
        late = int(case[12].split(":")[1])
        sends = [int(x) for x in re.findall(r"\bS@(\d+)", impl.split("\t")[0])]
        n = len(INV_SENDS if case[2] == "inv" else NI_SENDS)
        out = []
        if len([t for t in sends if t < TO]) != n or len(sends) != n:
            out.append("no response, caller waiting from %d ms on: %d transmissions at %r, the RFC schedule has %d before the timeout at 64*T1" % (late, len(sends), sends, n))
        if not re.search(r"\bT@%d\b" % TO, impl.split("\t")[0]):
            out.append("no response, caller waiting from %d ms on: expected the timeout 64*T1 after the first send, got %s" % (late, impl.split("\t")[0][:200]))
        return out
    impl = _shift(case, impl)
    kind, rel, arrs, horizon = _parse(case)
    toks = impl.split("\t")[0].split()
    tsx = None
    evs = []
    for t in toks:
        if t.startswith("tsx="):
            tsx = int(t[4:])
            continue
        m = re.match(r"([A-Z!]+)@(\d+)(?::(.*))?$", t)
        if not m:
            return ["unparsable observation token %r" % t]
        evs.append((m.group(1), int(m.group(2)), m.group(3)))
    counts = [(e[1], int(e[2])) for e in evs if e[0] == "N"]
    evs = [e for e in evs if e[0] != "N"]
    te = _end_time(kind, rel, arrs)
    for (t, n) in counts:
        want = 1 if (te is None or t < te) else 0
        if te is not None and t == te:
            continue
        if n != want:
            return ["transaction table holds %d entries at %d ms, expected %d (the transaction and its absorber live until %s)" % (n, t, want, te)]
    if any(e[0] == "S!" for e in evs):
        return ["a retransmission is not byte-identical to the first transmission"]
    if any(e[0] == "E" for e in evs):
        return ["unexpected error result: %s" % impl[:200]]
    sends = [e[1] for e in evs if e[0] == "S"]
    first = arrs[0][0] if arrs else None
    sched = INV_SENDS if kind == "inv" else NI_SENDS
    stop = min(first if first is not None else TO, TO)
    exp_sends = [0] if rel else [t for t in sched if t < stop or t == 0]
    if kind == "ni" and arrs and arrs[0][1] < 200:
        # provisional seen by a non-INVITE transaction: later retransmissions are not judged
        sends_chk = [t for t in sends if t < stop or t == 0]
    else:
        sends_chk = sends
    if sends_chk != exp_sends:
        return ["transmission instants %r, RFC schedule expects %r (kind=%s reliable=%s first response %r)" % (sends_chk, exp_sends, kind, rel, first)]
    # results
    exp = []
    t_end = None
    if first is None or first > TO:
        exp.append(("T", TO))
        t_end = TO
    else:
        if kind == "ni":
            for (t, c) in arrs:
                if t > TO:
                    exp.append(("T", TO)); t_end = TO
                    break
                if c < 200:
                    if not _rf(case):
                        exp.append(("G", t, "P"))
                else:
                    exp.append(("G", t, "S" if c < 300 else "F"))
                    t_end = t + (0 if rel else T4)
                    break
            else:
                exp.append(("T", TO)); t_end = TO
        else:
            state = "calling"
            acc_deadline = None
            comp_until = None
            for (t, c) in arrs:
                if state == "calling" and t > TO:
                    exp.append(("T", TO)); t_end = TO; state = "dead"
                    break
                if state in ("calling", "proceeding"):
                    if c < 200:
                        exp.append(("G", t, "P")); state = "proceeding"
                    elif c < 300:
                        exp.append(("G", t, "S")); state = "accepted"; acc_deadline = t + TO
                    else:
                        exp += [("A", t), ("G", t, "F"), ("D", t)]
                        state = "completed"; comp_until = t + (0 if rel else C32); t_end = comp_until
                elif state == "accepted":
                    if t < acc_deadline:
                        if not (200 <= c < 300):
                            return []   # outside the property's domain
                        exp.append(("G", t, "S"))
                    else:
                        break
                elif state == "completed":
                    if t < comp_until:
                        exp.append(("A", t))
            if state == "accepted":
                exp.append(("D", acc_deadline)); t_end = acc_deadline
            if state == "proceeding":
                t_end = None   # never ends on its own
    exp = [e for e in exp if e[1] <= horizon]
    got = [(e[0], e[1]) + ((e[2],) if e[0] == "G" else ()) for e in evs if e[0] not in ("S", "N")]
    if got != exp:
        return ["results %r, property expects %r" % (got, exp)]
    if tsx is not None:
        if t_end is None:
            if tsx != 1:
                return ["transaction in Proceeding must still be registered, tsx=%d" % tsx]
        elif horizon > t_end + 1 and tsx != 0:
            return ["transaction entry still present %d ms after its end (tsx=%d)" % (horizon - t_end, tsx)]
    return []


def nontrivial(case, impl):
    kind, rel, arrs, horizon = _parse(case)
    if case[0].startswith("sil") or (arrs and arrs[0][0] < TO):
        return (kind, rel, tuple(arrs))
    return None


def distribution(cases, impl):
    import collections
    h = collections.Counter()
    for c in cases:
        h["%s/%s/%d arrivals" % (c[2], "rel" if c[3] == "1" else "unrel", len([a for a in c[4].split(",") if a]))] += 1
    return dict(h)
